------------------------------ MODULE CacheStack ------------------------------
(***************************************************************************)
(* C19 - stacks of dskit cache wrappers over the in-process mock backend.  *)
(*                                                                         *)
(*   cache.LRUCache   (cache/lru.go)          kind "lru"                   *)
(*   cache.Versioned  (cache/versioned.go)    kind "ver"                   *)
(*   cache.SnappyCache(cache/compression.go)  kind "snappy"                *)
(*   cache.MockCache  (cache/mock.go)         the backend `bk`             *)
(*                                                                         *)
(* A configuration `conf` (chosen in Init, constant afterwards) fixes the   *)
(* stacking order (top layer first), the LRU capacity and the LRU default  *)
(* TTL.  When the stack contains a Versioned layer there are NViews views: *)
(* the layers above the Versioned layer exist once per view, the layers    *)
(* below it (and the backend) are shared - two versions of the code over   *)
(* one cache.                                                              *)
(*                                                                         *)
(* Every client operation is one action; its effect is computed layer by   *)
(* layer by recursive operators that mirror the Go methods (SetAt = Set /  *)
(* SetAsync, MultiAt = SetMultiAsync, AddAt = Add, GetAt =                 *)
(* GetMultiWithError, DelAt = Delete).  Go map iteration order is a        *)
(* nondeterministic choice of the specification (LRU insertions of         *)
(* SetMultiAsync and of the back-fill loop).                               *)
(*                                                                         *)
(* Time: every entry carries `left`, the number of seconds until its       *)
(* ExpiresAt (floored at 0).  All expiry tests of the code are the strict  *)
(* `ExpiresAt > now`, i.e. `left > 0` (lru.go: item.ExpiresAt.After(now);  *)
(* mock.go: now.Before(v.ExpiresAt), i.ExpiresAt.After(m.now)), so the     *)
(* floor loses nothing and the reachable state graph is finite: TLC        *)
(* decides the properties for histories of ANY length over the alphabet.   *)
(* An expired backend entry behaves like an absent one in every method of  *)
(* the mock, so it is dropped; an expired LRU entry still occupies a slot  *)
(* and stays (left = 0) until it is read, overwritten or evicted.          *)
(***************************************************************************)
EXTENDS Integers, Sequences, FiniteSets, TLC, Json

CONSTANTS StackIds,  \* which stacking orders (indices into AllStacks)
          Caps,      \* LRU capacities to explore
          DTTLs,     \* LRU default TTLs to explore
          Keys,      \* client keys (strings)
          Values,    \* client values (strings)
          TTLs,      \* TTLs of client writes
          Deltas,    \* clock advances
          NViews,    \* views when the stack has a Versioned layer
          PokeTTLs,  \* TTLs of foreign (undecodable) backend writes; {} = none
          MaxOps,    \* CONSTRAINT Bounded: at most this many operations per behaviour
          Faults,    \* TRUE = every operation may find the backend failing (environment choice per operation)
          Full,      \* TRUE = also the operation variants that the model cannot tell apart (see Next)
          DetOnly,   \* TRUE = multi-key steps whose resulting state depends on Go map order are disabled
                     \* (behaviour generation for deterministic replay; FALSE in the configs that decide C19)
          Wrong      \* "none" = the wrappers as coded.  Anything else = a deliberately WRONG model (negative
                     \* control, MC_neg.cfg): TLC has to refute a clause of C19 for each of them, which shows
                     \* that the clauses are not vacuous on this universe:
                     \*   "expiry_ge"          LRU hit test `!ExpiresAt.Before(now)` instead of `After`
                     \*   "delete_keeps_local" LRUCache.Delete forgets the local removal
                     \*   "add_always_local"   LRUCache.Add inserts locally whatever the layer below answered
                     \*   "backfill_long"      back-fill with more than the default TTL
                     \*   "no_version"         Versioned does not prefix the key
                     \*   "decode_passthrough" SnappyCache hands out bytes it could not decode

None    == "none"
Corrupt == "corrupt"     \* bytes that are not a snappy block (written by a foreign client)

AllStacks == <<
  <<>>,                          \*  1
  <<"lru">>,                     \*  2
  <<"ver">>,                     \*  3
  <<"snappy">>,                  \*  4
  <<"lru", "ver">>,              \*  5
  <<"ver", "lru">>,              \*  6
  <<"lru", "snappy">>,           \*  7
  <<"snappy", "lru">>,           \*  8
  <<"ver", "snappy">>,           \*  9
  <<"snappy", "ver">>,           \* 10
  <<"lru", "ver", "snappy">>,    \* 11
  <<"lru", "snappy", "ver">>,    \* 12
  <<"ver", "lru", "snappy">>,    \* 13
  <<"ver", "snappy", "lru">>,    \* 14
  <<"snappy", "lru", "ver">>,    \* 15
  <<"snappy", "ver", "lru">>,    \* 16
  <<"lru", "lru">>,              \* 17  (extra: retention chains through two LRU layers)
  <<"lru", "ver", "lru">> >>     \* 18  (extra: private LRU over a shared LRU)
MaxL == 3

VARIABLES conf,     \* [stack, cap, dttl]
          lru,      \* lru[<<layer, instance>>] = sequence of entries, least recently used first
          bk,       \* backend: physical key -> [val, left], unexpired entries only
          \* ghosts: what a sequential client of view w knows about its key k
          last,     \* value of the latest successful store, None initially and after Delete
          ownLeft,  \* seconds left of that store's own TTL
          retLeft,  \* seconds left of the latest default retention (back-fill into an LRU layer) of that store
          foreign,  \* -1, or seconds left of a foreign write to the backend entry since the latest store/delete
          limbo,    \* limbo[<<w,k>>][v] = -1, or seconds left of the TTL of a write of v whose backend call failed
                    \* (Set returned an error / SetAsync, SetMultiAsync lost it silently) since the latest
                    \* successful store or delete: such a value may or may not be visible
          \* observation (not part of the VIEW)
          op,       \* the operation just performed, with its reply and the backend content after it
          hist,     \* all operations so far
          pk        \* pk[<<w, k>>] = what a single-key read of k through view w would return now
                    \* (a function of lru and bk, kept in a variable so that each step computes it once)

mech   == <<lru, bk>>
ghosts == <<last, ownLeft, retLeft, foreign, limbo>>
vars   == <<conf, lru, bk, last, ownLeft, retLeft, foreign, limbo, op, hist, pk>>
View   == <<conf, lru, bk, last, ownLeft, retLeft, foreign, limbo>>

Kinds     == AllStacks[conf.stack]
NL        == Len(Kinds)
HasKind(c) == \E i \in 1..NL : Kinds[i] = c
VerPos    == IF HasKind("ver") THEN CHOOSE i \in 1..NL : Kinds[i] = "ver" ELSE 0
Views     == IF VerPos = 0 THEN {1} ELSE 1..NViews
Inst(i, w) == IF i < VerPos THEN w ELSE 0      \* layers above the Versioned layer are per view
Slots     == (1..MaxL) \X (0..NViews)
Max(a, b) == IF a > b THEN a ELSE b
Dec(x, d) == Max(0, x - d)
MaxOf(S)  == CHOOSE x \in S : \A y \in S : y <= x

(* keys are pairs <<version, client key>>, version 0 = not (yet) prefixed *)
CK(k)        == <<0, k>>
AddVer(w, x) == IF Wrong = "no_version" THEN x ELSE <<w, x[2]>>                               \* versioned.go addVersion (view w has version w)
RemVer(w, x) == IF x[1] = w THEN <<0, x[2]>> ELSE x      \* versioned.go removeVersion (strings.TrimPrefix)
(* values are [v, enc]: client value v snappy-encoded enc times *)
CV(v)    == [v |-> v, enc |-> 0]
Encode(x) == [x EXCEPT !.enc = @ + 1]
Decode(x) == [x EXCEPT !.enc = @ - 1]
Decodable(x) == x.v # Corrupt /\ x.enc > 0
Range(s)  == {s[j] : j \in 1..Len(s)}
Orders(S) == {f \in [1..Cardinality(S) -> S] : \A a, b \in 1..Cardinality(S) : a # b => f[a] # f[b]}
Restrict(f, S) == [x \in S |-> f[x]]

----------------------------------------------------------------------------
(* hashicorp/golang-lru/v2/simplelru as used by lru.go; newest entry last *)
Has(seq, key)     == \E j \in 1..Len(seq) : seq[j].key = key
EntryOf(seq, key) == seq[CHOOSE j \in 1..Len(seq) : seq[j].key = key]
LruRemove(seq, key) == SelectSeq(seq, LAMBDA e : e.key # key)                    \* Remove
LruTouch(seq, key)  == Append(LruRemove(seq, key), EntryOf(seq, key))           \* Get: MoveToFront
LruAdd(seq, key, val, left, cap) ==                                              \* Add
  LET e == [key |-> key, val |-> val, left |-> left] IN
  IF Has(seq, key) THEN Append(LruRemove(seq, key), e)
  ELSE LET s2 == Append(seq, e) IN IF Len(s2) > cap THEN Tail(s2) ELSE s2

RECURSIVE LruAddAll(_, _, _, _, _)
LruAddAll(seq, order, vals, left, cap) ==      \* insert vals[order[1]], vals[order[2]], ... in that order
  IF order = <<>> THEN seq
  ELSE LruAddAll(LruAdd(seq, Head(order), vals[Head(order)], left, cap), Tail(order), vals, left, cap)

(* first loop of LRUCache.GetMultiWithError: keys in the caller's order; hit iff ExpiresAt.After(now),
   an expired entry is removed and counts as a miss *)
RECURSIVE LruLookup(_, _, _, _)
LruLookup(seq, keys, found, miss) ==
  IF keys = <<>> THEN [seq |-> seq, found |-> found, miss |-> miss]
  ELSE LET k == Head(keys) IN
       IF ~Has(seq, k) THEN LruLookup(seq, Tail(keys), found, Append(miss, k))
       ELSE IF EntryOf(seq, k).left > 0 \/ Wrong = "expiry_ge"
            THEN LruLookup(LruTouch(seq, k), Tail(keys), found @@ (k :> EntryOf(seq, k).val), miss)
            ELSE LruLookup(LruRemove(seq, k), Tail(keys), found, Append(miss, k))

----------------------------------------------------------------------------
(* The methods, layer i = 1..NL, backend = NL+1.  st = [lru |-> ..., bk |-> ..., fail |-> ...];
   st.fail = the backend call of this operation fails (returns an error and does nothing).
   A TTL <= 0 stores an entry that is already expired: the mock then no longer finds the key (and Add may
   overwrite it), an LRU layer keeps the expired entry in a slot. *)
Pos(ttl) == Max(0, ttl)
BkPut(b, key, val, ttl) == IF ttl > 0 THEN (key :> [val |-> val, left |-> ttl]) @@ b
                           ELSE Restrict(b, DOMAIN b \ {key})

RECURSIVE SetAt(_, _, _, _, _, _)
SetAt(i, st, w, key, val, ttl) ==               \* Set / SetAsync
  IF i > NL THEN IF st.fail THEN st ELSE [st EXCEPT !.bk = BkPut(@, key, val, ttl)]    \* mock.go Set
  ELSE CASE Kinds[i] = "lru" ->    \* write through, then local insert with now+ttl (whatever the result below)
              LET below == SetAt(i + 1, st, w, key, val, ttl) IN
              [below EXCEPT !.lru[<<i, Inst(i, w)>>] = LruAdd(@, key, val, Pos(ttl), conf.cap)]
         [] Kinds[i] = "ver"    -> SetAt(i + 1, st, w, AddVer(w, key), val, ttl)
         [] Kinds[i] = "snappy" -> SetAt(i + 1, st, w, key, Encode(val), ttl)

RECURSIVE MultiAt(_, _, _, _, _)
MultiAt(i, st, w, data, ttl) ==                 \* SetMultiAsync; a set of states (map iteration order)
  IF i > NL THEN {IF st.fail THEN st
                  ELSE IF ttl > 0 THEN [st EXCEPT !.bk = [k \in DOMAIN data |-> [val |-> data[k], left |-> ttl]] @@ @]
                  ELSE [st EXCEPT !.bk = Restrict(@, DOMAIN @ \ DOMAIN data)]}
  ELSE CASE Kinds[i] = "lru" ->
              UNION {{[below EXCEPT !.lru[<<i, Inst(i, w)>>] = LruAddAll(@, order, data, Pos(ttl), conf.cap)]
                       : order \in Orders(DOMAIN data)}
                     : below \in MultiAt(i + 1, st, w, data, ttl)}
         [] Kinds[i] = "ver" ->
              MultiAt(i + 1, st, w, [x \in {AddVer(w, k) : k \in DOMAIN data} |-> data[<<0, x[2]>>]], ttl)
         [] Kinds[i] = "snappy" ->
              MultiAt(i + 1, st, w, [k \in DOMAIN data |-> Encode(data[k])], ttl)

RECURSIVE AddAt(_, _, _, _, _, _)
AddAt(i, st, w, key, val, ttl) ==               \* Add; [st, stored]
  IF i > NL THEN IF st.fail \/ key \in DOMAIN st.bk      \* mock.go: refuses while an unexpired entry exists
                 THEN [st |-> st, stored |-> FALSE]
                 ELSE [st |-> [st EXCEPT !.bk = BkPut(@, key, val, ttl)], stored |-> TRUE]
  ELSE CASE Kinds[i] = "lru" ->    \* local insert only if the layer below stored it
              LET r == AddAt(i + 1, st, w, key, val, ttl) IN
              IF r.stored \/ Wrong = "add_always_local" THEN [r EXCEPT !.st.lru[<<i, Inst(i, w)>>] = LruAdd(@, key, val, Pos(ttl), conf.cap)]
              ELSE r
         [] Kinds[i] = "ver"    -> AddAt(i + 1, st, w, AddVer(w, key), val, ttl)
         [] Kinds[i] = "snappy" -> AddAt(i + 1, st, w, key, Encode(val), ttl)

RECURSIVE DelAt(_, _, _, _)
DelAt(i, st, w, key) ==                         \* Delete
  IF i > NL THEN IF st.fail THEN st ELSE [st EXCEPT !.bk = Restrict(@, DOMAIN @ \ {key})]
  ELSE CASE Kinds[i] = "lru" ->    \* local removal, then below
              DelAt(i + 1, IF Wrong = "delete_keeps_local" THEN st
                           ELSE [st EXCEPT !.lru[<<i, Inst(i, w)>>] = LruRemove(@, key)], w, key)
         [] Kinds[i] = "ver"    -> DelAt(i + 1, st, w, AddVer(w, key))
         [] Kinds[i] = "snappy" -> DelAt(i + 1, st, w, key)

(* GetMultiWithError; a set of outcomes [st, found, err, bf]; bf = client keys back-filled into an LRU layer *)
RECURSIVE GetAt(_, _, _, _)
GetAt(i, st, w, keys) ==
  IF i > NL THEN
    LET hit == IF st.fail THEN {} ELSE Range(keys) \cap DOMAIN st.bk IN   \* mock.go: found iff now.Before(ExpiresAt)
    {[st |-> st, found |-> [k \in hit |-> st.bk[k].val], err |-> st.fail, bf |-> {}]}
  ELSE CASE Kinds[i] = "lru" ->
              LET s    == <<i, Inst(i, w)>>
                  look == LruLookup(st.lru[s], keys, <<>>, <<>>)
                  st1  == [st EXCEPT !.lru[s] = look.seq]
              IN IF look.miss = <<>>
                 THEN {[st |-> st1, found |-> look.found, err |-> FALSE, bf |-> {}]}
                 ELSE UNION {   \* back-fill everything the layer below returned with now + defaultTTL
                        {[st    |-> [o.st EXCEPT !.lru[s] = LruAddAll(@, order, o.found, conf.dttl + (IF Wrong = "backfill_long" THEN 1 ELSE 0), conf.cap)],
                          found |-> o.found @@ look.found,
                          err   |-> o.err,
                          bf    |-> o.bf \cup {k[2] : k \in {x \in DOMAIN o.found : o.found[x].v # Corrupt}}]
                         : order \in Orders(DOMAIN o.found)}
                        : o \in GetAt(i + 1, st1, w, look.miss)}
         [] Kinds[i] = "ver" ->
              {[o EXCEPT !.found = [x \in {RemVer(w, y) : y \in DOMAIN o.found} |-> o.found[AddVer(w, x)]]]
                : o \in GetAt(i + 1, st, w, [j \in 1..Len(keys) |-> AddVer(w, keys[j])])}
         [] Kinds[i] = "snappy" ->      \* undecodable entries are dropped and reported
              {LET good == {k \in DOMAIN o.found : Decodable(o.found[k]) \/ Wrong = "decode_passthrough"} IN
               [o EXCEPT !.found = [k \in good |-> Decode(o.found[k])],
                         !.err   = o.err \/ good # DOMAIN o.found]
                : o \in GetAt(i + 1, st, w, keys)}

Cur == [lru |-> lru, bk |-> bk, fail |-> FALSE]
CurF(f) == [lru |-> lru, bk |-> bk, fail |-> f]
(* what the wrapper layers alone hold (the backend unreachable) *)
LocalOnly(st) == [st EXCEPT !.bk = <<>>]

(* what GetMulti(<<k>>) through view w would return in state st (the reply does not depend on map order) *)
Peek(st, w, k) ==
  LET o == CHOOSE o \in GetAt(1, st, w, <<CK(k)>>) : TRUE
  IN IF CK(k) \in DOMAIN o.found THEN o.found[CK(k)].v ELSE None

BackendKey(w, k) == IF VerPos = 0 THEN CK(k) ELSE AddVer(w, CK(k))
EncDepth(i) == Cardinality({j \in 1..(i - 1) : Kinds[j] = "snappy"})

----------------------------------------------------------------------------
BkView(b) == {[ver |-> x[1], k |-> x[2], v |-> b[x].val.v, enc |-> b[x].val.enc, left |-> b[x].left] : x \in DOMAIN b}

NoRep == [found |-> <<>>, err |-> FALSE, stored |-> TRUE, live |-> FALSE]
Op(name, w, keys, vals, ttl, f, rep, nd, b) ==
  [name |-> name, w |-> w, keys |-> keys, vals |-> vals, ttl |-> ttl, fail |-> f, rep |-> rep, nd |-> nd, bk |-> BkView(b)]

PeekMap(st) == [x \in (1..NViews) \X Keys |-> IF x[1] \in Views THEN Peek(st, x[1], x[2]) ELSE None]

Record(o) == /\ op' = o            \* last conjunct of every action: lru' and bk' are determined
             /\ hist' = Append(hist, o)
             /\ conf' = conf
             /\ pk' = TLCEval(PeekMap([lru |-> lru', bk |-> bk', fail |-> FALSE]))   \* TLCEval: pk is outside the VIEW and would stay lazy

Stored(w, ks, vals, ttl) ==      \* ghost update of a successful store of ks[j] -> vals[j]
  /\ last'    = [x \in DOMAIN last |-> IF x[1] = w /\ \E j \in 1..Len(ks) : ks[j] = x[2]
                                        THEN vals[CHOOSE j \in 1..Len(ks) : ks[j] = x[2]] ELSE last[x]]
  /\ ownLeft' = [x \in DOMAIN ownLeft |-> IF x[1] = w /\ x[2] \in Range(ks) THEN ttl ELSE ownLeft[x]]
  /\ retLeft' = [x \in DOMAIN retLeft |-> IF x[1] = w /\ x[2] \in Range(ks) THEN 0 ELSE retLeft[x]]
  /\ foreign' = [x \in DOMAIN foreign |-> IF x[1] = w /\ x[2] \in Range(ks) THEN -1 ELSE foreign[x]]
  /\ limbo'   = [x \in DOMAIN limbo |-> IF x[1] = w /\ x[2] \in Range(ks) THEN [v \in Values |-> -1] ELSE limbo[x]]

Lost(w, ks, vals, ttl) ==        \* ghost update of a store whose backend call failed
  /\ limbo' = [x \in DOMAIN limbo |->
                 IF x[1] = w /\ x[2] \in Range(ks)
                 THEN LET v == vals[CHOOSE j \in 1..Len(ks) : ks[j] = x[2]] IN
                      [limbo[x] EXCEPT ![v] = Max(@, Pos(ttl))]
                 ELSE limbo[x]]
  /\ UNCHANGED <<last, ownLeft, retLeft, foreign>>

Live(w, k) == IF foreign[<<w, k>>] >= 0 THEN foreign[<<w, k>>] > 0
              ELSE last[<<w, k>>] # None /\ ownLeft[<<w, k>>] > 0

Set(name, w, k, v, ttl, f) ==       \* Set returns the backend's error, SetAsync has none to return
  LET st == SetAt(1, CurF(f), w, CK(k), CV(v), ttl) IN
  /\ lru' = st.lru /\ bk' = st.bk
  /\ IF f THEN Lost(w, <<k>>, <<v>>, ttl) ELSE Stored(w, <<k>>, <<v>>, Pos(ttl))
  /\ Record(Op(name, w, <<k>>, <<v>>, ttl, f, [NoRep EXCEPT !.err = f /\ name = "set"], FALSE, st.bk))

SetMulti(w, ks, vals, ttl, f) ==       \* ks: sequence of distinct keys (the map's keys), vals aligned
  LET data == [x \in {CK(ks[j]) : j \in 1..Len(ks)} |-> CV(vals[CHOOSE j \in 1..Len(ks) : ks[j] = x[2]])]
      outs == MultiAt(1, CurF(f), w, data, ttl)
  IN \E st \in outs :
       /\ DetOnly => Cardinality(outs) = 1
       /\ lru' = st.lru /\ bk' = st.bk
       /\ IF f THEN Lost(w, ks, vals, ttl) ELSE Stored(w, ks, vals, Pos(ttl))
       /\ Record(Op("setmulti", w, ks, vals, ttl, f, NoRep, Cardinality(outs) > 1, st.bk))

Add(w, k, v, ttl, f) ==
  LET r == AddAt(1, CurF(f), w, CK(k), CV(v), ttl) IN
  /\ lru' = r.st.lru /\ bk' = r.st.bk
  /\ IF r.stored THEN Stored(w, <<k>>, <<v>>, Pos(ttl)) ELSE UNCHANGED ghosts
  /\ Record(Op("add", w, <<k>>, <<v>>, ttl, f,
               [NoRep EXCEPT !.stored = r.stored, !.live = Live(w, k), !.err = f], FALSE, r.st.bk))

(* GetMultiWithError ("get") and GetMulti ("getplain": the same read; the error is logged, not returned - rep.err
   is what GetMultiWithError would have returned and is invisible to that client) *)
Get(name, w, ks, f) ==
  LET outs == GetAt(1, CurF(f), w, [j \in 1..Len(ks) |-> CK(ks[j])]) IN
  \E o \in outs :
    /\ DetOnly => Cardinality({x.st : x \in outs}) = 1
    /\ lru' = o.st.lru /\ bk' = o.st.bk
    /\ retLeft' = [x \in DOMAIN retLeft |-> IF x[1] = w /\ x[2] \in o.bf THEN Max(retLeft[x], conf.dttl) ELSE retLeft[x]]
    /\ UNCHANGED <<last, ownLeft, foreign, limbo>>
    /\ Record(Op(name, w, ks, <<>>, 0, f,
                 [NoRep EXCEPT !.found = [k \in {x[2] : x \in DOMAIN o.found} |-> o.found[CK(k)].v], !.err = o.err],
                 Cardinality({x.st : x \in outs}) > 1, o.st.bk))

Delete(w, k, f) ==     \* with a failing backend: local copies are gone, the backend keeps its entry, the error is returned
  LET st == DelAt(1, CurF(f), w, CK(k)) IN
  /\ lru' = st.lru /\ bk' = st.bk
  /\ IF f THEN UNCHANGED ghosts
     ELSE /\ last'    = [last EXCEPT ![<<w, k>>] = None]
          /\ ownLeft' = [ownLeft EXCEPT ![<<w, k>>] = 0]
          /\ retLeft' = [retLeft EXCEPT ![<<w, k>>] = 0]
          /\ foreign' = [foreign EXCEPT ![<<w, k>>] = -1]
          /\ limbo'   = [limbo EXCEPT ![<<w, k>>] = [v \in Values |-> -1]]
  /\ Record(Op("delete", w, <<k>>, <<>>, 0, f, [NoRep EXCEPT !.err = f], FALSE, st.bk))

Advance(d) ==        \* mock.Advance(d) and the wall clock of the LRU layers move together
  LET b2 == [x \in {y \in DOMAIN bk : bk[y].left > d} |-> [bk[x] EXCEPT !.left = @ - d]] IN
  /\ bk' = b2
  /\ lru' = [s \in DOMAIN lru |-> [j \in 1..Len(lru[s]) |-> [lru[s][j] EXCEPT !.left = Dec(@, d)]]]
  /\ last' = last
  /\ ownLeft' = [x \in DOMAIN ownLeft |-> Dec(ownLeft[x], d)]
  /\ retLeft' = [x \in DOMAIN retLeft |-> Dec(retLeft[x], d)]
  /\ foreign' = [x \in DOMAIN foreign |-> IF foreign[x] < 0 THEN -1 ELSE Dec(foreign[x], d)]
  /\ limbo' = [x \in DOMAIN limbo |-> [v \in Values |-> IF limbo[x][v] < 0 THEN -1 ELSE Dec(limbo[x][v], d)]]
  /\ Record(Op("advance", 0, <<>>, <<>>, d, FALSE, NoRep, FALSE, b2))

Stop(w) ==           \* Stop is handed down to the backend; no wrapper drops or changes anything it holds
  /\ UNCHANGED <<mech, ghosts>>
  /\ Record(Op("stop", w, <<>>, <<>>, 0, FALSE, NoRep, FALSE, bk))

Poke(w, k, ttl) ==   \* a foreign client stores bytes that are not a snappy block directly in the backend
  LET b2 == (BackendKey(w, k) :> [val |-> CV(Corrupt), left |-> ttl]) @@ bk IN
  /\ HasKind("snappy")
  /\ bk' = b2
  /\ foreign' = [foreign EXCEPT ![<<w, k>>] = ttl]
  /\ UNCHANGED <<lru, last, ownLeft, retLeft, limbo>>
  /\ Record(Op("poke", w, <<k>>, <<>>, ttl, FALSE, NoRep, FALSE, b2))

KeySeqs == UNION {{<<k>> : k \in Keys}, {<<a, b>> : a, b \in Keys} \ {<<k, k>> : k \in Keys}}
(* one sequence per set of >= 2 keys: the argument of SetMultiAsync is a map *)
KeySets == {CHOOSE s \in KeySeqs : Range(s) = S : S \in {Range(t) : t \in {u \in KeySeqs : Len(u) > 1}}}

(* Operations that differ for the model.  A single-key read is a Get; SetAsync and a one-key
   SetMultiAsync have, by definition above, the effect of Set, so the configurations that decide the
   properties leave them out (Full = FALSE); the generation configurations include them (Full = TRUE)
   because the code paths differ. *)
Fs == IF Faults THEN BOOLEAN ELSE {FALSE}
SetOp      == \E w \in Views, k \in Keys, v \in Values, ttl \in TTLs, f \in Fs : Set("set", w, k, v, ttl, f)
SetMultiOp == \E w \in Views, ks \in KeySets, ttl \in TTLs, f \in Fs : \E vals \in [1..Len(ks) -> Values] : SetMulti(w, ks, vals, ttl, f)
AddOp      == \E w \in Views, k \in Keys, v \in Values, ttl \in TTLs, f \in Fs : Add(w, k, v, ttl, f)
GetOp      == \E w \in Views, ks \in KeySeqs, f \in Fs : Get("get", w, ks, f)
DeleteOp   == \E w \in Views, k \in Keys, f \in Fs : Delete(w, k, f)
AdvanceOp  == \E d \in Deltas : Advance(d)
PokeOp     == \E w \in Views, k \in Keys, ttl \in PokeTTLs : Poke(w, k, ttl)
SetAsyncOp == Full /\ \E w \in Views, k \in Keys, v \in Values, ttl \in TTLs, f \in Fs : Set("setasync", w, k, v, ttl, f)
SetMulti1Op == Full /\ \E w \in Views, k \in Keys, v \in Values, ttl \in TTLs, f \in Fs : SetMulti(w, <<k>>, <<v>>, ttl, f)

GetPlainOp == Full /\ \E w \in Views, ks \in KeySeqs, f \in Fs : Get("getplain", w, ks, f)
StopOp     == Full /\ \E w \in Views : Stop(w)

Next == \/ SetOp \/ SetMultiOp \/ AddOp \/ GetOp \/ DeleteOp \/ AdvanceOp \/ PokeOp
        \/ SetAsyncOp \/ SetMulti1Op \/ GetPlainOp \/ StopOp

HasLru(s) == \E i \in 1..Len(AllStacks[s]) : AllStacks[s][i] = "lru"
Confs == {c \in [stack : StackIds, cap : Caps, dttl : DTTLs] :
            HasLru(c.stack) \/ ((\A x \in Caps : c.cap <= x) /\ (\A x \in DTTLs : c.dttl <= x))}

Init ==
  /\ conf \in Confs
  /\ lru = [s \in Slots |-> <<>>]
  /\ bk = <<>>
  /\ last    = [x \in (1..NViews) \X Keys |-> None]
  /\ ownLeft = [x \in (1..NViews) \X Keys |-> 0]
  /\ retLeft = [x \in (1..NViews) \X Keys |-> 0]
  /\ foreign = [x \in (1..NViews) \X Keys |-> -1]
  /\ limbo   = [x \in (1..NViews) \X Keys |-> [v \in Values |-> -1]]
  /\ op = Op("init", 0, <<>>, <<>>, 0, FALSE, NoRep, FALSE, <<>>)
  /\ hist = <<>>
  /\ pk = [x \in (1..NViews) \X Keys |-> None]

Spec == Init /\ [][Next]_vars

----------------------------------------------------------------------------
(* State invariants *)
TypeOK ==
  /\ conf \in Confs
  /\ \A s \in Slots : /\ Len(lru[s]) <= conf.cap
                      /\ \A a, b \in 1..Len(lru[s]) : a # b => lru[s][a].key # lru[s][b].key
                      /\ \A a \in 1..Len(lru[s]) : lru[s][a].left >= 0
                      /\ \A a \in 1..Len(lru[s]) : lru[s][a].left <= MaxOf(TTLs \cup {conf.dttl})
  /\ \A x \in DOMAIN bk : bk[x].left > 0
  /\ \A x \in DOMAIN last : last[x] \in Values \cup {None}

(* every stored copy is encoded exactly as many times as there are Snappy layers above it, or is foreign *)
EncodingConsistent ==
  /\ \A x \in DOMAIN bk : bk[x].val.v = Corrupt \/ bk[x].val.enc = EncDepth(NL + 1)
  /\ \A s \in Slots : \A j \in 1..Len(lru[s]) :
        lru[s][j].val.v = Corrupt \/ lru[s][j].val.enc = EncDepth(s[1] + 1) - (IF Kinds[s[1]] = "snappy" THEN 1 ELSE 0)

(* a private (per-view) LRU instance only ever holds keys of its own view; shared ones hold versioned keys *)
KeysWellPlaced ==
  \A s \in Slots : \A j \in 1..Len(lru[s]) :
     IF VerPos # 0 /\ s[1] > VerPos THEN lru[s][j].key[1] \in Views ELSE lru[s][j].key[1] = 0

(* State form of the read clauses: what any single-key read would return now *)
PkIsPeek == pk = PeekMap(Cur)
LimboOf(x, v) == IF v \in Values THEN limbo[x][v] ELSE -1
MayBe(x, v) == v = last[x] \/ LimboOf(x, v) >= 0     \* v is the stored value, or a write of v is in limbo
InTime(x, v) == ownLeft[x] > 0 \/ retLeft[x] > 0 \/ LimboOf(x, v) > 0
PeekNeverWrong ==
  \A x \in DOMAIN pk : pk[x] # None => MayBe(x, pk[x])
PeekNeverAfterDeadline ==
  \A x \in DOMAIN pk : pk[x] # None => InTime(x, pk[x])
(* staleness is bounded: a copy outlives its own TTL by less than the default retention *)
PeekBoundedStaleness ==
  \A x \in DOMAIN retLeft : retLeft[x] > 0 /\ ownLeft[x] = 0 => retLeft[x] < conf.dttl * Cardinality({i \in 1..NL : Kinds[i] = "lru"})

----------------------------------------------------------------------------
(* The property's clauses as action properties over (ghosts before the step, reply of the step). *)
IsGet == op'.name \in {"get", "getplain"}
WriteOps == {"set", "setasync", "setmulti", "add", "delete", "poke"}
Returned == DOMAIN op'.rep.found

(* Without backend failures limbo is empty and the clauses read: a returned value is the latest one stored;
   nothing is returned after a Delete; nothing is returned after the later of own TTL and default retention.
   A write whose backend call failed (Set returned the error; SetAsync / SetMultiAsync lose it) is in limbo:
   the LRU layers above hold the new value, the backend the old one - either may be read until the next
   successful store or delete of that key. *)
NeverWrong ==          \* a returned value is the latest one stored under that (view, key) [or one in limbo]
  [][IsGet => \A k \in Returned : MayBe(<<op'.w, k>>, op'.rep.found[k])]_vars
NeverAfterDelete ==    \* nothing is returned for a key that was deleted (or never stored) [unless written since]
  [][IsGet => \A k \in Returned : last[<<op'.w, k>>] # None \/ LimboOf(<<op'.w, k>>, op'.rep.found[k]) >= 0]_vars
NeverAfterDeadline ==  \* nothing is returned after the later of the own TTL and the default retention
  [][IsGet => \A k \in Returned : InTime(<<op'.w, k>>, op'.rep.found[k])]_vars
NeverCorrupt ==        \* undecodable bytes never reach the client; errors only come from them or from the backend
  [][IsGet => /\ \A k \in Returned : op'.rep.found[k] \in Values
              /\ Returned \subseteq Range(op'.keys)
              /\ op'.rep.err => op'.fail \/ \E x \in DOMAIN foreign : foreign[x] >= 0]_vars
ReadIsPeek ==          \* a multi-key read returns, per key, what the single-key read would have
  [][IsGet /\ ~op'.fail => \A k \in Range(op'.keys) :
        pk[<<op'.w, k>>] = IF k \in Returned THEN op'.rep.found[k] ELSE None]_vars

(* Backend failures (Faults = TRUE) *)
FailedReadIsLocal ==   \* GetMultiWithError returns exactly the local hits, and the error iff the backend was needed
  [][IsGet /\ op'.fail =>
       /\ \A k \in Range(op'.keys) :
             Peek(LocalOnly(Cur), op'.w, k) = IF k \in Returned THEN op'.rep.found[k] ELSE None
       /\ bk' = bk
       /\ (\A k \in Range(op'.keys) : k \in Returned) => ~op'.rep.err
       /\ ~HasKind("snappy") => (op'.rep.err <=> \E k \in Range(op'.keys) : k \notin Returned)]_vars
FailedWriteKeepsBackend ==   \* a failed Set / Add / Delete / async write returns the error and leaves the backend alone
  [][op'.name \in WriteOps /\ op'.fail =>
       /\ bk' = bk
       /\ op'.name \in {"set", "add", "delete"} => op'.rep.err
       /\ op'.name = "add" => ~op'.rep.stored /\ UNCHANGED <<mech, ghosts>>
       /\ op'.name = "delete" => Peek(LocalOnly([lru |-> lru', bk |-> bk', fail |-> FALSE]), op'.w, op'.keys[1]) = None]_vars
NoErrorWithoutFault ==
  [][op'.name \in {"set", "add", "delete"} /\ ~op'.fail => ~op'.rep.err]_vars
(* NOT a property of the code (see MC_faults_finding.cfg): a Set that returned an error is invisible to readers.
   LRUCache.Set inserts the value locally whatever the layer below answered. *)
FailedSetInvisible ==
  [][op'.name = "set" /\ op'.fail => pk'[<<op'.w, op'.keys[1]>>] = pk[<<op'.w, op'.keys[1]>>]]_vars

NoAlias ==             \* a write under (w,k) can at most make another (w2,k2) disappear (eviction)
  [][op'.name \in WriteOps =>
       \A w2 \in Views, k2 \in Keys :
          (w2 # op'.w \/ k2 \notin Range(op'.keys)) =>
             \/ pk'[<<w2, k2>>] \in {pk[<<w2, k2>>], None}
             \/ /\ \E v \in Values : limbo[<<w2, k2>>][v] >= 0     \* a write in limbo: an eviction may swap
                /\ MayBe(<<w2, k2>>, pk'[<<w2, k2>>])]_vars           \* the local value for the backend's

AddSemantics ==
  [][op'.name = "add" =>
       LET w == op'.w  k == op'.keys[1] IN
       /\ ~op'.fail => op'.rep.stored = ~Live(w, k)        \* refused exactly while the entry is live for the client
       /\ op'.rep.live = Live(w, k)
       /\ ~op'.rep.stored => UNCHANGED <<mech, ghosts>>
       /\ op'.rep.stored /\ op'.ttl > 0 => pk'[<<w, k>>] = op'.vals[1]]_vars

StopIsInert ==         \* Stop never changes what a client reads
  [][op'.name = "stop" => pk' = pk /\ UNCHANGED mech]_vars

ReadYourWrites ==      \* (not part of C19; guards against a vacuous specification)
  [][op'.name \in {"set", "setasync", "setmulti"} /\ ~op'.fail /\ op'.ttl > 0 =>
       \A j \in 1..Len(op'.keys) : pk'[<<op'.w, op'.keys[j]>>] = op'.vals[j]]_vars

DeleteRemoves ==
  [][op'.name = "delete" /\ ~op'.fail => pk'[<<op'.w, op'.keys[1]>>] = None]_vars

----------------------------------------------------------------------------
(* SYMMETRY of the deciding configurations (Keys and Values are sets of model values there): nothing in
   the specification distinguishes one key or one value from another. *)
Sym == Permutations(Keys) \cup Permutations(Values)

(* Behaviour generation (DESIGN.md 1.5): hist is outside the VIEW. *)

(* what a client finds when, after the behaviour, it reads every key of every view, one single-key
   GetMulti after the other in a fixed order (each read may back-fill / evict and so affect the next) *)
RECURSIVE SweepFrom(_, _)
SweepFrom(st, todo) ==
  IF todo = <<>> THEN <<>>
  ELSE LET w == Head(todo)[1]
           k == Head(todo)[2]
           o == CHOOSE o \in GetAt(1, st, w, <<CK(k)>>) : TRUE
       IN <<[w |-> w, k |-> k, v |-> IF CK(k) \in DOMAIN o.found THEN o.found[CK(k)].v ELSE None, err |-> o.err]>>
          \o SweepFrom(o.st, Tail(todo))
KeyOrder  == CHOOSE s \in [1..Cardinality(Keys) -> Keys] : \A i, j \in 1..Cardinality(Keys) : i < j => s[i] # s[j]
SweepList == [n \in 1..(Cardinality(Views) * Cardinality(Keys)) |->
                <<((n - 1) \div Cardinality(Keys)) + 1, KeyOrder[((n - 1) % Cardinality(Keys)) + 1]>>]

Behaviour(h, st) == [stack |-> Kinds, cap |-> conf.cap, dttl |-> conf.dttl, steps |-> h, sweep |-> SweepFrom(st, SweepList)]

Bounded   == Len(hist) <= MaxOps                                           \* CONSTRAINT
(* ACTION_CONSTRAINT of the exhaustive generation config: one behaviour per transition of the graph
   (shortest path to the source state + the transition), each followed by the sweep of the target *)
EmitStep  == PrintT(ToJson(Behaviour(hist', [lru |-> lru', bk |-> bk', fail |-> FALSE])))
=============================================================================
