CONSTANT Chunk = 40
INIT Init
NEXT Next
CHECK_DEADLOCK FALSE
