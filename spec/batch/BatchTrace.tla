----------------------------- MODULE BatchTrace -----------------------------
(***************************************************************************)
(* C10, code -> spec.  harness/c10 TestRace releases groups of callbacks   *)
(* of the real DoBatchWithOptions simultaneously, so that real goroutines  *)
(* race inside batchTracker.record, and logs only what a caller can see:   *)
(*   cancel                the caller's context ended                      *)
(*   rel cs os             the callbacks of the calls cs returned os       *)
(*   begin cs / beginc     (runs with a deferring o.Go, Spawn = "deferred")*)
(*                         the driver started the spawned function of call *)
(*                         cs[1] / the cleanup waiter                      *)
(*   obs returned kind c cleaned   at the following quiescent point        *)
(* One trace per line of trace.ndjson.  A trace is accepted iff the        *)
(* atomic-grain specification Batch has a behaviour whose environment      *)
(* steps are the logged ones and whose quiescent states show the logged    *)
(* observations: TLC infers the interleaving of the unlogged atomic steps  *)
(* (Step, MainRecv.., Cleanup) by exploring all of them.  Every trace is   *)
(* its own initial state; reaching the end prints {"accepted": id}.        *)
(***************************************************************************)
EXTENDS Batch

VARIABLES tr,   \* index of the trace
          ti    \* index of the next event of that trace

Traces == ndJsonDeserialize("trace.ndjson")

SetOf(q) == {q[j] : j \in 1..Len(q)}
CfgOf(t) == [nk |-> t.cfg.nk,
             reps |-> [k \in 1..t.cfg.nk |-> SetOf(t.cfg.reps[k])],
             maxErr |-> [k \in 1..t.cfg.nk |-> t.cfg.maxErr[k]],
             getErrAt |-> t.cfg.getErrAt, noInst |-> t.cfg.noInst]

Ev == Traces[tr].ev
More == ti <= Len(Ev)
Cur == Ev[ti]

TInit == \E t \in 1..Len(Traces) :
            /\ tr = t /\ ti = 1
            /\ Traces[t].ni <= NI
            /\ InitWith(CfgOf(Traces[t]))

(* the callbacks of a whole group return "at the same time": their goroutines enter record before any of them moves on *)
ReleaseGroup ==
    /\ More /\ Cur.e = "rel"
    /\ \A j \in 1..Len(Cur.cs) : s.pc[Cur.cs[j]] = "cb"
    /\ s' = [s EXCEPT !.out = [i \in Inst |-> IF \E j \in 1..Len(Cur.cs) : Cur.cs[j] = i
                                              THEN Cur.os[CHOOSE j \in 1..Len(Cur.cs) : Cur.cs[j] = i] ELSE s.out[i]],
                      !.pc  = [i \in Inst |-> IF \E j \in 1..Len(Cur.cs) : Cur.cs[j] = i THEN "item" ELSE s.pc[i]],
                      !.idx = [i \in Inst |-> IF \E j \in 1..Len(Cur.cs) : Cur.cs[j] = i THEN 1 ELSE s.idx[i]]]
    /\ ti' = ti + 1
    /\ UNCHANGED <<cfg, main, gi, ctx, items, cleanG, cleaned, nret, ret, spawns, pend, hist, tr>>

TCancel ==
    /\ More /\ Cur.e = "cancel"
    /\ IF main = "returned" \/ ctx THEN UNCHANGED vars ELSE Cancel     \* nobody reads the context any more
    /\ ti' = ti + 1 /\ UNCHANGED tr

(* a deferring spawner starts one of the functions it was handed (the driver learns which one from the callback) *)
TBegin ==
    /\ More /\ Cur.e = "begin"
    /\ Begin(Cur.cs[1])
    /\ ti' = ti + 1 /\ UNCHANGED tr
TBeginCleanup ==
    /\ More /\ Cur.e = "beginc"
    /\ BeginCleanup
    /\ ti' = ti + 1 /\ UNCHANGED tr

(* the driver looked after synctest.Wait(): nothing of the code can move, and this is what it saw *)
TObserve ==
    /\ More /\ Cur.e = "obs"
    /\ Quiescent
    /\ Cur.returned = (main = "returned")
    /\ Cur.kind = ret.kind
    /\ Cur.c = ret.c
    /\ Cur.cleaned = cleaned
    /\ ti' = ti + 1
    /\ UNCHANGED <<vars, tr>>

(* unlogged: the goroutines of the code, only while the driver waits for quiescence *)
TInternal ==
    /\ More /\ Cur.e = "obs"
    /\ Internal
    /\ UNCHANGED <<tr, ti>>

TDone == ~More /\ UNCHANGED <<vars, tr, ti>>

TNext == ReleaseGroup \/ TCancel \/ TBegin \/ TBeginCleanup \/ TObserve \/ TInternal \/ TDone
TSpec == TInit /\ [][TNext]_<<vars, tr, ti>>

(* progress report: how far a trace got (the check takes the maximum per trace), and acceptance *)
Report == /\ (ti > 1 /\ Ev[ti - 1].e = "obs" /\ More) => PrintT(ToJson([id |-> Traces[tr].id, reached |-> ti - 1]))
          /\ ~More => PrintT(ToJson([id |-> Traces[tr].id, accepted |-> Len(Ev)]))
=============================================================================
