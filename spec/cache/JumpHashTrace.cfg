INIT Init
NEXT Next
INVARIANTS Accepted Done
CHECK_DEADLOCK FALSE
