CONSTANTS
  NP = 2
  NL = 2
  NO = 2
  MaxClock = 1000
  AgeCap = 3
  Multi = FALSE
  LCfg <- Cfg2t
  TokOf <- Tok2
  Homes <- HomesAll2
  WaitModes = {2}
  LockParts = {1}
  ReqStates = {"P", "A", "I"}
INIT Init
NEXT Next
VIEW ageview
INVARIANTS TypeOK RoutingTotal
PROPERTIES LegalEdges LockRespected PromotionTiming DeletionGuard LockOnlyByEditor RefusedIsNoWrite
CHECK_DEADLOCK FALSE
