------------------------------ MODULE KVCasTrace ------------------------------
(***************************************************************************)
(* Code -> specification direction of C07.  Every line of trace.ndjson is  *)
(* one run of N callers x M CAS calls on one key of one real store:        *)
(*   [be, ev, final]   ev[c] = what caller c observed, in its own order,   *)
(*                     as KVCas steps: [a, rf, e, in] = f's decision (a,   *)
(*                     rf), what happened next to the caller (e = "fin":   *)
(*                     f entered again, "ok"/"fail": the call returned)    *)
(*                     and the value f was handed on entry (in)            *)
(*   final             what Get returned after all callers finished        *)
(*   wt[w]             (optional) what watcher w observed: [a |-> "watch",  *)
(*                     in |-> what Get returned when it was registered],   *)
(*                     then [a |-> "deliver", in |-> value it was called   *)
(*                     with] in its own order                              *)
(* Nothing orders the events of different callers (no wall clock).  The    *)
(* order is reconstructed: a step that reads the cell (begin, or a retry's *)
(* re-read) is an enabled KVCas step only while the cell holds exactly the *)
(* logged `in`, and values never repeat, so the logged values force the    *)
(* interleaving.  The schedule is: every enabled step that does not write  *)
(* first (lowest caller first; such steps commute with each other and can  *)
(* only be lost by waiting), then one successful put.  Each step taken is  *)
(* KVCas's own action for that caller, bound to the logged outcome through *)
(* the step record the action appends to hist.  A line is accepted iff all *)
(* its events are consumed and the cell equals the logged final value;     *)
(* the run is accepted iff the last line is (diameter, POSTCONDITION).     *)
(*                                                                         *)
(* Which put: memberlist's blind first writes (a call that read "absent"   *)
(* merges its output whenever it arrives) are not placed by the value they *)
(* read.  They are placed by the values others read: values only grow, so  *)
(* the logged values of a correct run form a chain, and a write may happen *)
(* now iff its result is contained in the next logged value above the      *)
(* current one.  Writes that fit the same gap were observed by nobody in   *)
(* between and commute, except that a write computed from the current      *)
(* value goes first.  The search is therefore a single path.               *)
(***************************************************************************)
EXTENDS KVCas

Trace == ndJsonDeserialize("trace.ndjson")

VARIABLES l,     \* line being validated
          pos,   \* pos[c] = number of consumed steps of caller c
          wpos   \* wpos[w] = number of consumed events of watcher w

AsVal(s)    == {<<s[i][1], s[i][2], s[i][3]>> : i \in 1..Len(s)}
NCl(t)      == Len(t.ev)
HasNext(c)  == c <= NCl(Trace[l]) /\ pos[c] < Len(Trace[l].ev[c])
Ev(c)       == Trace[l].ev[c][pos[c] + 1]
IsWrite(c)  == Ev(c).a = "put" /\ Ev(c).e = "ok"
WLog(t)     == IF "wt" \in DOMAIN t THEN t.wt ELSE <<>>
HasNextW(w) == w <= Len(WLog(Trace[l])) /\ wpos[w] < Len(WLog(Trace[l])[w])
WEv(w)      == WLog(Trace[l])[w][wpos[w] + 1]

StartOf(t) == /\ Backend = t.be /\ Secondary = "none" /\ Limit = t.limit
              /\ cell = [val |-> Nil, ver |-> 0] /\ ctr = 1
              /\ cl = [c \in Clients |-> IdleRec(0)]
              /\ applied = <<>>
              /\ res = [c \in Clients |-> [k \in 1..OpsPer |-> ""]]
              /\ mirror = Nil
              /\ wt = [w \in Watchers |-> [on |-> FALSE, from |-> 0, last |-> 0]]
              /\ hist = <<[a |-> "setup", be |-> t.be, sec |-> "none", limit |-> t.limit]>>

TraceInit == l = 1 /\ pos = [c \in Clients |-> 0] /\ wpos = [w \in Watchers |-> 0] /\ StartOf(Trace[1])

(* IsEvent /\ bind logged fields /\ SpecAction(args) *)
SpecStep(c) ==
    LET e == Ev(c) IN
    /\ CASE e.a = "begin"   -> Begin(c)
         [] e.a = "put"     -> Put(c, e.rf)
         [] e.a = "decline" -> Decline(c)
         [] e.a = "err"     -> Err(c, e.rf)
         [] e.a = "bad"     -> Bad(c, e.rf)
    /\ LET h == hist'[Len(hist')] IN h.a = e.a /\ h.c = c /\ h.e = e.e /\ h.in = AsVal(e.in)
    /\ pos' = [pos EXCEPT ![c] = @ + 1]
    /\ l' = l /\ wpos' = wpos

(* a watcher's next event: its registration (while the cell holds what Get returned then) or a *)
(* call with a value the store has held since its last call                                    *)
WStep(w) ==
    LET e == WEv(w) IN
    /\ CASE e.a = "watch"   -> Watch(w)
         [] e.a = "deliver" -> \E i \in 1..Len(applied) : Deliver(w, i)
    /\ LET h == hist'[Len(hist')] IN h.a = e.a /\ h.c = w /\ h.in = AsVal(e.in)
    /\ wpos' = [wpos EXCEPT ![w] = @ + 1]
    /\ l' = l /\ pos' = pos

Lowest(S) == CHOOSE c \in S : \A d \in S : c <= d

Quiet == {c \in Clients : HasNext(c) /\ ~IsWrite(c) /\ ENABLED SpecStep(c)}
QuietW == {w \in Watchers : HasNextW(w) /\ ENABLED WStep(w)}

(* the logged values of each line (a constant: TLC evaluates it once), and those of the current *)
(* line strictly above the current value                                                       *)
ObsOf(t) == UNION {{AsVal(t.ev[c][i].in) : i \in 1..Len(t.ev[c])} : c \in 1..Len(t.ev)}
               \cup UNION {{AsVal(WLog(t)[w][i].in) : i \in 1..Len(WLog(t)[w])} : w \in 1..Len(WLog(t))}
               \cup {AsVal(t.final)}
Obs      == [i \in 1..Len(Trace) |-> ObsOf(Trace[i])]
Above    == {v \in Obs[l] : cell.val \subseteq v /\ v # cell.val}

LineDone == (\A c \in Clients : ~HasNext(c)) /\ (\A w \in Watchers : ~HasNextW(w))

NextLine ==
    /\ LineDone /\ cell.val = AsVal(Trace[l].final)
    /\ CaughtUp     \* after quiescence every watcher has been called with the latest value
    /\ PrintT(<<"line-accepted", l>>)
    /\ l' = l + 1 /\ pos' = [c \in Clients |-> 0] /\ wpos' = [w \in Watchers |-> 0]
    /\ IF l < Len(Trace)
       THEN /\ Backend' = Trace[l + 1].be /\ Secondary' = "none" /\ Limit' = Trace[l + 1].limit
            /\ cell' = [val |-> Nil, ver |-> 0] /\ ctr' = 1
            /\ cl' = [c \in Clients |-> IdleRec(0)]
            /\ applied' = <<>>
            /\ res' = [c \in Clients |-> [k \in 1..OpsPer |-> ""]]
            /\ mirror' = Nil
            /\ wt' = [w \in Watchers |-> [on |-> FALSE, from |-> 0, last |-> 0]]
            /\ hist' = <<[a |-> "setup", be |-> Trace[l + 1].be, sec |-> "none", limit |-> Trace[l + 1].limit]>>
       ELSE UNCHANGED vars

(* One successful put: its result must fit under the lowest logged value above the current one; *)
(* among those that do, one computed from the current value goes first, then the lowest caller.  *)
Writers == LET ab     == Above
               lowest == {t \in ab : \A u \in ab : Cardinality(t) <= Cardinality(u)}
           IN {c \in Clients : /\ HasNext(c) /\ IsWrite(c) /\ cl[c].pc = "inf" /\ CanWrite(c)
                               /\ \E t \in lowest : Written(AppendTag(cl[c].sval, c, cl[c].op)) \subseteq t}
StrictW == {c \in Writers : ~Blind(c)}

TraceNext ==
    /\ l <= Len(Trace)
    /\ \/ Quiet # {} /\ SpecStep(Lowest(Quiet))
       \/ Quiet = {} /\ QuietW # {} /\ WStep(Lowest(QuietW))
       \/ Quiet = {} /\ QuietW = {} /\ ~LineDone /\ Writers # {} /\ SpecStep(Lowest(IF StrictW # {} THEN StrictW ELSE Writers))
       \/ NextLine

RECURSIVE SumLen(_, _)
SumLen(s, i) == IF i > Len(s) THEN 0 ELSE Len(s[i]) + SumLen(s, i + 1)
RECURSIVE Steps(_)
Steps(i) == IF i > Len(Trace) THEN 0 ELSE 1 + SumLen(Trace[i].ev, 1) + SumLen(WLog(Trace[i]), 1) + Steps(i + 1)

(* the path TLC found consumed every event of every line *)
AllAccepted == TLCGet("stats").diameter = Steps(1) + 1
=============================================================================
