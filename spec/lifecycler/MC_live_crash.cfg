SPECIFICATION FairSpec
VIEW view

CONSTANTS
  N = 2
  Pos = {p0, p1, p2, p3, p4}
  NumTokens = 2
  HbTimeout = 2
  MaxClock = 4
  Cfg0 <- Cfg0Live
  Cfgs <- AllCfgs
  Bud0 <- BudLiveC
  OwnEntryCheck = TRUE
INVARIANTS TypeOK HeartbeatFresh
PROPERTIES Recovers ReRegisters RecoversNoCollision
