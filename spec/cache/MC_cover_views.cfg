\* thorough tier generation: transition cover up to depth MaxOps of two-view stacks (private LRU, shared
\* LRU, shared LRU under/over Snappy).
CONSTANTS
  StackIds = {5, 6, 13, 16}
  Caps = {1}
  DTTLs = {2}
  Keys = {"k1", "k2"}
  Values = {"a", "b"}
  TTLs = {1, 2}
  Deltas = {1}
  NViews = 2
  PokeTTLs = {}
  MaxOps = 2
  Faults = FALSE
  Full = TRUE
  DetOnly = TRUE
  Wrong = "none"
INIT Init
NEXT Next
VIEW View
CONSTRAINT Bounded
ACTION_CONSTRAINT EmitStep
INVARIANTS TypeOK
CHECK_DEADLOCK FALSE
