--------------------------- MODULE QuorumReadTrace ---------------------------
(***************************************************************************)
(* code -> spec: every line of trace.ndjson is one execution of the real   *)
(* DoUntilQuorum... recorded by harness/c11 TestRecord:                    *)
(*   {id, cfg, steps: [obs, env, obs, env, ..., obs(end)]}                 *)
(* env steps are the environment actions of QuorumRead (finish / adv /    *)
(* cancel), an obs is what was observable once every goroutine was blocked *)
(* (synctest.Wait): calls of f per instance, the call's return value,      *)
(* cleanup invocations per result, cause class of each invoked context.    *)
(* A trace is accepted iff the specification has a behaviour that takes    *)
(* the env steps in order, runs its internal actions (unobserved) to       *)
(* quiescence in between and agrees with every obs.  The held-back set of  *)
(* request minimisation (rand.Perm) is the existential choice of InitCfg,  *)
(* bound by the observed calls.  Each trace is an independent initial      *)
(* state; accepted ids are printed and compared with the recorded ids.     *)
(***************************************************************************)
EXTENDS QuorumRead, Json

VARIABLES tr, l

Traces == ndJsonDeserialize("trace.ndjson")

T == Traces[tr]

CfgOf(j) == [n |-> j.n, zone |-> j.zone, nz |-> j.nz, mode |-> j.mode, tol |-> j.tol,
             minimize |-> j.minimize, hedge |-> j.hedge, pred |-> j.pred, nocancel |-> j.nocancel]

\* a supplied ZoneSorter fixes the release order of the held-back zones
SorterOK(j, p) ==
  (j.mode = "zone" /\ j.minimize /\ Len(j.zorder) > 0) =>
     p = SubSeq(j.zorder, Max2(j.nz - j.tol, 0) + 1, j.nz)

TInit == /\ tr \in 1..Len(Traces)
         /\ l = 1
         /\ \E p \in HeldChoices(CfgOf(Traces[tr].cfg)) :
               /\ SorterOK(Traces[tr].cfg, p)
               /\ InitCfgP(CfgOf(Traces[tr].cfg), p)

RECURSIVE AscSeq(_)
AscSeq(S) == IF S = {} THEN <<>>
              ELSE LET m == CHOOSE x \in S : \A y \in S : x <= y IN <<m>> \o AscSeq(S \ {m})

ObsMatch(e) ==
  /\ \A i \in Inst : /\ calls[i] = e.calls[i]
                     /\ cleaned[i] = e.cleaned[i]
                     /\ e.ctx[i] = (IF calls[i] > 0 THEN CtxView(i) ELSE "-")
  /\ e.bad = 0
  /\ e.ret.kind = ret.kind /\ e.ret.cls = ret.cls /\ e.ret.inst = ret.inst
  /\ e.ret.set = AscSeq(ret.set)          \* results come in instance order
  /\ e.end => Terminated

(* Partial-order reduction of the unobserved steps.  Only the existence of an accepting path matters:  *)
(*  - Begin(j) changes st[j] and calls[j] only, nothing else reads them before the next observation, and *)
(*    it stays enabled until taken: in any accepting path it can be postponed until every lower-numbered *)
(*    goroutine has left "released" (by Begin or Abort) - so Begins are explored in index order only;    *)
(*  - once the call has returned, the order in which aborting goroutines post to resultsChan is          *)
(*    irrelevant (the drain goroutine only counts them): Aborts are explored in index order there.       *)
(* Begin versus Abort of the SAME goroutine (the select race) and everything the main loop reads stay    *)
(* unreduced.                                                                                            *)
IntNextR ==
  \/ \E i \in Inst : Begin(i) /\ \A k \in 1..(i-1) : st[k] # "released"
  \/ \E i \in Inst : Abort(i) /\ (mainPc = "returned" => \A k \in 1..(i-1) : ~AbortEnabled(k))
  \/ MainNext
  \/ Drain

TNext ==
  /\ l <= Len(T.steps)
  /\ tr' = tr
  /\ LET e == T.steps[l]
     IN \/ /\ e.a = "obs" /\ Quiet /\ ObsMatch(e)
           /\ l' = l + 1 /\ UNCHANGED vars
        \/ /\ e.a = "obs" /\ IntNextR /\ l' = l
        \/ /\ e.a = "finish" /\ Finish(e.i, e.o) /\ l' = l + 1
        \/ /\ e.a = "adv" /\ Advance /\ l' = l + 1
        \/ /\ e.a = "cancel" /\ ParentCancel /\ l' = l + 1

Accepted == l = Len(T.steps) + 1
EmitAccepted == Accepted => PrintT(ToJson([acc |-> T.id]))
\* diagnostic run on a rejected trace: how far does the specification get, and what does it
\* demand in the quiescent states it reaches there
ModelObs == [calls |-> calls,
             ret |-> [kind |-> ret.kind, set |-> AscSeq(ret.set), cls |-> ret.cls, inst |-> ret.inst],
             cleaned |-> cleaned,
             ctx |-> [i \in Inst |-> IF calls[i] > 0 THEN CtxView(i) ELSE "-"],
             terminated |-> Terminated]
EmitProgress == PrintT(ToJson([id |-> T.id, line |-> l, quiet |-> Quiet, obs |-> ModelObs]))
=============================================================================
