package c08

import (
	"errors"
	"fmt"
	"math/rand"
	"os"
	"path/filepath"
	"testing"
	"testing/synctest"

	"github.com/grafana/dskit/ring"

	"verifharness/internal/abs"
)

// traceSink collects the traces of one run, one ndjson file per NumTokens (a constant of the
// trace specification).
type traceSink struct {
	dir     string
	writers map[int]*abs.NDJSONWriter
	res     *abs.Result
	traces  map[int]int
	events  int
	writes  int
}

func newSink(res *abs.Result) (*traceSink, error) {
	dir := os.Getenv("VERIF_TRACE_DIR")
	if dir == "" {
		return nil, errors.New("VERIF_TRACE_DIR not set")
	}
	return &traceSink{dir: dir, writers: map[int]*abs.NDJSONWriter{}, res: res, traces: map[int]int{}}, nil
}

func (s *traceSink) add(w *world, label string) error {
	wr := s.writers[w.numTokens]
	if wr == nil {
		var err error
		wr, err = abs.NewNDJSONWriter(filepath.Join(s.dir, fmt.Sprintf("trace_nt%d.ndjson", w.numTokens)))
		if err != nil {
			return err
		}
		s.writers[w.numTokens] = wr
	}
	w.events[0]["label"] = label
	commits, writers := 0, map[any]bool{}
	for _, e := range w.events {
		if err := wr.Write(e); err != nil {
			return err
		}
		if e["k"] == "cas" && e["ok"] == true {
			commits++
			writers[e["i"]] = true
		}
	}
	s.traces[w.numTokens]++
	s.events += len(w.events)
	s.writes += commits
	s.res.Cases++
	if commits >= 5 {
		s.res.Nontrivial++
	}
	if s.res.Cases%40 == 1 {
		s.res.Sample(map[string]any{"label": label, "events": len(w.events), "committed_writes": commits, "writers": len(writers)})
	}
	return nil
}

func (s *traceSink) close() {
	for _, w := range s.writers {
		_ = w.Close()
	}
	s.res.AddExtra("traces_by_numtokens", s.traces)
	s.res.AddExtra("events", s.events)
	s.res.AddExtra("committed_writes", s.writes)
}

var curWorld *world

func installFailpoint() {
	ring.VerifFailpoint = func(string) error {
		if w := curWorld; w != nil && w.blockFile {
			return errDead
		}
		return nil
	}
}

// oneTrace runs body inside a fresh bubble with a fresh world.
func oneTrace(t *testing.T, numTokens int, body func(w *world)) (w *world) {
	dir, err := os.MkdirTemp("", "verif-lc-")
	if err != nil {
		t.Fatal(err)
	}
	synctest.Test(t, func(t *testing.T) {
		w = newWorld(maxN, numTokens, 3, dir)
		curWorld = w
		defer func() {
			if p := recover(); p != nil {
				w.fatal = fmt.Sprintf("panic: %v", p)
				w.finish("end")
			}
			curWorld = nil
		}()
		body(w)
	})
	return w
}

// TestRecordC08: free-running seeded schedules over 1..5 lifecyclers of both kinds.
func TestRecordC08(t *testing.T) {
	res := &abs.Result{}
	defer res.Write(t)
	sink, err := newSink(res)
	if err != nil {
		t.Skip(err)
	}
	defer sink.close()
	installFailpoint()
	seed := abs.Seed()
	n := abs.EnvInt("VERIF_TRACES", 120)
	// systematic part: every schedule of VERIF_SYSLEN driver actions on one lifecycler next to a bystander
	sysLen := abs.EnvInt("VERIF_SYSLEN", 3)
	alphabet := []string{"next", "pending", "ready", "sleep", "ro", "restart"}
	total := 1
	for k := 0; k < sysLen; k++ {
		total *= len(alphabet)
	}
	for code := 0; code < total && res.Fatal == ""; code++ {
		kind := []string{"classic", "classic", "basic"}[code%3]
		c := lcCfg{Kind: kind, Join: 2, Obs: 1, Hb: 1, Unreg: code%2 == 0, File: code%4 < 2, Health: code%5 == 0, Regst: "JOINING", Keep: code%2 != 0}
		if kind == "basic" {
			c.Join, c.Obs, c.Health = 0, code%2, false
		}
		label := fmt.Sprintf("c08/sys/%d", code)
		w := oneTrace(t, 2, func(w *world) {
			_ = w.start(2, bystander(), seed+7, 0, "")
			if err := w.start(1, c, seed+int64(code), 0, ""); err != nil {
				w.fatal = err.Error()
			}
			x := code
			for k := 0; k < sysLen && w.fatal == ""; k++ {
				a := alphabet[x%len(alphabet)]
				x /= len(alphabet)
				label += " " + a
				switch {
				case a == "sleep":
					w.sleep(1)
				case a == "restart":
					if w.alive(1) && !w.stopping(1) {
						w.stop(1)
					}
					if w.idle(1) {
						if err := w.start(1, c, seed+int64(code)+int64(k)+1, 0, ""); err != nil {
							w.fatal = err.Error()
						}
					}
				case !w.running(1):
				case a == "next":
					cur := w.publishedOr(1, "PENDING")
					if w.inc[1].classic != nil {
						cur = w.inc[1].classic.GetState().String()
					}
					w.request(1, "cs", nextOf(cur))
				case a == "pending":
					if w.inc[1].classic != nil { // mostly a disallowed edge: must be refused
						w.request(1, "cs", "PENDING")
					}
				case a == "ready":
					if w.inc[1].classic != nil {
						w.checkReady(1)
					}
				case a == "ro":
					ro := false
					if w.inc[1].classic != nil {
						ro, _ = w.inc[1].classic.GetReadOnlyState()
					} else {
						ro, _ = w.inc[1].basic.GetReadOnlyState()
					}
					w.request(1, "ro", fmt.Sprint(!ro))
				}
			}
			if w.alive(1) && w.inc[1].classic != nil {
				w.checkReady(1)
			}
			w.sleep(2)
			if w.alive(1) && w.inc[1].classic != nil {
				w.checkReady(1)
			}
			w.finish("end")
		})
		if w.fatal != "" {
			res.Fatal = label + ": " + w.fatal
			break
		}
		if err := sink.add(w, label); err != nil {
			res.Fatal = err.Error()
		}
	}
	res.AddExtra("systematic_schedules", total)
	for k := 0; k < n && res.Fatal == ""; k++ {
		r := rand.New(rand.NewSource(seed*1000003 + int64(k)))
		nt := 2
		if k%7 == 3 && os.Getenv("VERIF_NT_FIXED") == "" {
			nt = 1 + 2*r.Intn(2) // 1 or 3 (one more TLC run each: thorough tier)
		}
		o := schedOpts{n: 1 + k%5, steps: 10 + r.Intn(25), faults: k%3 == 2, disallow: k%2 == 0,
			kinds: []string{"classic", "basic", "both", "both"}[k%4]}
		label := fmt.Sprintf("c08/seed%d/%d n=%d %s", seed, k, o.n, o.kinds)
		w := oneTrace(t, nt, func(w *world) {
			if err := randomSchedule(w, r, o); err != nil {
				w.fatal = err.Error()
			}
			w.finish("end")
		})
		if w.fatal != "" {
			res.Fatal = label + ": " + w.fatal
			break
		}
		if err := sink.add(w, label); err != nil {
			res.Fatal = err.Error()
		}
	}
}

// TestRecordC09: every write of every scenario is a crash point (before / after the commit), then
// restart with the same identity; plus seeded store-fault schedules.  Every trace ends with the
// recovery obligation "settled".
func TestRecordC09(t *testing.T) {
	res := &abs.Result{}
	defer res.Write(t)
	sink, err := newSink(res)
	if err != nil {
		t.Skip(err)
	}
	defer sink.close()
	installFailpoint()
	seed := abs.Seed()
	points, unreached := 0, 0
	for _, sc := range scenarios() {
		var writes []int
		w := oneTrace(t, 2, func(w *world) {
			writes, _ = runScenario(w, sc, crashPlan{}, seed)
			w.finish("settled")
		})
		if w.fatal != "" {
			res.Fatal = sc.name + " dry: " + w.fatal
			return
		}
		if err := sink.add(w, "c09/"+sc.name+"/dry"); err != nil {
			res.Fatal = err.Error()
			return
		}
		for inc, k := range writes {
			for j := 1; j <= k; j++ {
				for _, side := range []string{"before", "after"} {
					plan := crashPlan{inc: inc + 1, at: j, side: side}
					crashed := false
					w := oneTrace(t, 2, func(w *world) {
						_, crashed = runScenario(w, sc, plan, seed)
						w.finish("settled")
					})
					label := "c09/" + sc.name + "/" + plan.String()
					if w.fatal != "" {
						res.Fatal = label + ": " + w.fatal
						return
					}
					if crashed {
						points++
					} else {
						// the number of writes depends on which of two simultaneously due timers the
						// code's select picks; the run is still a valid trace
						unreached++
					}
					if err := sink.add(w, label); err != nil {
						res.Fatal = err.Error()
						return
					}
				}
			}
		}
	}
	res.AddExtra("crash_points", points)
	// reject windows: for every scenario, every CAS call of the target is the start of a window of failing
	// calls (a dry run counts the calls), followed by recovery time and the obligation "settled"
	wsc, lens := map[string]bool{"join-observe": true, "leave-unregister": true, "claim": true, "basic-observe": true}, []int{1, 3}
	if os.Getenv("VERIF_WINDOWS") == "full" {
		wsc, lens = nil, []int{1, 2, 3}
	}
	windows := 0
	for _, sc := range scenarios() {
		if wsc != nil && !wsc[sc.name] {
			continue
		}
		var calls []int
		w := oneTrace(t, 2, func(w *world) {
			calls, _ = runScenario(w, sc, crashPlan{rejLen: -1}, seed)
			w.finish("settled")
		})
		if w.fatal != "" {
			res.Fatal = sc.name + " window dry: " + w.fatal
			return
		}
		for inc, k := range calls {
			for a := 1; a <= k; a++ {
				for _, l := range lens {
					plan := crashPlan{inc: inc + 1, rejFrom: a, rejLen: l}
					w := oneTrace(t, 2, func(w *world) {
						runScenario(w, sc, plan, seed)
						w.finish("settled")
					})
					label := "c09/" + sc.name + "/" + plan.String()
					if w.fatal != "" {
						res.Fatal = label + ": " + w.fatal
						return
					}
					windows++
					if err := sink.add(w, label); err != nil {
						res.Fatal = err.Error()
						return
					}
				}
			}
		}
	}
	res.AddExtra("reject_windows", windows)
	res.AddExtra("crash_points_unreached", unreached)
	// wipe during LEAVING: the stopping lifecycler's heartbeat re-registers it as LEAVING with its tokens
	for _, unreg := range []bool{false, true} {
		c := lcCfg{Kind: "classic", Join: 0, Obs: 0, Hb: 1, Unreg: unreg, File: true, Fsleep: 3, Regst: "ACTIVE", Keep: !unreg}
		label := fmt.Sprintf("c09/wipe-during-leaving unreg=%v", unreg)
		w := oneTrace(t, 2, func(w *world) {
			if err := w.start(1, c, seed, 0, ""); err != nil {
				w.fatal = err.Error()
				return
			}
			_ = w.start(2, bystander(), seed+1, 0, "")
			w.sleep(2)
			w.stop(1)
			w.sleep(1)
			w.wipe()
			w.sleep(4)
			w.finish("settled")
		})
		if w.fatal != "" {
			res.Fatal = label + ": " + w.fatal
			return
		}
		if err := sink.add(w, label); err != nil {
			res.Fatal = err.Error()
			return
		}
	}
	// store faults: reject windows and wipes at seeded places of free-running schedules
	n := abs.EnvInt("VERIF_FAULT_TRACES", 40)
	for k := 0; k < n && res.Fatal == ""; k++ {
		r := rand.New(rand.NewSource(seed*7000003 + int64(k)))
		o := schedOpts{n: 1 + k%3, steps: 8 + r.Intn(14), faults: true, kinds: []string{"classic", "both", "basic"}[k%3]}
		label := fmt.Sprintf("c09/faults/seed%d/%d n=%d %s", seed, k, o.n, o.kinds)
		w := oneTrace(t, 2, func(w *world) {
			if err := faultSchedule(w, r, o); err != nil {
				w.fatal = err.Error()
			}
			w.finish("settled")
		})
		if w.fatal != "" {
			res.Fatal = label + ": " + w.fatal
			break
		}
		if err := sink.add(w, label); err != nil {
			res.Fatal = err.Error()
		}
	}
}

// faultSchedule: start everybody, inject wipes / reject windows while they join, run and leave,
// then close every window and let the survivors settle.
func faultSchedule(w *world, r *rand.Rand, o schedOpts) error {
	cfgs := make([]lcCfg, o.n+1)
	for i := 1; i <= o.n; i++ {
		kind := "classic"
		if o.kinds == "basic" || (o.kinds == "both" && i%2 == 0) {
			kind = "basic"
		}
		c := randCfg(r, kind)
		c.Regst = "ACTIVE" // (a final sleep > 0 keeps the instance LEAVING for a while: wipes during LEAVING)
		if c.Hb == 0 {
			c.Hb = 1
		}
		cfgs[i] = c
		if err := w.start(i, c, r.Int63(), 0, ""); err != nil {
			return err
		}
	}
	for s := 0; s < o.steps && w.fatal == ""; s++ {
		i := 1 + r.Intn(o.n)
		switch x := r.Intn(100); {
		case x < 40:
			w.sleep(1 + r.Intn(2))
		case x < 60:
			w.wipe()
		case x < 85:
			if w.alive(i) {
				w.setKV(i, w.inc[i].rec.reject)
			}
		case x < 93:
			if w.alive(i) && !w.stopping(i) {
				w.stop(i)
			}
		default:
			if !w.alive(i) && w.idle(i) {
				if err := w.start(i, cfgs[i], r.Int63(), 0, ""); err != nil {
					return err
				}
			}
		}
	}
	for i := 1; i <= o.n; i++ {
		if w.alive(i) && w.inc[i].rec.reject {
			w.setKV(i, true)
		}
	}
	w.sleep(12)
	return nil
}
