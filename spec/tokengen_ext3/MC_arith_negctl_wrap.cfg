CONSTANTS
  HiCard = 2
  LoCard = 4
  MaxZ = 1
  R = 1
  MaxInst = 0
  NZ = 1
  MaxReq = 0
  MaxPureTaken = 0
  NForeign = 0
  CJ = FALSE
  PCT = 3
  NOwn = 3
INIT SInit
NEXT SNext
INVARIANTS NC_NoWrap
CHECK_DEADLOCK FALSE
