------------------------------- MODULE TokenGen -------------------------------
(***************************************************************************)
(* C16 - the TokenGenerator contract of grafana/dskit (token_generator.go, *)
(* spread_minimizing_token_generator.go in package ring), the reserves of  *)
(* the spread-minimising generator as a function of (instance index, zone  *)
(* index), the partition ring built from them (partition_ring_model.go,    *)
(* AddPartition) and a cluster that grows by calling GenerateTokens with   *)
(* "all tokens currently in the ring" as the taken set.                    *)
(*                                                                         *)
(* A token is a pair of limbs <<hi, lo>> (value hi*LoCard + lo); the order *)
(* is lexicographic.  In the real system HiCard = LoCard = 2^16, MaxZ = 8, *)
(* R = 512; no 32-bit number ever occurs.  Because MaxZ divides LoCard the *)
(* residue of a token modulo MaxZ is lo % MaxZ.  The exhaustive configs    *)
(* use a space of 8..12 tokens with the same structure.                    *)
(*                                                                         *)
(* The module is used twice:                                               *)
(*  - MC_*.cfg: Init chooses every family of reserves that satisfies the   *)
(*    construction guarantees, Next runs every call / join / loss /        *)
(*    partition step; TLC decides the per-call clauses (action properties  *)
(*    Step_...) and the system invariants.                                 *)
(*  - TokenGenTrace.tla: the same actions, with arguments AND results      *)
(*    bound to what the real code did; the same clauses are invariants on  *)
(*    the observation variable `last`.                                     *)
(***************************************************************************)
EXTENDS Integers, Sequences, FiniteSets, TLC

CONSTANTS HiCard, LoCard,   \* limb cardinalities
          MaxZ,             \* maximum zone count (8)
          R,                \* tokens reserved per (instance, zone) (512)
          MaxInst,          \* model: instance indexes 0..MaxInst
          NZ,               \* model: zone indexes 0..NZ-1
          MaxReq,           \* model: requested counts -1..MaxReq
          MaxPureTaken,     \* model: pure calls are explored for every taken set of at most this many tokens
          NForeign,         \* model: number of members that use the random generator
          CJ,               \* model: do the cluster's spread-minimising members run the CanJoin check
          PCT               \* "within one percent": PCT * (largest share - smallest share) <= largest share, PCT = 100

ASSUME /\ HiCard \in Nat \ {0} /\ LoCard \in Nat \ {0} /\ MaxZ \in Nat \ {0} /\ R \in Nat \ {0}
       /\ LoCard % MaxZ = 0
       /\ NZ <= MaxZ
       /\ PCT \in Nat \ {0}

SX == INSTANCE SequencesExt      \* FoldLeft (evaluated iteratively by TLC)

VARIABLES reserve,  \* <<inst, zone>> -> reserve of that generator (sorted sequence of R tokens), as far as known
          ring,     \* member -> [gen, toks]: the token ring of the cluster
          pool,     \* all tokens in the ring (= AllTokens(ring), kept incrementally: it is the taken set of a join)
          parts,    \* partition id -> token sequence stored by AddPartition
          shrunk,   \* some member has lost tokens or left since the ring was empty
          last      \* observation of the latest step (history variable, not in the VIEW)

vars == <<reserve, ring, pool, parts, shrunk, last>>
view == <<reserve, ring, pool, parts, shrunk>>

-----------------------------------------------------------------------------
(* Tokens *)
Tok       == (0..(HiCard-1)) \X (0..(LoCard-1))
IsTok(t)  == /\ t[1] \in 0..(HiCard-1) /\ t[2] \in 0..(LoCard-1)
Lt(a, b)  == a[1] < b[1] \/ (a[1] = b[1] /\ a[2] < b[2])
Cong(t)   == t[2] % MaxZ                     \* token value modulo MaxZ
Range(s)  == {s[k] : k \in DOMAIN s}
Sorted(s) == \A k \in 1..(Len(s)-1) : Lt(s[k], s[k+1])      \* strictly: sorted and duplicate-free
Min(a, b) == IF a < b THEN a ELSE b
Want(req) == IF req > 0 THEN req ELSE 0
(* n <= HiCard*LoCard, without computing the product (2^32 in the real system) *)
SpaceHasAtLeast(n) == n <= 0 \/ ((n-1) \div LoCard) < HiCard

(* Generators.  A spread-minimising generator is determined by (inst, zone) - that is the claim. *)
RandomGen         == [kind |-> "random", inst |-> -1, zone |-> -1, cj |-> FALSE]
SpreadGen(i,z,cj) == [kind |-> "spread", inst |-> i, zone |-> z, cj |-> cj]
Key(g)            == <<g.inst, g.zone>>
NoMember          == <<-2, 0>>
None              == [ev |-> "none"]

AllTokens(rg) == UNION {rg[m].toks : m \in DOMAIN rg}

(* The first n members of the sorted sequence res that are not in taken, in order. *)
FirstFree(res, n, taken) ==
  LET free == SelectSeq(res, LAMBDA t : t \notin taken)
  IN  SubSeq(free, 1, Min(n, Len(free)))

-----------------------------------------------------------------------------
(* Clauses of the TokenGenerator contract, over one observed call                 *)
(*   c = [ev |-> "call", gen, req, taken (set), out (sequence), panic, member].   *)
IsCall(c)   == c.ev = "call"
IsSpread(c) == c.gen.kind = "spread" /\ Key(c.gen) \in DOMAIN reserve
Res(c)      == reserve[Key(c.gen)]

C_NoPanic(c)      == IsCall(c) => ~c.panic
C_InSpace(c)      == IsCall(c) => \A t \in Range(c.out) : IsTok(t)
C_NoTaken(c)      == IsCall(c) => Range(c.out) \cap c.taken = {}
C_SortedUnique(c) == IsCall(c) => Sorted(c.out)
C_AtMost(c)       == IsCall(c) => Len(c.out) <= Want(c.req)
(* random generator: the whole space is its reserve *)
C_RandomCount(c)  == (IsCall(c) /\ c.gen.kind = "random" /\ ~c.panic
                      /\ SpaceHasAtLeast(Cardinality(c.taken) + Want(c.req)))
                     => Len(c.out) = Want(c.req)
(* spread-minimising generator: the first free tokens of its own reserve *)
C_SpreadFromReserve(c) == (IsCall(c) /\ IsSpread(c)) => Range(c.out) \subseteq Range(Res(c))
C_SpreadCount(c)       == (IsCall(c) /\ IsSpread(c) /\ ~c.panic)
                          => Len(c.out) = Min(Want(c.req), Cardinality(Range(Res(c)) \ c.taken))
C_SpreadLowestFirst(c) == (IsCall(c) /\ IsSpread(c))
                          => \A t \in Range(Res(c)) \ (c.taken \cup Range(c.out)) :
                               \A u \in Range(c.out) : Lt(u, t)
C_SpreadExact(c)       == (IsCall(c) /\ IsSpread(c) /\ ~c.panic)
                          => c.out = FirstFree(Res(c), Want(c.req), c.taken)
C_ZoneCongruentOut(c)  == (IsCall(c) /\ c.gen.kind = "spread")
                          => \A t \in Range(c.out) : Cong(t) = c.gen.zone

(* CanJoin / CanJoinEnabled:  c = [ev |-> "canjoin", gen, prevPresent, prevHasTokens, enabled, ok] *)
CanJoinSpec(g, prevPresent, prevHasTokens) ==
  \/ g.kind = "random" \/ ~g.cj \/ g.inst = 0
  \/ (prevPresent /\ prevHasTokens)
C_CanJoin(c)        == c.ev = "canjoin" => c.ok = CanJoinSpec(c.gen, c.prevPresent, c.prevHasTokens)
C_CanJoinEnabled(c) == c.ev = "canjoin" => c.enabled = (c.gen.kind = "spread" /\ c.gen.cj)

(* Observation of a whole reserve: c = [ev |-> "observe", via, inst, zone, toks (sequence)].      *)
(* via = "direct" (GenerateTokens(R, {})) or "bylarger" (what the computation of a generator with *)
(* a larger index attributes to inst, sorted).                                                    *)
IsObs(c) == c.ev = "observe"
C_ObsShape(c)     == IsObs(c) => /\ Len(c.toks) = R /\ Sorted(c.toks)
                                 /\ \A t \in Range(c.toks) : IsTok(t) /\ Cong(t) = c.zone
C_Reproducible(c) == IsObs(c) => c.toks = reserve[<<c.inst, c.zone>>]
(* incremental form of ReservesDisjoint: the reserve just observed against every other reserve of *)
(* its zone (reserves of different zones are disjoint by C_ObsShape's congruence, see            *)
(* ZonesDisjointByCongruence)                                                                     *)
C_DisjointStep(c) == IsObs(c) => \A k \in DOMAIN reserve :
                                    (k[2] = c.zone /\ k[1] # c.inst)
                                    => Range(reserve[k]) \cap Range(c.toks) = {}

(* Observation of the reserves of ALL instances 0..n of a zone as the generator of index n       *)
(* computes them: c = [ev |-> "family", zone, fam], fam[j] = reserve attributed to instance j-1. *)
IsFam(c) == c.ev = "family"
C_FamilyShape(c) == IsFam(c) => \A j \in DOMAIN c.fam :
                                   /\ Len(c.fam[j]) = R /\ Sorted(c.fam[j])
                                   /\ \A t \in Range(c.fam[j]) : IsTok(t) /\ Cong(t) = c.zone
C_FamilyReproducible(c) == IsFam(c) => \A j \in DOMAIN c.fam : c.fam[j] = reserve[<<j-1, c.zone>>]
C_FamilyDisjoint(c) ==
  IsFam(c) => LET U == {c.fam[p[1]][p[2]] : p \in (DOMAIN c.fam) \X (1..R)} IN   \* (not UNION: TLC's is quadratic)
              /\ Cardinality(U) = Len(c.fam) * R
              /\ \A k \in DOMAIN reserve : (k[2] = c.zone /\ k[1] >= Len(c.fam))
                                            => Range(reserve[k]) \cap U = {}

(* The ring of ALL instances 0..n of one zone as one sequence sorted by token:                    *)
(*   c = [ev |-> "donors", zone, from, ring],  ring[p] = <<hi, lo, instance index>>.              *)
(* The generator builds the tokens of instance i by cutting them out of the ranges of instances   *)
(* 0..i-1, always from the instance that currently owns most.  The DONOR of a token t of instance *)
(* i is therefore the owner of the first token clockwise after t that belongs to an instance with *)
(* a smaller index (only order comparisons).  Because every instance stays in the generator's     *)
(* priority queue (an instance that is popped and cannot host a token is pushed back) and each    *)
(* has to hand over 1/(i(i+1)) of the key space to instance i, no instance is ever starved as a   *)
(* donor: every instance below `from` is the donor of some token of the instances from..n.  This  *)
(* is the relational shadow of the numeric "equal shares" clause; an instance that drops out of   *)
(* the queue keeps its share for ever and violates it.  Checked on recorded rings only (the       *)
(* abstract model's reserves are arbitrary): windows of 50 (n <= 300) and 100 (n = 2000)          *)
(* instances, for which the pinned code has >= 16 donations per instance.                         *)
IsDon(c) == c.ev = "donors"
RTok(e)  == <<e[1], e[2]>>
ROwn(e)  == e[3]
C_RingIsFamily(c) ==
  IsDon(c) => LET n1   == Len(c.ring) \div R
                  \* (Cardinality normalises the set once, so that the membership tests below are binary searches)
                  sets == [k \in 0..(n1-1) |-> LET S == Range(reserve[<<k, c.zone>>]) IN IF Cardinality(S) = R THEN S ELSE {}]
              IN  /\ Len(c.ring) = n1 * R /\ c.from \in 1..(n1-1)
                  /\ \A p \in 1..(Len(c.ring)-1) : Lt(RTok(c.ring[p]), RTok(c.ring[p+1]))
                  /\ \A p \in DOMAIN c.ring : /\ ROwn(c.ring[p]) \in 0..(n1-1)
                                               /\ RTok(c.ring[p]) \in sets[ROwn(c.ring[p])]
RECURSIVE NextLower(_, _, _, _)
NextLower(rg, q, o, left) ==
  IF left = 0 THEN -1
  ELSE IF ROwn(rg[q]) < o THEN ROwn(rg[q])
  ELSE NextLower(rg, (q % Len(rg)) + 1, o, left - 1)
Donor(rg, p) == NextLower(rg, (p % Len(rg)) + 1, ROwn(rg[p]), Len(rg))
C_NoDonorStarved(c) ==
  IsDon(c) => LET donors == {Donor(c.ring, p) : p \in {q \in DOMAIN c.ring : ROwn(c.ring[q]) >= c.from}}
              IN  \A k \in 0..(c.from - 1) : k \in donors

(* THE NUMERIC CLAUSE: "for every number of instances the share of the key space owned by each    *)
(* instance of a zone stays within one percent of the others'".                                   *)
(* Quantities of key space are limb pairs <<h, l>> = h*LoCard + l with 0 <= l < LoCard (h is not  *)
(* bounded: the whole space is <<HiCard, 0>>); every intermediate value stays far below 2^31:     *)
(* l-sums are normalised after every addition, h-sums are at most HiCard, PCT*l < 100*2^16.       *)
LNorm(h, l) == <<h + (l \div LoCard), l % LoCard>>                      \* l >= 0
LAdd(a, b)  == LNorm(a[1] + b[1], a[2] + b[2])
LSub(a, b)  == IF a[2] >= b[2] THEN <<a[1] - b[1], a[2] - b[2]>>        \* a >= b, both normalised
               ELSE <<a[1] - b[1] - 1, a[2] + LoCard - b[2]>>
LLe(a, b)   == a[1] < b[1] \/ (a[1] = b[1] /\ a[2] <= b[2])
LMul(k, a)  == LNorm(k * a[1], k * a[2])
Whole       == <<HiCard, 0>>
(* the keys owned through token b when the previous token of the ring is a: (b - a) mod HiCard*LoCard, *)
(* the whole space when the ring has this one token only                                               *)
CwDist(a, b) == IF a = b THEN Whole
                ELSE LET d == LSub(<<b[1] + HiCard, b[2]>>, a) IN <<d[1] % HiCard, d[2]>>
(* rg = the tokens of instances 0..n of ONE zone as a sequence sorted by token, rg[p] = <<hi, lo, instance>>. *)
(* Shares(rg, m)[k] = key space owned by instance k in the ring that holds instances 0..m only (the ring an   *)
(* actually growing cluster goes through): the sum, over k's tokens, of the distance from the previous token  *)
(* of that ring.                                                                                              *)
Shares(rg, m) ==
  LET sub == SelectSeq(rg, LAMBDA e : e[3] <= m)
      L   == Len(sub)
      step(acc, p) == LET e == sub[p]
                          q == IF p = 1 THEN L ELSE p - 1
                      IN  [acc EXCEPT ![e[3]] = LAdd(@, CwDist(<<sub[q][1], sub[q][2]>>, <<e[1], e[2]>>))]
  IN  SX!FoldLeft(step, [k \in 0..m |-> <<0, 0>>], [p \in 1..L |-> p])
LMax(S) == CHOOSE a \in S : \A b \in S : LLe(b, a)
LMin(S) == CHOOSE a \in S : \A b \in S : LLe(a, b)
LSum(own) == SX!FoldLeft(LAMBDA acc, k : LAdd(acc, own[k]), <<0, 0>>, [j \in 1..Cardinality(DOMAIN own) |-> j - 1])
WithinPct(own) == LET S == {own[k] : k \in DOMAIN own}
                  IN  LLe(LMul(PCT, LSub(LMax(S), LMin(S))), LMax(S))
(* c = [ev |-> "donors", ..., ring, prefixes]: for every listed m the shares of instances 0..m tile the key   *)
(* space and lie within one percent of each other                                                             *)
C_SharesTile(c) ==
  IsDon(c) => \A j \in DOMAIN c.prefixes :
                 LET m == c.prefixes[j] IN
                 /\ m \in 0..((Len(c.ring) \div R) - 1)
                 /\ LSum(Shares(c.ring, m)) = Whole
C_SharesWithinOnePercent(c) ==
  IsDon(c) => \A j \in DOMAIN c.prefixes : WithinPct(Shares(c.ring, c.prefixes[j]))

(* Constructors: c = [ev |-> "gen", ctor, nz, zin, idok, ok].  By name: the zone list must have  *)
(* 1..MaxZ entries, contain the zone, and the instance name must end in -<digits>.               *)
ConstructSpec(ctor, nz, zin, idok) == ctor # "name" \/ (nz \in 1..MaxZ /\ zin /\ idok)
C_Constructor(c) == c.ev = "gen" => c.ok = ConstructSpec(c.ctor, c.nz, c.zin, c.idok)

(* AddPartition: c = [ev |-> "partition", id, panic] *)
C_PartitionNoPanic(c) == c.ev = "partition" => ~c.panic

-----------------------------------------------------------------------------
(* History invariants over everything observed so far *)
ReserveShape == \A k \in DOMAIN reserve :
                  /\ Len(reserve[k]) = R /\ Sorted(reserve[k])
                  /\ \A t \in Range(reserve[k]) : IsTok(t)
ZoneCongruent == \A k \in DOMAIN reserve : \A t \in Range(reserve[k]) : Cong(t) = k[2]
ReservesDisjoint == \A k1, k2 \in DOMAIN reserve :
                      k1 # k2 => Range(reserve[k1]) \cap Range(reserve[k2]) = {}
(* tokens of different zones never coincide: already a consequence of the congruence *)
ZonesDisjointByCongruence ==
  ZoneCongruent => \A k1, k2 \in DOMAIN reserve :
                      (k1[2] # k2[2] /\ k1[2] \in 0..(MaxZ-1) /\ k2[2] \in 0..(MaxZ-1))
                      => Range(reserve[k1]) \cap Range(reserve[k2]) = {}

(* Partition ring: AddPartition(p) stores the reserve of generator (p, zone 0) *)
PartitionTokens == \A p \in DOMAIN parts :
                     /\ Len(parts[p]) = R /\ Sorted(parts[p])
                     /\ \A t \in Range(parts[p]) : Cong(t) = 0
                     /\ <<p, 0>> \in DOMAIN reserve => parts[p] = reserve[<<p, 0>>]
PartitionsDisjoint == \A p, q \in DOMAIN parts :
                        p # q => Range(parts[p]) \cap Range(parts[q]) = {}

(* The cluster *)
PoolIsUnion == pool = AllTokens(ring)
AllDistinct == \A m1, m2 \in DOMAIN ring : m1 # m2 => ring[m1].toks \cap ring[m2].toks = {}
SpreadOwnReserve == \A m \in DOMAIN ring :
                      (ring[m].gen.kind = "spread" /\ Key(ring[m].gen) \in DOMAIN reserve)
                      => ring[m].toks \subseteq Range(reserve[Key(ring[m].gen)])
RingZoneCongruent == \A m \in DOMAIN ring : ring[m].gen.kind = "spread"
                      => \A t \in ring[m].toks : Cong(t) = ring[m].gen.zone
(* every member uses a spread-minimising generator, no two members the same (index, zone) *)
PureSpread(rg) == /\ \A m \in DOMAIN rg : rg[m].gen.kind = "spread"
                  /\ \A m1, m2 \in DOMAIN rg : m1 # m2 => Key(rg[m1].gen) # Key(rg[m2].gen)
(* in a cluster of such members nobody is ever short of tokens: a member that asks for what it   *)
(* lacks up to R gets it, whatever the others hold                                               *)
S_NeverShort(rg, c) ==
  (/\ IsCall(c) /\ c.member # NoMember /\ IsSpread(c) /\ ~c.panic      \* (a member's call: taken = pool)
   /\ PureSpread(rg)
   /\ \A m \in DOMAIN rg : m # c.member => Key(rg[m].gen) # Key(c.gen)
   /\ c.member \in DOMAIN rg => rg[c.member].gen = c.gen)
  => LET mine == IF c.member \in DOMAIN rg THEN rg[c.member].toks ELSE {}
     IN  Len(c.out) = Min(Want(c.req), R - Cardinality(mine))
(* with the CanJoin check on and nobody shrinking, the members with tokens form a prefix per zone *)
PrefixWhenGrowing ==
  ~shrunk => \A m \in DOMAIN ring :
     (ring[m].gen.kind = "spread" /\ ring[m].gen.cj /\ ring[m].gen.inst > 0 /\ ring[m].toks # {})
     => \E p \in DOMAIN ring : /\ ring[p].gen.kind = "spread"
                               /\ ring[p].gen.zone = ring[m].gen.zone
                               /\ ring[p].gen.inst = ring[m].gen.inst - 1
                               /\ ring[p].toks # {}

-----------------------------------------------------------------------------
(* Actions.  The *Obs forms record arguments and result; the guarded forms are the contract. *)

(* GenerateTokens(req, taken) was called on generator g and returned out (or panicked);     *)
(* m is the ring member that adds the result to its tokens, or NoMember.                    *)
CallObs(g, m, req, taken, out, pan) ==
  /\ last' = [ev |-> "call", gen |-> g, req |-> req, taken |-> taken, out |-> out,
              panic |-> pan, member |-> m]
  /\ ring' = IF m = NoMember THEN ring
             ELSE LET old == IF m \in DOMAIN ring THEN ring[m].toks ELSE {}
                  IN  [x \in DOMAIN ring \cup {m} |->
                         IF x = m THEN [gen |-> g, toks |-> old \cup Range(out)] ELSE ring[x]]
  /\ pool' = IF m = NoMember THEN pool ELSE pool \cup Range(out)
  /\ UNCHANGED <<reserve, parts, shrunk>>

Contract(c) == /\ C_NoPanic(c) /\ C_InSpace(c) /\ C_NoTaken(c) /\ C_SortedUnique(c) /\ C_AtMost(c)
               /\ C_RandomCount(c) /\ C_SpreadFromReserve(c) /\ C_SpreadCount(c)
               /\ C_SpreadLowestFirst(c) /\ C_SpreadExact(c) /\ C_ZoneCongruentOut(c)

(* a member joins / tops up: taken = every token in the ring (its own included) *)
JoinObs(g, m, req, out, pan) == CallObs(g, m, req, pool, out, pan)

LoseObs(m, S) ==
  /\ m \in DOMAIN ring /\ S \subseteq ring[m].toks
  /\ ring' = [ring EXCEPT ![m].toks = @ \ S]
  /\ pool' = pool \ S
  /\ shrunk' = TRUE
  /\ last' = [ev |-> "lose"]
  /\ UNCHANGED <<reserve, parts>>

LeaveObs(m) ==
  /\ m \in DOMAIN ring
  /\ ring' = [x \in DOMAIN ring \ {m} |-> ring[x]]
  /\ pool' = pool \ ring[m].toks
  /\ shrunk' = TRUE
  /\ last' = [ev |-> "leave"]
  /\ UNCHANGED <<reserve, parts>>

ObserveObs(via, i, z, toks) ==
  /\ reserve' = IF <<i, z>> \in DOMAIN reserve THEN reserve
                ELSE [k \in DOMAIN reserve \cup {<<i, z>>} |->
                        IF k = <<i, z>> THEN toks ELSE reserve[k]]
  /\ last' = [ev |-> "observe", via |-> via, inst |-> i, zone |-> z, toks |-> toks]
  /\ UNCHANGED <<ring, pool, parts, shrunk>>

CanJoinObs(g, prevPresent, prevHasTokens, enabled, ok) ==
  /\ last' = [ev |-> "canjoin", gen |-> g, prevPresent |-> prevPresent,
              prevHasTokens |-> prevHasTokens, enabled |-> enabled, ok |-> ok]
  /\ UNCHANGED <<reserve, ring, pool, parts, shrunk>>

AddPartitionObs(p, toks, pan) ==
  /\ parts' = IF pan THEN parts ELSE [q \in DOMAIN parts \cup {p} |-> IF q = p THEN toks ELSE parts[q]]
  /\ last' = [ev |-> "partition", id |-> p, panic |-> pan]
  /\ UNCHANGED <<reserve, ring, pool, shrunk>>

FamilyObs(z, fam) ==
  /\ reserve' = [k \in DOMAIN reserve \cup {<<j-1, z>> : j \in DOMAIN fam} |->
                   IF k \in DOMAIN reserve THEN reserve[k] ELSE fam[k[1]+1]]
  /\ last' = [ev |-> "family", zone |-> z, fam |-> fam]
  /\ UNCHANGED <<ring, pool, parts, shrunk>>

DonorsObs(z, from, rg, prefixes) ==
  /\ last' = [ev |-> "donors", zone |-> z, from |-> from, ring |-> rg, prefixes |-> prefixes]
  /\ UNCHANGED <<reserve, ring, pool, parts, shrunk>>

ConstructObs(ctor, nz, zin, idok, ok) ==
  /\ last' = [ev |-> "gen", ctor |-> ctor, nz |-> nz, zin |-> zin, idok |-> idok, ok |-> ok]
  /\ UNCHANGED <<reserve, ring, pool, parts, shrunk>>

-----------------------------------------------------------------------------
(* The exhaustive model *)
Insts     == 0..MaxInst
Zones     == 0..(NZ-1)
Keys      == Insts \X Zones
Reqs      == (-1)..MaxReq
Foreign   == {<<-1, n>> : n \in 1..NForeign}      \* members that use the random generator
Members   == Keys \cup Foreign
EmptyFcn  == [x \in {} |-> 0]

(* sort a small set of tokens *)
RECURSIVE SortSet(_)
SortSet(S) == IF S = {} THEN <<>>
              ELSE LET m == CHOOSE x \in S : \A y \in S : x = y \/ Lt(x, y)
                   IN  <<m>> \o SortSet(S \ {m})

(* what the construction of the spread-minimising generator guarantees *)
GoodReserves(f) ==
  /\ \A k \in Keys : \A t \in Range(f[k]) : Cong(t) = k[2]
  /\ \A k1, k2 \in Keys : k1 # k2 => Range(f[k1]) \cap Range(f[k2]) = {}

ZoneTok(z) == {t \in Tok : Cong(t) = z}

(* every assignment of the tokens of the modelled zones to instance indexes (the zone of a     *)
(* token is its residue) in which each (instance, zone) gets exactly R tokens; MaxInst+1 = "in *)
(* nobody's reserve"                                                                           *)
InZones == {t \in Tok : Cong(t) \in Zones}
Init ==
  /\ \E own \in [InZones -> 0..(MaxInst+1)] :
        LET Block(k) == {t \in InZones : own[t] = k[1] /\ Cong(t) = k[2]} IN
        /\ \A k \in Keys : Cardinality(Block(k)) = R
        /\ reserve = [k \in Keys |-> SortSet(Block(k))]
        /\ GoodReserves(reserve)
  /\ ring = EmptyFcn
  /\ pool = {}
  /\ parts = EmptyFcn
  /\ shrunk = FALSE
  /\ last = None

(* every output the contract allows.  For the spread-minimising generator: the constructive  *)
(* answer FirstFree AND every candidate that satisfies the declarative clauses; the Step_    *)
(* properties then show both that FirstFree satisfies the declarative clauses and that they  *)
(* admit nothing else (Step_SpreadExact).                                                    *)
CallRec(g, req, taken, out) == [ev |-> "call", gen |-> g, req |-> req, taken |-> taken, out |-> out,
                                panic |-> FALSE, member |-> NoMember]
Declarative(c) == /\ C_NoTaken(c) /\ C_SortedUnique(c) /\ C_AtMost(c) /\ C_SpreadFromReserve(c)
                  /\ C_SpreadCount(c) /\ C_SpreadLowestFirst(c)
Outputs(g, req, taken) ==
  IF g.kind = "random"
  THEN {SortSet(S) : S \in {T \in SUBSET (Tok \ taken) : Cardinality(T) = Want(req)}}
  ELSE {FirstFree(reserve[Key(g)], Want(req), taken)} \cup
       {out \in {SortSet(S) : S \in SUBSET Range(reserve[Key(g)])} :
          Declarative(CallRec(g, req, taken, out))}

Generate(g, m, req, taken) == \E out \in Outputs(g, req, taken) : CallObs(g, m, req, taken, out, FALSE)

GenOf(m, cj) == IF m \in Foreign THEN RandomGen ELSE SpreadGen(m[1], m[2], cj)

PrevOf(g) == <<g.inst - 1, g.zone>>
PrevPresent(g)   == PrevOf(g) \in DOMAIN ring
PrevHasTokens(g) == PrevPresent(g) /\ ring[PrevOf(g)].toks # {}

(* a pure call: any generator, any requested count, ANY taken set (only from the empty ring: *)
(* the result does not depend on the ring)                                                   *)
PureTakenSets == {T \in SUBSET Tok : Cardinality(T) <= MaxPureTaken}
PureCall == /\ ring = EmptyFcn /\ parts = EmptyFcn
            /\ \E m \in Members, req \in Reqs, taken \in PureTakenSets :
                  /\ (m \in Foreign => SpaceHasAtLeast(Cardinality(taken) + Want(req)))
                  /\ Generate(GenOf(m, FALSE), NoMember, req, taken)

(* a member joins or tops up its tokens; with CJ it first passes the CanJoin check.  (Model   *)
(* bound: a member with random tokens holds at most R of them.)                              *)
Join == \E m \in Members, req \in Reqs :
          LET g == GenOf(m, CJ) IN
          /\ CanJoinSpec(g, PrevPresent(g), PrevHasTokens(g))
          /\ (m \in Foreign => /\ SpaceHasAtLeast(Cardinality(pool) + Want(req))
                                /\ Want(req) + (IF m \in DOMAIN ring THEN Cardinality(ring[m].toks) ELSE 0) <= R)
          /\ Generate(g, m, req, pool)

Lose  == \E m \in DOMAIN ring : \E t \in ring[m].toks : LoseObs(m, {t})
Leave == \E m \in DOMAIN ring : LeaveObs(m)

Observe == \E k \in Keys, via \in {"direct", "bylarger"} :
              /\ ring = EmptyFcn /\ parts = EmptyFcn       \* (independent of the ring: explored from the initial states only)
              /\ ObserveObs(via, k[1], k[2], reserve[k])

CanJoin == \E m \in Members, cj \in BOOLEAN :
             LET g == GenOf(m, cj) IN
             CanJoinObs(g, PrevPresent(g), PrevHasTokens(g), g.kind = "spread" /\ cj,
                        CanJoinSpec(g, PrevPresent(g), PrevHasTokens(g)))

AddPartition == \E p \in Insts : /\ ring = EmptyFcn
                                 /\ AddPartitionObs(p, reserve[<<p, 0>>], FALSE)

Family == \E n \in Insts, z \in Zones : /\ ring = EmptyFcn /\ parts = EmptyFcn
                                         /\ FamilyObs(z, [j \in 1..(n+1) |-> reserve[<<j-1, z>>]])

Construct == \E ctor \in {"name", "id", "seed", "time"}, nz \in 0..(MaxZ+1), zin \in BOOLEAN, idok \in BOOLEAN :
               /\ ring = EmptyFcn /\ parts = EmptyFcn
               /\ ConstructObs(ctor, nz, zin, idok, ConstructSpec(ctor, nz, zin, idok))

Next == PureCall \/ Join \/ Lose \/ Leave \/ Observe \/ CanJoin \/ AddPartition \/ Family \/ Construct
Spec == Init /\ [][Next]_vars

-----------------------------------------------------------------------------
(* What TLC checks on the exhaustive model.  Clauses on the latest observation are action   *)
(* properties because `last` is not in the VIEW (TLC checks implied actions on every        *)
(* transition, also into states it has already seen).                                       *)
TypeOK ==
  /\ \A k \in DOMAIN reserve : reserve[k] \in Seq(Tok)
  /\ \A m \in DOMAIN ring : ring[m].toks \subseteq Tok
  /\ pool \subseteq Tok
  /\ shrunk \in BOOLEAN

Step_NoPanic        == [][C_NoPanic(last')]_vars
Step_InSpace        == [][C_InSpace(last')]_vars
Step_NoTaken        == [][C_NoTaken(last')]_vars
Step_SortedUnique   == [][C_SortedUnique(last')]_vars
Step_AtMost         == [][C_AtMost(last')]_vars
Step_RandomCount    == [][C_RandomCount(last')]_vars
Step_SpreadFromReserve == [][C_SpreadFromReserve(last')]_vars
Step_SpreadCount    == [][C_SpreadCount(last')]_vars
Step_SpreadLowestFirst == [][C_SpreadLowestFirst(last')]_vars
Step_SpreadExact    == [][C_SpreadExact(last')]_vars
Step_ZoneCongruentOut == [][C_ZoneCongruentOut(last')]_vars
Step_CanJoin        == [][C_CanJoin(last') /\ C_CanJoinEnabled(last')]_vars
Step_Reproducible   == [][C_ObsShape(last') /\ C_Reproducible(last') /\ C_DisjointStep(last')]_vars
Step_Family         == [][C_FamilyShape(last') /\ C_FamilyReproducible(last') /\ C_FamilyDisjoint(last')]_vars
Step_Constructor    == [][C_Constructor(last') /\ C_PartitionNoPanic(last')]_vars
Step_NeverShort     == [][S_NeverShort(ring, last')]_vars
Step_ReserveFixed   == [][\A k \in DOMAIN reserve : k \in DOMAIN reserve' /\ reserve'[k] = reserve[k]]_vars
=============================================================================
