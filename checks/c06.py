"""C06 - a gossiping memberlist KV cluster converges after any loss, reordering, partition or restart.

spec/gossipkv/GossipKV.tla. TLC decides the safety clauses (InvalidationSafe, OnlyChangesForwarded,
GarbageIsNoop by construction + replay, NoInventedContent, WatcherNeverStale) on exhaustive bounded
configurations with faults and the temporal property Convergence under weak fairness of push/pull and
of watcher callbacks returning; TLC-generated behaviours, each extended by the quiescence suffix, are
replayed on real detached memberlist.KV nodes (harness/c06).
"""
import gossipkv_common as g

PROPERTY = "C06"
META = {
    "level_text": "GossipKV.tla models per node the store (value incl. tombstones, version), the local and the forwarded broadcast queue with remaining "
                  "transmissions and the Invalidates rule (content superset AND version), the per-key worker with its bounded channel (Receive, merge and "
                  "QueueBroadcast as separate steps behind a harness gate; drop when full), WatchKey watchers (blocking callback, capacity-1 coalescing), the set of all packets ever gossiped "
                  "(deliverable to any node at any later time, any number of times), push/pull, garbage packets, unknown-codec pairs in push/pull buffers, "
                  "partitions and restarts. TLC checks exhaustively (2-3 nodes, 2 ids, 3 CAS, bounded faults): a queued update is invalidated only by one "
                  "that contains it (up to expired tombstones; a negative-control configuration shows the version test is needed once broadcasts are queued out of "
                  "order), only the resulting change is re-broadcast, stores contain only content some CAS wrote, a "
                  "watcher that is not blocked has seen the current value; and, under weak fairness of push/pull and callback return with bounded faults, "
                  "(<>[]Healed) => <>[](all nodes read the same value and all watchers saw it). TLC-generated behaviours with quiescence suffix are "
                  "executed on real detached KV nodes in a synctest bubble with a step-by-step comparison of every node's projection.",
    "level_note": "Bounded: 2-3 nodes (4 in recorded traces), one key, 2-3 entry ids; values are ring.Desc (no token conflicts) and ring.PartitionRingDesc; a CAS "
                  "and a push/pull are atomic in the harness, a received update is split into Receive / merge / QueueBroadcast on gated nodes; NotifyInterval = 0; zone-aware routing, compression, TCP transport and memberlist's "
                  "own node-selection are outside (the harness is the network). Trusted: TLC, synctest, the projection.",
    "technique": "TLA+ specification (GossipKV.tla) model-checked by TLC (safety + liveness); TLC-generated behaviours replayed on the real memberlist KV",
    "design_ref": "DESIGN.md 2 C06",
}


def run(ctx):
    ctx.rule = ("a case is one TLC-generated behaviour (run phase with faults + quiescence suffix: drain and open worker gates, heal, 2 rounds of all-pairs "
                "push/pull, release of blocked watchers) replayed step by step on real KV nodes, or one recorded trace validated by TLC; non-trivial = a change "
                "made by a CAS on one node reaches another node through a delivered packet, a worker step or a push/pull; distinct = distinct action sequences")
    ctx.assumptions = list(g.ASSUMPTIONS)
    quick = ctx.tier == "quick"
    g.exhaustive(ctx, "MC_c06_quick.cfg", "C06 safety (quick bounds)", timeout=900 if quick else 3000, coverage=not quick)
    g.exhaustive(ctx, "MC_c06_live_quick.cfg", "C06 liveness (2 nodes)", timeout=900 if quick else 3000)
    if not quick:
        g.exhaustive(ctx, "MC_c06_2n.cfg", "C06 safety (2 nodes, all fault kinds, blocking watcher)", timeout=3000, coverage=True)
        g.exhaustive(ctx, "MC_c06_live_2n.cfg", "C06 liveness (2 nodes, 2 faults, blocking watcher)", timeout=3000)
        g.exhaustive(ctx, "MC_c06_t2.cfg", "C06 safety (T=2)", timeout=3000)
        g.exhaustive(ctx, "MC_c06_gate.cfg", "C06 safety (gated worker: Receive / merge / QueueBroadcast)", timeout=3000, coverage=True)
        g.exhaustive(ctx, "MC_c06_gate_garbage.cfg", "C06 safety (gated worker + malformed packets)", timeout=3000)
        g.exhaustive(ctx, "MC_c06_gate_nover.cfg", "negative control: Invalidates without the version test", timeout=1200, expect_violation="InvalidationSafe")
        g.exhaustive(ctx, "MC_c06_keys.cfg", "C06 safety (two keys sharing the broadcast queues)", timeout=3000)
        g.exhaustive(ctx, "MC_c06_keys_nokey.cfg", "negative control: Invalidates without the key comparison", timeout=1200, expect_violation="InvalidationSafe")
        g.exhaustive(ctx, "MC_c06_thorough.cfg", "C06 safety (3 nodes)", timeout=3000)
        g.exhaustive(ctx, "MC_c06_live_thorough.cfg", "C06 liveness (3 nodes)", timeout=3000)
        g.require_action_coverage(ctx, ["ATick", "ACas", "AGossip", "ADeliver", "AWork", "AGateClose", "AGateOpen", "AGarbage", "APushPull",
                                        "AArm", "ARelease", "ARestart", "APartition", "AHeal"])
    ctx.exhaustive = False
    if quick:
        # gated workers on nodes 2 and 3; about a quarter of the behaviours follow the relay script; value domain alternates
        g.generate_and_replay(ctx, "C06", "Sim_c06.cfg", num_per_worker=25, run_depth=25, domains=("mixed",))
    else:
        g.generate_and_replay(ctx, "C06", "Sim_c06.cfg", num_per_worker=600, run_depth=30, timeout=3000, domains=("ring", "partition"))
        g.generate_and_replay(ctx, "C06", "Sim_c06_n2.cfg", num_per_worker=300, run_depth=30, timeout=3000, domains=("ring", "partition"))
    g.record_and_validate(ctx, ntraces=4 if quick else 150, steps=40 if quick else 80, timeout=900 if quick else 3000, domain="mixed")
    return "model_checking"
