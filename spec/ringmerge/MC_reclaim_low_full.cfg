\* C05 owners' side (basic lifecycler): instance 1 of 2 wants 2 token(s) out of 4 positions; <= 3 peer updates.
CONSTANTS
  N = 2
  M = 4
  Shared = TRUE
  Kind = "basic"
  Me = 1
  NumTok = 2
  PeerTs = {1, 2}
  PeerSt = {"ACTIVE", "LEAVING", "PENDING"}
  MaxDeliver = 3
  MaxClock = 9
  ThinE = @@THINE@@
  ThinC = @@THINC@@
  ThinR = @@THINR@@
INIT Init
NEXT Next
VIEW View
INVARIANTS TypeOK InvTokenUnique InvLeftHasNoTokens EmitScenario
PROPERTIES VerifiedOwns ReclaimRule MemoryMatchesWrite
CHECK_DEADLOCK FALSE
