\* t_layout: see checks/ringlookup_common.py (UNIVERSES) for what this universe is for
CONSTANTS
  NK = 6
  Gaps = {3}
  N = 3
  MaxTok = 2
  MaxIdle = 1
  Z = 2
  StateSet = {"ACTIVE", "JOINING"}
  HbSet = {"edge"}
  RFMax = 3
  Canon = 2
  WithRemove = FALSE
  EmitOn = TRUE
INIT Init
NEXT Next
VIEW View
INVARIANTS TypeOK SizeOK ZoneOK ClockwiseFirst SlackExact WalkDefsAgree QuorumIntersection Emit
PROPERTIES MinimalDisruption
CHECK_DEADLOCK FALSE
