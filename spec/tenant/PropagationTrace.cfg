\* C20: validation of recorded propagation chains (see PropagationTrace.tla)
CONSTANTS
  Ids = {0, 1, 2}
  Channels = {"org", "user"}
  MaxHops = 64
  InProc = TRUE
  WireHops = FALSE
  HTTPRefused = {}
  GRPCRefused = {}
  HTTPTrim <- NoTrim
INIT TInit
NEXT TNext
INVARIANTS StartIsSpecStart TypeOK Unchanged NeverDefaulted SingleValueWritten RefusalHasReason Consumed
PROPERTIES UnchangedStep
CHECK_DEADLOCK TRUE
