"""Shared by checks/c03.py and checks/c05.py (family ringmerge: spec/ringmerge, harness/c03, harness/c05)."""
import json
import os
import threading

import verif

FAMILY = "ringmerge"
# development switch only (shared machine): VERIF_TLC_WORKERS=4 bin/check C03
WORKERS = int(os.environ.get("VERIF_TLC_WORKERS", "0")) or None
TLC_TIMEOUT = 3000


# ---- several TLC runs at a time -------------------------------------------------------------------------
# JVM start + JIT warm-up dominate the small exhaustive configs, so independent runs are started side by
# side (a few workers each). Ctx.tlc numbers its run directory in its first two statements; the hand-off
# below lets only one thread at a time go through them (the lock is released when Ctx.tlc asks for its
# run directory), and the state counters are added here, under the lock, instead of inside Ctx.tlc.
_LOCK = threading.Lock()
_TL = threading.local()


def _patch(ctx):
    if getattr(ctx, "_rm_patched", False):
        return
    orig = ctx.path

    def path(*p):
        r = orig(*p)
        if getattr(_TL, "holding", False):
            _TL.holding = False
            _LOCK.release()
        return r
    ctx.path = path
    ctx._rm_patched = True


def locked_tlc(ctx, *a, **kw):
    """Ctx.tlc, callable from several threads."""
    _patch(ctx)
    count = kw.pop("count", True)
    kw["count"] = False
    _LOCK.acquire()
    _TL.holding = True
    try:
        r = ctx.tlc(*a, **kw)
    finally:
        if getattr(_TL, "holding", False):
            _TL.holding = False
            _LOCK.release()
    if count:
        with _LOCK:
            ctx.states += r.distinct
            ctx.transitions += r.generated
    return r


def locked_harness(ctx, *a, **kw):
    """Ctx.run_harness, callable beside TLC threads (it numbers its result file the same way)."""
    _patch(ctx)
    _LOCK.acquire()
    _TL.holding = True
    try:
        return ctx.run_harness(*a, **kw)
    finally:
        if getattr(_TL, "holding", False):
            _TL.holding = False
            _LOCK.release()


def par_workers(width):
    if WORKERS:
        return WORKERS
    return max(2, verif.default_workers() // max(1, width))


def run_parallel(fns, width=4):
    """Run the callables (each does one TLC run) `width` at a time; returns results in order, re-raises the first exception."""
    results = [None] * len(fns)
    errors = [None] * len(fns)
    sem = threading.Semaphore(width)

    def work(i):
        with sem:
            try:
                results[i] = fns[i]()
            except BaseException as ex:   # noqa: B902 - re-raised in the caller's thread
                errors[i] = ex
    threads = [threading.Thread(target=work, args=(i,)) for i in range(len(fns))]
    for t in threads:
        t.start()
    for t in threads:
        t.join()
    for e in errors:
        if e is not None:
            raise e
    return results


def tlc_ok(ctx, module, cfg, what=None, **kw):
    """Run one exhaustive config; anything but a clean finish is inconclusive."""
    kw.setdefault("timeout", TLC_TIMEOUT)
    kw.setdefault("workers", WORKERS)
    r = locked_tlc(ctx, FAMILY, module, cfg=cfg, **kw)
    ctx.require_tlc_ok(r, what or cfg)
    return r


def zero_coverage(r):
    """Actions that generated no state at all, judged by the LAST coverage report of the run
    (interim reports of -coverage may still show 0:0 for an action that fires later)."""
    import re
    last = {}
    for name, where, _distinct, gen in re.findall(r"^<(\w+) line ([^>]*)>: (\d+):(\d+)$", r.log, re.M):
        last[(name, where)] = int(gen)
    return sorted("%s (%s)" % k for k, g in last.items() if g == 0)


def concat(ctx, name, paths):
    out = ctx.path(name)
    with open(out, "w") as o:
        for p in paths:
            with open(p) as f:
                for line in f:
                    o.write(line)
    return out


def count_lines(path):
    n = 0
    with open(path) as f:
        for _ in f:
            n += 1
    return n


def validate_trace(ctx, module, trace_path, subst, label, sig_prefix):
    """code -> spec: TLC re-computes every logged call. Returns number of accepted events.
    A rejected event is a disagreement reproduced on the real code (the log IS what the code did)."""
    n = count_lines(trace_path)
    if n == 0:
        raise verif.Inconclusive("%s: empty trace" % label)
    r = locked_tlc(ctx, FAMILY, module, cfg=module + ".cfg", workers=1, timeout=TLC_TIMEOUT, deadlock=False,
                   subst=subst, extra_files={trace_path: "trace.ndjson"}, count=False)
    if r.timed_out or r.error:
        raise verif.Inconclusive("%s: TLC %s" % (label, "timed out" if r.timed_out else r.error[:300]))
    if r.violated == "Accepted":
        want = verif.read_ndjson(r.out_path)
        w = want[-1] if want else {}
        k = int(w.get("rejected", 0))
        ev = verif.read_ndjson(trace_path, limit=k)[-1] if k else {}
        what = "result"
        if ev and w:
            if json.dumps(ev.get("mine"), sort_keys=True) != json.dumps(w.get("want_pre"), sort_keys=True):
                what = "receiver-changed-between-calls"
            elif ev.get("nil") != w.get("want_nil"):
                what = "change-nil"
            elif json.dumps(ev.get("result"), sort_keys=True) == json.dumps(w.get("want_result"), sort_keys=True):
                what = "change"
        ctx.disagreement({"sig": "%s rejected %s cas=%s" % (sig_prefix, what, str(w.get("cas")).lower()),
                          "case": ev, "got": {"result": ev.get("result"), "nil": ev.get("nil"), "change": ev.get("change")},
                          "want": w, "note": "event %d of %d of the recorded trace" % (k, n)}, label)
        ctx.traces += max(k - 1, 0)
        return max(k - 1, 0)
    if r.violated in ("InvTokenUnique", "InvLeftHasNoTokens"):
        # the logged receiver (accepted as what the specification computes) breaks a C05 invariant:
        # a specification-level counterexample that the real code reproduced step by step
        ctx.disagreement({"sig": "%s %s" % (sig_prefix, r.violated), "case": "".join(r.trace)[-3000:],
                          "got": "replica state violating " + r.violated, "want": r.violated}, label)
        return 0
    if r.violated or r.rc != 0:
        raise verif.Inconclusive("%s: trace validation failed without a verdict (%s): %s" % (label, r.violated, r.log[-800:]))
    with open(trace_path) as f:   # non-trivial by the stated rule: the recorded call changed the receiver
        nt = sum(1 for line in f if '"nil":false' in line)
    with _LOCK:
        ctx.states += r.distinct
        ctx.transitions += r.generated
        ctx.traces += n
        ctx.evaluations += n
        ctx.nontrivial += nt
    return n
