\* t_steps: AddInstance and RemoveInstance steps in every relative token position, 4 positions
\* (generated from UNIVERSES in checks/ringlookup_common.py: python3 checks/ringlookup_common.py --write-cfgs)
CONSTANTS
  NK = 5
  Gaps = {2}
  N = 3
  MaxTok = 1
  MaxIdle = 1
  Z = 2
  StateSet = {"ACTIVE", "JOINING"}
  HbSet = {"edge"}
  RFMax = 3
  Canon = 1
  WithRemove = TRUE
  Excl = {}
  EmitOn = TRUE
  EmitSets = FALSE
  XMax = 0
INIT Init
NEXT Next
VIEW View
INVARIANTS TypeOK SizeOK ZoneOK ClockwiseFirst SlackExact WalkDefsAgree QuorumIntersection ExpandedOK Emit
PROPERTIES MinimalDisruption
CHECK_DEADLOCK FALSE
