\* C04 thorough, key deletion: 2 nodes, 1 entry id, clock 0..3, 2 CAS, 2 KV.Delete calls on any node,
\* ObsoleteEntriesTimeout 1 s, cleanup on any node at any time: the Deleted flag is sticky, never
\* revives a key a node does not hold, and the key leaves a node only when obsolete.
CONSTANTS
  N = 2
  NI = 1
  NK = 1
  MaxClock = 2
  Retention = 0
  T = 1
  MaxCas = 2
  MaxFaults = 0
  LiveStates = {"ACTIVE"}
  WatchNodes = {1, 2}
  HoldNodes = {}
  AllowRestart = FALSE
  AllowGarbage = FALSE
  AllowPartition = FALSE
  AllowJunkPP = FALSE
  GateNodes = {}
  InboxCap = 1
  VersionTest = TRUE
  KeyTest = TRUE
  MaxDel = 1
  ObsoleteTimeout = 1
  LockKeys = {}
  ConsumeNet = FALSE
  Ideal = TRUE
  Ghost = TRUE
  Record = FALSE
  Quiesce = FALSE
  RunDepth = 0
  QRounds = 2
SPECIFICATION Spec
VIEW view
INVARIANTS TypeOK TombstonesInvisible InvalidationSafe NoInventedContent SentIsWritten WatcherNeverStale PrefixWatcherNeverStale VersionCountsChanges
PROPERTIES TombstonesForwarded NoResurrection GCOnlyExpired NoExpiredTombstoneStored OnlyChangesForwarded DeletedStaysDeleted RemovedOnlyWhenObsolete DeletedNotRevived
CHECK_DEADLOCK FALSE
