--------------------------- MODULE RingClientTrace ---------------------------
(***************************************************************************)
(* Code -> specification direction of C13 (instance ring).                 *)
(*                                                                         *)
(* trace.ndjson is what harness/c13 recorded: descriptor updates pushed    *)
(* through the store to a long-lived ring.Ring with caches enabled, and    *)
(* after every update a batch of queries asked to the long-lived client    *)
(* (fields l..) and to a client freshly built from the store content (f..).*)
(* recs.ndjson is the table of projected instance records (line k =        *)
(* record k); answers list instances as [instance, record].                *)
(*                                                                         *)
(* The updates are replayed through RingClient's own Update action (so the *)
(* class of every update is DERIVED by the specification from the logged   *)
(* fields and checked against the kind the generator intended), the shard  *)
(* queries through its SeqPlain / SeqLb actions with the shard function    *)
(* instantiated by the fresh client's answer.  Every event is checked:     *)
(*   answer     long-lived answer = fresh answer             (the property) *)
(*   concurrent a concurrent reader's answer = the fresh answer of one of  *)
(*              the two adjacent versions                    (the property) *)
(*   counts     both = the counters the specification computes from desc   *)
(*   faithful   every returned instance record = its record in desc        *)
(*   replay     long-lived answer = what the specified cache rules serve   *)
(*   hit        the code served a cached subring only where the specified  *)
(*              rules allow a hit                                          *)
(*   kind       generator kind vs. derived class                           *)
(* Failures are collected (not fatal) and printed as JSON at the end.      *)
(***************************************************************************)
EXTENDS RingClient, Json

Trace == ndJsonDeserialize("trace.ndjson")
Recs  == ndJsonDeserialize("recs.ndjson")

VARIABLES l,      \* next trace line
          bad,    \* failures so far: [l, why]
          conc,   \* the current history is a concurrent one
          excl    \* ring.Config.ExcludedZones of the current history (zone numbers)

tvars == <<vars, l, bad, conc, excl>>

Ev == Trace[l]

RecOf(k) == IF k \in DOMAIN Recs THEN Recs[k] ELSE [unknown |-> k]
MOf(ps)  == [i \in {ps[j][1] : j \in DOMAIN ps} |->
               LET j == CHOOSE j \in DOMAIN ps : ps[j][1] = i IN RecOf(ps[j][2])]

(* the shard function of the trace: what the real fresh client answered to the current query *)
TraceCompute(ix, lv, id, size, L, W) == [self |-> Ev.fself, m |-> MOf(Ev.fm)]

Note(S) == bad' = IF S = {} \/ Len(bad) >= 40 THEN bad ELSE Append(bad, [l |-> l, why |-> S])
If(c, s) == IF c THEN {s} ELSE {}

WantClass(kind) ==
    CASE kind = "equal" -> {"Equal"}
      [] kind \in {"heartbeat", "heartbeat_all", "state", "hbstate"} -> {"EqualButStatesAndTimestamps"}
      [] kind = "multi" -> {"Equal", "EqualButStatesAndTimestamps", "Different"}
      [] OTHER -> {"Different"}

(* the counters, computed from the latest descriptor: InstancesCount, InstancesWithTokensCount,
   WritableInstancesWithTokensCount, ZonesCount, then per zone 1..3: instances, with tokens, writable *)
Card(S) == Cardinality(S)
SpecCounts ==
    LET I == DOMAIN desc
        T == {i \in I : desc[i].ntok > 0}
        Wr == {i \in T : ~desc[i].ro}
        InZ(S, z) == Card({i \in S : desc[i].zone = z})
    IN <<Card(I), Card(T), Card(Wr), Card({desc[i].zone : i \in I}),
         InZ(I, 1), InZ(I, 2), InZ(I, 3), InZ(T, 1), InZ(T, 2), InZ(T, 3), InZ(Wr, 1), InZ(Wr, 2), InZ(Wr, 3)>>

Faithful(m) == \A i \in DOMAIN m : i \in DOMAIN desc /\ m[i] = desc[i]

Reset ==
    /\ desc' = NoDesc /\ idx' = IndexView(NoDesc) /\ ltc' = 0
    /\ cache' = EmptyCache /\ lbc' = EmptyLbc /\ nupd' = 0
    /\ conc' = Ev.conc
    /\ excl' = {Ev.excl[j] : j \in DOMAIN Ev.excl}
    /\ pend' = [p \in Readers |-> None]
    /\ UNCHANGED bad

DoUpdate ==
    LET d == Exclude(MOf(Ev.d), excl) IN     \* what updateRingState keeps of the delivered descriptor
    /\ Note(If(~Ev.any /\ Classify(desc, d) \notin WantClass(Ev.kind), "kind"))
    /\ Update(d)
    /\ UNCHANGED <<conc, excl>>

DoCounts ==
    /\ Note(If(Ev.lc # Ev.fc, "answer") \cup If(Ev.fc # SpecCounts, "counts"))
    /\ UNCHANGED <<vars, conc, excl>>

DoDirect ==
    LET lm == MOf(Ev.lm)
        fm == MOf(Ev.fm)
    IN /\ Note(If(Ev.lm # Ev.fm \/ Ev.lx # Ev.fx, "answer") \cup If(~Faithful(lm) \/ ~Faithful(fm), "faithful"))
       /\ UNCHANGED <<vars, conc, excl>>

DoShard ==
    LET lm  == MOf(Ev.lm)
        fm  == MOf(Ev.fm)
        k2  == <<Ev.id, Ev.size>>
        k3  == <<Ev.id, Ev.size, Ev.L>>
        hitOK == IF Ev.L = 0 THEN cache[k2] # None ELSE LbValid(lbc[k3], Ev.now - Ev.L)
        want  == IF Ev.L = 0 THEN ClientPlain(Ev.id, Ev.size) ELSE ClientLb(Ev.id, Ev.size, Ev.L, Ev.now)
    IN /\ Note(If(lm # fm \/ Ev.lx # Ev.fx, "answer")
               \cup If(~Faithful(lm) \/ ~Faithful(fm), "faithful")
               \cup If(lm # want, "replay")
               \cup If(Ev.hit /\ ~hitOK, "hit")
               \* re-query of a gated round: a miss means the reader's fill was refused
               \cup If(Ev.g /\ ~Ev.hit /\ ~Ev.self /\ hitOK, "nofill"))
       /\ IF Ev.L = 0 THEN SeqPlain(Ev.id, Ev.size) ELSE SeqLb(Ev.id, Ev.size, Ev.L, Ev.now)
       /\ UNCHANGED <<conc, excl>>

DoCleanup == Cleanup(Ev.id) /\ UNCHANGED <<bad, conc, excl>>

(* Gated rounds (hook between computing a shard and filling the cache): the *)
(* reader's two critical sections are the specification's QueryPlain /      *)
(* QueryLb and Fill, the update delivered in between is a DoUpdate.  The    *)
(* following re-query (an S event with g = TRUE) then observes whether the  *)
(* code filled the cache: hit => the specification's Fill accepted ("hit"), *)
(* miss => it refused ("nofill"), i.e. Fill refused <=> ltc changed.        *)
GReader == CHOOSE p \in Readers : TRUE
DoGatedQuery ==
    /\ IF Ev.L = 0 THEN QueryPlain(GReader, Ev.id, Ev.size) ELSE QueryLb(GReader, Ev.id, Ev.size, Ev.L, Ev.now)
    /\ UNCHANGED <<bad, conc, excl>>

\* the reader returns what it computed: the fresh answer of the version it was computed on
DoGatedFill ==
    LET has == pend[GReader] # None IN
    /\ Note(If(has /\ ~Ev.self /\ (MOf(Ev.lm) # Val(pend[GReader]).m \/ Ev.lx # Ev.fx), "concurrent"))
    /\ IF has THEN Fill(GReader) ELSE UNCHANGED vars
    /\ UNCHANGED <<conc, excl>>

DoConcurrent ==
    /\ Note(If(Ev.ans # Ev.before /\ Ev.ans # Ev.after, "concurrent"))
    /\ UNCHANGED <<vars, conc, excl>>

TraceInit == Init /\ l = 1 /\ bad = <<>> /\ conc = FALSE /\ excl = {}

TraceNext ==
    /\ l <= Len(Trace)
    /\ l' = l + 1
    /\ CASE Ev.e = "R"  -> Reset
         [] Ev.e \in {"U", "CU"} -> DoUpdate
         [] Ev.e = "C"  -> DoCounts
         [] Ev.e = "D"  -> DoDirect
         [] Ev.e = "S"  -> DoShard
         [] Ev.e = "X"  -> DoCleanup
         [] Ev.e = "CQ" -> DoConcurrent
         [] Ev.e = "GQ" -> DoGatedQuery
         [] Ev.e = "GF" -> DoGatedFill

\* a trace is one path: the line number identifies the state
TraceView == l

(* printed once, when the whole trace has been consumed *)
Report == l = Len(Trace) + 1 => PrintT(ToJson([n |-> Len(Trace), bad |-> bad]))
=============================================================================
