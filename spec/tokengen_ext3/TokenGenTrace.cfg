CONSTANTS
  HiCard = 65536
  LoCard = 65536
  MaxZ = 8
  R = 512
  MaxInst = 0
  NZ = 1
  MaxReq = 0
  MaxPureTaken = 0
  NForeign = 0
  CJ = FALSE
  PCT = 100
  NTraces = @@NTRACES@@
INIT TInit
NEXT TNext
INVARIANTS
  I_NoPanic I_InSpace I_NoTaken I_SortedUnique I_AtMost I_RandomCount
  I_SpreadFromReserve I_SpreadCount I_SpreadLowestFirst I_SpreadExact I_ZoneCongruent
  I_ObsShape I_Reproducible I_ReservesDisjoint
  I_FamilyShape I_FamilyReproducible I_FamilyDisjoint I_RingIsFamily I_NoDonorStarved I_SharesTile I_SharesWithinOnePercent
  I_CanJoin I_CanJoinEnabled I_Constructor I_PartitionNoPanic
  I_PartitionTokens I_PartitionsDisjoint I_AllDistinct I_SpreadOwnReserve I_PrefixWhenGrowing
PROPERTIES A_NeverShort
ALIAS TraceAlias
CHECK_DEADLOCK TRUE
