------------------------------ MODULE TokenRanges ------------------------------
(***************************************************************************)
(* C14 - key ownership on the token circle and the token ranges reported   *)
(* for an instance of a zone (zone-aware ring, zones = replication factor) *)
(* or for a partition (all partitions active).                             *)
(*                                                                         *)
(* Keys are abstract *key classes* 0..NK-1 in cyclic order.  A class is    *)
(* either a token position (a token may sit exactly there; it denotes one  *)
(* concrete uint32) or a gap class (no token can sit there; it denotes all *)
(* concrete keys strictly between the neighbouring positions).  The        *)
(* harness embeds positions monotonically into uint32 so that positions    *)
(* not separated by a gap class are literally adjacent (t, t+1), the first *)
(* position is 0 and the last is 2^32-1 (DESIGN.md 1.1).                   *)
(***************************************************************************)
EXTENDS Integers, FiniteSets, Sequences, TLC, Json

CONSTANTS NK,      \* number of key classes
          Gaps,    \* key classes that are not token positions
          N,       \* owners 1..N (instances of the ring / partitions)
          Z,       \* zones 1..Z (1 for the partition ring)
          MaxTok   \* at most this many tokens per owner

Key    == 0..(NK-1)
TokPos == Key \ Gaps
Owner  == 1..N

VARIABLES own,   \* own[p] = owner of the token at position p, 0 = no token there
          zone   \* zone[i] = zone of owner i

vars == <<own, zone>>

Toks(i)     == {p \in TokPos : own[p] = i}
ZoneToks(z) == {p \in TokPos : own[p] # 0 /\ zone[own[p]] = z}

(* Definition 1 - what a lookup does (C01 restricted to one zone): the key *)
(* belongs to the owner of the first token strictly greater than the key,  *)
(* wrapping to the smallest token.                                         *)
Succ(S, k) == IF \E p \in S : p > k
              THEN CHOOSE p \in S : p > k /\ \A q \in S : q > k => p <= q
              ELSE CHOOSE p \in S : \A q \in S : p <= q
LookupOwner(z, k) == IF ZoneToks(z) = {} THEN 0 ELSE own[Succ(ZoneToks(z), k)]
OwnedKeys(i) == {k \in Key : LookupOwner(zone[i], k) = i}

(* Definition 2 - what "token ranges" are documented to be: the token t    *)
(* owns the keys from the previous token of its zone (inclusive) up to t-1 *)
(* (inclusive), cyclically; a zone with a single token owns everything.    *)
Pred(S, t) == IF \E p \in S : p < t
              THEN CHOOSE p \in S : p < t /\ \A q \in S : q < t => q <= p
              ELSE CHOOSE p \in S : \A q \in S : q <= p
CycRange(a, b) == IF a < b THEN a..(b-1) ELSE (a..(NK-1)) \cup (0..(b-1))
RangeKeys(i) == UNION {CycRange(Pred(ZoneToks(zone[i]), t), t) : t \in Toks(i)}

TypeOK == /\ own \in [TokPos -> 0..N]
          /\ zone \in [Owner -> 1..Z]

Init == /\ own \in [TokPos -> 0..N]
        /\ \E p \in TokPos : own[p] # 0
        /\ \A i \in Owner : Cardinality(Toks(i)) <= MaxTok
        /\ zone \in [Owner -> 1..Z]
        \* a token-less owner sits in the lowest zone that has tokens (a zone with members but no
        \* tokens is outside "as many zones as replicas": lookups fail there)
        /\ \A i \in Owner : Toks(i) = {} =>
               /\ ZoneToks(zone[i]) # {}
               /\ \A z \in 1..Z : ZoneToks(z) # {} => zone[i] <= z

Next == UNCHANGED vars
Spec == Init /\ [][Next]_vars

(* The theorems TLC decides on the specification. *)
RangesAreOwnership == \A i \in Owner : RangeKeys(i) = OwnedKeys(i)

Tiling == \A z \in 1..Z : ZoneToks(z) # {} =>
            LET M == {i \in Owner : zone[i] = z} IN
              /\ UNION {RangeKeys(i) : i \in M} = Key
              /\ \A i, j \in M : i # j => RangeKeys(i) \cap RangeKeys(j) = {}

(* Case emitter: one JSON line per ring with the ownership matrix the code must reproduce. *)
Emit == PrintT(ToJson([own   |-> [j \in 1..NK |-> IF (j-1) \in Gaps THEN -1 ELSE own[j-1]],
                       zone  |-> zone,
                       owned |-> [i \in Owner |-> OwnedKeys(i)]]))
=============================================================================
