package c03

// code -> spec: random larger descriptors, random merge sequences on a few replicas (fresh updates,
// re-delivered and relayed changes, full-state pushes, local CAS writes), every Merge call logged
// with the receiver before and after, the argument and the returned change. RingMergeTrace.tla /
// PartitionMergeTrace.tla recompute every call with the specification's Merge.

import (
	"fmt"
	"math/rand"
	"path/filepath"
	"time"

	"verifharness/internal/abs"

	"github.com/grafana/dskit/ring"
)

var liveAndLeft = []string{"ACTIVE", "LEAVING", "PENDING", "JOINING", "LEFT", "ACTIVE", "ACTIVE", "LEAVING"}

type ringEvent struct {
	R      int       `json:"r"`
	Mine   abs.MDesc `json:"mine"`
	Other  abs.MDesc `json:"other"`
	Cas    bool      `json:"cas"`
	Now    int       `json:"now"`
	Result abs.MDesc `json:"result"`
	Nil    bool      `json:"nil"`
	Change abs.MDesc `json:"change"`
}

// projectRaw projects a descriptor that need not be normalised (token lists as sets).
func projectRaw(d *ring.Desc, n int, emb abs.Embedding) abs.MDesc {
	c := &ring.Desc{Ingesters: map[string]ring.InstanceDesc{}}
	for id, ing := range d.Ingesters {
		seen := map[uint32]bool{}
		var toks []uint32
		for _, t := range ing.Tokens {
			if !seen[t] {
				seen[t] = true
				toks = append(toks, t)
			}
		}
		for i := 1; i < len(toks); i++ { // insertion sort, tiny lists
			for j := i; j > 0 && toks[j-1] > toks[j]; j-- {
				toks[j-1], toks[j] = toks[j], toks[j-1]
			}
		}
		ing.Tokens = toks
		c.Ingesters[id] = ing
	}
	out, _ := abs.ProjectDesc(c, n, emb)
	return out
}

func recordRing(dr *driver, dir string) {
	n := abs.EnvInt("VERIF_TN", 12)
	m := abs.EnvInt("VERIF_TM", 24)
	steps := abs.EnvInt("VERIF_TSTEPS", 400)
	maxNow := abs.EnvInt("VERIF_TMAXNOW", 6)
	const nrep = 3
	rnd := rand.New(rand.NewSource(abs.Seed()*7919 + 11))
	emb := abs.RandomEmbedding(m, rnd)
	if abs.Seed()%2 == 0 {
		emb = abs.BoundaryEmbedding(m)
	}
	w, err := abs.NewNDJSONWriter(filepath.Join(dir, "ring_trace.ndjson"))
	if err != nil {
		dr.res.Fatal = err.Error()
		return
	}
	defer w.Close()

	replicas := make([]*ring.Desc, nrep)
	for i := range replicas {
		replicas[i] = ring.NewDesc()
	}
	var msgs []*ring.Desc
	now := 1
	abs.SleepUntil(now)
	per := m / n
	if per < 1 {
		per = 1
	}
	randEntry := func(k int, ts int) abs.MEntry {
		e := abs.MEntry{Ts: ts, State: liveAndLeft[rnd.Intn(len(liveAndLeft))], Toks: []int{}}
		for c := rnd.Intn(3); c > 0; c-- {
			p := (k*per + rnd.Intn(per)) % m // the instance's own block
			if rnd.Intn(6) == 0 {
				p = rnd.Intn(m) // somebody else's: a collision in the making
			}
			dup := false
			for _, q := range e.Toks {
				dup = dup || q == p
			}
			if !dup {
				e.Toks = append(e.Toks, p)
			}
		}
		return e
	}
	recentTs := func() int {
		ts := now - rnd.Intn(3)
		if ts < 0 || rnd.Intn(40) == 0 {
			ts = 0
		}
		return ts
	}
	deliver := func(r int, other *ring.Desc, cas bool) {
		ev := ringEvent{R: r + 1, Cas: cas, Now: abs.UnixToTs(time.Now().Unix())}
		var problems []string
		ev.Mine, problems = abs.ProjectDesc(replicas[r], n, emb)
		ev.Other = projectRaw(other, n, emb)
		ch, err, pan := safeMerge(replicas[r], other, cas)
		if pan != "" || err != nil {
			dr.res.Mismatch(abs.Mismatch{Sig: "ring:trace panic-or-error", Case: ev, Got: fmt.Sprint(pan, err), Want: "no panic, no error"})
			return
		}
		var p2, p3 []string
		ev.Result, p2 = abs.ProjectDesc(replicas[r], n, emb)
		ev.Nil = abs.IsNilMergeable(ch)
		ev.Change = make(abs.MDesc, n)
		for k := range ev.Change {
			ev.Change[k] = abs.MEntry{State: "ABSENT", Toks: []int{}}
		}
		if !ev.Nil {
			chd := ch.(*ring.Desc)
			ev.Change, p3 = abs.ProjectDesc(chd, n, emb)
			msgs = append(msgs, viaCodec(chd))
		}
		if problems = append(append(problems, p2...), p3...); len(problems) > 0 {
			dr.res.Mismatch(abs.Mismatch{Sig: "ring:trace receiver-or-change-not-normalised", Case: ev, Got: problems, Want: "sorted duplicate-free token lists"})
		}
		if corrupt > 0 && w.N+1 == corrupt {
			ev.Result[0].Ts += 1 // self-test: one corrupted logged field must make the validator reject
		}
		if err := w.Write(ev); err != nil {
			dr.res.Fatal = err.Error()
		}
	}
	for s := 0; s < steps && dr.res.Fatal == ""; s++ {
		switch c := rnd.Intn(100); {
		case c < 8:
			if now < maxNow {
				now++
				abs.SleepUntil(now)
			}
		case c < 45: // a fresh update from some peer
			u := make(abs.MDesc, n)
			for k := range u {
				u[k] = abs.MEntry{State: "ABSENT", Toks: []int{}}
			}
			for c := 1 + rnd.Intn(3); c > 0; c-- {
				k := rnd.Intn(n)
				u[k] = randEntry(k, recentTs())
			}
			deliver(rnd.Intn(nrep), abs.BuildDesc(u, abs.RingBuild{Emb: emb, Rnd: rnd, Tag: "u"}), false)
		case c < 68: // an earlier change is delivered (again, late, to anybody)
			if len(msgs) > 0 {
				deliver(rnd.Intn(nrep), viaCodec(msgs[rnd.Intn(len(msgs))]), false)
			}
		case c < 78: // full state push
			a, b := rnd.Intn(nrep), rnd.Intn(nrep)
			if a != b {
				deliver(b, viaCodec(replicas[a]), false)
			}
		default: // local CAS: the visible content with a few entries rewritten / removed
			r := rnd.Intn(nrep)
			out := viaCodec(replicas[r])
			out.RemoveTombstones(time.Time{})
			for c := 1 + rnd.Intn(2); c > 0; c-- {
				k := rnd.Intn(n)
				id := abs.MergeID(k+1, n)
				if _, ok := out.Ingesters[id]; ok && rnd.Intn(2) == 0 {
					out.RemoveIngester(id)
					continue
				}
				one := make(abs.MDesc, n)
				for j := range one {
					one[j] = abs.MEntry{State: "ABSENT", Toks: []int{}}
				}
				one[k] = randEntry(k, now)
				out.Ingesters[id] = abs.BuildDesc(one, abs.RingBuild{Emb: emb, Rnd: rnd, Tag: "cas"}).Ingesters[id]
			}
			deliver(r, out, true)
		}
	}
	dr.res.AddExtra("ring_trace_events", w.N)
}

// ------------------------------------------------------------------------------------------- partition ring

type partEvent struct {
	R      int       `json:"r"`
	Mine   abs.PDesc `json:"mine"`
	Other  abs.PDesc `json:"other"`
	Cas    bool      `json:"cas"`
	Now    int       `json:"now"`
	Result abs.PDesc `json:"result"`
	Nil    bool      `json:"nil"`
	Change abs.PDesc `json:"change"`
}

var pstates = []string{"Pending", "Active", "Inactive", "Deleted", "Active", "Active"}

func recordPart(dr *driver, dir string) {
	np := abs.EnvInt("VERIF_TNP", 8)
	no := abs.EnvInt("VERIF_TNO", 6)
	steps := abs.EnvInt("VERIF_TSTEPS", 400)
	maxNow := abs.EnvInt("VERIF_TMAXNOW", 6)
	const nrep = 3
	rnd := rand.New(rand.NewSource(abs.Seed()*104729 + 13))
	w, err := abs.NewNDJSONWriter(filepath.Join(dir, "part_trace.ndjson"))
	if err != nil {
		dr.res.Fatal = err.Error()
		return
	}
	defer w.Close()
	replicas := make([]*ring.PartitionRingDesc, nrep)
	for i := range replicas {
		replicas[i] = ring.NewPartitionRingDesc()
	}
	var msgs []*ring.PartitionRingDesc
	now := 1
	abs.SleepUntil(now)
	recentTs := func() int {
		ts := now - rnd.Intn(3)
		if ts < 0 || rnd.Intn(40) == 0 {
			ts = 0
		}
		return ts
	}
	empty := func() abs.PDesc {
		d := abs.PDesc{Parts: make([]abs.PEntry, np), Owners: make([]abs.OEntry, no)}
		for k := range d.Parts {
			d.Parts[k].State = "ABSENT"
		}
		for k := range d.Owners {
			d.Owners[k].State = "ABSENT"
		}
		return d
	}
	deliver := func(r int, other *ring.PartitionRingDesc, cas bool) {
		ev := partEvent{R: r + 1, Cas: cas, Now: abs.UnixToTs(time.Now().Unix())}
		var p1, p2, p3, p4 []string
		ev.Mine, _, p1 = abs.ProjectPDesc(replicas[r], np, no)
		ev.Other, _, p2 = abs.ProjectPDesc(other, np, no)
		ch, err, pan := safeMerge(replicas[r], other, cas)
		if pan != "" || err != nil {
			dr.res.Mismatch(abs.Mismatch{Sig: "part:trace panic-or-error", Case: ev, Got: fmt.Sprint(pan, err), Want: "no panic, no error"})
			return
		}
		ev.Result, _, p3 = abs.ProjectPDesc(replicas[r], np, no)
		ev.Nil = abs.IsNilMergeable(ch)
		ev.Change = empty()
		if !ev.Nil {
			chd := ch.(*ring.PartitionRingDesc)
			ev.Change, _, p4 = abs.ProjectPDesc(chd, np, no)
			msgs = append(msgs, pViaCodec(chd))
		}
		if problems := append(append(append(p1, p2...), p3...), p4...); len(problems) > 0 {
			dr.res.Mismatch(abs.Mismatch{Sig: "part:trace malformed descriptor", Case: ev, Got: problems, Want: "well-formed descriptor"})
		}
		if corrupt > 0 && w.N+1 == corrupt {
			ev.Nil = !ev.Nil
		}
		if err := w.Write(ev); err != nil {
			dr.res.Fatal = err.Error()
		}
	}
	for s := 0; s < steps && dr.res.Fatal == ""; s++ {
		switch c := rnd.Intn(100); {
		case c < 8:
			if now < maxNow {
				now++
				abs.SleepUntil(now)
			}
		case c < 45:
			u := empty()
			for c := 1 + rnd.Intn(3); c > 0; c-- {
				if rnd.Intn(2) == 0 && np > 0 {
					lts := recentTs()
					u.Parts[rnd.Intn(np)] = abs.PEntry{State: pstates[rnd.Intn(len(pstates))], Sts: recentTs(), Locked: rnd.Intn(2) == 0 && lts > 0, Lts: lts}
				} else if no > 0 {
					st := "Active"
					if rnd.Intn(4) == 0 {
						st = "Deleted"
					}
					u.Owners[rnd.Intn(no)] = abs.OEntry{State: st, Ts: recentTs(), Part: 1 + rnd.Intn(np)}
				}
			}
			deliver(rnd.Intn(nrep), abs.BuildPDesc(u, tagMine), false)
		case c < 68:
			if len(msgs) > 0 {
				deliver(rnd.Intn(nrep), pViaCodec(msgs[rnd.Intn(len(msgs))]), false)
			}
		case c < 78:
			a, b := rnd.Intn(nrep), rnd.Intn(nrep)
			if a != b {
				deliver(b, pViaCodec(replicas[a]), false)
			}
		default: // local CAS through the descriptor's own mutators
			r := rnd.Intn(nrep)
			out := pViaCodec(replicas[r])
			out.RemoveTombstones(time.Time{})
			for c := 1 + rnd.Intn(2); c > 0; c-- {
				p := int32(1 + rnd.Intn(np))
				oid := abs.OwnerID(1+rnd.Intn(no), no)
				switch rnd.Intn(6) {
				case 0:
					if !out.HasPartition(p) {
						out.Partitions[p] = ring.PartitionDesc{Id: p, Tokens: abs.PartTokens(int(p), tagMine), State: ring.PartitionPending, StateTimestamp: time.Now().Unix()}
					}
				case 1:
					_, _ = out.UpdatePartitionState(p, abs.PStateOf(pstates[rnd.Intn(3)]), time.Now())
				case 2:
					out.UpdatePartitionStateChangeLock(p, rnd.Intn(2) == 0, time.Now())
				case 3:
					out.RemovePartition(p)
				case 4:
					out.AddOrUpdateOwner(oid, ring.OwnerActive, p, time.Now())
				case 5:
					out.RemoveOwner(oid)
				}
			}
			deliver(r, out, true)
		}
	}
	dr.res.AddExtra("part_trace_events", w.N)
}
