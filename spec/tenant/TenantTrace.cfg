\* C20 trace validation: see TenantTrace.tla. The universe constants of Tenant.tla are unused.
CONSTANTS
  NChunks = 32
  Alphabet = {}
  MaxShort = 0
  RunBytes = {}
  RunCounts = {}
  SepBytes = {}
  MaxSegs = 0
  Pool <- PoolQuick
  MaxParts = 0
  MetaAlphabet = {}
  MaxMeta = 0
  MetaRuns = {}
INIT TInit
NEXT TNext
INVARIANTS TypeOK ValidIsDocumentedRule NoSeparatorInAccepted ResolversAgree MultiIsNormalised
           MetadataIgnoredConsistently SplitJoin MetaGrammar MetaOps NoOrgIsRefused Agrees
CHECK_DEADLOCK FALSE
