CONSTANTS
  N = 4
  MaxTok = 2
  MaxM = 5
  Z = 2
  MaxSize = 5
  MaxEvents = 0
  ZaModes = {TRUE, FALSE}
  FullMem = TRUE
  MaxRO0 = 4
INIT Init
NEXT Next
VIEW View
INVARIANTS NeverInconsistentPair
CHECK_DEADLOCK FALSE
