CONSTANTS
  Modes = {"route", "repl", "multi"}
  NK = 7
  Gaps = {3}
  NRoute = 4
  MaxTok = 2
  NRepl = 2
  NOwnRepl = 3
  StatesRepl = {"ACTIVE", "LEAVING", "JOINING"}
  AgesRepl = {1, 2, 3}
  NMulti = 1
  NOwnMulti = 3
  StatesMulti = {"ACTIVE", "LEAVING"}
  AgesMulti = {2, 3}
  IdxMulti = {1, 2}
  T = 2
INIT Init
NEXT Next
INVARIANTS RoutingTotal SnapshotSound ReplExact MultiSound Emit
CHECK_DEADLOCK FALSE
