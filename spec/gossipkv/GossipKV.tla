------------------------------ MODULE GossipKV ------------------------------
(***************************************************************************)
(* C04 / C06 - the gossiping memberlist KV (kv/memberlist) carrying ring   *)
(* descriptors (ring/model.go), one key.                                   *)
(*                                                                         *)
(* Structured like memberlist_client.go: one action per critical section   *)
(* the harness can separate (the harness IS the network):                  *)
(*   Tick                       virtual clock, 1 s                         *)
(*   Cas(n,f)                   KV.CAS -> trySingleCas -> mergeValueForKey *)
(*                              (localCAS) -> notifyWatchers ->            *)
(*                              broadcastNewValue(localBroadcasts)         *)
(*   Gossip(n)                  GetBroadcasts (local queue first)          *)
(*   Deliver(p,n)               NotifyMsg -> per-key worker ->             *)
(*                              processValueUpdate -> mergeValueForKey ->  *)
(*                              notify -> re-broadcast of the change only  *)
(*   DeliverGarbage(p,n,k)      NotifyMsg of a truncated / bit-flipped /   *)
(*                              unknown-codec / empty-key packet           *)
(*   PushPull(a,b,junk)         LocalState both sides, MergeRemoteState    *)
(*                              both sides (junk: an unknown-codec pair is *)
(*                              put in front of each buffer)               *)
(*   WatcherArm/WatcherRelease  a WatchKey callback that blocks / returns  *)
(*   Partition/Heal/Restart     adversary                                  *)
(* `sent` is the set of all packets ever taken out of any node: never      *)
(* shrinking (ConsumeNet = FALSE), so any earlier message can reach any    *)
(* node at any later time, any number of times, in any order.              *)
(*                                                                         *)
(* Value domain: ring descriptors restricted to entries without token      *)
(* conflicts (every instance id has its own tokens), so Merge is entry-    *)
(* wise: newest timestamp wins, LEFT wins ties, a local CAS turns entries  *)
(* missing from the new value into LEFT tombstones stamped `clock`.        *)
(***************************************************************************)
EXTENDS Integers, FiniteSets, Sequences, TLC, Json

CONSTANTS
  N,              \* nodes 1..N
  NI,             \* instance ids 1..NI
  MaxClock,       \* clock runs 0..MaxClock
  Retention,      \* LeftIngestersTimeout in seconds; 0 = tombstones are never collected
  T,              \* transmissions per queued broadcast (RetransmitMult * ceil(log10(N+1)))
  MaxCas,         \* bound on CAS calls
  MaxFaults,      \* bound on adversary actions (garbage, junk push/pull, partition, restart, duplicates)
  LiveStates,     \* states a live entry may be set to, e.g. {"ACTIVE","LEAVING"}
  WatchNodes,     \* nodes with a registered WatchKey watcher
  HoldNodes,      \* watchers whose callback may block (subset of WatchNodes)
  AllowRestart, AllowGarbage, AllowPartition, AllowJunkPP,
  ConsumeNet,     \* TRUE: a delivered packet leaves the network unless the adversary pays for a duplicate
  Ideal,          \* TRUE: what the property demands (= the code since the fix of finding F7); FALSE: the code before that fix
  Ghost,          \* maintain the ghost variables inval / written / fwd
  Record,         \* maintain hist (behaviour generation)
  Quiesce,        \* run phase is followed by the deterministic quiescence suffix
  RunDepth,       \* length of the run phase when Quiesce
  QRounds         \* all-pairs push/pull rounds in the suffix

ASSUME HoldNodes \subseteq WatchNodes /\ WatchNodes \subseteq 1..N

Node == 1..N
Inst == 1..NI
LEFT == "LEFT"
Absent == [ts |-> -1, st |-> "ABSENT"]
Entry  == [ts : 0..MaxClock, st : LiveStates \cup {LEFT}]
Desc   == [Inst -> Entry \cup {Absent}]
Empty  == TLCEval([i \in Inst |-> Absent])
Ids(d) == {i \in Inst : d[i] # Absent}
Strip(d) == TLCEval([i \in Inst |-> IF d[i].st = LEFT THEN Absent ELSE d[i]])
NoLeft(d) == \A i \in Inst : d[i].st # LEFT

VARIABLES
  clock,
  store,     \* store[n] = [val : Desc (tombstones included), ver : Nat]; ver = 0 <=> key not in the store
  queueL,    \* queueL[n] : set of [chg : Desc, ver : Nat, left : 1..T]   (localBroadcasts)
  queueG,    \* queueG[n] : same                                           (gossipBroadcasts)
  watch,     \* watch[n] = [called, last, armed, held, pending]
  sent,      \* packets (changes) taken out of the nodes by GetBroadcasts
  cut,       \* isolated nodes
  ncas, nfault,
  phase, qidx,
  inval,     \* ghost: [o, b] pairs - broadcast o was invalidated by b in the last step
  fwd,       \* ghost: [n, chg, local] - broadcasts queued in the last step
  written,   \* ghost: <<i, entry>> ever produced by a CAS
  hist       \* behaviour so far (Record)

vars == <<clock, store, queueL, queueG, watch, sent, cut, ncas, nfault, phase, qidx, inval, fwd, written, hist>>
(* The exhaustive configurations identify states that differ only in the ghosts inval/fwd, in hist, and *)
(* in version numbers: a version is only ever compared by Invalidates(b, o) with b the broadcast being  *)
(* queued, whose version is larger than every queued one (VersionCountsChanges, TypeOK), so versions do *)
(* not influence any other variable.                                                                    *)
NoVer(q) == {[chg |-> b.chg, left |-> b.left] : b \in q}
view == <<clock, [n \in Node |-> <<store[n].val, store[n].ver > 0, NoVer(queueL[n]), NoVer(queueG[n])>>],
          watch, sent, cut, ncas, nfault, phase, qidx, written>>

-----------------------------------------------------------------------------
(* TLC re-evaluates LET-bound expressions at every use; values that are used more than once are *)
(* therefore bound through a singleton set (evaluated once).                                     *)
Only(S) == CHOOSE x \in S : TRUE

(* ring.Desc.mergeWithTime, entries without token conflicts: per entry [r = resulting entry, u = updated] *)
EntryMerge(me, ot, cas, now) ==
  IF /\ ot # Absent
     /\ \/ me = Absent
        \/ ot.ts > me.ts
        \/ ot.ts = me.ts /\ me.st # LEFT /\ ot.st = LEFT
  THEN [r |-> ot, u |-> TRUE]
  ELSE IF cas /\ ot = Absent /\ me # Absent /\ me.st # LEFT
       THEN [r |-> [ts |-> now, st |-> LEFT], u |-> TRUE]      \* missing from a local CAS result: tombstone stamped now
       ELSE [r |-> me, u |-> FALSE]
Merge(mine, other, cas, now) ==
  Only({ [result |-> TLCEval([i \in Inst |-> pe[i].r]),
          change |-> TLCEval([i \in Inst |-> IF pe[i].u THEN pe[i].r ELSE Absent])]
         : pe \in {TLCEval([i \in Inst |-> EntryMerge(mine[i], other[i], cas, now)])} })

(* Desc.RemoveTombstones(now - Retention): strictly older than the limit *)
Expired(e, now) == Retention > 0 /\ e.st = LEFT /\ e.ts < now - Retention
GCd(d, now) == TLCEval([i \in Inst |-> IF Expired(d[i], now) THEN Absent ELSE d[i]])

(* KV.mergeValueForKey (Deleted flag not modelled).  Returns the new store cell, the change to *)
(* broadcast (Empty = none), whether watchers are notified, and whether this was the path on   *)
(* which everything that came in was an expired tombstone (finding F7).                        *)
MVBody(s, m, r, c) ==
  LET no  == [st |-> s, chg |-> Empty, changed |-> FALSE, silent |-> "-"]
      \* everything that came in was an expired tombstone: Merge has already applied it to the stored value in
      \* place and RemoveTombstones has collected it again (together with every other expired tombstone)
      tag == IF Ids(c) # {} THEN "-" ELSE IF Strip(r) # Strip(s.val) THEN "silentgc" ELSE "quietgc"
  IN IF Ids(m.change) = {} THEN no
     ELSE IF Ideal \/ Ids(c) # {}
          THEN \* Merge reported a change: new version, watchers notified, the post-collection change (if any) gossiped
               [st |-> [val |-> r, ver |-> s.ver + 1], chg |-> c, changed |-> TRUE, silent |-> tag]
          ELSE \* finding F7, the code before its fix: "no change" is returned although the stored value was edited
               \* in place - a live entry can vanish from readers without version bump or notification
               IF s.ver = 0 THEN no
               ELSE [st |-> [val |-> r, ver |-> s.ver], chg |-> Empty, changed |-> FALSE, silent |-> tag]
MV(s, inc, cas, now) ==
  Only({ Only({ MVBody(s, m, rc[1], rc[2]) : rc \in {<<GCd(m.result, now), GCd(m.change, now)>>} })
         : m \in {IF s.ver = 0 THEN [result |-> inc, change |-> inc] ELSE Merge(s.val, inc, cas, now)} })

ReadOf(s) == Strip(s.val)          \* KV.get: clone + RemoveTombstones(zero time); nil and empty coincide
Read(n)   == ReadOf(store[n])

(* ringBroadcast.Invalidates / TransmitLimitedQueue.QueueBroadcast *)
Invalidates(b, o) == Ids(o.chg) \subseteq Ids(b.chg) /\ b.ver >= o.ver
Enq(q, b)    == {o \in q : ~Invalidates(b, o)} \cup {b}
Killed(q, b) == {o \in q : Invalidates(b, o)}

(* notifyWatchersSync + the WatchKey loop with its capacity-1 channel *)
Notify(w, rd) == IF w.held THEN [w EXCEPT !.pending = TRUE]
                 ELSE IF w.armed THEN [w EXCEPT !.called = TRUE, !.last = rd, !.armed = FALSE, !.held = TRUE]
                 ELSE [w EXCEPT !.called = TRUE, !.last = rd]
W0 == [called |-> FALSE, last |-> Empty, armed |-> FALSE, held |-> FALSE, pending |-> FALSE]

(* the functions handed to CAS *)
Fn == [op : {"hb", "rm"}, i : Inst, s : {"-"}] \cup [op : {"set"}, i : Inst, s : LiveStates]
Apply(f, in, now) ==
  CASE f.op = "hb"  -> [ok |-> TRUE, d |-> [in EXCEPT ![f.i] = IF in[f.i] = Absent THEN [ts |-> now, st |-> "ACTIVE"]
                                                                 ELSE [ts |-> now, st |-> in[f.i].st]]]
    [] f.op = "set" -> IF in[f.i] = Absent THEN [ok |-> FALSE, d |-> in]
                       ELSE [ok |-> TRUE, d |-> [in EXCEPT ![f.i] = [ts |-> now, st |-> f.s]]]
    [] f.op = "rm"  -> [ok |-> TRUE, d |-> [in EXCEPT ![f.i] = Absent]]

-----------------------------------------------------------------------------
(* effect of one merge result r on node n *)
After(n, r, local) ==
  LET b == [chg |-> r.chg, ver |-> r.st.ver, left |-> T]
      q == Ids(r.chg) # {}
  IN TLCEval([st |-> r.st,
      w  |-> IF r.changed /\ n \in WatchNodes THEN Notify(watch[n], ReadOf(r.st)) ELSE watch[n],
      ql |-> IF q /\ local THEN Enq(queueL[n], b) ELSE queueL[n],
      qg |-> IF q /\ ~local THEN Enq(queueG[n], b) ELSE queueG[n],
      kill |-> IF ~q THEN {} ELSE {[o |-> o.chg, b |-> r.chg] : o \in Killed(IF local THEN queueL[n] ELSE queueG[n], b)},
      fwd  |-> IF q THEN {[n |-> n, chg |-> r.chg, local |-> local]} ELSE {}])

Proj(st, ql, qg, w, clk) ==
  [clock |-> clk,
   nodes |-> [n \in Node |-> [val |-> st[n].val, ver |-> st[n].ver, read |-> ReadOf(st[n]),
                               ql |-> Cardinality(ql[n]), qg |-> Cardinality(qg[n]),
                               called |-> w[n].called, last |-> w[n].last, held |-> w[n].held, pending |-> w[n].pending]]]

R0 == [a |-> "", n |-> 0, m |-> 0, f |-> [op |-> "-", i |-> 0, s |-> "-"], p |-> Empty, k |-> "-",
       out |-> {}, res |-> "-", note |-> "-"]

Log(rec) == hist' = IF Record THEN Append(hist, rec @@ [post |-> Proj(store', queueL', queueG', watch', clock')]) ELSE hist
GhostStep(k, fw) == /\ inval' = IF Ghost THEN k ELSE {}
                    /\ fwd'   = IF Ghost THEN fw ELSE {}
NoGhost == GhostStep({}, {})

-----------------------------------------------------------------------------
Init ==
  /\ clock = 0
  /\ store  = [n \in Node |-> [val |-> Empty, ver |-> 0]]
  /\ queueL = [n \in Node |-> {}]
  /\ queueG = [n \in Node |-> {}]
  /\ watch  = [n \in Node |-> W0]
  /\ sent = {}
  /\ cut = {}
  /\ ncas = 0 /\ nfault = 0
  /\ phase = "run" /\ qidx = 1
  /\ inval = {} /\ fwd = {} /\ written = {}
  /\ hist = <<>>

Tick ==
  /\ clock < MaxClock
  /\ clock' = clock + 1
  /\ UNCHANGED <<store, queueL, queueG, watch, sent, cut, ncas, nfault, phase, qidx, written>>
  /\ NoGhost
  /\ Log([R0 EXCEPT !.a = "Tick"])

(* Workload proviso (the one of C03): an instance's entry never gets two different live contents  *)
(* with the same timestamp - in dskit an entry is written by its own lifecycler only, and a second *)
(* write within the same second is "no change".  Removals are exempt (LEFT wins ties).             *)
OneContentPerSecond(chg) ==
  \A i \in Ids(chg) : \A w \in written :
     (w[1] = i /\ w[2].ts = chg[i].ts /\ w[2].st # LEFT /\ chg[i].st # LEFT) => w[2] = chg[i]

Cas(n, f) ==
  /\ ncas < MaxCas
  /\ ncas' = ncas + 1
  /\ \E ap \in {Apply(f, Read(n), clock)} :
     \E r \in {MV(store[n], ap.d, store[n].ver > 0, clock)} :
     \E x \in {After(n, r, TRUE)} :
     LET res == IF ~ap.ok THEN "nil" ELSE IF r.changed THEN "ok" ELSE "nochange"
     IN /\ OneContentPerSecond(r.chg)
        /\ IF ap.ok /\ r.changed
           THEN /\ store'  = [store  EXCEPT ![n] = x.st]
                /\ watch'  = [watch  EXCEPT ![n] = x.w]
                /\ queueL' = [queueL EXCEPT ![n] = x.ql]
                /\ UNCHANGED queueG
                /\ GhostStep(x.kill, x.fwd)
                /\ written' = written \cup {<<i, r.chg[i]>> : i \in Ids(r.chg)}
                /\ UNCHANGED <<clock, sent, cut, nfault, phase, qidx>>
                /\ Log([R0 EXCEPT !.a = "Cas", !.n = n, !.f = f, !.res = res, !.p = r.chg])
           ELSE \* f returned nil, or Merge saw no change: CAS sleeps 1 s and retries; the caller gives up
                /\ UNCHANGED <<clock, store, queueL, queueG, watch, sent, cut, nfault, phase, qidx, written>>
                /\ NoGhost
                /\ Log([R0 EXCEPT !.a = "Cas", !.n = n, !.f = f, !.res = res])

Dec(q) == {[b EXCEPT !.left = b.left - 1] : b \in {x \in q : x.left > 1}}

Gossip(n) ==
  /\ queueL[n] \cup queueG[n] # {}
  /\ LET out == {b.chg : b \in queueL[n] \cup queueG[n]} IN
       /\ sent' = IF n \in cut THEN sent ELSE sent \cup out      \* an isolated node's packets are lost
       /\ queueL' = [queueL EXCEPT ![n] = Dec(queueL[n])]
       /\ queueG' = [queueG EXCEPT ![n] = Dec(queueG[n])]
       /\ UNCHANGED <<clock, store, watch, cut, ncas, nfault, phase, qidx, written>>
       /\ NoGhost
       /\ Log([R0 EXCEPT !.a = "Gossip", !.n = n, !.out = out, !.res = IF n \in cut THEN "lost" ELSE "kept"])

Deliver(p, n, keep) ==
  /\ p \in sent
  /\ n \notin cut
  /\ IF ConsumeNet
       THEN IF keep THEN nfault < MaxFaults /\ nfault' = nfault + 1 /\ sent' = sent
                    ELSE nfault' = nfault /\ sent' = sent \ {p}
       ELSE ~keep /\ nfault' = nfault /\ sent' = sent
  /\ \E r \in {MV(store[n], p, FALSE, clock)} :
     \E x \in {After(n, r, FALSE)} :
        /\ store'  = [store  EXCEPT ![n] = x.st]
        /\ watch'  = [watch  EXCEPT ![n] = x.w]
        /\ queueG' = [queueG EXCEPT ![n] = x.qg]
        /\ UNCHANGED <<clock, queueL, cut, ncas, phase, qidx, written>>
        /\ GhostStep(x.kill, x.fwd)
        /\ Log([R0 EXCEPT !.a = "Deliver", !.n = n, !.p = p,
                          !.res = IF r.changed THEN "ok" ELSE "nochange",
                          !.note = r.silent])

GarbageKinds == {"truncated", "bitflip", "badcodec", "emptykey"}
DeliverGarbage(p, n, k) ==
  /\ AllowGarbage /\ nfault < MaxFaults
  /\ p \in sent /\ n \notin cut
  /\ nfault' = nfault + 1
  /\ UNCHANGED <<clock, store, queueL, queueG, watch, sent, cut, ncas, phase, qidx, written>>
  /\ NoGhost
  /\ Log([R0 EXCEPT !.a = "Garbage", !.n = n, !.p = p, !.k = k])

(* memberlist push/pull: both sides take LocalState first, then both merge *)
PPStep(a, b, junk, name) ==
  /\ UNCHANGED <<clock, queueL, sent, cut, ncas, written>>
  /\ \E ra \in {IF store[b].ver = 0 THEN MV(store[a], Empty, FALSE, clock) ELSE MV(store[a], store[b].val, FALSE, clock)} :
     \E rb \in {IF store[a].ver = 0 THEN MV(store[b], Empty, FALSE, clock) ELSE MV(store[b], store[a].val, FALSE, clock)} :
     \E xa \in {After(a, ra, FALSE)} :
     \E xb \in {After(b, rb, FALSE)} :
        /\ store'  = [store  EXCEPT ![a] = xa.st, ![b] = xb.st]
        /\ watch'  = [watch  EXCEPT ![a] = xa.w,  ![b] = xb.w]
        /\ queueG' = [queueG EXCEPT ![a] = xa.qg, ![b] = xb.qg]
        /\ GhostStep(xa.kill \cup xb.kill, xa.fwd \cup xb.fwd)
        /\ Log([R0 EXCEPT !.a = name, !.n = a, !.m = b, !.k = IF junk THEN "junk" ELSE "-",
                          !.note = IF "silentgc" \in {ra.silent, rb.silent} THEN "silentgc" ELSE IF "quietgc" \in {ra.silent, rb.silent} THEN "quietgc" ELSE "-"])

PushPull(a, b, junk) ==
  /\ a < b /\ a \notin cut /\ b \notin cut
  /\ IF junk THEN AllowJunkPP /\ nfault < MaxFaults /\ nfault' = nfault + 1 ELSE nfault' = nfault
  /\ PPStep(a, b, junk, "PushPull")
  /\ UNCHANGED <<phase, qidx>>

WatcherArm(n) ==
  /\ n \in HoldNodes /\ ~watch[n].held /\ ~watch[n].armed
  /\ watch' = [watch EXCEPT ![n].armed = TRUE]
  /\ UNCHANGED <<clock, store, queueL, queueG, sent, cut, ncas, nfault, phase, qidx, written>>
  /\ NoGhost
  /\ Log([R0 EXCEPT !.a = "Arm", !.n = n])

Released(n) == IF watch[n].pending
               THEN [watch[n] EXCEPT !.held = FALSE, !.pending = FALSE, !.last = Read(n)]
               ELSE [watch[n] EXCEPT !.held = FALSE]
WatcherRelease(n) ==
  /\ watch[n].held
  /\ watch' = [watch EXCEPT ![n] = Released(n)]
  /\ UNCHANGED <<clock, store, queueL, queueG, sent, cut, ncas, nfault, phase, qidx, written>>
  /\ NoGhost
  /\ Log([R0 EXCEPT !.a = "Release", !.n = n])

Partition(S) ==
  /\ AllowPartition /\ nfault < MaxFaults /\ cut = {} /\ S # {} /\ S # Node
  /\ cut' = S /\ nfault' = nfault + 1
  /\ UNCHANGED <<clock, store, queueL, queueG, watch, sent, ncas, phase, qidx, written>>
  /\ NoGhost
  /\ Log([R0 EXCEPT !.a = "Partition", !.out = S])

Heal ==
  /\ cut # {}
  /\ cut' = {}
  /\ UNCHANGED <<clock, store, queueL, queueG, watch, sent, ncas, nfault, phase, qidx, written>>
  /\ NoGhost
  /\ Log([R0 EXCEPT !.a = "Heal"])

Restart(n) ==
  /\ AllowRestart /\ nfault < MaxFaults
  /\ nfault' = nfault + 1
  /\ store'  = [store  EXCEPT ![n] = [val |-> Empty, ver |-> 0]]
  /\ queueL' = [queueL EXCEPT ![n] = {}]
  /\ queueG' = [queueG EXCEPT ![n] = {}]
  /\ watch'  = [watch  EXCEPT ![n] = W0]
  /\ UNCHANGED <<clock, sent, cut, ncas, phase, qidx, written>>
  /\ NoGhost
  /\ Log([R0 EXCEPT !.a = "Restart", !.n = n])

-----------------------------------------------------------------------------
(* Quiescence suffix: heal, QRounds rounds of all-pairs push/pull, release every watcher. *)
AllPairs == [k \in 1..(N * N) |-> <<((k - 1) \div N) + 1, ((k - 1) % N) + 1>>]
PairSeq  == SelectSeq(AllPairs, LAMBDA pr : pr[1] < pr[2])
RECURSIVE Rep(_, _)
Rep(s, k) == IF k = 0 THEN <<>> ELSE s \o Rep(s, k - 1)
QPlan == <<<<"heal", 0, 0>>>> \o Rep([k \in 1..Len(PairSeq) |-> <<"pp", PairSeq[k][1], PairSeq[k][2]>>], QRounds)
         \o [n \in 1..N |-> <<"rel", n, 0>>]

StartQuiesce ==
  /\ Quiesce /\ phase = "run" /\ Len(hist) >= RunDepth
  /\ phase' = "quiesce"
  /\ UNCHANGED <<clock, store, queueL, queueG, watch, sent, cut, ncas, nfault, qidx, written, hist>>
  /\ NoGhost

QStep ==
  /\ phase = "quiesce"
  /\ IF qidx > Len(QPlan)
       THEN /\ phase' = "done"
            /\ UNCHANGED <<clock, store, queueL, queueG, watch, sent, cut, ncas, nfault, qidx, written, hist>>
            /\ NoGhost
       ELSE LET s == QPlan[qidx] IN
            /\ qidx' = qidx + 1
            /\ phase' = phase
            /\ CASE s[1] = "heal" /\ cut # {} ->
                      /\ cut' = {}
                      /\ UNCHANGED <<clock, store, queueL, queueG, watch, sent, ncas, nfault, written>>
                      /\ NoGhost
                      /\ Log([R0 EXCEPT !.a = "Heal"])
                 [] s[1] = "pp" /\ cut = {} ->
                      /\ PPStep(s[2], s[3], FALSE, "PushPull")
                      /\ UNCHANGED nfault
                 [] s[1] = "rel" /\ watch[s[2]].held ->
                      /\ watch' = [watch EXCEPT ![s[2]] = Released(s[2])]
                      /\ UNCHANGED <<clock, store, queueL, queueG, sent, cut, ncas, nfault, written>>
                      /\ NoGhost
                      /\ Log([R0 EXCEPT !.a = "Release", !.n = s[2]])
                 [] OTHER ->
                      /\ UNCHANGED <<clock, store, queueL, queueG, watch, sent, cut, ncas, nfault, written, hist>>
                      /\ NoGhost

RunG == phase = "run" /\ (~Quiesce \/ Len(hist) < RunDepth)
(* one named disjunct per action so that TLC's coverage report lists every action separately *)
ATick      == RunG /\ Tick
ACas       == RunG /\ \E n \in Node, f \in Fn : Cas(n, f)
AGossip    == RunG /\ \E n \in Node : Gossip(n)
ADeliver   == RunG /\ \E p \in sent, n \in Node, keep \in BOOLEAN : Deliver(p, n, keep)
AGarbage   == RunG /\ \E p \in sent, n \in Node, k \in GarbageKinds : DeliverGarbage(p, n, k)
APushPull  == RunG /\ \E a, b \in Node, junk \in BOOLEAN : PushPull(a, b, junk)
AArm       == RunG /\ \E n \in Node : WatcherArm(n)
ARelease   == RunG /\ \E n \in Node : WatcherRelease(n)
ARestart   == RunG /\ \E n \in Node : Restart(n)
APartition == RunG /\ \E S \in SUBSET Node : Partition(S)
AHeal      == RunG /\ Heal
Next == \/ ATick \/ ACas \/ AGossip \/ ADeliver \/ AGarbage \/ APushPull \/ AArm \/ ARelease \/ ARestart \/ APartition \/ AHeal
        \/ StartQuiesce
        \/ QStep

Spec == Init /\ [][Next]_vars

(* Behaviour generation (-simulate): the parameters of every action are drawn with RandomElement, *)
(* so that one step costs one successor instead of the whole fan-out.                             *)
RE(S) == RandomElement(S)
RunOK == phase = "run" /\ Len(hist) < RunDepth
OpMix == <<"hb", "hb", "rm", "rm", "set">>
MkFn(k, i, st) == IF OpMix[k] = "set" THEN [op |-> "set", i |-> i, s |-> st] ELSE [op |-> OpMix[k], i |-> i, s |-> "-"]
SimNext ==
  \/ RunOK /\ Tick
  \/ RunOK /\ sent # {} /\ \E p \in {RE(sent)}, n \in {RE(Node)} : Deliver(p, n, FALSE)
  \/ RunOK /\ sent # {} /\ \E p \in {RE(sent)}, n \in {RE(Node)} : Deliver(p, n, FALSE)
  \/ RunOK /\ sent # {} /\ \E p \in {RE(sent)}, n \in {RE(Node)} : Deliver(p, n, FALSE)
  \/ RunOK /\ sent # {} /\ \E p \in {RE(sent)}, n \in {RE(Node)} : Deliver(p, n, FALSE)
  \/ RunOK /\ sent # {} /\ \E p \in {RE(sent)}, n \in {RE(Node)}, k \in {RE(GarbageKinds)} : DeliverGarbage(p, n, k)
  \/ RunOK /\ \E n \in {RE(Node)} : Gossip(n)
  \/ RunOK /\ \E n \in {RE(Node)} : Gossip(n)
  \/ RunOK /\ \E n \in {RE(Node)}, k \in {RE(1..Len(OpMix))}, i \in {RE(Inst)}, st \in {RE(LiveStates)} : Cas(n, MkFn(k, i, st))
  \/ RunOK /\ \E n \in {RE(Node)}, k \in {RE(1..Len(OpMix))}, i \in {RE(Inst)}, st \in {RE(LiveStates)} : Cas(n, MkFn(k, i, st))
  \/ RunOK /\ \E pr \in {RE({x \in Node \X Node : x[1] < x[2]})} : PushPull(pr[1], pr[2], FALSE)
  \/ RunOK /\ \E pr \in {RE({x \in Node \X Node : x[1] < x[2]})} : PushPull(pr[1], pr[2], TRUE)
  \/ RunOK /\ \E n \in {RE(Node)} : WatcherArm(n) \/ WatcherRelease(n)
  \/ RunOK /\ \E n \in {RE(Node)} : Restart(n)
  \/ RunOK /\ \E S \in {RE((SUBSET Node) \ {{}, Node})} : Partition(S)
  \/ RunOK /\ Heal
  \/ StartQuiesce
  \/ QStep
SimSpec == Init /\ [][SimNext]_vars

-----------------------------------------------------------------------------
(* Invariants and action properties *)
TypeOK ==
  /\ clock \in 0..MaxClock
  /\ \A n \in Node : store[n].val \in Desc /\ store[n].ver \in Nat
  /\ \A n \in Node : (store[n].ver = 0) => store[n].val = Empty
  /\ sent \subseteq Desc
  /\ \A n \in Node : \A b \in queueL[n] \cup queueG[n] : b.chg \in Desc /\ Ids(b.chg) # {} /\ b.left \in 1..T /\ b.ver \in 1..store[n].ver

Tomb(n, i)  == store[n].val[i].st = LEFT
Alive(n, i) == store[n].val[i] # Absent /\ ~Tomb(n, i)

(* C04 *)
TombstonesInvisible ==
  \A n \in Node : NoLeft(Read(n)) /\ NoLeft(watch[n].last)

(* Tokens are not state of the specification: an entry of instance i that is not LEFT carries i's own *)
(* tokens, a LEFT entry carries none; the projection of the harness checks exactly that on the code.   *)

TombstonesForwardedStep ==     \* a step that creates or renews a tombstone on n queues a broadcast that carries it
  \A n \in Node, i \in Inst :
     (store'[n].val[i].st = LEFT /\ store'[n].val[i] # store[n].val[i])
       => \E b \in queueL'[n] \cup queueG'[n] : b.chg[i] = store'[n].val[i] /\ b.left = T
TombstonesForwarded == [][TombstonesForwardedStep]_vars
(* LocalState carries the tombstones: PushPull hands store[n].val (tombstones included) to the peer, and *)
(* the harness reads store[n].val of the real node out of the very bytes LocalState returns.            *)

NoResurrectionStep ==   \* while a tombstone is in the store nothing that is not strictly newer replaces it
  \A n \in Node, i \in Inst :
     (Tomb(n, i) /\ store'[n].ver # 0 /\ store'[n].val[i] # Absent /\ store'[n].val[i].st # LEFT)
        => store'[n].val[i].ts > store[n].val[i].ts
NoResurrection == [][NoResurrectionStep]_vars

GCOnlyExpiredStep ==    \* a tombstone disappears from a running node only by expiry
  \A n \in Node, i \in Inst :
     (Tomb(n, i) /\ store'[n].ver # 0 /\ store'[n].val[i] = Absent) => Expired(store[n].val[i], clock)
GCOnlyExpired == [][GCOnlyExpiredStep]_vars

NoExpiredTombstoneStored ==   \* what a changing merge leaves behind contains no expired tombstone
  [][\A n \in Node : store'[n] # store[n] => \A i \in Inst : ~Expired(store'[n].val[i], clock')]_vars

(* C06 *)
RR(s, c) == Merge(s, c, FALSE, 0).result
Contains(b, o) == \A s \in Desc : RR(RR(s, o), b) = RR(s, b)
(* a queued update is superseded only by an update that contains it - up to tombstones that are *)
(* older than the retention, which every receiver would collect on arrival anyway             *)
InvalidationSafe == \A x \in inval : Contains(x.b, GCd(x.o, clock))

OnlyChangesForwardedStep ==   \* what is queued is exactly what changed in the store, as it is now in the store
  \A x \in fwd' :
     /\ \A i \in Ids(x.chg) : x.chg[i] = store'[x.n].val[i] /\ x.chg[i] # store[x.n].val[i]
     /\ \A i \in Inst \ Ids(x.chg) : \/ store'[x.n].val[i] = store[x.n].val[i]
                                      \/ store'[x.n].val[i] = Absent   \* collected, or killed by an expired tombstone
OnlyChangesForwarded == [][OnlyChangesForwardedStep]_vars

NoInventedContent ==
  \A n \in Node, i \in Inst : store[n].val[i] # Absent => <<i, store[n].val[i]>> \in written
SentIsWritten ==
  \A p \in sent : \A i \in Ids(p) : <<i, p[i]>> \in written

WatcherNeverStale ==
  \A n \in WatchNodes :
     \/ watch[n].held /\ watch[n].pending
     \/ IF store[n].ver = 0 THEN ~watch[n].called ELSE watch[n].called /\ watch[n].last = Read(n)

VersionCountsChanges == \A n \in Node : \A b \in queueL[n] \cup queueG[n] : b.ver <= store[n].ver

(* convergence *)
Converged == \A a, b \in Node : Read(a) = Read(b)
WatchersCaughtUp == \A n \in WatchNodes : ~watch[n].held /\ (store[n].ver # 0 => watch[n].called /\ watch[n].last = Read(n))
QuiescentOK == phase = "done" => Converged /\ WatchersCaughtUp

Healed == cut = {}
Fairness == /\ \A a, b \in Node : WF_vars(PushPull(a, b, FALSE))
            /\ \A n \in Node : WF_vars(WatcherRelease(n))
FairSpec == Spec /\ Fairness
Convergence == (<>[]Healed) => <>[](Converged /\ WatchersCaughtUp)

(* behaviour emission (simulation): one JSON line per finished behaviour *)
EmitDone == phase = "done" => PrintT(ToJson([hist |-> hist, final |-> Read(1)]))
=============================================================================
