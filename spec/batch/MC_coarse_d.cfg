CONSTANTS
  MinKeys = 0
  MaxKeys = 2
  NI = 2
  MaxRF = 2
  Shape = "any"
  Grain = "call"
  Gate = FALSE
  EmptyFix = TRUE
  AllowCancel = TRUE
  EarlyExits = TRUE
  MaxConc = 3
  Spawn = "deferred"
  Record = FALSE
SPECIFICATION Spec
INVARIANTS TypeOK SingleSend ReturnsOnce SuccessMeansQuorum ErrorMeansNoQuorum ErrorIsReal ChannelErrorIsReal
           EarlyError LastAnswerError DecidedIsDelivered SuccessDelivered NoHang CalledExactly CleanupOnceAfterAll
PROPERTIES CleanupStable
CHECK_DEADLOCK TRUE
