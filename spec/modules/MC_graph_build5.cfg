CONSTANTS
  N = 5
  MaxB = 2
  WithInit = FALSE
  CanonInit = FALSE
  SelfEdgeChecked = TRUE
  EmitCases = TRUE
INIT Init
NEXT Next
VIEW view
INVARIANTS TypeOK GraphAcyclic TrConsistent InitOrder InitExactlyNeeded InitProgress  Emit
PROPERTIES CycleRejected
CHECK_DEADLOCK FALSE
