\* t_z5ext: see checks/ringlookup_common.py (UNIVERSES) for what this universe is for
CONSTANTS
  NK = 6
  Gaps = {3}
  N = 5
  MaxTok = 1
  MaxIdle = 0
  Z = 5
  StateSet = {"ACTIVE", "JOINING"}
  HbSet = {"edge"}
  RFMax = 5
  Canon = 2
  WithRemove = FALSE
  EmitOn = TRUE
INIT Init
NEXT Next
VIEW View
INVARIANTS TypeOK SizeOK ZoneOK ClockwiseFirst SlackExact WalkDefsAgree QuorumIntersection Emit
PROPERTIES MinimalDisruption
CHECK_DEADLOCK FALSE
