--------------------------- MODULE PartitionRingOps ---------------------------
(***************************************************************************)
(* C15 - pure operators of the partition ring (no variables).              *)
(*                                                                         *)
(* Token coordinates and key coordinates are integers of one linear order; *)
(* the only relation the algorithms use is "token t lies strictly after    *)
(* key k" (t > k) and the cyclic wrap to the smallest token.  The harness  *)
(* instantiates coordinates either through the key-class layout of         *)
(* DESIGN.md 1.1 (abs.KeyClasses: positions 0,1,2,..,2^32-2,2^32-1 with    *)
(* literal adjacency, gap classes in between) or, for rings recorded from  *)
(* the code, by rank compression (token of rank r -> 2r, a key strictly    *)
(* between ranks r and r+1 -> 2r+1).                                       *)
(***************************************************************************)
EXTENDS Integers, FiniteSets, Sequences, FiniteSetsExt, SequencesExt

NoActive == -1   \* ErrNoActivePartitionFound (real partition ids are >= 0)

(***************************************************************************)
(* Routing.  tokpid : function from the token coordinates present in the   *)
(* ring to the partition id owning the token; act : set of ACTIVE          *)
(* partition ids.                                                          *)
(***************************************************************************)
ActiveToks(tokpid, act) == {t \in DOMAIN tokpid : tokpid[t] \in act}

(* Definition 1 (the property): the partition owning the first token       *)
(* strictly after the key among the tokens of ACTIVE partitions, wrapping   *)
(* to the smallest such token; NoActive iff no active partition has a token.*)
ActivePartition(tokpid, act, k) ==
    LET AT == ActiveToks(tokpid, act) IN
    IF AT = {} THEN NoActive
    ELSE LET after == {t \in AT : t > k}
         IN  tokpid[IF after # {} THEN Min(after) ELSE Min(AT)]

(* Definition 2 (shape of ring/partition_ring.go ActivePartitionForKey):   *)
(* binary-search the first token > key in the sorted list of ALL tokens     *)
(* (index 1 when there is none), then walk at most Len steps clockwise,     *)
(* skipping tokens whose partition is not active.                           *)
SearchToken(seq, k) ==
    LET gt == {i \in 1..Len(seq) : seq[i] > k} IN IF gt = {} THEN 1 ELSE Min(gt)

RECURSIVE WalkFrom(_, _, _, _, _)
WalkFrom(seq, tokpid, act, i, n) ==
    IF n = 0 THEN NoActive
    ELSE IF tokpid[seq[i]] \in act THEN tokpid[seq[i]]
    ELSE WalkFrom(seq, tokpid, act, (i % Len(seq)) + 1, n - 1)

WalkPartition(tokpid, act, k) ==
    IF DOMAIN tokpid = {} THEN NoActive
    ELSE LET s == SetToSortSeq(DOMAIN tokpid, <)
         IN  WalkFrom(s, tokpid, act, SearchToken(s, k), Len(s))

(* RoutingTotal: the walk is total, errs exactly when no active partition  *)
(* (with a token) exists, and otherwise returns the successor among active. *)
RoutingTotalOn(tokpid, act, Keys) ==
    \A k \in Keys :
        LET r == WalkPartition(tokpid, act, k) IN
        /\ (r = NoActive) <=> (ActiveToks(tokpid, act) = {})
        /\ r # NoActive => r \in act
        /\ r = ActivePartition(tokpid, act, k)

(* GetKeysByPartition: keys is a sequence of key coordinates.  Error iff    *)
(* no partition is active; otherwise the indexes of the keys grouped by the *)
(* partition they route to (partitions without keys do not appear).         *)
KeysByPartition(tokpid, act, keys) ==
    LET R   == {<<i, ActivePartition(tokpid, act, keys[i])>> : i \in 1..Len(keys)}
        hit == {r[2] : r \in R}
    IN  IF act = {} \/ NoActive \in hit
        THEN [err |-> TRUE, groups |-> << >>]
        ELSE [err |-> FALSE, groups |-> [p \in hit |-> {r[1] : r \in {q \in R : q[2] = p}}]]

(***************************************************************************)
(* Snapshot queries of a PartitionRing (ring/partition_ring.go).           *)
(*   st : function partition id -> "P" | "A" | "I" over the ids in the ring*)
(***************************************************************************)
IdsInState(st, s) == {p \in DOMAIN st : st[p] = s}

(* ShuffleShardSize(size): the number of partitions ShuffleShard(size) would *)
(* return - only ACTIVE partitions are ever selected.                        *)
ShardSize(nActive, size) == IF size <= 0 \/ size > nActive THEN nActive ELSE size

(* ActivePartitionBatchRing (DoBatchRing): one "instance" per active        *)
(* partition, replication factor 1.                                          *)
BatchInstancesCount(st) == Cardinality(IdsInState(st, "A"))
BatchReplicationFactor == 1

(***************************************************************************)
(* Replication sets (ring/partition_instance_ring.go,                      *)
(* ring/multi_partition_instance_ring.go).                                 *)
(*   pids    : set of partition ids present in the partition ring          *)
(*   ownerOf : function owner id -> partition id (0 = not registered)      *)
(*   inst    : function owner id -> instance record of the instance ring,  *)
(*             [known, st, age, zone, ro, idx]                             *)
(*   op      : "Write" | "Read" | "Reporting"; T : heartbeat timeout (s)   *)
(***************************************************************************)
HealthyStates(op) == CASE op = "Write"     -> {"ACTIVE"}
                       [] op = "Read"      -> {"ACTIVE", "PENDING", "LEAVING"}
                       [] op = "Reporting" -> {"ACTIVE", "PENDING", "LEAVING", "JOINING", "LEFT"}

Healthy(i, op, T) == i.known /\ i.st \in HealthyStates(op) /\ i.age <= T

OwnersOfPartition(ownerOf, p) == {o \in DOMAIN ownerOf : ownerOf[o] = p}

HealthyOwners(ownerOf, inst, p, op, T) ==
    {o \in OwnersOfPartition(ownerOf, p) : Healthy(inst[o], op, T)}

Zones(inst, S) == {inst[o].zone : o \in S}

(* One set per partition of the ring (whatever its state): exactly the      *)
(* healthy registered owners; an error as soon as one partition has none.   *)
ReplicationSets(pids, ownerOf, inst, op, T) ==
    IF pids = {} THEN [err |-> "empty", sets |-> << >>]
    ELSE IF \E p \in pids : HealthyOwners(ownerOf, inst, p, op, T) = {}
    THEN [err |-> "unhealthy", sets |-> << >>]
    ELSE [err |-> "none",
          sets |-> [p \in pids |->
                      LET H == HealthyOwners(ownerOf, inst, p, op, T) IN
                      [instances |-> H, maxUnavailableZones |-> Cardinality(Zones(inst, H)) - 1,
                       maxErrors |-> 0, zoneAware |-> TRUE]]]

(* Multi-partition owners: one instance per zone - non-read-only preferred, *)
(* then the highest numeric suffix idx, ties to the larger owner id (the     *)
(* later one in the sorted owner list).                                      *)
BestOfZone(inst, H, z) ==
    LET Z   == {o \in H : inst[o].zone = z}
        NRO == {o \in Z : ~inst[o].ro}
        C   == IF NRO # {} THEN NRO ELSE Z
        top == Max({inst[o].idx : o \in C})
    IN  Max({o \in C : inst[o].idx = top})

MultiReplicationSet(ownerOf, inst, p, op, T) ==
    IF OwnersOfPartition(ownerOf, p) = {} THEN [err |-> "empty"]
    ELSE LET H == HealthyOwners(ownerOf, inst, p, op, T) IN
         IF H = {} THEN [err |-> "unhealthy"]
         ELSE [err |-> "none",
               instances |-> {BestOfZone(inst, H, z) : z \in Zones(inst, H)},
               maxUnavailableZones |-> Cardinality(Zones(inst, H)) - 1,
               maxErrors |-> 0, zoneAware |-> TRUE]
=============================================================================
