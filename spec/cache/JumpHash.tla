------------------------------- MODULE JumpHash -------------------------------
(***************************************************************************)
(* C19, placement - which memcached server a key is sent to                *)
(* (cache/memcached_server_selector.go, cache/jump_hash.go).               *)
(*                                                                         *)
(* Server names are numbers: the name "host-<m>" is m, and the natural     *)
(* order of the names ("host-2" before "host-10") is the numeric order.    *)
(* A key is represented by what jump consistent hashing derives from it:   *)
(* its set of jump destinations J (0 \in J; jumpHash's loop visits         *)
(* j0 = 0 < j1 < j2 < ..., a sequence that depends on the key only, and    *)
(* returns the last one below the number of buckets).                      *)
(*                                                                         *)
(* The specification is relational: ANY J per key is allowed; TLC decides  *)
(* that whatever J is, placement is order-insensitive and append-stable.   *)
(* JumpHashTrace.tla then checks that the placements observed on the real  *)
(* selector are explained by some J per key.                               *)
(***************************************************************************)
EXTENDS Integers, Sequences, FiniteSets, TLC
LOCAL SX == INSTANCE SequencesExt

CONSTANT N                 \* server names 1..N

VARIABLES jumps,           \* the key: its jump destinations
          a, b             \* two server lists as passed to SetServers (any order, no duplicates)

Range(s) == {s[i] : i \in 1..Len(s)}
Max(S)   == CHOOSE x \in S : \A y \in S : y <= x

(* SetServers: the list is stored in natural sort order *)
NatSort(s) == SX!SetToSortSeq(Range(s), LAMBDA x, y : x < y)

(* jumpHash(key, n) for a key with jump destinations J *)
Bucket(J, n) == Max({j \in J : j < n})

(* PickServer *)
PickIn(J, sorted) == sorted[Bucket(J, Len(sorted)) + 1]
Pick(J, servers)  == PickIn(J, NatSort(servers))

Lists == UNION {{s \in [1..n -> 1..N] : \A i, j \in 1..n : i # j => s[i] # s[j]} : n \in 1..N}
JumpSets == {J \in SUBSET (0..(N - 1)) : 0 \in J}

Init == jumps \in JumpSets /\ a \in Lists /\ b \in Lists
Next == UNCHANGED <<jumps, a, b>>

PickInList == Pick(jumps, a) \in Range(a)

(* the same servers in any order place the key on the same server *)
OrderInsensitive == Range(a) = Range(b) => Pick(jumps, a) = Pick(jumps, b)

(* b = a plus one server that sorts after all of a's: the key stays or moves to the new server *)
Appended(x, y) == \E m \in Range(y) : /\ Range(y) = Range(x) \cup {m}
                                      /\ \A s \in Range(x) : s < m
AppendStable == Appended(a, b) => Pick(jumps, b) \in {Pick(jumps, a), Max(Range(b))}

(* not part of C19, guards against a vacuous model: some key moves, and it is the sort that matters *)
MonotoneBuckets == \A n \in 1..(N - 1) : Bucket(jumps, n + 1) \in {Bucket(jumps, n), n}
=============================================================================
