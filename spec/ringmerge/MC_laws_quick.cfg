\* C03 instance ring, quick: all triples of single-id descriptors over 2 live states (19^3), every law; convergence cases emitted
CONSTANTS
  N = 1
  M = 2
  Shared = FALSE
  TsSet = {1, 2}
  LiveSt = {"ACTIVE", "LEAVING"}
  Arity = 3
  EmitConv = TRUE
INIT Init
NEXT Next
INVARIANTS PairLaws TripleLaws RawLaws EmitConvergence
CHECK_DEADLOCK FALSE
