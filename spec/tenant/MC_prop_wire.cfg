\* C20 propagation over the real stacks (net/http, gRPC over bufconn): ids "" (0), two plain ids (1, 2),
\* an id with NUL/CR/LF (3: refused by both transports), an id with a high byte (4: refused by gRPC
\* only), id 1 with a blank appended (5). This is the PROPERTY: HTTPTrim = NoTrim, every id is delivered unchanged or the
\* hop fails (strict Unchanged). The real net/http stack trims id 5 (open finding F11, sig wire:http-ows-trim);
\* MC_prop_wire_strict.cfg / MC_prop_wire_asis.cfg are the as-is model (OWSTrim).
CONSTANTS
  Ids = {0, 1, 2, 3, 4, 5}
  Channels = {"org"}
  MaxHops = 3
  InProc = FALSE
  WireHops = TRUE
  HTTPRefused = {3}
  GRPCRefused = {3, 4}
  HTTPTrim <- NoTrim
INIT Init
NEXT Next
VIEW view
INVARIANTS TypeOK Unchanged UnchangedUpToOWS NeverDefaulted SingleValueWritten RefusalHasReason
PROPERTIES AlteredOnlyByHTTPTrim TransportRefusalIsNotDelivery RefusalIsFinal
ACTION_CONSTRAINT EmitStep
CHECK_DEADLOCK FALSE
