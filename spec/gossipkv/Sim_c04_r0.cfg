\* C04 behaviour generation with retention 0 (LeftIngestersTimeout = 0: tombstones are kept for ever, and still never shown): 3 nodes, T = 2;
\* scripts as in Sim_c04_n3.
CONSTANTS
  N = 3
  NI = 2
  NK = 2
  MaxClock = 6
  Retention = 0
  T = 2
  MaxCas = 8
  MaxFaults = 2
  LiveStates = {"ACTIVE", "LEAVING", "PENDING"}
  WatchNodes = {1, 2, 3}
  HoldNodes = {1}
  AllowRestart = TRUE
  AllowGarbage = TRUE
  AllowPartition = FALSE
  AllowJunkPP = FALSE
  GateNodes = {}
  InboxCap = 1
  VersionTest = TRUE
  KeyTest = TRUE
  MaxDel = 1
  ObsoleteTimeout = 2
  LockKeys = {}
  ConsumeNet = FALSE
  Ideal = TRUE
  Ghost = TRUE
  Record = TRUE
  Quiesce = TRUE
  RunDepth = @@RUN@@
  QRounds = 2
INIT Init
NEXT SimNext
INVARIANTS TypeOK TombstonesInvisible NoInventedContent WatcherNeverStale PrefixWatcherNeverStale QuiescentOK EmitDone
PROPERTIES TombstonesForwarded NoResurrection GCOnlyExpired NoExpiredTombstoneStored OnlyChangesForwarded DeletedStaysDeleted RemovedOnlyWhenObsolete DeletedNotRevived
CHECK_DEADLOCK FALSE
