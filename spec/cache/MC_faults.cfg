\* Backend failures and TTL <= 0: decides the clauses for every history of at most MaxOps operations of one-view stacks when
\* every operation may find the backend failing. The check substitutes @@STACKS@@, @@TTLS@@, @@MAXOPS@@.
CONSTANTS
  StackIds = @@STACKS@@
  Caps = {1}
  DTTLs = {1, 2}
  Keys = {k1, k2}
  Values = {a, b}
  TTLs = @@TTLS@@
  Deltas = {1}
  NViews = 2
  PokeTTLs = {}
  MaxOps = @@MAXOPS@@
  Faults = TRUE
  Full = FALSE
  DetOnly = FALSE
  Wrong = "none"
INIT Init
NEXT Next
VIEW View
SYMMETRY Sym
CONSTRAINT Bounded
INVARIANTS TypeOK EncodingConsistent KeysWellPlaced PkIsPeek PeekNeverWrong PeekNeverAfterDeadline PeekBoundedStaleness
PROPERTIES FailedReadIsLocal FailedWriteKeepsBackend NoErrorWithoutFault NeverWrong NeverAfterDelete NeverAfterDeadline NeverCorrupt ReadIsPeek NoAlias AddSemantics ReadYourWrites DeleteRemoves StopIsInert
CHECK_DEADLOCK FALSE
