\* C05 thorough: 2 instances share 3 token positions (several collisions in one merge).
CONSTANTS
  N = 2
  M = 3
  Shared = TRUE
  TsSet = {1, 2}
  LiveSt = {"ACTIVE", "LEAVING"}
  MaxUpd = 1
  Clock0 = 1
  MaxClock = 2
  CasRaw = TRUE
  ThinK = @@THINK@@
  ThinR = @@THINR@@
  ThinA = @@THINA@@
INIT Init
NEXT Next
VIEW View
INVARIANTS TypeOK InvTokenUnique InvLeftHasNoTokens InvNormal EmitPath
PROPERTIES StepRules SnapshotsImmutable ReaderSeesLatest EmitResolving
CHECK_DEADLOCK FALSE
