\* NOT part of the tiers: TLC violates FailedSetInvisible (LRUCache.Set caches locally although the backend Set failed).
CONSTANTS
  StackIds = {2}
  Caps = {1, 2}
  DTTLs = {1, 2}
  Keys = {k1, k2}
  Values = {a, b}
  TTLs = {1, 2}
  Deltas = {1}
  NViews = 2
  PokeTTLs = {}
  MaxOps = 3
  Faults = TRUE
  Full = FALSE
  DetOnly = FALSE
  Wrong = "none"
INIT Init
NEXT Next
VIEW View
SYMMETRY Sym
CONSTRAINT Bounded
INVARIANTS TypeOK EncodingConsistent KeysWellPlaced PkIsPeek PeekNeverWrong PeekNeverAfterDeadline PeekBoundedStaleness
PROPERTIES FailedSetInvisible FailedReadIsLocal FailedWriteKeepsBackend NoErrorWithoutFault NeverWrong NeverAfterDelete NeverAfterDeadline NeverCorrupt ReadIsPeek NoAlias AddSemantics ReadYourWrites DeleteRemoves StopIsInert
CHECK_DEADLOCK FALSE
