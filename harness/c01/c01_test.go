// Package c01 binds spec/ringlookup (C01 key lookup, C02 quorum intersection) to the real ring:
//
//   - TestReplay (spec -> code): every descriptor enumerated by RingLookupMC.tla comes with the
//     results the specification demands for every key class, operation, replication factor and
//     zone-awareness setting, and with the ring-wide replication sets; the driver builds the real
//     ring.Ring (inside a synctest bubble, so heartbeat ages are exact; every descriptor once with the
//     clock on a whole second and once half a second into one, see hbBack) and compares Ring.Get /
//     Ring.GetWithOptions / Ring.GetReplicationSetForOperation for every concrete key of every class.
//   - TestRecord (code -> spec): seeded random larger rings; tokens and keys are rank-compressed and
//     every call is logged with its result; RingLookupTrace.tla accepts a line iff the logged
//     result is the specification's.
package c01

import (
	"context"
	"encoding/json"
	"errors"
	"fmt"
	"hash/fnv"
	"math"
	"math/rand"
	"os"
	"runtime"
	"sort"
	"strings"
	"testing"
	"testing/synctest"
	"time"

	"verifharness/internal/abs"

	"github.com/go-kit/log"
	"github.com/grafana/dskit/ring"
	"github.com/grafana/dskit/services"
)

const hbTimeout = time.Minute

var (
	opSeq   = []ring.Operation{ring.Write, ring.WriteNoExtend, ring.Read, ring.Reporting}
	opNames = []string{"Write", "WriteNoExtend", "Read", "Reporting"}
)

// one line emitted by RingLookupMC!Emit
type mcLine struct {
	Ids   []int       `json:"ids"`
	Zone  []int       `json:"zone"`
	State []string    `json:"state"`
	Hb    []string    `json:"hb"`
	Toks  [][]int     `json:"toks"`
	Look  [][][][]int `json:"look"` // [key class][op][za][rf-1] result code
	Rset  [][][]int   `json:"rset"` // [op][za][rf-1] replication set code
	Nt    int         `json:"nt"`
	Excl  []int       `json:"excl"`  // zones excluded by the ring's configuration
	Over  string      `json:"over"`  // error of a lookup with a per-call replication factor above the configured one
	Acks  [][][][]int `json:"acks"`  // [key class][za][rf-1] id masks of the subsets of the Write replica set on which DoBatch succeeds
	Answs [][][]int   `json:"answers"` // [za][rf-1] id masks of the subsets of the Read replication set on which DoUntilQuorum succeeds
	Lookx [][][][][]int `json:"lookx"` // ignore-unhealthy strategy: [key class][op][za][configured rf-1][per-call rf-1] result code
}

// what the specification demands, decoded from a result code
type want struct {
	Err                 string `json:"err,omitempty"` // "", "empty", "unhealthy"
	Ids                 []int  `json:"ids"`
	MaxErrors           int    `json:"maxErrors"`
	MaxUnavailableZones int    `json:"maxUnavailableZones"`
	mask                int
}

func idsOfMask(mask, n int) []int {
	ids := []int{}
	for i := 1; i <= n; i++ {
		if mask&(1<<(i-1)) != 0 {
			ids = append(ids, i)
		}
	}
	return ids
}

func decodeLookup(code, n int) want {
	switch {
	case code == 0:
		return want{Err: "empty"}
	case code == 1<<n:
		return want{Err: "unhealthy"}
	}
	mask := code & (1<<n - 1)
	return want{Ids: idsOfMask(mask, n), MaxErrors: code>>n - 2, mask: mask}
}

func decodeRset(code, n int) want {
	switch {
	case code == 0:
		return want{Err: "empty"}
	case code == 8<<n:
		return want{Err: "unhealthy"}
	}
	mask := code & (1<<n - 1)
	hi := code >> n
	return want{Ids: idsOfMask(mask, n), MaxErrors: hi/8 - 2, MaxUnavailableZones: hi % 8, mask: mask}
}

// what the real code returned
type got struct {
	Err                 string `json:"err,omitempty"`
	ErrText             string `json:"errText,omitempty"`
	Ids                 []int  `json:"ids"`
	MaxErrors           int    `json:"maxErrors"`
	MaxUnavailableZones int    `json:"maxUnavailableZones"`
	ZoneAware           bool   `json:"zoneAwarenessEnabled"`
	Dup                 bool   `json:"duplicateInstances,omitempty"`
	Panic               string `json:"panic,omitempty"`
	mask                int
}

func observe(rs ring.ReplicationSet, err error, pan any) got {
	g := got{}
	if pan != nil {
		g.Panic = fmt.Sprint(pan)
		g.Err = "panic"
		return g
	}
	if err != nil {
		g.ErrText = err.Error()
		if errors.Is(err, ring.ErrEmptyRing) {
			g.Err = "empty"
		} else {
			g.Err = "unhealthy" // "at least N live replicas required" / ErrTooManyUnhealthyInstances
			if strings.Contains(err.Error(), "cannot exceed the configured replication factor") {
				g.Err = "rf-exceeds"
			}
			if errors.Is(err, ring.ErrInconsistentTokensInfo) {
				g.Err = "inconsistent"
			}
		}
		return g
	}
	g.Ids = []int{}
	for _, inst := range rs.Instances {
		var n int
		if _, e := fmt.Sscanf(inst.Id, "i-%d", &n); e != nil {
			g.Err = "badid:" + inst.Id
		}
		if g.mask&(1<<(n-1)) != 0 {
			g.Dup = true
		}
		g.mask |= 1 << (n - 1)
		g.Ids = append(g.Ids, n)
	}
	sort.Ints(g.Ids)
	g.MaxErrors = rs.MaxErrors
	g.MaxUnavailableZones = rs.MaxUnavailableZones
	g.ZoneAware = rs.ZoneAwarenessEnabled
	return g
}

// kind of disagreement, "" if none
func diffLookup(g got, w want) string {
	switch {
	case g.Panic != "":
		return "panic"
	case g.Err != w.Err:
		return "error"
	case g.Err != "":
		return ""
	case g.Dup:
		return "duplicate"
	case g.mask != w.mask:
		return "ids"
	case g.MaxErrors != w.MaxErrors:
		return "maxerrors"
	}
	return ""
}

func diffRset(g got, w want, za bool) string {
	if k := diffLookup(g, w); k != "" {
		return k
	}
	if g.Err != "" {
		return ""
	}
	if g.MaxUnavailableZones != w.MaxUnavailableZones {
		return "maxunavailablezones"
	}
	if g.ZoneAware != za {
		return "zoneawareflag"
	}
	return ""
}

type getter struct {
	bufD5 []ring.InstanceDesc
	bufH5 []string
	bufD1 []ring.InstanceDesc
	bufH1 []string
	n     int
}

func newGetter() *getter {
	d, h, _ := ring.MakeBuffersForGet()
	return &getter{bufD5: d, bufH5: h, bufD1: make([]ring.InstanceDesc, 0, 1), bufH1: make([]string, 0, 1)}
}

var variantNames = []string{"Get(nil buffers)", "GetWithOptions()", "Get(GetBufferSize buffers)", "GetWithOptions(WithBuffers(cap 1))",
	"GetWithOptions(WithBuffers(GetBufferSize), WithReplicationFactor(rf))", "GetWithOptions(WithReplicationFactor(rf-1))"}

// call runs one lookup variant, never letting a panic of the code under test escape.
func (g *getter) call(r *ring.Ring, variant int, key uint32, op ring.Operation, rf int) (res got) {
	var rs ring.ReplicationSet
	var err error
	defer func() {
		if p := recover(); p != nil {
			res = observe(rs, err, p)
		}
	}()
	switch variant {
	case 0:
		rs, err = r.Get(key, op, nil, nil, nil)
	case 1:
		rs, err = r.GetWithOptions(key, op)
	case 2:
		rs, err = r.Get(key, op, g.bufD5[:0], g.bufH5[:0], nil)
	case 3:
		rs, err = r.GetWithOptions(key, op, ring.WithBuffers(g.bufD1[:0], g.bufH1[:0], nil))
	case 4:
		rs, err = r.GetWithOptions(key, op, ring.WithBuffers(g.bufD5[:0], g.bufH5[:0], nil), ring.WithReplicationFactor(rf))
	default:
		rs, err = r.GetWithOptions(key, op, ring.WithReplicationFactor(rf-1))
	}
	return observe(rs, err, nil)
}

// two variants per case: one without buffers, one with (rotating)
func (g *getter) variants() (int, int) {
	g.n++
	return g.n % 2, 2 + g.n%4
}

func callRset(r *ring.Ring, op ring.Operation) (res got) {
	var rs ring.ReplicationSet
	var err error
	defer func() {
		if p := recover(); p != nil {
			res = observe(rs, err, p)
		}
	}()
	rs, err = r.GetReplicationSetForOperation(op)
	return observe(rs, err, nil)
}

// hbBack returns how many whole seconds before the current clock second the last heartbeat of an instance of
// the given heartbeat class lies. Timestamps have second granularity, the clock has not: the heartbeat age is
// back seconds plus the sub-second part of the clock, and the classes are about that age versus the timeout.
//
//	clock on a whole second:  fresh = 0, 1, 59 s     edge = exactly the timeout (60 s)     stale = 61 s or more
//	clock inside a second:    fresh = 0, 1, 58 s + f  edge = 59 s + f (the largest age <= timeout such a
//	                          timestamp can have)     stale = 60 s + f (timeout < age < timeout + 1 s) or more
func hbBack(class string, sub bool, rnd *rand.Rand) int64 {
	to := int64(hbTimeout / time.Second)
	d := int64(0)
	if sub {
		d = 1
	}
	switch class {
	case "fresh":
		return []int64{0, 1, to - 1 - d}[rnd.Intn(3)]
	case "edge":
		return to - d
	case "stale":
		return to - d + []int64{1, 1, 2, 86400}[rnd.Intn(4)]
	}
	panic("unknown heartbeat class " + class)
}

// atPhase lets the bubble clock run until its sub-second part is frac (0 <= frac < 1 s).
func atPhase(frac time.Duration) time.Time {
	cur := time.Duration(time.Now().Nanosecond())
	if d := (frac - cur + time.Second) % time.Second; d != 0 {
		time.Sleep(d)
	}
	return time.Now()
}

func ageOf(back int64, now time.Time) float64 {
	return float64(back) + float64(now.Nanosecond())/1e9
}

func buildDesc(l *mcLine, classes [][]uint32, ages []int64, now time.Time) *ring.Desc {
	desc := ring.NewDesc()
	for i := range l.Ids {
		if l.Ids[i] == 0 {
			continue
		}
		id := abs.InstID(i + 1)
		var toks []uint32
		for _, p := range l.Toks[i] {
			toks = append(toks, classes[p][0])
		}
		sort.Slice(toks, func(a, b int) bool { return toks[a] < toks[b] })
		desc.Ingesters[id] = ring.InstanceDesc{
			Id: id, Addr: "addr-" + id, Zone: abs.ZoneName(l.Zone[i]), State: abs.StateOf(l.State[i]),
			Tokens: toks, Timestamp: now.Unix() - ages[i], RegisteredTimestamp: now.Unix() - 3600,
		}
	}
	return desc
}

// features of the failing input that go into the mismatch signature
func features(l *mcLine, classes [][]uint32) string {
	var f []string
	idle, tok0, tokMax := false, false, ""
	for i := range l.Ids {
		if l.Ids[i] == 0 {
			continue
		}
		if len(l.Toks[i]) == 0 {
			idle = true
		}
		for _, p := range l.Toks[i] {
			switch classes[p][0] {
			case 0:
				tok0 = true
			case math.MaxUint32:
				tokMax = "shared"
				if len(l.Toks[i]) == 1 {
					tokMax = "sole"
				}
			}
		}
	}
	if tok0 {
		f = append(f, "tok0")
	}
	if tokMax != "" {
		f = append(f, "tokMax="+tokMax)
	}
	if idle {
		f = append(f, "tokenless")
	}
	return strings.Join(f, ",")
}

func keyKind(l *mcLine, k int, isGap []bool) string {
	if isGap[k] {
		return "between"
	}
	for i := range l.Ids {
		for _, p := range l.Toks[i] {
			if p == k {
				return "ontoken"
			}
		}
	}
	return "offtoken"
}

func lineSeed(seed int64, b []byte) int64 {
	h := fnv.New64a()
	fmt.Fprintf(h, "%d|", seed)
	h.Write(b)
	return int64(h.Sum64() >> 1)
}

func workers() int {
	w := abs.EnvInt("VERIF_WORKERS", 0)
	if w <= 0 {
		w = runtime.NumCPU() / 2
		if w > 8 {
			w = 8
		}
		if w < 1 {
			w = 1
		}
	}
	return w
}

// runBubbles runs fn(w) for w = 0..W-1 concurrently, each inside its own synctest bubble.
func runBubbles(t *testing.T, W int, fn func(w int) *abs.Result) []*abs.Result {
	results := make([]*abs.Result, W)
	t.Run("bubbles", func(t *testing.T) {
		for w := 0; w < W; w++ {
			t.Run(fmt.Sprint(w), func(t *testing.T) {
				t.Parallel()
				synctest.Test(t, func(t *testing.T) { results[w] = fn(w) })
			})
		}
	})
	return results
}

func merge(parts []*abs.Result) *abs.Result {
	res := &abs.Result{}
	for _, p := range parts {
		if p == nil {
			res.Fatal = "a worker did not finish"
			continue
		}
		res.Cases += p.Cases
		res.Nontrivial += p.Nontrivial
		for _, m := range p.Mismatches {
			res.Mismatch(m)
		}
		for _, s := range p.Samples {
			res.Sample(s)
		}
		if p.Fatal != "" && res.Fatal == "" {
			res.Fatal = p.Fatal
		}
		for k, v := range p.Extra {
			if n, ok := v.(int); ok {
				if res.Extra == nil {
					res.Extra = map[string]any{}
				}
				old, _ := res.Extra[k].(int)
				res.Extra[k] = old + n
			}
		}
	}
	return res
}

type replayInput struct {
	Path  string `json:"path"`
	NK    int    `json:"nk"`
	Gaps  []int  `json:"gaps"`
	Label string `json:"label"`
	Execs int    `json:"execs"` // > 0: bind the executors on every Execs-th descriptor (C02)
	Steps string `json:"steps"` // the steps of the universe's state graph (TestSteps)
}

func TestReplay(t *testing.T) {
	part := os.Getenv("VERIF_PART") // c01: lookups for the four operations; c02: replication sets + Write lookups
	var inputs []replayInput
	if s := os.Getenv("VERIF_INPUTS"); s != "" {
		if err := json.Unmarshal([]byte(s), &inputs); err != nil {
			t.Fatalf("VERIF_INPUTS: %v", err)
		}
	} else if in := os.Getenv("VERIF_IN"); in != "" {
		var gaps []int
		_ = json.Unmarshal([]byte(os.Getenv("VERIF_GAPS")), &gaps)
		inputs = []replayInput{{Path: in, NK: abs.EnvInt("VERIF_NK", 0), Gaps: gaps, Label: "in"}}
	}
	if len(inputs) == 0 || (part != "c01" && part != "c02") {
		t.Skip("VERIF_INPUTS / VERIF_PART not set")
	}
	seed := abs.Seed()
	W := workers()
	parts := runBubbles(t, W, func(w int) *abs.Result {
		res := &abs.Result{}
		lineNo := -1
		for _, in := range inputs {
			replayFile(res, in, part, seed, w, W, &lineNo)
			if res.Fatal != "" {
				break
			}
		}
		return res
	})
	merge(parts).Write(t)
}

// replayFile replays the lines of one universe that fall to worker w (every W-th line).
func replayFile(res *abs.Result, in replayInput, part string, seed int64, w, W int, lineNo *int) {
	nk, gaps := in.NK, in.Gaps
	isGap := make([]bool, nk)
	for _, g := range gaps {
		isGap[g] = true
	}
	boundary := abs.KeyClasses(nk, gaps)
	gt := newGetter()
	rings, calls, descs, execs := 0, 0, 0, 0
	err := abs.ReadNDJSON(in.Path, func(raw []byte) error {
		*lineNo++
		if *lineNo%W != w {
			return nil
		}
		var l mcLine
		if err := json.Unmarshal(raw, &l); err != nil {
			return err
		}
		n := len(l.Ids)
		if len(l.Look) != nk {
			return fmt.Errorf("line has %d key classes, want %d", len(l.Look), nk)
		}
		descs++
		ls := lineSeed(seed, raw)
		rnd := rand.New(rand.NewSource(ls))
		gt.n = int(ls % 1024) // which call variants a case gets depends on the descriptor and the seed only
		// heartbeat timestamps for a clock on a whole second [0] and half a second into one [1]
		var backs [2][]int64
		for ph := range backs {
			backs[ph] = make([]int64, n)
			for i := range backs[ph] {
				if l.Ids[i] != 0 {
					backs[ph][i] = hbBack(l.Hb[i], ph == 1, rnd)
				}
			}
		}
		embeddings := []struct {
			name    string
			classes [][]uint32
		}{{"boundary", boundary}, {"random", abs.RandomKeyClasses(nk, gaps, rnd)}}
		var exclNames []string
		for _, z := range l.Excl {
			exclNames = append(exclNames, abs.ZoneName(z))
		}
		allMask := 0 // the instances the ring works on
		for i := range l.Ids {
			if l.Ids[i] != 0 && !contains(l.Excl, l.Zone[i]) {
				allMask |= 1 << i
			}
		}
		doExec := part == "c02" && in.Execs > 0 && len(l.Acks) == nk && (ls/1024)%int64(in.Execs) == 0
		rfMax := len(l.Rset[0][0])
		var sample map[string]any
		for zi, za := range []bool{false, true} {
			for rf := 1; rf <= rfMax; rf++ {
				for ei, emb := range embeddings {
					// every descriptor is replayed with the clock on a whole second and half a second into one
					ph := (ei + rf + zi) % 2
					now := atPhase(time.Duration(ph) * 500 * time.Millisecond)
					ages := backs[ph]
					desc := buildDesc(&l, emb.classes, ages, now)
					r, stop, err := abs.NewRing(desc, ring.Config{ReplicationFactor: rf, ZoneAwarenessEnabled: za, HeartbeatTimeout: hbTimeout,
						SubringCacheDisabled: true, ExcludedZones: exclNames})
					if err != nil {
						return fmt.Errorf("NewRing: %w", err)
					}
					rings++
					caseOf := func(extra map[string]any) map[string]any {
						c := map[string]any{"universe": in.Label, "embedding": emb.name, "rf": rf, "za": za, "excludedZones": exclNames,
							"clockSubSecond": now.Nanosecond() != 0, "instances": describe(&l, emb.classes, ages, now)}
						for k, v := range extra {
							c[k] = v
						}
						return c
					}
					// C02: ring-wide replication sets
					if part == "c02" {
						for oi, op := range opSeq {
							wnt := decodeRset(l.Rset[oi][zi][rf-1], n)
							g := callRset(r, op)
							calls++
							if ei == 0 {
								res.Cases++
								if wnt.Err == "unhealthy" || (wnt.Err == "" && (wnt.mask != allMask || wnt.MaxErrors > 0 || wnt.MaxUnavailableZones > 0)) {
									res.Nontrivial++
								}
							}
							if kind := diffRset(g, wnt, za); kind != "" {
								res.Mismatch(abs.Mismatch{
									Sig:  fmt.Sprintf("rset:%s op=%s za=%v", kind, opNames[oi], za),
									Case: caseOf(map[string]any{"call": "GetReplicationSetForOperation(" + opNames[oi] + ")"}), Got: g, Want: wnt})
							} else if oi == 2 && zi == 1 && rf == rfMax && ei == 0 {
								sample = caseOf(map[string]any{"call": "GetReplicationSetForOperation(Read)", "specification_and_code_agree_on": wnt})
							}
						}
					}
					for k := 0; k < nk; k++ {
						for oi, op := range opSeq {
							if part == "c02" && oi != 0 {
								continue
							}
							wnt := decodeLookup(l.Look[k][oi][zi][rf-1], n)
							if ei == 0 {
								res.Cases++
							}
							for _, key := range emb.classes[k] {
								v1, v2 := gt.variants()
								if rf == 1 && v2 == 5 {
									v2 = 4
								}
								for _, v := range []int{v1, v2} {
									g := gt.call(r, v, key, op, rf)
									calls++
									if kind := diffLookup(g, wnt); kind != "" {
										res.Mismatch(abs.Mismatch{
											Sig: fmt.Sprintf("lookup:%s op=%s key=%s [%s]", kind, opNames[oi], keyKind(&l, k, isGap), features(&l, emb.classes)),
											Case: caseOf(map[string]any{"call": variantNames[v], "op": opNames[oi], "key": key, "keyClass": k}),
											Got:  g, Want: wnt})
										break
									} else if part == "c01" && sample == nil && oi == 0 && zi == 1 && rf == rfMax && k == nk-1 {
										sample = caseOf(map[string]any{"call": variantNames[v], "op": opNames[oi], "key": key, "keyClass": k, "specification_and_code_agree_on": wnt})
									}
								}
							}
						}
					}
					// a per-call replication factor above the configured one
					if part == "c01" && l.Over != "" {
						oi := (rf + zi + ei) % len(opSeq)
						key := emb.classes[(rf+ei)%nk][0]
						g := func() (res got) {
							defer func() {
								if p := recover(); p != nil {
									res = observe(ring.ReplicationSet{}, nil, p)
								}
							}()
							rs, err := r.GetWithOptions(key, opSeq[oi], ring.WithReplicationFactor(rf+1))
							return observe(rs, err, nil)
						}()
						calls++
						if ei == 0 {
							res.Cases++
						}
						if g.Err != l.Over {
							res.Mismatch(abs.Mismatch{Sig: fmt.Sprintf("lookup:over-rf op=%s want=%s got=%s", opNames[oi], l.Over, g.Err),
								Case: caseOf(map[string]any{"call": "GetWithOptions(WithReplicationFactor(rf+1))", "op": opNames[oi], "key": key}),
								Got:  g, Want: want{Err: l.Over}})
						}
					}
					// the ignore-unhealthy strategy with per-call replication factors (expanded replication)
					if part == "c01" && len(l.Lookx) == nk {
						rx, stopx, err := newRingIgnoreUnhealthy(buildDesc(&l, emb.classes, ages, now), ring.Config{ReplicationFactor: rf, ZoneAwarenessEnabled: za,
							HeartbeatTimeout: hbTimeout, SubringCacheDisabled: true, ExcludedZones: exclNames})
						if err != nil {
							return fmt.Errorf("NewRing(ignore-unhealthy): %w", err)
						}
						rings++
						for k := 0; k < nk; k++ {
							for oi, op := range opSeq {
								for c := 1; c <= len(l.Lookx[k][oi][zi][rf-1]); c++ {
									wnt := decodeLookup(l.Lookx[k][oi][zi][rf-1][c-1], n)
									if ei == 0 {
										res.Cases++
										if c > rf {
											res.Nontrivial++
										}
									}
									for _, key := range emb.classes[k] {
										g := func() (res got) {
											defer func() {
												if p := recover(); p != nil {
													res = observe(ring.ReplicationSet{}, nil, p)
												}
											}()
											var rs ring.ReplicationSet
											var err error
											if (c+k)%2 == 0 {
												rs, err = rx.GetWithOptions(key, op, ring.WithReplicationFactor(c))
											} else {
												rs, err = rx.GetWithOptions(key, op, ring.WithReplicationFactor(c), ring.WithBuffers(gt.bufD1[:0], gt.bufH1[:0], nil))
											}
											return observe(rs, err, nil)
										}()
										calls++
										if kind := diffLookup(g, wnt); kind != "" {
											res.Mismatch(abs.Mismatch{
												Sig:  fmt.Sprintf("lookup-ignore-unhealthy:%s op=%s expanded=%v za=%v", kind, opNames[oi], c > rf, za),
												Case: caseOf(map[string]any{"call": fmt.Sprintf("GetWithOptions(WithReplicationFactor(%d))", c), "strategy": "ignore-unhealthy", "op": opNames[oi], "key": key, "keyClass": k}),
												Got:  g, Want: wnt})
											break
										}
									}
								}
							}
						}
						stopx()
					}
					if doExec && ei == 0 {
						n1, n2 := bindExecutors(res, r, &l, emb.classes, zi, rf, caseOf)
						calls += n1
						execs += n2
					}
					stop()
				}
			}
		}
		if part == "c01" {
			res.Nontrivial += l.Nt
		}
		if descs%499 == 250 && sample != nil {
			res.Sample(sample)
		}
		return nil
	})
	if err != nil {
		res.Fatal = in.Label + ": " + err.Error()
	}
	add := func(k string, v int) {
		old := 0
		if res.Extra != nil {
			old, _ = res.Extra[k].(int)
		}
		res.AddExtra(k, old+v)
	}
	add("real_rings_built", rings)
	add("real_calls", calls)
	add("descriptors", descs)
	add("executor_runs", execs)
}

// newRingIgnoreUnhealthy is abs.NewRing with the ignore-unhealthy replication strategy (the one that supports
// expanded replication).
func newRingIgnoreUnhealthy(desc *ring.Desc, cfg ring.Config) (*ring.Ring, func(), error) {
	r, err := ring.NewWithStoreClientAndStrategy(cfg, "verif", "ring", &abs.StubKV{Value: desc}, ring.NewIgnoreUnhealthyInstancesReplicationStrategy(), nil, log.NewNopLogger())
	if err != nil {
		return nil, nil, err
	}
	if err := services.StartAndAwaitRunning(context.Background(), r); err != nil {
		return nil, nil, err
	}
	return r, func() { _ = services.StopAndAwaitTerminated(context.Background(), r) }, nil
}

func contains(xs []int, x int) bool {
	for _, y := range xs {
		if y == x {
			return true
		}
	}
	return false
}

var errRefused = errors.New("replica refused")

func idNum(id string) int {
	var n int
	fmt.Sscanf(id, "i-%d", &n)
	return n
}

// subsets of the id mask m (including the empty set and m itself)
func subsets(m int) []int {
	out := []int{}
	for s := m; ; s = (s - 1) & m {
		out = append(out, s)
		if s == 0 {
			break
		}
	}
	return out
}

// bindExecutors runs the REAL quorum executors on the real ring r (zone-awareness ZASeq[zi], replication factor rf):
// for every subset A of the Write replica set of every key class ring.DoBatch with callbacks that succeed exactly on A
// must succeed iff the specification's WriteSucceeds(w, A); for every subset B of the Read replication set
// DoUntilQuorum (with and without request minimisation) and ReplicationSet.Do with calls that succeed exactly on B
// must succeed iff ReadSucceeds(r, B). Returns the number of lookups and of executor runs.
func bindExecutors(res *abs.Result, r *ring.Ring, l *mcLine, classes [][]uint32, zi, rf int, caseOf func(map[string]any) map[string]any) (int, int) {
	n := len(l.Ids)
	lookups, runs := 0, 0
	// an executor that never returns would block the whole bubble; a (virtual-time) deadline turns that into a result.
	// The deadline moves the bubble clock, so the binding of this ring stops after the first one (hung == true).
	ctx, cancel := context.WithTimeout(context.Background(), 10*time.Second)
	defer cancel()
	hung := false
	report := func(exec string, mask int, gotOK, wantOK bool, gotErr error, extra map[string]any) {
		extra["executor"] = exec
		extra["succeeding_instances"] = idsOfMask(mask, n)
		e := ""
		if gotErr != nil {
			e = gotErr.Error()
		}
		if errors.Is(gotErr, context.DeadlineExceeded) {
			exec += ":hangs"
			hung = true
		}
		res.Mismatch(abs.Mismatch{Sig: fmt.Sprintf("exec:%s want_success=%v got_success=%v za=%v", exec, wantOK, gotOK, zi == 1),
			Case: caseOf(extra), Got: map[string]any{"success": gotOK, "err": e}, Want: map[string]any{"success": wantOK}})
	}
	// writes
	for k := range classes {
		key := classes[k][0]
		w := decodeLookup(l.Look[k][0][zi][rf-1], n)
		okSets := l.Acks[k][zi][rf-1]
		cand := []int{(1 << n) - 1}
		if w.Err == "" {
			cand = subsets(w.mask)
		}
		for _, a := range cand {
			var panicked any
			err := func() (err error) {
				defer func() {
					if p := recover(); p != nil {
						panicked, err = p, fmt.Errorf("panic: %v", p)
					}
				}()
				return ring.DoBatch(ctx, ring.Write, r, []uint32{key}, func(inst ring.InstanceDesc, _ []int) error {
					if a&(1<<(idNum(inst.Id)-1)) != 0 {
						return nil
					}
					return errRefused
				}, func() {})
			}()
			lookups++
			runs++
			res.Cases++
			if a != 0 && a != w.mask {
				res.Nontrivial++
			}
			if wantOK := contains(okSets, a); (err == nil) != wantOK || panicked != nil || errors.Is(err, context.DeadlineExceeded) {
				report("DoBatch", a, err == nil, wantOK, err, map[string]any{"key": key, "keyClass": k, "write_replica_set": w})
			}
			if hung {
				return lookups, runs
			}
		}
	}
	// reads
	rw := decodeRset(l.Rset[2][zi][rf-1], n)
	okSets := l.Answs[zi][rf-1]
	rs, rerr := r.GetReplicationSetForOperation(ring.Read)
	lookups++
	if rerr != nil {
		if len(okSets) != 0 {
			report("GetReplicationSetForOperation", 0, false, true, rerr, map[string]any{})
		}
		return lookups, runs
	}
	f := func(b int) func(context.Context, *ring.InstanceDesc) (int, error) {
		return func(_ context.Context, inst *ring.InstanceDesc) (int, error) {
			if b&(1<<(idNum(inst.Id)-1)) != 0 {
				return idNum(inst.Id), nil
			}
			return 0, errRefused
		}
	}
	for _, b := range subsets(rw.mask) {
		wantOK := contains(okSets, b)
		for v, name := range []string{"DoUntilQuorum", "DoUntilQuorum(MinimizeRequests)", "ReplicationSet.Do"} {
			var err error
			func() {
				defer func() {
					if p := recover(); p != nil {
						err = fmt.Errorf("panic: %v", p)
						name += ":panic"
					}
				}()
				switch v {
				case 0, 1:
					_, err = ring.DoUntilQuorum(ctx, rs, ring.DoUntilQuorumConfig{MinimizeRequests: v == 1}, f(b), func(int) {})
				default:
					g := f(b)
					_, err = rs.Do(ctx, 0, func(c context.Context, inst *ring.InstanceDesc) (interface{}, error) { return g(c, inst) })
				}
			}()
			runs++
			res.Cases++
			if b != 0 && b != rw.mask {
				res.Nontrivial++
			}
			if (err == nil) != wantOK || strings.HasSuffix(name, ":panic") || errors.Is(err, context.DeadlineExceeded) {
				report(name, b, err == nil, wantOK, err, map[string]any{"read_replication_set": rw})
			}
			if hung {
				return lookups, runs
			}
		}
	}
	return lookups, runs
}

func describe(l *mcLine, classes [][]uint32, ages []int64, now time.Time) []map[string]any {
	var out []map[string]any
	for i := range l.Ids {
		if l.Ids[i] == 0 {
			continue
		}
		toks := []uint32{}
		for _, p := range l.Toks[i] {
			toks = append(toks, classes[p][0])
		}
		out = append(out, map[string]any{"id": abs.InstID(i + 1), "zone": abs.ZoneName(l.Zone[i]), "state": l.State[i],
			"heartbeat": l.Hb[i], "heartbeatAgeSeconds": ageOf(ages[i], now), "tokens": toks, "tokenClasses": l.Toks[i]})
	}
	return out
}

// ---------------------------------------------------------------------------------------------
// code -> spec: seeded random larger rings, rank-compressed, logged for RingLookupTrace.tla

type recRes struct {
	Op  string `json:"op"`
	Ok  bool   `json:"ok"`
	Err string `json:"err"`
	Ids []int  `json:"ids"`
	Me  int    `json:"me"`
	Muz int    `json:"muz"`
	Za  bool   `json:"za"`
	Via string `json:"via,omitempty"`
}

type recKey struct {
	K   int      `json:"k"`   // rank-compressed key
	Key string   `json:"key"` // the concrete key (a string: 32-bit values never enter TLC)
	Res []recRes `json:"res"`
}

type recRing struct {
	Ring  int      `json:"ring"`
	Clock int      `json:"clock_ms"` // sub-second part of the clock when the ring was looked up
	M     int      `json:"m"`
	RF    int      `json:"rf"`
	ZA    bool     `json:"za"`
	Zone  []int    `json:"zone"`
	State []string `json:"state"`
	Hb    []string `json:"hb"`
	Toks  [][]int  `json:"toks"`
	Look  []recKey `json:"look"`
	Rset  []recRes `json:"rset"`
}

func toRec(g got, op, via string) recRes {
	r := recRes{Op: op, Ok: g.Err == "", Err: g.Err, Ids: g.Ids, Me: g.MaxErrors, Muz: g.MaxUnavailableZones, Za: g.ZoneAware, Via: via}
	if g.Dup {
		r.Ok, r.Err = false, "duplicate"
	}
	if r.Ids == nil {
		r.Ids = []int{}
	}
	return r
}

var allStates = []string{"ACTIVE", "LEAVING", "PENDING", "JOINING", "LEFT"}

func pickWeighted(rnd *rand.Rand, names []string, weights []int) string {
	tot := 0
	for _, w := range weights {
		tot += w
	}
	x := rnd.Intn(tot)
	for i, w := range weights {
		if x < w {
			return names[i]
		}
		x -= w
	}
	return names[0]
}

// randomRing builds ring number idx of the run: <= 40 instances x <= 128 tokens, 0..5 zones, all
// states, instances without tokens, tokens including 0, 1, 2^32-2 and 2^32-1.
func randomRing(seed int64, idx int, now time.Time) (desc *ring.Desc, cfg ring.Config, rec recRing, tokens []uint32, rnd *rand.Rand) {
	rnd = rand.New(rand.NewSource(seed*1000003 + int64(idx)))
	var n int
	switch x := rnd.Intn(10); {
	case x < 4:
		n = 1 + rnd.Intn(6)
	case x < 8:
		n = 7 + rnd.Intn(14)
	default:
		n = 21 + rnd.Intn(20)
	}
	maxTok := []int{1, 1, 2, 4, 8, 16, 64, 128}[rnd.Intn(8)]
	nz := rnd.Intn(6)
	stateW := [][]int{{60, 10, 10, 10, 10}, {90, 3, 3, 3, 1}, {20, 20, 20, 20, 20}}[rnd.Intn(3)]
	hbW := [][]int{{70, 15, 15}, {95, 3, 2}, {34, 33, 33}}[rnd.Intn(3)]
	rec = recRing{Ring: idx, RF: 1 + rnd.Intn(5), ZA: rnd.Intn(2) == 0}
	used := map[uint32]bool{}
	perInst := make([][]uint32, n)
	for i := 0; i < n; i++ {
		k := 0
		if rnd.Intn(10) > 0 {
			k = 1 + rnd.Intn(maxTok)
		}
		for len(perInst[i]) < k {
			var v uint32
			switch rnd.Intn(12) {
			case 0: // next to an existing token
				if len(tokens) > 0 {
					v = tokens[rnd.Intn(len(tokens))] + uint32(rnd.Intn(3)) - 1
				} else {
					v = rnd.Uint32()
				}
			case 1:
				v = []uint32{0, 1, 2, math.MaxUint32, math.MaxUint32 - 1}[rnd.Intn(5)]
			default:
				v = rnd.Uint32()
			}
			if used[v] {
				if rnd.Intn(4) == 0 {
					k-- // give up on this one (keeps tiny rings with special tokens terminating)
				}
				continue
			}
			used[v] = true
			perInst[i] = append(perInst[i], v)
			tokens = append(tokens, v)
		}
	}
	rc := abs.NewRankCompressor(tokens)
	rec.M = rc.M()
	desc = ring.NewDesc()
	for i := 0; i < n; i++ {
		z := 0
		if nz > 0 && rnd.Intn(20) > 0 {
			z = 1 + rnd.Intn(nz)
		}
		st := pickWeighted(rnd, allStates, stateW)
		hb := pickWeighted(rnd, []string{"fresh", "edge", "stale"}, hbW)
		toks := perInst[i]
		sort.Slice(toks, func(a, b int) bool { return toks[a] < toks[b] })
		ranks := make([]int, len(toks))
		for j, tk := range toks {
			ranks[j] = rc.Rank(tk)
		}
		id := abs.InstID(i + 1)
		desc.Ingesters[id] = ring.InstanceDesc{Id: id, Addr: "addr-" + id, Zone: abs.ZoneName(z), State: abs.StateOf(st),
			Tokens: toks, Timestamp: now.Unix() - hbBack(hb, now.Nanosecond() != 0, rnd), RegisteredTimestamp: now.Unix() - 3600}
		rec.Zone = append(rec.Zone, z)
		rec.State = append(rec.State, st)
		rec.Hb = append(rec.Hb, hb)
		rec.Toks = append(rec.Toks, ranks)
	}
	cfg = ring.Config{ReplicationFactor: rec.RF, ZoneAwarenessEnabled: rec.ZA, HeartbeatTimeout: hbTimeout, SubringCacheDisabled: true}
	return
}

func TestRecord(t *testing.T) {
	tracePath := os.Getenv("VERIF_TRACE")
	if tracePath == "" {
		t.Skip("VERIF_TRACE not set")
	}
	nRings := abs.EnvInt("VERIF_RINGS", 100)
	nKeys := abs.EnvInt("VERIF_KEYS", 10)
	seed := abs.Seed()
	res := &abs.Result{}
	synctest.Test(t, func(t *testing.T) {
		w, err := abs.NewNDJSONWriter(tracePath)
		if err != nil {
			res.Fatal = err.Error()
			return
		}
		defer w.Close()
		bufCaps := []int{0, 1, 2, ring.GetBufferSize}
		for idx := 0; idx < nRings; idx++ {
			// the clock is on a whole second for a third of the rings and at a random millisecond otherwise;
			// heartbeat classes are concretised against the timeout for that clock (hbBack)
			prnd := rand.New(rand.NewSource(seed*7919 + int64(idx)))
			frac := time.Duration(0)
			if prnd.Intn(3) > 0 {
				frac = time.Duration(1+prnd.Intn(999)) * time.Millisecond
			}
			now := atPhase(frac)
			desc, cfg, rec, tokens, rnd := randomRing(seed, idx, now)
			rec.Clock = now.Nanosecond() / 1e6
			r, stop, err := abs.NewRing(desc, cfg)
			if err != nil {
				res.Fatal = "NewRing: " + err.Error()
				return
			}
			rc := abs.NewRankCompressor(tokens)
			for j := 0; j < nKeys; j++ {
				var key uint32
				switch x := rnd.Intn(10); {
				case x < 3 || len(tokens) == 0:
					key = rnd.Uint32()
				case x < 5:
					key = tokens[rnd.Intn(len(tokens))]
				case x < 7:
					key = tokens[rnd.Intn(len(tokens))] + 1
				case x < 9:
					key = tokens[rnd.Intn(len(tokens))] - 1
				default:
					key = []uint32{0, math.MaxUint32}[rnd.Intn(2)]
				}
				rk := recKey{K: rc.Rank(key), Key: fmt.Sprint(key)}
				for oi, op := range opSeq {
					c := bufCaps[rnd.Intn(len(bufCaps))]
					var bd []ring.InstanceDesc
					var bh []string
					if c > 0 {
						bd, bh = make([]ring.InstanceDesc, 0, c), make([]string, 0, c)
					}
					useOpts := rnd.Intn(2) == 0
					via := fmt.Sprintf("Get(buffers cap %d)", c)
					if useOpts {
						via = fmt.Sprintf("GetWithOptions(WithBuffers(cap %d))", c)
					}
					g := func() (res got) {
						var rs ring.ReplicationSet
						var err error
						defer func() {
							if p := recover(); p != nil {
								res = observe(rs, err, p)
							}
						}()
						if useOpts {
							rs, err = r.GetWithOptions(key, op, ring.WithBuffers(bd, bh, nil))
						} else {
							rs, err = r.Get(key, op, bd, bh, nil)
						}
						return observe(rs, err, nil)
					}()
					rk.Res = append(rk.Res, toRec(g, opNames[oi], via))
					res.Cases++
					if g.Err != "" || len(g.Ids) != rec.RF {
						res.Nontrivial++
					}
				}
				rec.Look = append(rec.Look, rk)
			}
			for oi, op := range opSeq {
				rec.Rset = append(rec.Rset, toRec(callRset(r, op), opNames[oi], ""))
				res.Cases++
			}
			stop()
			if err := w.Write(rec); err != nil {
				res.Fatal = err.Error()
				return
			}
			if idx%37 == 3 {
				res.Sample(map[string]any{"ring": idx, "instances": len(rec.Zone), "tokens": len(tokens), "rf": rec.RF, "za": rec.ZA,
					"first_logged_lookup": rec.Look[0]})
			}
		}
		res.AddExtra("rings_recorded", nRings)
	})
	res.Write(t)
}
