package c11

// Legacy executor ReplicationSet.Do (spec/quorumread/QuorumDo.tla): depth-first enumeration of
// environment schedules on the real code, recorded for QuorumDoTrace.tla.

import (
	"context"
	"encoding/json"
	"errors"
	"fmt"
	"os"
	"sync"
	"testing"
	"testing/synctest"
	"time"

	"verifharness/internal/abs"

	"github.com/grafana/dskit/ring"
)

type DoCfg struct {
	N     int    `json:"n"`
	Zone  []int  `json:"zone"`
	NZ    int    `json:"nz"`
	Mode  string `json:"mode"` // "default" (MaxErrors) | "zone" (MaxUnavailableZones >= 1)
	Tol   int    `json:"tol"`
	Delay bool   `json:"delay"`
}

type DoTrace struct {
	ID    int    `json:"id"`
	Cfg   DoCfg  `json:"cfg"`
	Steps []Step `json:"steps"`
}

type doRun struct {
	cfg      DoCfg
	mu       sync.Mutex
	calls    []int
	ctxs     []context.Context
	finished []bool
	gates    []chan string
	cancel   context.CancelCauseFunc
	retCh    chan Ret
	ret      *Ret
	canceled bool
	clock    int // half delays advanced so far
}

func (r *doRun) f(ctx context.Context, d *ring.InstanceDesc) (interface{}, error) {
	i := instIndex(d)
	r.mu.Lock()
	r.calls[i]++
	if r.ctxs[i] == nil {
		r.ctxs[i] = ctx
	}
	r.mu.Unlock()
	if o := <-r.gates[i]; o == "err" {
		return nil, &instErr{inst: i}
	}
	return i, nil
}

func (r *doRun) start(preCancel bool) {
	c := r.cfg
	n := c.N
	r.calls = make([]int, n+1)
	r.ctxs = make([]context.Context, n+1)
	r.finished = make([]bool, n+1)
	r.gates = make([]chan string, n+1)
	for i := 1; i <= n; i++ {
		r.gates[i] = make(chan string, 1)
	}
	r.retCh = make(chan Ret, 1)
	insts := make([]ring.InstanceDesc, n)
	for i := 1; i <= n; i++ {
		insts[i-1] = ring.InstanceDesc{Id: fmt.Sprintf("i-%d", i), Addr: fmt.Sprintf("addr-%d", i), Zone: fmt.Sprintf("z-%d", c.Zone[i-1])}
	}
	rs := ring.ReplicationSet{Instances: insts}
	if c.Mode == "zone" {
		rs.MaxUnavailableZones = c.Tol
	} else {
		rs.MaxErrors = c.Tol
	}
	var delay time.Duration
	if c.Delay {
		delay = hedgeDelay
	}
	parent, cancel := context.WithCancelCause(context.Background())
	r.cancel = cancel
	if preCancel {
		cancel(errParent)
		r.canceled = true
	}
	go func() {
		ret := Ret{Kind: "ok", Set: []int{}, Cls: "-"}
		defer func() {
			if p := recover(); p != nil {
				ret = Ret{Kind: "err", Set: []int{}, Cls: "other:panic " + fmt.Sprint(p)}
			}
			r.retCh <- ret
		}()
		res, err := rs.Do(parent, delay, r.f)
		if err != nil {
			ret.Kind = "err"
			var ie *instErr
			switch {
			case err == context.Canceled:
				ret.Cls = "cancelled"
			case errors.As(err, &ie):
				ret.Cls, ret.Inst = "inst", ie.inst
			default:
				ret.Cls = "other:" + err.Error()
			}
			if len(res) != 0 {
				ret.Cls += "+results"
			}
			return
		}
		for _, v := range res {
			i, ok := v.(int)
			if !ok {
				i = 0
			}
			ret.Set = append(ret.Set, i)
		}
	}()
	if c.Delay {
		// the delay timers were armed at bubble time T0; the driver's clock runs in half delays with
		// a small offset (see run.start)
		synctest.Wait()
		time.Sleep(clockOffset)
	}
}

func (r *doRun) obs() Step {
	synctest.Wait()
	if r.ret == nil {
		select {
		case x := <-r.retCh:
			r.ret = &x
		default:
		}
	}
	r.mu.Lock()
	defer r.mu.Unlock()
	n := r.cfg.N
	s := Step{A: "obs", Calls: append([]int(nil), r.calls[1:]...), Cleaned: make([]int, n), Ctx: make([]string, n)}
	for i := 1; i <= n; i++ {
		s.Ctx[i-1] = ctxClass(r.ctxs[i])
	}
	if r.ret != nil {
		x := *r.ret
		s.Ret = &x
	} else {
		s.Ret = &Ret{Kind: "none", Set: []int{}, Cls: "-"}
	}
	return s
}

func (r *doRun) options(last Step) []Step {
	var out []Step
	returned := last.Ret.Kind != "none"
	for i := 1; i <= r.cfg.N; i++ {
		if last.Calls[i-1] > 0 && !r.finished[i] {
			out = append(out, Step{A: "finish", I: i, O: "ok"}, Step{A: "finish", I: i, O: "err"})
			if returned {
				break
			}
		}
	}
	if !returned {
		if r.cfg.Delay && r.clock < 2 {
			for i := 1; i <= r.cfg.N; i++ {
				if last.Calls[i-1] == 0 {
					out = append(out, Step{A: "adv"})
					break
				}
			}
		}
		if !r.canceled {
			out = append(out, Step{A: "cancel"})
		}
	}
	return out
}

func (r *doRun) do(s Step) error {
	switch s.A {
	case "finish":
		if s.I < 1 || s.I > r.cfg.N || r.finished[s.I] {
			return fmt.Errorf("finish of instance %d not possible", s.I)
		}
		r.finished[s.I] = true
		r.gates[s.I] <- s.O
	case "adv":
		r.clock++
		time.Sleep(hedgeDelay / 2)
	case "cancel":
		r.canceled = true
		r.cancel(errParent)
	default:
		return fmt.Errorf("unknown step %q", s.A)
	}
	return nil
}

func (r *doRun) finishUp() {
	for i := 1; i <= r.cfg.N; i++ {
		close(r.gates[i])
	}
	r.cancel(errParent)
	synctest.Wait()
}

func doCfgs(ns []int, maxZ int) []DoCfg {
	var out []DoCfg
	for _, n := range ns {
		for _, mode := range []string{"default", "zone"} {
			zas := [][]int{make([]int, n)}
			for i := range zas[0] {
				zas[0][i] = 1
			}
			if mode == "zone" {
				zas = zoneAssigns(n, maxZ)
			}
			for _, za := range zas {
				nz := 0
				for _, z := range za {
					if z > nz {
						nz = z
					}
				}
				lo, hi := 0, n
				if mode == "zone" {
					lo, hi = 1, nz
				}
				for tol := lo; tol <= hi; tol++ {
					for _, d := range []bool{false, true} {
						out = append(out, DoCfg{N: n, Zone: za, NZ: nz, Mode: mode, Tol: tol, Delay: d})
					}
				}
			}
		}
	}
	return out
}

// TestRecordDo: depth-first enumeration of environment schedules of ReplicationSet.Do.
func TestRecordDo(t *testing.T) {
	outPath := os.Getenv("VERIF_TRACE_OUT")
	if outPath == "" {
		t.Skip("VERIF_TRACE_OUT not set")
	}
	res := &abs.Result{}
	defer res.Write(t)
	w, err := abs.NewNDJSONWriter(outPath)
	if err != nil {
		res.Fatal = err.Error()
		return
	}
	defer w.Close()
	corruptAt := abs.EnvInt("VERIF_CORRUPT_TRACE", 0)
	id := 0
	for _, cfg := range doCfgs(intsEnv("VERIF_NS", []int{1, 2, 3}), abs.EnvInt("VERIF_MAXZ", 3)) {
		for _, pre := range []bool{false, true} {
			var path []int
			for {
				var counts []int
				steps, leak := exploreWith(t, func() driver { return &doRun{cfg: cfg} }, pre, func(depth int, opts []Step) int {
					counts = append(counts, len(opts))
					if depth < len(path) {
						if path[depth] >= len(opts) {
							path[depth] = len(opts) - 1
						}
						return path[depth]
					}
					path = append(path, 0)
					return 0
				})
				id++
				if id == corruptAt {
					last := &steps[len(steps)-1]
					last.Calls = append([]int(nil), last.Calls...)
					last.Calls[0]++
				}
				tr := DoTrace{ID: id, Cfg: cfg, Steps: steps}
				if err := w.Write(tr); err != nil {
					res.Fatal = err.Error()
				}
				res.Cases++
				if isNontrivial(steps) {
					res.Nontrivial++
				}
				if id%499 == 1 {
					res.Sample(tr)
				}
				if leak != "" {
					res.Mismatch(abs.Mismatch{Sig: fmt.Sprintf("Do: goroutines left blocked after every call finished: mode=%s delay=%v", cfg.Mode, cfg.Delay), Case: tr, Got: leak, Want: "all goroutines of the call terminate"})
				}
				k := len(counts) - 1
				path = path[:len(counts)]
				for k >= 0 && path[k]+1 >= counts[k] {
					k--
				}
				if k < 0 {
					break
				}
				path = append(path[:k:k], path[k]+1)
			}
		}
	}
	res.AddExtra("do_traces_recorded", id)
}

// TestReplayDo executes the behaviours emitted by QuorumDoGen.tla ($VERIF_IN).
func TestReplayDo(t *testing.T) {
	replayFile(t, func(raw []byte) (driver, string, error) {
		var c DoCfg
		if err := json.Unmarshal(raw, &c); err != nil {
			return nil, "", err
		}
		return &doRun{cfg: c}, fmt.Sprintf("Do mode=%s delay=%v", c.Mode, c.Delay), nil
	})
}
