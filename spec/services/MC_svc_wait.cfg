CONSTANTS
  NC = 1
  NL = 0
  WRun = {1}
  WTerm = {2}
  QCap = 4
  MaxIters = 2
  MaxStart = 1
  ParentCancels = TRUE
  Presents = {{"start","run","stop"}, {}, {"run"}}
  RunModes = {"any","idle","timer"}
  GuardNilCancel = @@GUARD@@
INIT Init
NEXT Next
INVARIANTS TypeOK ChainedHistory SwitchNeverFails FnOrder RunOnlyAfterStart StopFnIffStarted CtxCancelledBeforeStopFn StopFnGetsRunError ContextReleased ContextOnceStarted WaitersExact NoDoubleClose FirstErrorWins ListenerOrder NotifierNeverBlocks @@NONIL@@ 
PROPERTIES LegalTransitions
CHECK_DEADLOCK FALSE
