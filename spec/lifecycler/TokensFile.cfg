SPECIFICATION Spec
CONSTANTS
  K = 3
  Size <- Len3
  MaxStores = 3
  Direct = FALSE
  Trunc = TRUE
INVARIANTS TypeOK FileNeverCorrupt Emit
PROPERTIES AbortKeepsOld OnlyOldOrNew
CHECK_DEADLOCK FALSE
