"""C14 - reported token ranges coincide with key ownership and tile the key space.

spec/tokenranges/TokenRanges.tla: TLC enumerates every ring of the tier's universe, checks
RangesAreOwnership + Tiling on the specification and emits the ownership matrix of each ring;
harness/c14 replays every matrix against GetTokenRangesForInstance / GetTokenRangesForPartition,
TokenRanges.IncludesKey and the real lookups.
"""
import json
import re

PROPERTY = "C14"
META = {
    "level_text": "TLC enumerates every ring / partition ring of a bounded universe (<=3-4 owners x <=3 tokens on a key-class circle whose "
                  "positions embed to 0,1,2,..,2^32-2,2^32-1 with literal adjacency, plus an all-gaps layout), proves on the specification that "
                  "the documented ranges [pred(t), t-1] equal lookup ownership and tile the circle, and emits each ownership matrix; every matrix "
                  "is replayed on the real Ring/PartitionRing: IncludesKey(k) <=> specification ownership <=> real lookup, for every key class "
                  "(3 concrete keys per gap class). Exhaustive within the bounds, which contain every boundary class the property names.",
    "level_note": "Trusted: TLC, the monotone key-class embedding (harness/internal/abs.KeyClasses), instances all ACTIVE/healthy and partitions "
                  "all active, zones with tokens = replication factor (the property's precondition). Larger rings are not enumerated.",
    "technique": "TLA+ specification (TokenRanges.tla) model-checked by TLC; TLC-generated cases replayed into the real code",
    "design_ref": "DESIGN.md 2 C14",
}

LAYOUT = {  # cfg -> (NK, gaps, mode)
    "MC_quick_inst": (7, [3], "instance"), "MC_quick_part": (7, [3], "partition"),
    "MC_thorough_inst": (9, [4], "instance"), "MC_thorough_part": (9, [4], "partition"),
    "MC_spaced_inst": (9, [0, 2, 4, 6, 8], "instance"), "MC_spaced_part": (9, [0, 2, 4, 6, 8], "partition"),
}


def run(ctx):
    ctx.rule = ("every ring of the universe (owner per token position, <=MaxTok tokens per owner, zone per owner) is one case; "
                "non-trivial = some owner owns a proper non-empty subset of the key classes; distinct = distinct TLC states")
    ctx.assumptions = ["monotone embedding of key classes into uint32 (harness/internal/abs KeyClasses)",
                       "all instances ACTIVE and healthy; all partitions active; zones with tokens = replication factor"]
    cfgs = ["MC_quick_inst", "MC_quick_part", "MC_spaced_part"] if ctx.tier == "quick" else \
           ["MC_thorough_inst", "MC_thorough_part", "MC_spaced_inst", "MC_spaced_part", "MC_quick_inst", "MC_quick_part"]
    ctx.exhaustive = True
    for cfg in cfgs:
        nk, gaps, mode = LAYOUT[cfg]
        r = ctx.tlc("tokenranges", "TokenRanges", cfg=cfg + ".cfg", timeout=1500)
        ctx.require_tlc_ok(r, cfg)
        if r.emitted == 0:
            raise_incon(ctx, "%s emitted no cases" % cfg)
        res = ctx.run_harness("c14", "^TestReplay$", env={"VERIF_IN": r.out_path, "VERIF_MODE": mode,
                                                        "VERIF_NK": nk, "VERIF_GAPS": json.dumps(gaps)}, timeout=1500)
        if res.get("cases") != r.emitted:
            raise_incon(ctx, "%s: harness replayed %s of %d cases" % (cfg, res.get("cases"), r.emitted))
        ctx.absorb(res, cfg)
        if mode == "instance" and cfg in ("MC_quick_inst", "MC_thorough_inst"):
            # atomicity of the range computation w.r.t. ring updates: concurrent readers while the ring flips
            # between two enumerated rings; every answer must be the specification's ownership of one of them
            res = ctx.run_harness("c14", "^TestConcurrent$", env={"VERIF_IN": r.out_path, "VERIF_NK": nk, "VERIF_GAPS": json.dumps(gaps),
                                                                "VERIF_PAIRS": 40 if ctx.tier == "quick" else 400,
                                                                "VERIF_FLIPS": 300 if ctx.tier == "quick" else 1000}, timeout=900)
            ctx.absorb(res, cfg + "/concurrent")
    # code -> spec: random rings recorded from the real code, validated line by line by TLC
    n = 120 if ctx.tier == "quick" else 1500
    trace = ctx.path("c14_trace.ndjson")
    res = ctx.run_harness("c14", "^TestRecord$", env={"VERIF_TRACE": trace, "VERIF_N": n}, timeout=900)
    bad = validate_lines(ctx, "tokenranges", "TokenRangesTrace", trace, "LineOK")
    if bad is not None:
        res.setdefault("mismatches", [])
        res["mismatches"] = (res.get("mismatches") or []) + [{
            "sig": "record:%s:line-rejected" % bad.get("mode", "?"), "case": bad,
            "got": "answers recorded from the real code", "want": "OwnedKeys/RangeKeys of TokenRanges.tla"}]
    ctx.absorb(res, "record/validate")
    return "model_checking"


def validate_lines(ctx, family, module, trace, inv, chunk=400):
    """Validate an ndjson trace whose lines are independent cases with <module>.tla (state variable l =
    line number, invariant <inv> per line). Returns the first rejected line (dict) or None."""
    import verif
    lines = [l for l in open(trace) if l.strip()]
    for off in range(0, len(lines), chunk):
        part = ctx.path("part_%d.ndjson" % off)
        open(part, "w").writelines(lines[off:off + chunk])
        r = ctx.tlc(family, module, extra_files={part: "trace.ndjson"}, workers=1, deadlock=False, timeout=900)
        if r.violated == inv:
            m = re.findall(r"/\\ l = (\d+)", r.log) or re.findall(r"l = (\d+)", r.log)
            idx = int(m[-1]) if m else 1
            return json.loads(lines[off + idx - 1])
        ctx.require_tlc_ok(r, module)
    return None


def raise_incon(ctx, why):
    import verif
    raise verif.Inconclusive(why)
