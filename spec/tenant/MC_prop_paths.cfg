\* C20 propagation, thorough tier: every behaviour of up to 4 hops (no VIEW: one state per path).
CONSTANTS
  Ids = {0, 1, 2}
  Channels = {"org", "user"}
  MaxHops = 4
  InProc = TRUE
  WireHops = FALSE
  HTTPRefused = {}
  GRPCRefused = {}
  HTTPTrim <- NoTrim
INIT Init
NEXT Next
INVARIANTS TypeOK Unchanged NeverDefaulted SingleValueWritten RefusalHasReason EmitPath
PROPERTIES UnchangedStep RefusalIsFinal
CHECK_DEADLOCK FALSE
