CONSTANTS
  MaxN = 3
  NSet = {1, 2, 3}
  MaxZ = 3
  Modes = {"default", "zone"}
  Minimizes = {TRUE, FALSE}
  Hedges = {TRUE, FALSE}
  Terminals = {TRUE, FALSE}
  NoCancels = {TRUE, FALSE}
INIT Init
NEXT Next
INVARIANTS TypeOK OnlySuccessful QuorumBacked ErrWhenExceeded AtMostOneCall Minimised CleanupSafe CleanupExactlyOnce UnusedCancelled ReturnedNotCancelled PlainAllCancelled CancelJustified NoStuck
CHECK_DEADLOCK FALSE
