SPECIFICATION Spec
VIEW view
SYMMETRY PosSym
CONSTANTS
  N = 2
  Pos = {p0, p1, p2, p3, p4}
  NumTokens = 2
  HbTimeout = 2
  MaxClock = 3
  Cfg0 <- Cfg0C08b
  Cfgs <- AllCfgs
  Bud0 <- BudC08b
  OwnEntryCheck = TRUE
INVARIANTS TypeOK HeartbeatFresh
PROPERTIES OwnEntryOnly StateEdges RefusedUntouched HeartbeatMonotone RegisteredOnce ActivationTokens ReadyImpliesActive KeepsIdentity ReRegistersFresh
