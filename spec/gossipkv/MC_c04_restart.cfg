\* C04 thorough: as quick (ACTIVE only) plus one restart of any node (a restarted node has forgotten
\* the tombstone).
CONSTANTS
  N = 2
  NI = 1
  NK = 1
  MaxClock = 3
  Retention = 2
  T = 1
  MaxCas = 3
  MaxFaults = 1
  LiveStates = {"ACTIVE"}
  WatchNodes = {1, 2}
  HoldNodes = {}
  AllowRestart = TRUE
  AllowGarbage = FALSE
  AllowPartition = FALSE
  AllowJunkPP = FALSE
  GateNodes = {}
  InboxCap = 1
  VersionTest = TRUE
  KeyTest = TRUE
  MaxDel = 0
  ObsoleteTimeout = 1
  LockKeys = {}
  ConsumeNet = FALSE
  Ideal = TRUE
  Ghost = TRUE
  Record = FALSE
  Quiesce = FALSE
  RunDepth = 0
  QRounds = 2
SPECIFICATION Spec
VIEW view
INVARIANTS TypeOK TombstonesInvisible InvalidationSafe NoInventedContent SentIsWritten WatcherNeverStale PrefixWatcherNeverStale VersionCountsChanges
PROPERTIES TombstonesForwarded NoResurrection GCOnlyExpired NoExpiredTombstoneStored OnlyChangesForwarded DeletedStaysDeleted RemovedOnlyWhenObsolete DeletedNotRevived
CHECK_DEADLOCK FALSE
