package abs

import (
	"math"
	"math/rand"
	"sort"
)

// RandomKeyClasses is the seeded random counterpart of KeyClasses: token positions become random
// strictly increasing uint32 values (no adjacency, usually neither 0 nor 2^32-1), a gap class
// denotes up to three keys strictly between its neighbours. Positions that are consecutive in the
// layout (no gap class between them) may be any distance >= 1 apart; positions separated by a gap
// class are at least 2 apart so that the gap class is inhabited.
func RandomKeyClasses(nk int, gaps []int, rnd *rand.Rand) [][]uint32 {
	isGap := make([]bool, nk)
	for _, g := range gaps {
		isGap[g] = true
	}
	for {
		npos := 0
		for c := 0; c < nk; c++ {
			if !isGap[c] {
				npos++
			}
		}
		seen := map[uint32]bool{}
		vals := make([]uint32, 0, npos)
		for len(vals) < npos {
			v := rnd.Uint32()
			if !seen[v] {
				seen[v] = true
				vals = append(vals, v)
			}
		}
		sort.Slice(vals, func(i, j int) bool { return vals[i] < vals[j] })
		out := make([][]uint32, nk)
		j := 0
		for c := 0; c < nk; c++ {
			if !isGap[c] {
				out[c] = []uint32{vals[j]}
				j++
			}
		}
		ok := true
		for c := 0; c < nk && ok; c++ {
			if !isGap[c] {
				continue
			}
			var lo, hi int64 = -1, int64(math.MaxUint32) + 1
			for d := c - 1; d >= 0; d-- {
				if !isGap[d] {
					lo = int64(out[d][0])
					break
				}
			}
			for d := c + 1; d < nk; d++ {
				if !isGap[d] {
					hi = int64(out[d][0])
					break
				}
			}
			if hi-lo < 2 {
				ok = false
				break
			}
			ks := []uint32{uint32(lo + 1)}
			if hi-1 != lo+1 {
				ks = append(ks, uint32(hi-1))
			}
			if hi-lo > 4 {
				ks = append(ks, uint32(lo+1+rnd.Int63n(hi-lo-1)))
			}
			out[c] = ks
		}
		if ok {
			return out
		}
	}
}

// RankCompressor is the inverse of the position embeddings (DESIGN.md 1.1): it maps the uint32
// tokens of one ring to the odd ranks 1,3,5,.. (in increasing order) and a key to the rank of the
// token it equals or else to the even rank between its two neighbouring tokens (0 below the
// smallest token, 2*T above the largest). The abstract circle has M = 2*T+1 positions 0..2*T.
type RankCompressor struct {
	tokens []uint32 // sorted, distinct
}

func NewRankCompressor(tokens []uint32) *RankCompressor {
	ts := append([]uint32(nil), tokens...)
	sort.Slice(ts, func(i, j int) bool { return ts[i] < ts[j] })
	out := ts[:0]
	for i, t := range ts {
		if i == 0 || t != ts[i-1] {
			out = append(out, t)
		}
	}
	return &RankCompressor{tokens: out}
}

func (c *RankCompressor) M() int { return 2*len(c.tokens) + 1 }

func (c *RankCompressor) Rank(v uint32) int {
	i := sort.Search(len(c.tokens), func(i int) bool { return c.tokens[i] >= v })
	if i < len(c.tokens) && c.tokens[i] == v {
		return 2*i + 1
	}
	return 2 * i
}
