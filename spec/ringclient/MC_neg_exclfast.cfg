\* negative control: the fast path keeps the UNFILTERED descriptor - ClientHoldsFiltered is EXPECTED to be violated
CONSTANTS
  Inst = {1, 2}
  Ident = {1}
  Sizes = {1}
  Lookbacks = {1}
  Times = {3}
  Readers = {}
  MaxUpd = 3
  ZoneAware = FALSE
  Addrs = {1}
  Zones = {1, 2}
  Toks = {0, 1}
  Stamps = {0, 2}
  States = {"ACTIVE"}
  Beats = {1, 2}
  Excluded = {2}
  WrongFastPath = TRUE
  Compute <- MCCompute
INIT XInit
NEXT XNext
INVARIANT ClientHoldsFiltered
