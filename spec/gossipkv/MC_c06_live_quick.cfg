\* C06 quick (liveness): weak fairness of push/pull between connected pairs and of watcher callbacks
\* returning; 1 fault (partition, restart, duplicate delivery); (<>[]Healed) => <>[](all nodes read the
\* same value and watchers caught up).
CONSTANTS
  N = 2
  NI = 1
  NK = 1
  MaxClock = 1
  Retention = 0
  T = 1
  MaxCas = 2
  MaxFaults = 1
  LiveStates = {"ACTIVE"}
  WatchNodes = {1, 2}
  HoldNodes = {}
  AllowRestart = TRUE
  AllowGarbage = FALSE
  AllowPartition = TRUE
  AllowJunkPP = FALSE
  GateNodes = {}
  InboxCap = 1
  VersionTest = TRUE
  KeyTest = TRUE
  MaxDel = 0
  ObsoleteTimeout = 1
  LockKeys = {}
  ConsumeNet = TRUE
  Ideal = TRUE
  Ghost = FALSE
  Record = FALSE
  Quiesce = FALSE
  RunDepth = 0
  QRounds = 2
SPECIFICATION FairSpec
INVARIANTS TypeOK
PROPERTIES Convergence
CHECK_DEADLOCK FALSE
