\* C05 owners' side (basic lifecycler): instance 2 of 3 wants 2 token(s) out of 3 positions; <= 2 peer updates.
CONSTANTS
  N = 3
  M = 3
  Shared = TRUE
  Kind = "basic"
  Me = 2
  NumTok = 2
  PeerTs = {1, 2}
  PeerSt = {"ACTIVE", "LEAVING"}
  MaxDeliver = 2
  MaxClock = 7
  ThinE = @@THINE@@
  ThinC = @@THINC@@
  ThinR = @@THINR@@
INIT Init
NEXT Next
VIEW View
INVARIANTS TypeOK InvTokenUnique InvLeftHasNoTokens EmitScenario
PROPERTIES VerifiedOwns ReclaimRule MemoryMatchesWrite
CHECK_DEADLOCK FALSE
