"""Shared driver code of C04 and C06 (family gossipkv): spec/gossipkv/GossipKV.tla + harness/c06.

Two kinds of TLC runs:
  * exhaustive configs MC_*.cfg - the property's clauses (invariants, action properties, the temporal
    property Convergence) are decided on the specification;
  * behaviour generation Sim_*.cfg (-simulate with SimNext, one JSON behaviour per trace, the
    quiescence suffix included) - every behaviour is replayed on real detached memberlist.KV nodes by
    harness/c06 and the projection of every node is compared with the specification after every step.
"""
import os
import re

import verif

FAMILY = "gossipkv"
MODULE = "GossipKV"

ASSUMPTIONS = [
    "TLC; the projection of harness/c06 (LocalState bytes -> per-entry (ts - bubble epoch, state, tokens), Client.Get, WatchKey/WatchPrefix callbacks, queue lengths)",
    "testing/synctest: virtual clock and quiescence detection; every specification action is one atomic step of the harness "
    "(a CAS, a NotifyMsg including its per-key worker run, a push/pull including both merges) - interleavings inside these steps are not explored",
    "value domain: ring descriptors without token conflicts (each instance id has its own tokens); one key; key deletion (Delete/ObsoleteEntriesTimeout) not modelled",
    "workload proviso of C03: an instance entry never gets two different live contents with the same timestamp (removals exempt)",
]


def cfg_consts(cfg):
    """Read the constants the harness has to agree on out of a .cfg file."""
    s = open(os.path.join(verif.SPEC, FAMILY, cfg)).read()
    out = {}
    for k in ("Retention", "T", "N", "NI"):
        m = re.search(r"^\s*%s\s*=\s*(\d+)" % k, s, re.M)
        out[k] = int(m.group(1))
    return out


def exhaustive(ctx, cfg, what, timeout, workers=None, coverage=False, expect_violation=None):
    r = ctx.tlc(FAMILY, MODULE, cfg=cfg, timeout=timeout, workers=workers, coverage=coverage, deadlock=False)
    if expect_violation:
        # negative control: the configuration models the code's known deviation and must be rejected
        if r.violated != expect_violation:
            raise verif.Inconclusive("%s: expected TLC to report a violation of %s, got %r / %r" % (
                what, expect_violation, r.violated, (r.error or "")[:200]))
        return r
    ctx.require_tlc_ok(r, what)
    if coverage:
        acts = [a for a in r.coverage_zero if a in ("Tick", "Cas", "Gossip", "Deliver", "DeliverGarbage", "PPStep", "PushPull",
                                                     "WatcherArm", "WatcherRelease", "Partition", "Heal", "Restart")]
        ctx.extra.setdefault("zero_coverage_actions", {})[cfg] = acts
    return r


def generate_and_replay(ctx, prop, cfg, num_per_worker, run_depth, workers=4, timeout=600, corrupt_expected=False):
    """-simulate behaviours (deterministic as a set for a given seed: every worker draws its own
    sequence), sorted, replayed on the real code."""
    k = cfg_consts(cfg)
    depth = run_depth + 40
    r = ctx.tlc(FAMILY, MODULE, cfg=cfg, timeout=timeout, workers=workers, simulate="num=%d" % num_per_worker, depth=depth,
                subst={"@@RUN@@": run_depth}, deadlock=False, count=False)
    ctx.require_tlc_ok(r, "behaviour generation " + cfg)
    if r.emitted == 0:
        raise verif.Inconclusive("%s emitted no behaviours" % cfg)
    lines = sorted(set(l for l in open(r.out_path).read().split("\n") if l.strip()))
    srt = r.out_path + ".sorted"
    with open(srt, "w") as f:
        f.write("\n".join(lines) + "\n")
    env = {"VERIF_IN": srt, "VERIF_RETENTION": k["Retention"], "VERIF_T": k["T"], "VERIF_PROP": prop}
    if corrupt_expected or os.environ.get("VERIF_SELFTEST_CORRUPT"):
        # development-time self-test of the binding: the harness falsifies one expected output
        env["VERIF_CORRUPT_EXPECTED"] = "1"
    res = ctx.run_harness("c06", "^TestReplay$", env=env, timeout=timeout)
    if res.get("cases") != len(lines) and not res.get("fatal"):
        raise verif.Inconclusive("%s: harness replayed %s of %d behaviours" % (cfg, res.get("cases"), len(lines)))
    ctx.absorb(res, cfg)
    return res
