CONSTANTS
  N = 4
  MaxTok = 2
  MaxM = 4
  Z = 2
  MaxSize = 5
  MaxEvents = 2
  ZaModes = {TRUE, FALSE}
  FullMem = FALSE
  MaxRO0 = 1
INIT Init
NEXT Next
VIEW View
INVARIANTS TypeOK LookbackSuperset
CHECK_DEADLOCK FALSE
