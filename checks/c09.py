"""C09 - a lifecycler recovers its identity after a crash at any point or KV faults.

TLC decides KeepsIdentity, ReRegistersFresh (safety) and Recovers, ReRegisters (liveness under weak fairness of the
lifecyclers' own actions) on the lifecycler specification extended with Crash / CrashMid / BRegisterCrash, Wipe and
reject windows, and FileNeverCorrupt on TokensFile.tla. harness/c08 TestRecordC09 injects a crash before and after the
commit of every single store write of 12 scenarios, restarts the same identity and records; LifecyclerTrace.tla validates
the traces including the recovery obligation at the quiesced end; likewise every CAS call of a scenario is the start of a
window of rejected calls. TokensFile.tla is a machine over SEQUENCES of StoreToFile calls (each possibly aborted at any stage,
token sets of different serialized length); TestTokensFile replays every sequence on real files through the failpoints.
"""
import lifecycler_common as lc
import verif

PROPERTY = "C09"
META = {
    "level_text": "TLC model-checks the lifecycler specification with process death (between any two actions, inside a write "
                  "before the commit - tokens file already rewritten - and right after it), store wipes and reject windows for "
                  "2 lifecyclers (classic and basic), deciding KeepsIdentity and ReRegistersFresh as action properties and "
                  "Recovers / ReRegisters as leads-to properties under weak fairness; TokensFile.tla decides, over all sequences of up to 3 "
                  "StoreToFile calls with token sets of different serialized length, each completed or aborted at any stage, that a reader "
                  "always finds exactly the last completed store's tokens. Binding: for 12 scenarios (fresh join, join with observe, restart "
                  "from tokens file / from the ring, leave with and without unregistering, token claim, basic register / observe / "
                  "leave / restart) every store write of the real lifecycler is a crash point, before and after the commit; the "
                  "same identity is restarted and the whole run, ending with the obligation that whoever runs is ACTIVE with its "
                  "full token count, is validated by TLC against the specification; likewise every CAS call of a scenario is the start of a "
                  "window of 1..3 rejected calls (a window may open between two consecutive calls of one burst), and seeded wipe / "
                  "reject-window schedules; every call sequence of TokensFile.tla is replayed on real files through the failpoints.",
    "level_note": "Liveness is decided on the bounded model under fairness and, on the code, as 'holds at the quiesced end of the "
                  "recorded trace'. Crash = the process's store client and tokens-file writes stop at that point (indistinguishable "
                  "from a dead process for store and file). Re-registration with a fresh registration time is required of "
                  "updateConsul / updateInstance writes (heartbeat, state change); autoJoin and verifyTokens re-insert with the "
                  "remembered registration time (named actions of the specification, reported). Exhaustive only within the bounds.",
    "technique": "TLA+ specification model-checked by TLC (safety + liveness); fault-injected traces recorded from the real code "
                 "validated against it by TLC; TLC-generated cases replayed for the tokens file",
    "design_ref": "DESIGN.md 2 C09",
}


def run(ctx):
    ctx.rule = ("one case = one recorded trace: a scenario with one crash point (scenario x incarnation x write index x "
                "before/after commit, or scenario x first rejected CAS call x window length) followed by restart / recovery time, or a seeded "
                "wipe / reject-window schedule, accepted by LifecyclerTrace.tla including the final 'settled' obligation; plus one case "
                "per sequence of StoreToFile calls emitted by TokensFile.tla; "
                "non-trivial = at least 5 committed ring writes / an aborted file write")
    ctx.assumptions = ["a dead process = its kv client fails every call from the crash point on and its tokens file is frozen",
                       "store = consul in-memory client behind a recording wrapper that makes each CAS one atomic step",
                       "virtual clock of testing/synctest; whole seconds"]
    # tokens file: specification over sequences of (possibly aborted) stores, every sequence replayed on real files
    tf_cfg, tf_k = ("TokensFile.cfg", 3) if ctx.tier == "quick" else ("TokensFile_t.cfg", 4)
    r = ctx.tlc(lc.FAMILY, "TokensFile", cfg=tf_cfg, workers=2, timeout=600, deadlock=False)
    ctx.require_tlc_ok(r, "TokensFile")
    if r.emitted == 0:
        raise verif.Inconclusive("TokensFile emitted no cases")
    res = ctx.run_harness("c08", "^TestTokensFile$", env={"VERIF_IN": r.out_path, "VERIF_K": tf_k}, timeout=600)
    if not res.get("cases"):
        raise verif.Inconclusive("tokens-file replay ran no cases")
    ctx.absorb(res, "tokens-file")
    if ctx.tier == "quick":
        lc.model_check(ctx, ["MC_c09_quick", "MC_live_crash"], timeout=600)
        lc.record_and_validate(ctx, "TestRecordC09", {"VERIF_FAULT_TRACES": 20, "VERIF_WINDOWS": "quick"}, timeout_tlc=900, label="crash/fault record/validate")
    else:
        lc.model_check(ctx, ["MC_c09a", "MC_c09b", "MC_live_crash", "MC_live_kv"], timeout=3000)
        lc.record_and_validate(ctx, "TestRecordC09", {"VERIF_FAULT_TRACES": 400, "VERIF_WINDOWS": "full"}, timeout_go=1500, timeout_tlc=2400,
                               label="crash/fault record/validate")
    return "model_checking"
