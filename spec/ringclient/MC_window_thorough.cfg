\* look-back validity windows: every combination of registration / read-only fields of 3 instances in 2 zones
\* (zone-aware), sizes 0 and 1, every query time in any order
CONSTANTS
  Inst = {1, 2, 3}
  Ident = {1}
  Sizes = {0, 1}
  Lookbacks = {1}
  Times = {2, 3, 4, 5}
  Readers = {}
  MaxUpd = 0
  ZoneAware = TRUE
  Addrs = {1, 2}
  Zones = {1, 2}
  Toks = {0, 1}
  Stamps = {0, 2, 3}
  States = {"ACTIVE", "LEAVING"}
  Beats = {1, 2}
  Compute <- MCCompute
  InitDescs <- WideInitDescs
INIT Init
NEXT Next
INVARIANTS TypeOK UnobservableFast PendingSound
