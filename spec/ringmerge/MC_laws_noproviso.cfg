\* Expected to be VIOLATED: commutativity without the statement's provisos (one content per (entry, timestamp)).
CONSTANTS
  N = 1
  M = 2
  Shared = FALSE
  TsSet = {1, 2}
  LiveSt = {"ACTIVE", "LEAVING"}
  Arity = 2
  EmitConv = FALSE
INIT Init
NEXT Next
INVARIANTS CommWithoutProvisos
CHECK_DEADLOCK FALSE
