---------------------------- MODULE RingClientExcl ----------------------------
(***************************************************************************)
(* C13 with ring.Config.ExcludedZones: the store holds the full descriptor *)
(* (store), Ring.updateRingState removes the instances of the excluded     *)
(* zones from every delivered value BEFORE it classifies the update, so    *)
(* the client's "latest ring content" is Exclude(store, Excluded):         *)
(*   ClientHoldsFiltered  r.ringDesc is the filtered store content on the  *)
(*                        fast path (Equal / EqualButStatesAndTimestamps)  *)
(*                        as well as after a rebuild                       *)
(*   NoExcludedVisible    no answer can contain an excluded instance       *)
(*   HiddenKeepsCaches    an update confined to excluded zones is "Equal": *)
(*                        indexes, lastTopologyChange and caches stay      *)
(* together with Unobservable (relative to desc) this is "every answer =   *)
(* the answer of a client freshly built from the store with the same       *)
(* configuration".  WrongFastPath = TRUE is the negative control: the fast *)
(* path stores the UNFILTERED value (filter applied only before a rebuild).*)
(***************************************************************************)
EXTENDS RingClientMC

CONSTANTS Excluded,       \* ring.Config.ExcludedZones
          WrongFastPath   \* negative control

VARIABLE store

xvars == <<vars, store>>

XInit == Init /\ store = desc

Deliver(s) ==
    LET d == Exclude(s, Excluded) IN
    /\ store' = s
    /\ IF WrongFastPath /\ Classify(desc, d) # "Different"
       THEN /\ nupd < MaxUpd /\ nupd' = nupd + 1 /\ desc' = s
            /\ UNCHANGED <<idx, ltc, cache, lbc, pend>>
       ELSE Update(d)

StoreUpdates ==
    \/ Deliver(store)
    \/ \E i \in DOMAIN store, v \in Beats : v # store[i].ts /\ Deliver([store EXCEPT ![i].ts = v])
    \/ \E i \in DOMAIN store, v \in Zones : v # store[i].zone /\ Deliver([store EXCEPT ![i].zone = v])
    \/ \E i \in DOMAIN store, v \in Toks : v # store[i].tok /\ Deliver([store EXCEPT ![i].tok = v])
    \/ \E i \in DOMAIN store : Deliver([store EXCEPT ![i].ro = ~@])
    \/ \E i \in Inst \ DOMAIN store, r \in JoinRecs : Deliver(Add(store, i, r))
    \/ \E i \in DOMAIN store : Deliver(Remove(store, i))

XNext == StoreUpdates \/ (Queries /\ UNCHANGED store)

ClientHoldsFiltered == desc = Exclude(store, Excluded)
NoExcludedVisible   == \A i \in DOMAIN desc : desc[i].zone \notin Excluded
HiddenKeepsCaches   == [][Exclude(store', Excluded) = Exclude(store, Excluded) =>
                             idx' = idx /\ ltc' = ltc /\ (cache' # cache \/ lbc' # lbc => nupd' = nupd)]_xvars
\* non-vacuity: an excluded instance does sit in the store while the client serves from a cache
NeverHiddenWhileCached == ~(\E i \in DOMAIN store : store[i].zone \in Excluded) \/ \A k \in PlainKeys : cache[k] = None
=============================================================================
