--------------------------- MODULE TokenRangesTrace ---------------------------
(***************************************************************************)
(* Code -> specification direction of C14: every line of trace.ndjson is a *)
(* ring recorded from the real code (random tokens, rank-compressed into   *)
(* key classes) together with what the code answered: for every owner the  *)
(* key classes whose sampled keys ALL / SOME satisfy IncludesKey, and the  *)
(* classes whose sampled keys ALL / SOME are assigned to it by the real    *)
(* lookup.  A line is accepted iff all four equal the specification's      *)
(* OwnedKeys and RangeKeys (which TLC also re-checks to coincide).         *)
(***************************************************************************)
EXTENDS TokenRanges

Trace == ndJsonDeserialize("trace.ndjson")

VARIABLE l
TraceInit == l = 1 /\ own = [p \in {} |-> 0] /\ zone = <<>>
TraceNext == l < Len(Trace) /\ l' = l + 1 /\ UNCHANGED <<own, zone>>

\* own arrives as a sequence over classes 1..nk (-1 gap, i owner); shift to 0-based positions
OwnOf(t)  == [p \in {j - 1 : j \in {x \in 1..Len(t.own) : t.own[x] > 0}} |-> t.own[p + 1]]
AsSet(seq) == {seq[j] : j \in 1..Len(seq)}

LineOK == LET t  == Trace[l]
              o  == OwnOf(t)
              zn == t.zone
              nk == Len(t.own)
          IN \A i \in 1..Len(zn) :
               LET want == OwnedKeysP(nk, o, zn, i) IN
                 /\ RangeKeysP(nk, o, zn, i) = want
                 /\ AsSet(t.incl_all[i]) = want
                 /\ AsSet(t.incl_some[i]) = want
                 /\ AsSet(t.look_all[i]) = want
                 /\ AsSet(t.look_some[i]) = want
AllConsumed == TLCGet("stats").diameter = Len(Trace)
=============================================================================
