CONSTANTS
  N = 4
  MaxTok = 3
  MaxM = 6
  Z = 3
  MaxSize = 5
  MaxEvents = 0
  ZaModes = {TRUE}
  FullMem = TRUE
  MaxRO0 = 4
INIT Init
NEXT Next
VIEW View
INVARIANTS TypeOK SizeFormula NoReadOnlyMembers Monotone Consistency LookbackSuperset
CHECK_DEADLOCK FALSE
