------------------------------- MODULE Batch -------------------------------
(***************************************************************************)
(* C10 - ring.DoBatchWithOptions (ring/batch.go): batched quorum writes.   *)
(*                                                                         *)
(* A batch has nk keys (items); key k is served by the replica calls       *)
(* cfg.reps[k] (one call per distinct replica address) and tolerates       *)
(* cfg.maxErr[k] failures, i.e. needs MinS(k) = |reps[k]| - maxErr[k]      *)
(* acknowledgements.  Every call returns ok, a client-class error "cerr"   *)
(* or a server-class error "serr"; the error value of call c is c itself   *)
(* (every replica returns its own, distinguishable error).                 *)
(*                                                                         *)
(* Goroutines of the code and their actions here:                          *)
(*   main     DStart, DGet, DLast (dispatch, with the three early exits    *)
(*            that run cleanup synchronously), MainRecvErr, MainRecvDone,  *)
(*            MainCtxDone (the select), MainEmpty (see EmptyFix)           *)
(*   call c   Release (callback returns), then batchTracker.record: every  *)
(*            access to a shared atomic / channel is one CallStep, in the  *)
(*            code's order, then wg.Done                                   *)
(*   cleanup  Cleanup (wg.Wait() returned; o.Cleanup())                    *)
(*   caller   Cancel (the context ends)                                    *)
(*                                                                         *)
(* Three granularities share every definition (constant Grain):            *)
(*   "atomic" one action per shared-memory access of record  (Step)        *)
(*   "hook"   one action per stretch between two ring.VerifYield points    *)
(*            "batch.record.item" / "batch.record.counted"   (Seg)         *)
(*   "call"   record + wg.Done of a returning call is one action           *)
(* The coarser grains are *defined* as iterations of the atomic CallStep,  *)
(* so they are by construction behaviours of the atomic specification      *)
(* with the steps of one call made contiguous.                             *)
(***************************************************************************)
EXTENDS Integers, FiniteSets, Sequences, TLC, Json

CONSTANTS MinKeys, MaxKeys,  \* key lists of MinKeys..MaxKeys keys
          NI,                \* replica calls / instances 1..NI  (NI <= 6)
          MaxRF,             \* at most this many replicas per key
          Shape,             \* "any": maxErr[k] in 0..|reps[k]|-1;  "quorum": dskit's strategy (see ShapeOK);
                             \* "degenerate": also maxErr[k] = |reps[k]| (minSuccess 0), which no ring of dskit produces -
                             \* negative control: the call then waits for the caller's context (MC_degenerate*.cfg)
          Grain,             \* "atomic" | "hook" | "call"
          Gate,              \* TRUE: the environment moves only in quiescent states (what a test driver can do)
          EmptyFix,          \* TRUE: an empty key list returns nil (the property); FALSE: the pinned code (F1)
          AllowCancel,       \* the caller's context may end
          EarlyExits,        \* include ring errors (Get fails at key j, InstancesCount() = 0)
          MaxConc,           \* at most this many calls are inside record at the same time (bounds the interleavings)
          Spawn,             \* the o.Go option: "go" - a spawned function starts at once (default spawner, `go f()`);
                             \* "deferred" - a caller-supplied spawner (worker pool) starts every spawned function - the
                             \* replica calls and the cleanup waiter - whenever it likes, in any order (Begin, BeginCleanup);
                             \* "deferred-addlate" - negative control: a model in which the wait group is armed by the spawned
                             \* function itself instead of before spawning (MC_neg_addlate.cfg: TLC must refute CleanupAfterAll)
          Record             \* keep the history of environment steps + observations (case generation)

Inst    == 1..NI
Outcome == {"ok", "cerr", "serr"}
ErrOut  == {"cerr", "serr"}

VARIABLES cfg,      \* the case: [nk, reps, maxErr, getErrAt, noInst]
          main,     \* main goroutine: "start" | "get" | "last" | "waiting" | "returned"
          gi,       \* index of the key whose replication set is looked up next
          ctx,      \* the caller's context is done
          items,    \* items[c] = indexes handed to the callback of replica c (in the order the code appends them)
          s,        \* everything batchTracker.record touches: per-key counters, tracker counters, channels,
                    \* wait group, and the program counter / locals of every call goroutine
          cleanG,   \* cleanup goroutine: "none" | "waiting" | "done"
          cleaned,  \* number of times o.Cleanup ran
          nret,     \* number of times DoBatchWithOptions returned
          ret,      \* what it returned: [kind |-> "none"|"nil"|"ctx"|"get"|"noinst"|"rep", c |-> call whose error it is]
          spawns,   \* number of o.Go invocations
          pend,     \* case generation: the environment step whose effect is not observed yet
          hist      \* case generation: environment steps with the observation at the following quiescent point

vars == <<cfg, main, gi, ctx, items, s, cleanG, cleaned, nret, ret, spawns, pend, hist>>

Keys    == 1..cfg.nk
MinS(k) == Cardinality(cfg.reps[k]) - cfg.maxErr[k]

-----------------------------------------------------------------------------
(* The universe of cases.  Replica names are interchangeable, so only the   *)
(* assignment that is smallest under renaming of replicas is kept.          *)

Mask(S) == (IF 1 \in S THEN 1 ELSE 0) + (IF 2 \in S THEN 2 ELSE 0) + (IF 3 \in S THEN 4 ELSE 0)
         + (IF 4 \in S THEN 8 ELSE 0) + (IF 5 \in S THEN 16 ELSE 0) + (IF 6 \in S THEN 32 ELSE 0)
RECURSIVE Code(_, _)
Code(r, n) == IF n = 0 THEN 0 ELSE Code(r, n - 1) * 64 + Mask(r[n])
Canonical(r, n) == \A p \in Permutations(Inst) :
                      Code(r, n) <= Code([k \in 1..n |-> {p[i] : i \in r[k]}], n)

RepSets == {S \in SUBSET Inst : S # {} /\ Cardinality(S) <= MaxRF}

(* "quorum": what DefaultReplicationStrategy produces for replication factor MaxRF:    *)
(* minSuccess = MaxRF \div 2 + 1, between minSuccess and MaxRF healthy replicas.        *)
ShapeOK(r, m, n) ==
    \A k \in 1..n :
        /\ m[k] < Cardinality(r[k]) \/ (Shape = "degenerate" /\ m[k] = Cardinality(r[k]))
        /\ Shape = "quorum" => Cardinality(r[k]) - m[k] = (MaxRF \div 2) + 1

(* (an operator with a parameter: TLC evaluates parameterless constant definitions at start-up, also in runs  *)
(* that never use them - BatchSim, BatchTrace - where the universe may be far too large to enumerate)        *)
CfgSet(u) ==
    UNION {
        {[nk |-> n, reps |-> r, maxErr |-> m, getErrAt |-> g, noInst |-> z] :
            r \in {x \in [1..n -> RepSets] : Canonical(x, n)},
            m \in [1..n -> 0..(IF Shape = "degenerate" THEN MaxRF ELSE MaxRF - 1)],
            g \in (IF EarlyExits THEN 0..n ELSE {0}),
            z \in (IF EarlyExits THEN BOOLEAN ELSE {FALSE})}
        : n \in MinKeys..MaxKeys}

Cases(u) == {c \in CfgSet(u) : ShapeOK(c.reps, c.maxErr, c.nk) /\ (c.noInst => c.getErrAt = 0)}

-----------------------------------------------------------------------------
(* batchTracker.record, one shared-memory access per step.                  *)
(* pc of a call:  "idle" not selected / not spawned yet, "cb" inside the    *)
(* callback ("spawned": handed to o.Go, not started yet), then per item:                                               *)
(*   "item"     (yield point batch.record.item) next: err.Store / succeeded.Inc   *)
(*   "incFail"  next: failedClient.Inc / failedServer.Inc                   *)
(*   "counted"  (yield point batch.record.counted) next: the first access   *)
(*              of the decision: rpcsFailed.Inc | remaining.Dec | rpcsPending.Dec *)
(*   "failOwn"  remaining hit 0 on an error: next rpcsFailed.Inc, would send own error *)
(*   "failLoad" remaining hit 0 on a success: next rpcsFailed.Inc, would send it.err   *)
(*   "loadErr"  next: it.err.Load()                                          *)
(*   "sendErr"  next: b.err <- val          (blocks while the channel is full) *)
(*   "sendDone" next: b.done <- struct{}{}  (blocks while the channel is full) *)
(* and "wgdone" (next: wg.Done()), "done".                                  *)

YieldPcs == {"item", "counted"}
StepPcs  == {"item", "incFail", "counted", "failOwn", "failLoad", "loadErr", "sendErr", "sendDone", "wgdone"}

NextItem(t, c) ==
    IF t.idx[c] < Len(items[c])
    THEN [t EXCEPT !.idx[c] = @ + 1, !.pc[c] = "item", !.loc[c] = 0, !.val[c] = 0]
    ELSE [t EXCEPT !.idx[c] = 0, !.pc[c] = "wgdone", !.loc[c] = 0, !.val[c] = 0]

IncFailed(t, c, own) ==   \* if b.rpcsFailed.Inc() == 1 { b.err <- ... }
    LET t2 == [t EXCEPT !.failed = @ + 1] IN
    IF t2.failed = 1
    THEN IF own THEN [t2 EXCEPT !.pc[c] = "sendErr", !.val[c] = c]
                ELSE [t2 EXCEPT !.pc[c] = "loadErr"]
    ELSE NextItem(t2, c)

DecRemaining(t, c, k, topc) ==   \* it.remaining.Dec() == 0 ?
    LET t2 == [t EXCEPT !.rem[k] = @ - 1] IN
    IF t2.rem[k] = 0 THEN [t2 EXCEPT !.pc[c] = topc] ELSE NextItem(t2, c)

CallEnabled(t, c) ==
    /\ t.pc[c] \in StepPcs
    /\ t.pc[c] = "sendErr"  => Len(t.chErr) < 1      \* make(chan error, 1)
    /\ t.pc[c] = "sendDone" => t.chDone < 1          \* make(chan struct{}, 1)

CallStep(t, c) ==
    LET k     == items[c][t.idx[c]]
        isErr == t.out[c] \in ErrOut
    IN CASE t.pc[c] = "item" ->
              IF isErr THEN [t EXCEPT !.errv[k] = c, !.pc[c] = "incFail"]
                       ELSE [t EXCEPT !.succ[k] = @ + 1, !.loc[c] = t.succ[k] + 1, !.pc[c] = "counted"]
         [] t.pc[c] = "incFail" ->
              IF t.out[c] = "cerr"
              THEN [t EXCEPT !.failC[k] = @ + 1, !.loc[c] = t.failC[k] + 1, !.pc[c] = "counted"]
              ELSE [t EXCEPT !.failS[k] = @ + 1, !.loc[c] = t.failS[k] + 1, !.pc[c] = "counted"]
         [] t.pc[c] = "counted" ->
              IF isErr
              THEN IF t.loc[c] > cfg.maxErr[k]            \* errCount > maxFailures || remaining.Dec() == 0
                   THEN IncFailed(t, c, TRUE)
                   ELSE DecRemaining(t, c, k, "failOwn")
              ELSE IF t.loc[c] = MinS(k)                   \* succeeded == minSuccess
                   THEN LET t2 == [t EXCEPT !.pending = @ - 1] IN
                        IF t2.pending = 0 THEN [t2 EXCEPT !.pc[c] = "sendDone"] ELSE NextItem(t2, c)
                   ELSE IF t.loc[c] < MinS(k)              \* succeeded < minSuccess
                        THEN DecRemaining(t, c, k, "failLoad")
                        ELSE NextItem(t, c)
         [] t.pc[c] = "failOwn"  -> IncFailed(t, c, TRUE)
         [] t.pc[c] = "failLoad" -> IncFailed(t, c, FALSE)
         [] t.pc[c] = "loadErr"  -> [t EXCEPT !.val[c] = t.errv[k], !.pc[c] = "sendErr"]
         [] t.pc[c] = "sendErr"  -> NextItem([t EXCEPT !.chErr = Append(@, t.val[c]), !.sentErr = @ + 1], c)
         [] t.pc[c] = "sendDone" -> NextItem([t EXCEPT !.chDone = @ + 1, !.sentDone = @ + 1], c)
         [] t.pc[c] = "wgdone"   -> [t EXCEPT !.wg = @ - 1, !.pc[c] = "done"]

(* Run call c until it reaches one of the program counters in stops, finishes or blocks. *)
RECURSIVE Run(_, _, _)
Run(t, c, stops) == IF ~CallEnabled(t, c) \/ t.pc[c] \in stops THEN t ELSE Run(CallStep(t, c), c, stops)
Stretch(t, c, stops) == Run(CallStep(t, c), c, stops)
GrainStops == IF Grain = "hook" THEN YieldPcs ELSE {}

-----------------------------------------------------------------------------
NoPend == [on |-> FALSE, a |-> "", c |-> 0, o |-> "", pre |-> FALSE, cg |-> 0]

InitWithMain(c, m) ==
    /\ cfg = c
    /\ main = m /\ gi = 0 /\ ctx = FALSE
    /\ items = [i \in Inst |-> <<>>]
    /\ s = [succ |-> [k \in 1..c.nk |-> 0], failC |-> [k \in 1..c.nk |-> 0], failS |-> [k \in 1..c.nk |-> 0],
            rem |-> [k \in 1..c.nk |-> 0], errv |-> [k \in 1..c.nk |-> 0],
            pending |-> 0, failed |-> 0, chErr |-> <<>>, chDone |-> 0, sentErr |-> 0, sentDone |-> 0, wg |-> 0,
            pc |-> [i \in Inst |-> "idle"], idx |-> [i \in Inst |-> 0], loc |-> [i \in Inst |-> 0],
            val |-> [i \in Inst |-> 0], out |-> [i \in Inst |-> "none"]]
    /\ cleanG = "none" /\ cleaned = 0 /\ nret = 0 /\ ret = [kind |-> "none", c |-> 0] /\ spawns = 0
    /\ pend = [NoPend EXCEPT !.on = Record, !.a = "start"]
    /\ hist = <<>>

InitWith(c) == InitWithMain(c, "start")

Init == \E c \in Cases(0) : InitWith(c)

-----------------------------------------------------------------------------
(* What is enabled without the environment: the goroutines of the code.     *)
MainCanRecv == main = "waiting" /\ (s.chErr # <<>> \/ s.chDone > 0 \/ ctx \/ (EmptyFix /\ cfg.nk = 0))
CleanupEnabled == cleanG = "waiting" /\ s.wg = 0
Blocked(c) == s.pc[c] \in {"sendErr", "sendDone"}
InternalEnabled ==
    \/ main \in {"start", "get", "last"}
    \/ MainCanRecv
    \/ CleanupEnabled
    \/ \E c \in Inst : CallEnabled(s, c) /\ (Grain = "atomic" \/ Blocked(c))
Quiescent == ~InternalEnabled
EnvMayMove == ~Gate \/ (Quiescent /\ ~pend.on)

Log(a, c, o) == IF Record THEN pend' = [NoPend EXCEPT !.on = TRUE, !.a = a, !.c = c, !.o = o] ELSE UNCHANGED pend

Return(kind, c) == main' = "returned" /\ ret' = [kind |-> kind, c |-> c] /\ nret' = nret + 1

(* The three exits before any callback is started: o.Cleanup() runs synchronously. *)
SyncExit(kind) == Return(kind, 0) /\ cleaned' = cleaned + 1

(* if r.InstancesCount() <= 0 { o.Cleanup(); return error } *)
DStart ==
    /\ main = "start"
    /\ IF cfg.noInst
       THEN SyncExit("noinst") /\ UNCHANGED gi
       ELSE /\ main' = (IF cfg.nk = 0 THEN "last" ELSE "get") /\ gi' = 1
            /\ UNCHANGED <<ret, nret, cleaned>>
    /\ UNCHANGED <<cfg, ctx, items, s, cleanG, spawns, pend, hist>>

(* One iteration of the loop over the keys: the context check (i%10e3 == 0: first key only within the bounds), *)
(* r.Get (which may fail, and during which the caller's context may end), tracker set-up, grouping by replica.  *)
DGet ==
    /\ main = "get"
    /\ IF gi = 1 /\ ctx
       THEN SyncExit("ctx") /\ UNCHANGED <<gi, ctx, items, s, pend>>
       ELSE \E cn \in (IF AllowCancel /\ ~ctx THEN BOOLEAN ELSE {FALSE}) :
              /\ ctx' = (ctx \/ cn)
              /\ pend' = (IF cn /\ Record THEN [pend EXCEPT !.cg = gi] ELSE pend)
              /\ IF cfg.getErrAt = gi
                 THEN SyncExit("get") /\ UNCHANGED <<gi, items, s>>
                 ELSE /\ items' = [i \in Inst |-> IF i \in cfg.reps[gi] THEN Append(items[i], gi) ELSE items[i]]
                      /\ s' = [s EXCEPT !.rem[gi] = Cardinality(cfg.reps[gi])]
                      /\ gi' = gi + 1
                      /\ main' = (IF gi = cfg.nk THEN "last" ELSE "get")
                      /\ UNCHANGED <<ret, nret, cleaned>>
    /\ UNCHANGED <<cfg, cleanG, spawns, hist>>

(* "One last check before calling the callbacks", then the tracker, wg.Add, one o.Go per replica and the cleanup goroutine. *)
DLast ==
    /\ main = "last"
    /\ IF ctx
       THEN SyncExit("ctx") /\ UNCHANGED <<s, cleanG, spawns>>
       ELSE LET called == {i \in Inst : items[i] # <<>>} IN
            /\ s' = [s EXCEPT !.pending = cfg.nk,
                              !.wg = (IF Spawn = "deferred-addlate" THEN 0 ELSE Cardinality(called)),   \* wg.Add(len(instances))
                              !.pc = [i \in Inst |-> IF i \in called THEN (IF Spawn = "go" THEN "cb" ELSE "spawned") ELSE "idle"]]
            /\ spawns' = Cardinality(called) + 1
            /\ cleanG' = (IF Spawn = "go" THEN "waiting" ELSE "spawned")
            /\ main' = "waiting"
            /\ UNCHANGED <<ret, nret, cleaned>>
    /\ UNCHANGED <<cfg, gi, ctx, items, pend, hist>>

(* select { case err := <-tracker.err: .. case <-tracker.done: .. case <-ctx.Done(): .. } *)
MainRecvErr ==
    /\ main = "waiting" /\ s.chErr # <<>>
    /\ Return("rep", Head(s.chErr))
    /\ s' = [s EXCEPT !.chErr = Tail(@)]
    /\ UNCHANGED <<cfg, gi, ctx, items, cleanG, cleaned, spawns, pend, hist>>
MainRecvDone ==
    /\ main = "waiting" /\ s.chDone > 0
    /\ Return("nil", 0)
    /\ s' = [s EXCEPT !.chDone = @ - 1]
    /\ UNCHANGED <<cfg, gi, ctx, items, cleanG, cleaned, spawns, pend, hist>>
MainCtxDone ==
    /\ main = "waiting" /\ ctx
    /\ Return("ctx", 0)
    /\ UNCHANGED <<cfg, gi, ctx, items, s, cleanG, cleaned, spawns, pend, hist>>
(* The property demands a return for an empty key list too.  The pinned code has no such step: *)
(* rpcsPending starts at 0 and nobody ever sends on done (EmptyFix = FALSE models that).       *)
MainEmpty ==
    /\ EmptyFix /\ main = "waiting" /\ cfg.nk = 0
    /\ Return("nil", 0)
    /\ UNCHANGED <<cfg, gi, ctx, items, s, cleanG, cleaned, spawns, pend, hist>>

(* o.Go(func() { wg.Wait(); o.Cleanup() }) *)
Cleanup ==
    /\ CleanupEnabled
    /\ cleanG' = "done" /\ cleaned' = cleaned + 1
    /\ UNCHANGED <<cfg, main, gi, ctx, items, s, nret, ret, spawns, pend, hist>>

(* A sender that was blocked on a full channel goes on (never happens: SingleSend). *)
Resume(c) ==
    /\ Grain # "atomic" /\ Blocked(c) /\ CallEnabled(s, c)
    /\ s' = Stretch(s, c, GrainStops)
    /\ UNCHANGED <<cfg, main, gi, ctx, items, cleanG, cleaned, nret, ret, spawns, pend, hist>>

(* One shared-memory access of a call that is inside record (grain "atomic"). *)
Step(c) ==
    /\ Grain = "atomic" /\ s.pc[c] # "cb" /\ CallEnabled(s, c)
    /\ s' = CallStep(s, c)
    /\ UNCHANGED <<cfg, main, gi, ctx, items, cleanG, cleaned, nret, ret, spawns, pend, hist>>

Internal == DStart \/ DGet \/ DLast \/ MainRecvErr \/ MainRecvDone \/ MainCtxDone \/ MainEmpty \/ Cleanup
            \/ \E c \in Inst : Resume(c) \/ Step(c)

-----------------------------------------------------------------------------
(* The environment. *)

(* The callback of replica c returns with outcome o and its goroutine enters record. *)
Entered(t, c, o) == [t EXCEPT !.out[c] = o, !.pc[c] = "item", !.idx[c] = 1]
Release(c, o) ==
    /\ s.pc[c] = "cb" /\ EnvMayMove
    /\ Cardinality({d \in Inst : s.pc[d] \in StepPcs}) < MaxConc
    /\ s' = (IF Grain = "call" THEN Run(Entered(s, c, o), c, {}) ELSE Entered(s, c, o))
    /\ Log("rel", c, o)
    /\ UNCHANGED <<cfg, main, gi, ctx, items, cleanG, cleaned, nret, ret, spawns, hist>>

(* Grain "hook": the goroutine of call c runs from the yield point it is parked at to the next one (or to its end). *)
Seg(c) ==
    /\ Grain = "hook" /\ s.pc[c] \in YieldPcs /\ EnvMayMove
    /\ s' = Stretch(s, c, YieldPcs)
    /\ Log("seg", c, "")
    /\ UNCHANGED <<cfg, main, gi, ctx, items, cleanG, cleaned, nret, ret, spawns, hist>>

(* A caller-supplied spawner (option Go) starts what it was handed when it likes: the function of replica call c    *)
(* begins (and enters the callback) / the cleanup waiter begins (and reaches wg.Wait()).                            *)
Begin(c) ==
    /\ Spawn # "go" /\ s.pc[c] = "spawned" /\ EnvMayMove
    /\ s' = [s EXCEPT !.pc[c] = "cb", !.wg = (IF Spawn = "deferred-addlate" THEN @ + 1 ELSE @)]
    /\ Log("begin", c, "")
    /\ UNCHANGED <<cfg, main, gi, ctx, items, cleanG, cleaned, nret, ret, spawns, hist>>
BeginCleanup ==
    /\ Spawn # "go" /\ cleanG = "spawned" /\ EnvMayMove
    /\ cleanG' = "waiting"
    /\ Log("beginc", 0, "")
    /\ UNCHANGED <<cfg, main, gi, ctx, items, s, cleaned, nret, ret, spawns, hist>>

(* The caller's context ends.  It is only read by the main goroutine before it returns.  A driver can end it *)
(* before the call, inside r.Get (see DGet) or while the call waits.                                           *)
Cancel ==
    /\ AllowCancel /\ ~ctx /\ main # "returned"
    /\ ~Gate \/ main = "start" \/ (main = "waiting" /\ Quiescent /\ ~pend.on)
    /\ ctx' = TRUE
    /\ IF ~Record THEN UNCHANGED pend
       ELSE IF main = "start" THEN pend' = [pend EXCEPT !.pre = TRUE]
       ELSE pend' = [NoPend EXCEPT !.on = TRUE, !.a = "cancel"]
    /\ UNCHANGED <<cfg, main, gi, items, s, cleanG, cleaned, nret, ret, spawns, hist>>

Env == Cancel \/ BeginCleanup \/ \E c \in Inst : Begin(c) \/ Seg(c) \/ \E o \in Outcome : Release(c, o)

(* Case generation: what a driver sees at a quiescent point. *)
Obs == [returned |-> main = "returned", kind |-> ret.kind, c |-> ret.c, cleaned |-> cleaned,
        at |-> [i \in Inst |-> IF s.pc[i] \in YieldPcs \cup {"cb"} THEN s.pc[i] ELSE ""]]
Observe ==
    /\ Record /\ pend.on /\ Quiescent
    /\ hist' = Append(hist, [a |-> pend.a, c |-> pend.c, o |-> pend.o, pre |-> pend.pre, cg |-> pend.cg, obs |-> Obs])
    /\ pend' = NoPend
    /\ UNCHANGED <<cfg, main, gi, ctx, items, s, cleanG, cleaned, nret, ret, spawns>>

AllCallsDone == \A c \in Inst : s.pc[c] \in {"idle", "done"}
Over == main = "returned" /\ AllCallsDone /\ cleanG \notin {"waiting", "spawned"} /\ ~pend.on
Finished == Over /\ UNCHANGED vars

Next == Internal \/ Env \/ Observe \/ Finished
Spec == Init /\ [][Next]_vars

(* Fairness: goroutines of the code run, and every replica eventually answers. The caller need not cancel. *)
FairSpec == Spec /\ WF_vars(Internal) /\ WF_vars(BeginCleanup)
                 /\ \A c \in Inst : WF_vars(\E o \in Outcome : Release(c, o)) /\ WF_vars(Begin(c))

-----------------------------------------------------------------------------
(* The property. *)

RetKinds == {"none", "nil", "ctx", "get", "noinst", "rep"}
TypeOK ==
    /\ main \in {"start", "get", "last", "waiting", "returned"}
    /\ ret.kind \in RetKinds /\ ret.c \in 0..NI
    /\ \A c \in Inst : s.pc[c] \in StepPcs \cup {"idle", "spawned", "cb", "done"}
    /\ cleanG \in {"none", "spawned", "waiting", "done"}
    /\ \A k \in Keys : s.rem[k] >= 0 /\ s.succ[k] >= 0
    /\ s.pending >= 0 /\ s.wg >= 0 /\ s.chDone \in 0..1 /\ Len(s.chErr) <= 1

Dispatched == cleanG # "none"
Served(c)  == {k \in Keys : c \in cfg.reps[k]}
Answered(c) == s.out[c] # "none"                      \* the callback of c has returned
Acked(k)   == {c \in cfg.reps[k] : s.out[c] = "ok"}
Failed(k)  == {c \in cfg.reps[k] : s.out[c] \in ErrOut}
(* call c has finished accounting for key k *)
Recorded(c, k) == \/ s.pc[c] \in {"wgdone", "done"}
                  \/ s.pc[c] \in StepPcs /\ s.idx[c] > 0 /\ \E j \in 1..(s.idx[c] - 1) : items[c][j] = k

(* <= 1 send on either channel, attempted or completed: no sender can ever block (both have capacity 1). *)
SingleSend ==
    /\ s.sentErr  + Cardinality({c \in Inst : s.pc[c] \in {"sendErr", "loadErr"}}) <= 1
    /\ s.sentDone + Cardinality({c \in Inst : s.pc[c] = "sendDone"}) <= 1
    /\ \A c \in Inst : s.pc[c] \in StepPcs => CallEnabled(s, c)
    /\ ~(s.sentErr > 0 /\ s.sentDone > 0)               \* never both verdicts

ReturnsOnce ==
    /\ nret <= 1
    /\ (main = "returned") = (nret = 1)
    /\ (main = "returned") = (ret.kind # "none")

(* Success only with quorum on every key. *)
SuccessMeansQuorum ==
    ret.kind = "nil" => \A k \in Keys : Cardinality(Acked(k)) >= MinS(k) /\ s.succ[k] >= MinS(k)

(* A replica error is returned only if some key can no longer reach quorum, and it is an error that a *)
(* replica of such a key really returned.                                                             *)
Lost(k) == Cardinality(Failed(k)) > cfg.maxErr[k]
ErrorMeansNoQuorum == ret.kind = "rep" => \E k \in Keys : Lost(k)
ErrorIsReal ==
    ret.kind = "rep" => \E k \in Keys : Lost(k) /\ ret.c \in Failed(k)
(* ... and what sits in the error channel is such an error as well *)
ChannelErrorIsReal ==
    \A j \in 1..Len(s.chErr) : \E k \in Keys : Lost(k) /\ s.chErr[j] \in Failed(k)

(* The error verdict is taken (rpcsFailed > 0: an error is sent, about to be sent by a goroutine that cannot    *)
(* block, or already received) as soon as, for some key, failures of one family that have been accounted for    *)
(* exceed the tolerance - and at the latest when the last replica of a key without quorum has been accounted.   *)
ErrDecided == s.failed > 0
ErrDelivered == s.sentErr = 1 \/ \E c \in Inst : s.pc[c] \in {"sendErr", "loadErr"}
EarlyError ==
    \A k \in Keys : \A f \in ErrOut :
        Cardinality({c \in cfg.reps[k] : s.out[c] = f /\ Recorded(c, k)}) > cfg.maxErr[k] => ErrDecided
LastAnswerError ==
    \A k \in Keys :
        (\A c \in cfg.reps[k] : Answered(c) /\ Recorded(c, k)) /\ Cardinality(Acked(k)) < MinS(k) => ErrDecided
DecidedIsDelivered == ErrDecided => ErrDelivered
(* conversely the success verdict: all keys have quorum accounted => done is (being) sent *)
SuccessDelivered ==
    (Dispatched /\ cfg.nk > 0 /\ \A k \in Keys : Cardinality(Acked(k)) >= MinS(k) /\ \A c \in Acked(k) : Recorded(c, k))
        => (s.sentDone = 1 \/ \E c \in Inst : s.pc[c] = "sendDone")

(* It always returns once all replica calls have returned (and been accounted) or the context ended: *)
(* in such a state the main goroutine has returned or its select has a ready case.                   *)
NoHang ==
    (main = "waiting" /\ (AllCallsDone \/ ctx)) => MainCanRecv
(* Each selected replica is called once, with exactly the indexes of the keys it serves (ascending). *)
RECURSIVE Asc(_)
Asc(q) == Len(q) <= 1 \/ (q[1] < q[2] /\ Asc(Tail(q)))
CalledExactly ==
    /\ \A c \in Inst : s.pc[c] # "idle" => (Dispatched /\ Served(c) # {})
    /\ Dispatched => \A c \in Inst :
          /\ {items[c][j] : j \in 1..Len(items[c])} = Served(c)
          /\ Len(items[c]) = Cardinality(Served(c)) /\ Asc(items[c])
          /\ (Served(c) = {}) = (s.pc[c] = "idle")
    /\ ~Dispatched => spawns = 0
    /\ Dispatched => spawns = Cardinality({c \in Inst : Served(c) # {}}) + 1

(* Cleanup runs exactly once, after all replica calls have finished (or synchronously on an early exit). *)
CleanupOnceAfterAll ==
    /\ cleaned <= 1
    /\ (cleaned = 1 /\ Dispatched) => (cleanG = "done" /\ AllCallsDone /\ s.wg = 0)
    /\ (cleaned = 1 /\ ~Dispatched) => (main = "returned" /\ ret.kind \in {"ctx", "get", "noinst"})
    /\ (main = "returned" /\ ~Dispatched) => cleaned = 1
    /\ s.wg = Cardinality({c \in Inst : s.pc[c] \in StepPcs \cup {"cb", "spawned"}})
(* the clause alone, without the wait-group accounting (what the negative control MC_neg_addlate must violate) *)
CleanupAfterAll == (cleaned = 1 /\ Dispatched) => AllCallsDone
CleanupStable == [][cleaned' >= cleaned /\ nret' >= nret /\ (ret.kind # "none" => ret' = ret)]_vars

(* Under fairness (replicas answer, goroutines run; the caller never has to cancel): the call returns, *)
(* cleanup has run once, nothing is left running.                                                      *)
Termination == <>[](main = "returned" /\ cleaned = 1 /\ AllCallsDone)

-----------------------------------------------------------------------------
(* The deprecated wrapper DoBatch(ctx, op, r, keys, callback, cleanup) is DoBatchWithOptions with Cleanup = cleanup, *)
(* the default spawner and IsClientError = isHTTPStatus4xx: the family of a replica error is decided by the status   *)
(* code grpcutil.ErrorToStatusCode reads from it (code 0 below: an error that carries no gRPC status, which reads    *)
(* as codes.Unknown = 2).  Everything else is the specification above, so the wrapper refines it under this mapping  *)
(* of concrete errors to outcomes; the driver takes its concrete status codes for "cerr" / "serr" from this table.   *)
StatusCodes == {0, 2, 3, 4, 399, 400, 404, 429, 499, 500, 503, 599}
WireCode(code) == IF code = 0 THEN 2 ELSE code
FamilyOfCode(code) == IF WireCode(code) \div 100 = 4 THEN "cerr" ELSE "serr"
CodesOf(f) == {code \in StatusCodes : FamilyOfCode(code) = f}
ASSUME CodesOf("cerr") = {400, 404, 429, 499} /\ CodesOf("cerr") \cup CodesOf("serr") = StatusCodes

(* Case generation: one JSON line per complete behaviour of the driver-visible (gated) system. *)
Behaviour == [cfg |-> [nk |-> cfg.nk, reps |-> cfg.reps, maxErr |-> cfg.maxErr, getErrAt |-> cfg.getErrAt, noInst |-> cfg.noInst],
              grain |-> Grain, steps |-> hist,
              calls |-> (IF Dispatched THEN items ELSE [i \in Inst |-> <<>>]),   \* callback invocations
              spawns |-> spawns,
              codes |-> [cerr |-> CodesOf("cerr"), serr |-> CodesOf("serr")]]   \* for the DoBatch wrapper
Emit == (Record /\ ~pend.on /\ AllCallsDone /\ cleanG # "spawned" /\ main \in {"waiting", "returned"} /\ Quiescent)
            => PrintT(ToJson(Behaviour))
=============================================================================
