\* Trace validation: NC / OpsPer are upper bounds of the recorded runs, the retry limit comes with each line; MaxErr = Limit (the recorded callers' functions may fail as often as they like).
CONSTANTS
  NC = 16
  OpsPer = 50
  Backends = {"consul", "etcd", "memberlist"}
  Limits = {2, 3, 10}
  MaxErr = 10
  Secondaries = {"none"}
  WithDelete = FALSE
  WithSame = FALSE
  WithBad = TRUE
  NOther = 0
  NW = 4
  Emit = FALSE
INIT TraceInit
NEXT TraceNext
INVARIANTS TypeOK Serial NoLostNoPhantom
POSTCONDITION AllAccepted
CHECK_DEADLOCK FALSE
