CONSTANTS N = 5
INIT Init
NEXT Next
INVARIANTS PickInList OrderInsensitive AppendStable MonotoneBuckets
CHECK_DEADLOCK FALSE
