package c06

// Code -> spec direction: a seeded adversarial scheduler drives real detached KV nodes; every step is
// logged as one event (arguments as chosen + the projection of every real node after the step) and
// the whole trace is validated by TLC against spec/gossipkv/GossipKVTrace.tla.

import (
	"context"
	"fmt"
	"os"
	"testing"
	"testing/synctest"
	"time"

	"verifharness/internal/abs"
)

type event map[string]any

func (c *cluster) postAll() []nodeObs {
	out := make([]nodeObs, len(c.nodes))
	for i, nd := range c.nodes {
		out[i] = c.observe(nd)
	}
	return out
}

func recordOne(t *testing.T, w *abs.NDJSONWriter, nn, ni, nk int, pr params, maxClock, steps int, gates, deletes bool, seed int64) (fatal string) {
	synctest.Test(t, func(t *testing.T) {
		c := newCluster(t, nn, ni, nk, pr, seed)
		defer func() {
			for _, nd := range c.nodes {
				if nd != nil {
					nd.stop()
				}
			}
		}()
		for i := 0; i < nn; i++ {
			nd, err := c.newNode()
			if err != nil {
				fatal = err.Error()
				return
			}
			c.nodes = append(c.nodes, nd)
		}
		var pkeys []string             // packet keys in order of first appearance
		pmsg := map[string]msg{}       // key -> message
		written := map[string]string{} // "i@ts" -> live state written (workload proviso OneContentPerSecond)
		states := []string{"ACTIVE", "LEAVING", "PENDING"}
		kinds := []string{"truncated", "badvalue", "badcodec", "emptykey"}
		_ = w.Write(event{"a": "Reset"})
		emitted := 0
		emit := func(e event) {
			emitted++
			e["clock"] = int(time.Now().Unix() - c.epoch)
			e["post"] = c.postAll()
			_ = w.Write(e)
		}
		withMsg := func(e event, m msg) event {
			e["key"], e["p"], e["pd"], e["pu"] = m.Key, m.Chg, m.Del, m.Upd
			return e
		}
		for s := 0; emitted < steps && s < 20*steps; s++ {
			r := c.rnd.Intn(33)
			n := 1 + c.rnd.Intn(nn)
			nd := c.nodes[n-1]
			kk := 1 + c.rnd.Intn(nk)
			u := nd.units[kk-1]
			now := int(time.Now().Unix() - c.epoch)
			closed, waiting := u.g.state()
			switch {
			case r < 2:
				if now >= maxClock {
					continue
				}
				time.Sleep(time.Second)
				synctest.Wait()
				emit(event{"a": "Tick"})
			case r < 7:
				f := fn{Op: []string{"hb", "hb", "rm", "rm", "set"}[c.rnd.Intn(5)], I: 1 + c.rnd.Intn(ni), S: "-"}
				if f.Op == "set" {
					f.S = states[c.rnd.Intn(len(states))]
				}
				view := c.observe(nd).Keys[kk-1].Read
				cur := view[f.I-1]
				wkey := fmt.Sprintf("k%d:%d@%d", kk, f.I, now)
				newSt := ""
				switch f.Op {
				case "hb":
					newSt = "ACTIVE"
					if cur.St != "ABSENT" {
						newSt = cur.St
					}
				case "set":
					if cur.St != "ABSENT" {
						newSt = f.S
					}
				}
				if prev, ok := written[wkey]; ok && newSt != "" && prev != newSt {
					continue // would give the entry a second live content within the same second
				}
				res := c.cas(nd, kk, f)
				if res == "ok" && newSt != "" {
					written[wkey] = newSt
				}
				emit(event{"a": "Cas", "n": n, "key": kk, "f": f, "res": res})
			case r < 10:
				ql, qg := nd.kv.NumQueuedForVerif()
				if ql+qg == 0 {
					continue
				}
				pk := nd.kv.GetBroadcasts(0, 1<<24)
				out := []msg{}
				for _, raw := range pk {
					m, bad := c.packetMsg(raw)
					if bad != "" {
						out = append(out, msg{Key: 1, Chg: desc{{Ts: -99, St: bad}}})
						continue
					}
					out = append(out, m)
					if _, dup := c.packets[m.key()]; !dup {
						c.packets[m.key()] = raw
						pkeys = append(pkeys, m.key())
						pmsg[m.key()] = m
					}
				}
				synctest.Wait()
				emit(event{"a": "Gossip", "n": n, "out": out})
			case r < 16:
				if len(pkeys) == 0 {
					continue
				}
				k := pkeys[c.rnd.Intn(len(pkeys))]
				nd.kv.NotifyMsg(c.packets[k])
				synctest.Wait()
				emit(withMsg(event{"a": "Deliver", "n": n}, pmsg[k]))
			case r < 17:
				if len(pkeys) == 0 {
					continue
				}
				k := pkeys[c.rnd.Intn(len(pkeys))]
				kind := kinds[c.rnd.Intn(len(kinds))]
				if bad, ok := c.corrupt(c.packets[k], kind); ok {
					nd.kv.NotifyMsg(bad)
				}
				synctest.Wait()
				emit(withMsg(event{"a": "Garbage", "n": n, "k": kind}, pmsg[k]))
			case r < 21:
				m := 1 + c.rnd.Intn(nn)
				if m == n {
					continue
				}
				a, b := n, m
				if a > b {
					a, b = b, a
				}
				jk := "-"
				if r == 20 {
					jk = "junk"
				}
				c.pushPull(c.nodes[a-1], c.nodes[b-1], jk == "junk")
				synctest.Wait()
				emit(event{"a": "PushPull", "n": a, "m": b, "k": jk})
			case r < 22:
				wt := u.w
				wt.mu.Lock()
				ok := !wt.armed && !wt.held
				if ok {
					wt.armed = true
				}
				wt.mu.Unlock()
				if !ok {
					continue
				}
				emit(event{"a": "Arm", "n": n, "key": kk})
			case r < 24:
				wt := u.w
				wt.mu.Lock()
				held := wt.held
				wt.mu.Unlock()
				if !held {
					continue
				}
				u.release()
				synctest.Wait()
				emit(event{"a": "Release", "n": n, "key": kk})
			case r < 25:
				nd.stop()
				c.nodes[n-1] = nil
				nn2, err := c.newNode()
				if err != nil {
					fatal = err.Error()
					return
				}
				c.nodes[n-1] = nn2
				emit(event{"a": "Restart", "n": n})
			case r < 27:
				if !gates {
					continue
				}
				if !closed {
					u.g.setClosed(true)
					emit(event{"a": "GateClose", "n": n, "key": kk})
				} else if waiting == "idle" {
					u.g.setClosed(false)
					emit(event{"a": "GateOpen", "n": n, "key": kk})
				}
			case r < 30:
				if waiting == "idle" {
					continue
				}
				u.g.oneStep()
				synctest.Wait()
				emit(event{"a": "Work", "n": n, "key": kk})
			case r < 31:
				if !deletes {
					continue
				}
				var err error
				nd.harness(func() { err = u.cli.Delete(context.Background(), keyName(kk)) })
				synctest.Wait()
				res := "done"
				if err != nil {
					res = "error: " + err.Error()
				}
				emit(event{"a": "Delete", "n": n, "key": kk, "res": res})
			default:
				idle := true
				for _, x := range nd.units {
					if _, wq := x.g.state(); wq != "idle" {
						idle = false
					}
				}
				if !deletes || !idle {
					continue
				}
				nd.kv.CleanupObsoleteEntriesForVerif()
				synctest.Wait()
				emit(event{"a": "Cleanup", "n": n})
			}
		}
	})
	return
}

func TestRecord(t *testing.T) {
	out := os.Getenv("VERIF_TRACE")
	if out == "" {
		t.Skip("VERIF_TRACE not set")
	}
	res := &abs.Result{}
	w, err := abs.NewNDJSONWriter(out)
	if err != nil {
		t.Fatal(err)
	}
	ntr := abs.EnvInt("VERIF_NTRACES", 10)
	steps := abs.EnvInt("VERIF_STEPS", 60)
	pr := paramsFromEnv()
	for k := 0; k < ntr; k++ {
		func() {
			defer func() {
				if r := recover(); r != nil {
					res.Mismatch(abs.Mismatch{Sig: "record:panic", Case: k, Got: fmt.Sprint(r)})
				}
			}()
			// every third trace exercises key deletion, the others the worker gates
			deletes := k%3 == 2
			if f := recordOne(t, w, abs.EnvInt("VERIF_N", 4), abs.EnvInt("VERIF_NI", 3), abs.EnvInt("VERIF_NK", 2), pr, abs.EnvInt("VERIF_MAXCLOCK", 12),
				steps, true, deletes, abs.Seed()*7919+int64(k)); f != "" {
				res.Fatal = f
			}
		}()
		res.Cases++
	}
	if err := w.Close(); err != nil {
		res.Fatal = err.Error()
	}
	res.AddExtra("trace_events", w.N)
	res.Write(t)
}
