----------------------------- MODULE PartitionRing -----------------------------
(***************************************************************************)
(* C15 - the partition ring as a state machine: one shared ring value in a *)
(* CAS store, written by PartitionInstanceLifecyclers (one per instance)   *)
(* and by a PartitionRingEditor.  Every action below is ONE compare-and-   *)
(* swap critical section of the code (the function handed to kv.CAS) or an *)
(* environment step (start/stop of a lifecycler, one second passing).      *)
(*                                                                         *)
(*   ring/partition_instance_lifecycler.go  createPartitionAndRegisterOwner*)
(*        waitPartitionAndRegisterOwner reconcileOwnedPartition            *)
(*        reconcileOtherPartitions ChangePartitionState stopping           *)
(*   ring/partition_ring_editor.go  changePartitionState                   *)
(*        SetPartitionStateChangeLock RemoveMultiPartitionOwner            *)
(*   ring/partition_ring_model.go   UpdatePartitionState AddOrUpdateOwner  *)
(*        PartitionOwnersCountUpdatedBefore IsInactiveSince                *)
(*                                                                         *)
(* Time is whole seconds of the virtual clock (timestamps in the ring have *)
(* second precision).  Every CAS action records what it returned in `act`  *)
(* (ok = ring written, noop = nothing to write, or the error class).       *)
(***************************************************************************)
EXTENDS PartitionRingOps, TLC

CONSTANTS NP,        \* partitions 1..NP
          NL,        \* lifecyclers 1..NL
          NO,        \* owner ids 1..NO
          MaxClock,  \* the clock stops ticking here (model checking only)
          Multi,     \* TRUE: owner id of lifecycler l on partition p is (l-1)*NP+p, else l
          LCfg,      \* LCfg[l] = <<waitOwnersCount, waitOwnersDuration, deleteInactiveAfter>>
          TokOf,     \* TokOf[p] = set of token coordinates of partition p (immutable, disjoint)
          ReqStates, \* target states callers ask for: subset of {"P", "A", "I", "D"}
          Homes,     \* model checking only: Homes[l] = partitions lifecycler l may be started for
          WaitModes, \* model checking only: lifecyclers that may start with CreatePartitionOnStartup = false
          LockParts, \* model checking only: partitions the editor may lock
          AgeCap     \* model checking only: ages above every configured delay are merged by `ageview`

Part       == 1..NP
Lifecycler == 1..NL
Owner      == 1..NO
PState     == {"P", "A", "I"}            \* Pending, Active, Inactive
ReqState   == ReqStates                  \* states a caller may ask for ("D" = Deleted: never allowed)
Edges      == {<<"P", "A">>, <<"P", "I">>, <<"A", "I">>, <<"I", "A">>}   \* allowedPartitionStateChanges

VARIABLES parts,   \* parts[p]  = [st, ts, lk, lkTs]; st = "X": the partition does not exist
          owners,  \* owners[o] = [part, ts, st];     st = "X": the owner is not registered ("A" = OwnerActive)
          clock,   \* seconds
          lc,      \* lc[l] = [phase, part, owner, wc, wd, da]
          act      \* label of the last step (not part of the VIEW)

vars == <<parts, owners, clock, lc, act>>
view == <<[p \in Part |-> [st |-> parts[p].st, ts |-> parts[p].ts, lk |-> parts[p].lk]], owners, clock, lc>>

(* Every guard and every property reads a timestamp only through "clock - ts > d"  *)
(* with d one of the configured delays, and every write stamps `clock`: two states *)
(* that agree on min(clock - ts, AgeCap) for every timestamp (AgeCap > all delays) *)
(* are bisimilar, so the exhaustive configurations identify them and let the clock *)
(* run without bound.                                                             *)
AgeOf(ts) == IF clock - ts > AgeCap THEN AgeCap ELSE clock - ts
ageview == <<[p \in Part |-> [st |-> parts[p].st, lk |-> parts[p].lk,
                              age |-> IF parts[p].st = "X" THEN 0 ELSE AgeOf(parts[p].ts)]],
             [o \in Owner |-> [part |-> owners[o].part,
                               age |-> IF owners[o].st = "X" THEN 0 ELSE AgeOf(owners[o].ts)]],
             lc>>

AbsentP == [st |-> "X", ts |-> 0, lk |-> FALSE, lkTs |-> 0]
AbsentO == [part |-> 0, ts |-> 0, st |-> "X"]
IdleL   == [phase |-> "stopped", part |-> 0, owner |-> 0, wc |-> 0, wd |-> 0, da |-> 0]

Exists(p)    == parts[p].st # "X"
Registered(o) == owners[o].st # "X"
OwnersOf(p)  == {o \in Owner : Registered(o) /\ owners[o].part = p}
OwnerId(l, p) == IF Multi THEN (l - 1) * NP + p ELSE l

TypeOK ==
    /\ parts \in [Part -> [st : PState \cup {"X"}, ts : 0..MaxClock, lk : BOOLEAN, lkTs : 0..MaxClock]]
    /\ owners \in [Owner -> [part : 0..NP, ts : 0..MaxClock, st : {"A", "X"}]]
    /\ clock \in 0..MaxClock
    /\ \A p \in Part : ~Exists(p) => parts[p] = AbsentP
    /\ \A o \in Owner : ~Registered(o) => owners[o] = AbsentO
    /\ \A l \in Lifecycler : lc[l].phase \in {"stopped", "startC", "startW", "startR", "running", "stopping"}

Label(kind, who, p, res) == [kind |-> kind, who |-> who, p |-> p, res |-> res]

Init == /\ parts = [p \in Part |-> AbsentP]
        /\ owners = [o \in Owner |-> AbsentO]
        /\ clock = 0
        /\ lc = [l \in Lifecycler |-> IdleL]
        /\ act = Label("Init", 0, 0, "ok")

(***************************************************************************)
(* Environment steps.                                                      *)
(***************************************************************************)
Tick == /\ clock < MaxClock
        /\ clock' = clock + 1
        /\ act' = Label("Tick", 0, 0, "ok")
        /\ UNCHANGED <<parts, owners, lc>>

(* A stopped lifecycler is (re)started for partition p with configuration c;      *)
(* create = CreatePartitionOnStartup.                                             *)
Begin(l, p, o, c, create) ==
    /\ lc[l].phase = "stopped"
    /\ lc' = [lc EXCEPT ![l] = [phase |-> IF create THEN "startC" ELSE "startW", part |-> p, owner |-> o,
                                wc |-> c[1], wd |-> c[2], da |-> c[3]]]
    /\ act' = Label("Begin", l, p, "ok")
    /\ UNCHANGED <<parts, owners, clock>>

(* waitPartitionAndRegisterOwner polls the store with a plain read until the      *)
(* partition exists; the registration is a separate CAS afterwards (the ring may  *)
(* change in between).                                                            *)
WaitPoll(l) ==
    /\ lc[l].phase = "startW"
    /\ lc' = [lc EXCEPT ![l].phase = IF Exists(lc[l].part) THEN "startR" ELSE "startW"]
    /\ act' = Label("WaitPoll", l, lc[l].part, IF Exists(lc[l].part) THEN "ok" ELSE "noexist")
    /\ UNCHANGED <<parts, owners, clock>>

(* StopAsync.  A lifecycler still waiting for its partition fails its start and   *)
(* never runs `stopping`; a running one removes its owner entry iff               *)
(* RemoveOwnerOnShutdown is set (one more CAS, StopRemove).                       *)
Stop(l, remove) ==
    /\ lc[l].phase \in {"startW", "running"}
    /\ lc' = [lc EXCEPT ![l] = IF lc[l].phase = "running" /\ remove
                               THEN [lc[l] EXCEPT !.phase = "stopping"] ELSE IdleL]
    /\ act' = Label("Stop", l, 0, "ok")
    /\ UNCHANGED <<parts, owners, clock>>

(***************************************************************************)
(* Helpers shared by the CAS actions.                                      *)
(***************************************************************************)
(* changePartitionState + UpdatePartitionState, in the order the code tests.      *)
ChangeRes(p, s) ==
    IF ~Exists(p) THEN "noexist"
    ELSE IF parts[p].st = s THEN "noop"
    ELSE IF <<parts[p].st, s>> \notin Edges THEN "notallowed"
    ELSE IF parts[p].lk THEN "locked"
    ELSE "ok"

ChangedParts(p, s) == IF ChangeRes(p, s) = "ok" THEN [parts EXCEPT ![p].st = s, ![p].ts = clock] ELSE parts

(* AddOrUpdateOwner(o, OwnerActive, p, now): the timestamp moves only when the    *)
(* entry changes.                                                                 *)
OwnerUpToDate(o, p) == Registered(o) /\ owners[o].part = p
WithOwner(o, p) == IF OwnerUpToDate(o, p) THEN owners
                   ELSE [owners EXCEPT ![o] = [part |-> p, ts |-> clock, st |-> "A"]]

(* PartitionOwnersCountUpdatedBefore(p, now - wd): strictly before.               *)
SeasonedOwners(p, wd) == {o \in OwnersOf(p) : owners[o].ts < clock - wd}

(* IsInactiveSince(now - da) /\ PartitionOwnersCount = 0.                         *)
Deletable(q, da) == /\ parts[q].st = "I"
                    /\ parts[q].ts < clock - da
                    /\ OwnersOf(q) = {}

(***************************************************************************)
(* CAS actions of lifecycler l.                                            *)
(***************************************************************************)
StartCreate(l) ==                       \* createPartitionAndRegisterOwner
    LET p == lc[l].part  o == lc[l].owner IN
    /\ lc[l].phase = "startC"
    /\ parts' = IF Exists(p) THEN parts
                ELSE [parts EXCEPT ![p] = [st |-> "P", ts |-> clock, lk |-> FALSE, lkTs |-> 0]]
    /\ owners' = WithOwner(o, p)
    /\ lc' = [lc EXCEPT ![l].phase = "running"]
    /\ act' = Label("StartCreate", l, p, IF Exists(p) /\ OwnerUpToDate(o, p) THEN "noop" ELSE "ok")
    /\ UNCHANGED clock

StartRegister(l) ==                     \* waitPartitionAndRegisterOwner, after the poll saw the partition
    LET p == lc[l].part  o == lc[l].owner IN
    /\ lc[l].phase = "startR"
    /\ owners' = WithOwner(o, p)
    /\ lc' = [lc EXCEPT ![l].phase = "running"]
    /\ act' = Label("StartRegister", l, p, IF OwnerUpToDate(o, p) THEN "noop" ELSE "ok")
    /\ UNCHANGED <<parts, clock>>

ReconcileOwned(l) ==                    \* reconcileOwnedPartition
    LET p   == lc[l].part
        due == parts[p].st = "P" /\ Cardinality(SeasonedOwners(p, lc[l].wd)) >= lc[l].wc
        res == IF ~Exists(p) THEN "noexist"
               ELSE IF ~due THEN "noop"
               ELSE IF parts[p].lk THEN "locked" ELSE "ok"
    IN
    /\ lc[l].phase = "running"
    /\ parts' = IF res = "ok" THEN [parts EXCEPT ![p].st = "A", ![p].ts = clock] ELSE parts
    /\ act' = Label("ReconcileOwned", l, p, res)
    /\ UNCHANGED <<owners, clock, lc>>

ReconcileOthers(l) ==                   \* reconcileOtherPartitions
    LET del == IF lc[l].da > 0 THEN {q \in Part \ {lc[l].part} : Deletable(q, lc[l].da)} ELSE {} IN
    /\ lc[l].phase = "running"
    /\ parts' = [q \in Part |-> IF q \in del THEN AbsentP ELSE parts[q]]
    /\ act' = Label("ReconcileOthers", l, 0, IF del = {} THEN "noop" ELSE "ok")
    /\ UNCHANGED <<owners, clock, lc>>

LcChangeState(l, s) ==                  \* PartitionInstanceLifecycler.ChangePartitionState
    /\ lc[l].phase = "running"
    /\ parts' = ChangedParts(lc[l].part, s)
    /\ act' = Label("LcChangeState", l, lc[l].part, ChangeRes(lc[l].part, s))
    /\ UNCHANGED <<owners, clock, lc>>

StopRemove(l) ==                        \* stopping with RemoveOwnerOnShutdown
    LET o == lc[l].owner IN
    /\ lc[l].phase = "stopping"
    /\ owners' = [owners EXCEPT ![o] = AbsentO]
    /\ lc' = [lc EXCEPT ![l] = IdleL]
    /\ act' = Label("StopRemove", l, 0, IF Registered(o) THEN "ok" ELSE "noop")
    /\ UNCHANGED <<parts, clock>>

(***************************************************************************)
(* CAS actions of the editor (writer 0).                                   *)
(***************************************************************************)
EditorChangeState(p, s) ==
    /\ parts' = ChangedParts(p, s)
    /\ act' = Label("EditorChangeState", 0, p, ChangeRes(p, s))
    /\ UNCHANGED <<owners, clock, lc>>

EditorSetLock(p, b) ==
    LET res == IF ~Exists(p) THEN "noexist" ELSE IF parts[p].lk = b THEN "noop" ELSE "ok" IN
    /\ parts' = IF res = "ok" THEN [parts EXCEPT ![p].lk = b, ![p].lkTs = clock] ELSE parts
    /\ act' = Label("EditorSetLock", 0, p, res)
    /\ UNCHANGED <<owners, clock, lc>>

EditorRemoveOwner(o) ==
    /\ owners' = [owners EXCEPT ![o] = AbsentO]
    /\ act' = Label("EditorRemoveOwner", 0, 0, IF Registered(o) THEN "ok" ELSE "noop")
    /\ UNCHANGED <<parts, clock, lc>>

LcCAS(l) == \/ StartCreate(l) \/ StartRegister(l) \/ ReconcileOwned(l) \/ ReconcileOthers(l)
            \/ StopRemove(l) \/ \E s \in ReqState : LcChangeState(l, s)
EditorCAS == \/ \E p \in Part, s \in ReqState : EditorChangeState(p, s)
             \/ \E p \in LockParts, b \in BOOLEAN : EditorSetLock(p, b)
             \/ \E o \in Owner : EditorRemoveOwner(o)

Next == \/ Tick
        \/ \E l \in Lifecycler : \E p \in Homes[l], create \in (IF l \in WaitModes THEN BOOLEAN ELSE {TRUE}) :
               Begin(l, p, OwnerId(l, p), LCfg[l], create)
        \/ \E l \in Lifecycler, remove \in BOOLEAN : Stop(l, remove)
        \/ \E l \in Lifecycler : WaitPoll(l)
        \/ \E l \in Lifecycler : LcCAS(l)
        \/ EditorCAS

Spec == Init /\ [][Next]_vars

(***************************************************************************)
(* The property.                                                           *)
(***************************************************************************)
(* A partition's state changes only along the legal edges; a new partition *)
(* is always PENDING.                                                      *)
LegalEdgesStep ==
    \A p \in Part :
        /\ (Exists(p) /\ parts'[p].st # "X" /\ parts'[p].st # parts[p].st) => <<parts[p].st, parts'[p].st>> \in Edges
        /\ (~Exists(p) /\ parts'[p].st # "X") => parts'[p].st = "P" /\ parts'[p].ts = clock /\ ~parts'[p].lk
        /\ (Exists(p) /\ parts'[p].st # "X" /\ parts'[p].st # parts[p].st) => parts'[p].ts = clock
        /\ (Exists(p) /\ parts'[p].st = parts[p].st) => parts'[p].ts = parts[p].ts
LegalEdges == [][LegalEdgesStep]_vars

(* Never while its state is locked (as long as the partition exists).      *)
LockRespectedStep ==
    \A p \in Part : (Exists(p) /\ parts[p].lk /\ parts'[p].st # "X") => parts'[p].st = parts[p].st
LockRespected == [][LockRespectedStep]_vars

(* A state change that nobody asked for (a reconciliation) is pending ->   *)
(* active of the lifecycler's own partition, with enough owners registered *)
(* strictly longer than the waiting time ago.  Every pending -> active is  *)
(* either that or an explicit request for that very partition.             *)
PromotionTimingStep ==
    \A p \in Part : (Exists(p) /\ parts[p].st = "P" /\ parts'[p].st = "A") =>
        \/ act'.kind \in {"EditorChangeState", "LcChangeState"} /\ act'.p = p
        \/ /\ act'.kind = "ReconcileOwned" /\ lc[act'.who].part = p /\ lc[act'.who].phase = "running"
           /\ Cardinality({o \in Owner : Registered(o) /\ owners[o].part = p
                                         /\ clock - owners[o].ts > lc[act'.who].wd}) >= lc[act'.who].wc
PromotionTiming == [][PromotionTimingStep]_vars

(* Only a partition inactive for longer than the delay and without owners  *)
(* is deleted, never by its own lifecycler (and never when the delay is 0).*)
DeletionGuardStep ==
    \A p \in Part : (Exists(p) /\ parts'[p].st = "X") =>
        /\ act'.kind = "ReconcileOthers"
        /\ LET l == act'.who IN
           /\ lc[l].phase = "running" /\ lc[l].part # p
           /\ lc[l].da > 0
           /\ parts[p].st = "I" /\ clock - parts[p].ts > lc[l].da
           /\ \A o \in Owner : Registered(o) => owners[o].part # p
DeletionGuard == [][DeletionGuardStep]_vars

(* The lock itself only moves through the editor's SetLock.                *)
LockOnlyByEditorStep ==
    \A p \in Part : (Exists(p) /\ parts'[p].st # "X" /\ parts'[p].lk # parts[p].lk) => act'.kind = "EditorSetLock"
LockOnlyByEditor == [][LockOnlyByEditorStep]_vars

(* A refused request leaves the ring alone.                                *)
RefusedIsNoWriteStep == act'.res \notin {"ok"} => (parts' = parts /\ owners' = owners)
RefusedIsNoWrite == [][RefusedIsNoWriteStep]_vars

(* Every registered owner refers to an existing partition.                 *)
OwnersHavePartition == \A o \in Owner : Registered(o) => Exists(owners[o].part)

(* Routing on every reachable ring: tokens of the existing partitions.     *)
TokPid == LET ps == {p \in Part : Exists(p)}
              T  == UNION {TokOf[p] : p \in ps}
          IN  [t \in T |-> CHOOSE p \in ps : t \in TokOf[p]]
ActiveSet == {p \in Part : parts[p].st = "A"}
AllKeys == LET T == UNION {TokOf[p] : p \in Part} IN (Min(T) - 1)..(Max(T) + 1)
RoutingTotal == RoutingTotalOn(TokPid, ActiveSet, AllKeys)
=============================================================================
