CONSTANTS
  N = 2
  Graphs <- ClosedShapes
  Faults = {"start", "run", "exit", "stop"}
  AwaitStoppingInner = TRUE
  LateStart = TRUE
INIT InitAny
NEXT Next
VIEW view
INVARIANTS TypeOK StopOrderState FailurePropagates FailureIsReported
PROPERTIES StartAfterDeps StopAfterDependants
CHECK_DEADLOCK TRUE
