CONSTANTS
  NSet = {1, 2, 3, 4, 5, 6}
  MaxZ = 4
  Modes = {"default", "zone"}
  Delays = {TRUE, FALSE}
INIT TInit
NEXT TNext
INVARIANTS TypeOK OnlySuccessful QuorumBacked ErrWhenExceeded AtMostOneCall Minimised AllCancelledAtReturn EmitAccepted
CHECK_DEADLOCK FALSE
