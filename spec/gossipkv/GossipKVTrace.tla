--------------------------- MODULE GossipKVTrace ---------------------------
(***************************************************************************)
(* Validation of traces recorded from real detached memberlist.KV nodes    *)
(* (harness/c06 TestRecord: a seeded adversarial scheduler chooses the     *)
(* steps, the code produces the outcomes) against GossipKV.tla.  One       *)
(* event per specification action; the event carries the action's          *)
(* arguments as the harness chose them and the projection of every real    *)
(* node after the step.  The trace is accepted iff every event is an       *)
(* enabled step of the specification whose post-state projects to exactly  *)
(* the logged observation.  Several traces are concatenated with "Reset".  *)
(***************************************************************************)
EXTENDS GossipKV, TLCExt

TraceLog == ndJsonDeserialize("trace.ndjson")

VARIABLE idx
tvars == <<vars, idx>>

SeqToSet(s) == {s[k] : k \in DOMAIN s}
Last == hist'[Len(hist')]
EvMsg(e) == Msg(e.key, e.p, e.pd, e.pu)
EvUnit(e) == <<e.n, e.key>>

PostOK(e) ==
  /\ Last.post.clock = e.clock
  /\ \A n \in Node :
       /\ Last.post.nodes[n].ql = e.post[n].ql /\ Last.post.nodes[n].qg = e.post[n].qg
       /\ \A k \in Key :
            LET a == Last.post.nodes[n].keys[k]
                b == e.post[n].keys[k]
            IN /\ a.val = b.val /\ a.ver = b.ver /\ a.read = b.read
               /\ a.del = b.del /\ a.upd = b.upd
               /\ a.called = b.called /\ a.last = b.last /\ a.held = b.held
               /\ a.pcalled = (b.pcalls > 0) /\ a.plast = b.plast   \* the un-gated prefix watcher
               /\ a.wk = b.wk /\ a.gate = b.gate                    \* where the per-key worker is blocked
               /\ b.bad = ""                                        \* well-formed content (tokens, ids, List)

ResetAll ==
  /\ clock' = 0
  /\ store'  = [u \in Unit |-> C0]
  /\ queueL' = [n \in Node |-> {}]
  /\ queueG' = [n \in Node |-> {}]
  /\ watch'  = [u \in Unit |-> W0]
  /\ pw'     = [u \in Unit |-> PW0]
  /\ gate'   = [u \in Unit |-> FALSE]
  /\ wk'     = [u \in Unit |-> WK0]
  /\ inbox'  = [u \in Unit |-> <<>>]
  /\ sent' = {} /\ cut' = {} /\ ncas' = 0 /\ nfault' = 0 /\ ndel' = 0
  /\ phase' = "run" /\ qidx' = 1
  /\ inval' = {} /\ fwd' = {} /\ written' = {}
  /\ hist' = <<>>

TInit == Init /\ idx = 1

TNext ==
  /\ idx <= Len(TraceLog)
  /\ idx' = idx + 1
  /\ LET e == TraceLog[idx] IN
       CASE e.a = "Reset"     -> ResetAll
         [] e.a = "Tick"      -> Tick /\ PostOK(e)
         [] e.a = "Cas"       -> Cas(EvUnit(e), [op |-> e.f.op, i |-> e.f.i, s |-> e.f.s]) /\ Last.res = e.res /\ PostOK(e)
         [] e.a = "Gossip"    -> Gossip(e.n) /\ Last.out = SeqToSet(e.out) /\ PostOK(e)
         [] e.a = "Deliver"   -> Deliver(EvMsg(e), e.n, FALSE) /\ PostOK(e)
         [] e.a = "Work"      -> Work(EvUnit(e)) /\ PostOK(e)
         [] e.a = "GateClose" -> GateClose(EvUnit(e)) /\ PostOK(e)
         [] e.a = "GateOpen"  -> GateOpen(EvUnit(e)) /\ PostOK(e)
         [] e.a = "Garbage"   -> DeliverGarbage(EvMsg(e), e.n, e.k) /\ PostOK(e)
         [] e.a = "PushPull"  -> PushPull(e.n, e.m, e.k = "junk") /\ PostOK(e)
         [] e.a = "Delete"    -> DeleteKey(EvUnit(e)) /\ e.res = "done" /\ PostOK(e)
         [] e.a = "Cleanup"   -> Cleanup(e.n) /\ PostOK(e)
         [] e.a = "Arm"       -> WatcherArm(EvUnit(e)) /\ PostOK(e)
         [] e.a = "Release"   -> WatcherRelease(EvUnit(e)) /\ PostOK(e)
         [] e.a = "Restart"   -> Restart(e.n) /\ PostOK(e)

TSpec == TInit /\ [][TNext]_tvars

(* acceptance: the (single) behaviour is as long as the trace *)
TraceAccepted ==
  LET d == TLCGet("stats").diameter IN
  IF d - 1 = Len(TraceLog) THEN TRUE
  ELSE Print(<<"TRACE-REJECTED-AT-LINE", d>>, FALSE)
=============================================================================
