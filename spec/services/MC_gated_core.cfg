CONSTANTS
  NC = 2
  NL = 1
  WRun = {}
  WTerm = {}
  QCap = 4
  MaxIters = 2
  MaxStart = 1
  ParentCancels = TRUE
  Presents = {{"start","run","stop"}}
  RunModes = {"any"}
  GuardNilCancel = FALSE
INIT GInit
NEXT GNext
VIEW GView
INVARIANTS TypeOK ChainedHistory SwitchNeverFails FnOrder RunOnlyAfterStart StopFnIffStarted CtxCancelledBeforeStopFn StopFnGetsRunError ContextReleased WaitersExact NoDoubleClose FirstErrorWins ListenerOrder NotifierNeverBlocks Quiescent EmitInit
ACTION_CONSTRAINT EmitTransition
CHECK_DEADLOCK FALSE
