---------------------------- MODULE ModuleOptions -----------------------------
(***************************************************************************)
(* C18, registration options of modules.Manager (modules/modules.go        *)
(* RegisterModule, UserInvisibleModule, UserInvisibleTargetableModule,     *)
(* IsUserVisibleModule, IsTargetableModule, IsModuleRegistered,            *)
(* UserVisibleModuleNames).  A module is registered user-visible and       *)
(* targetable; options are applied left to right ("inv": invisible and not *)
(* targetable, "invtgt": invisible but targetable); registering a name     *)
(* again replaces the module.  TLC explores every sequence of up to        *)
(* MaxCalls registrations and emits it with the answers the manager must   *)
(* give (gen/replay; harness/c18 TestOptions).                             *)
(***************************************************************************)
EXTENDS Integers, Sequences, FiniteSets, TLC, Json

CONSTANTS N, MaxCalls
Mod == 1..N
Unreg == [reg |-> FALSE, vis |-> FALSE, tgt |-> FALSE]
OptSeqs == {<<>>} \cup {<<a>> : a \in {"inv", "invtgt"}} \cup {<<a, b>> : a, b \in {"inv", "invtgt"}}

VARIABLES mods,   \* mods[m] = [reg, vis, tgt]
          calls   \* the registrations so far

vars == <<mods, calls>>

Apply(r, o) == IF o = "inv" THEN [r EXCEPT !.vis = FALSE, !.tgt = FALSE] ELSE [r EXCEPT !.vis = FALSE, !.tgt = TRUE]
RECURSIVE ApplyAll(_, _)
ApplyAll(r, os) == IF os = <<>> THEN r ELSE ApplyAll(Apply(r, Head(os)), Tail(os))

Init == mods = [m \in Mod |-> Unreg] /\ calls = <<>>

Register(m, os) ==
    /\ Len(calls) < MaxCalls
    /\ mods' = [mods EXCEPT ![m] = ApplyAll([reg |-> TRUE, vis |-> TRUE, tgt |-> TRUE], os)]
    /\ calls' = Append(calls, <<m, os>>)

Next == \E m \in Mod, os \in OptSeqs : Register(m, os)
Spec == Init /\ [][Next]_vars

IsRegistered(m)  == mods[m].reg
IsUserVisible(m) == mods[m].reg /\ mods[m].vis
IsTargetable(m)  == mods[m].reg /\ mods[m].tgt
RECURSIVE Ascending(_)
Ascending(S) == IF S = {} THEN <<>> ELSE LET x == CHOOSE y \in S : \A z \in S : y <= z IN <<x>> \o Ascending(S \ {x})
UserVisibleNames == Ascending({m \in Mod : IsUserVisible(m)})

(* what the options mean, whatever the history *)
VisibleIsTargetable == \A m \in Mod : IsUserVisible(m) => IsTargetable(m)
OnlyRegistered == \A m \in Mod : (IsUserVisible(m) \/ IsTargetable(m)) => IsRegistered(m)
LastRegistrationWins ==
    \A m \in Mod :
        LET idx == {i \in 1..Len(calls) : calls[i][1] = m}
        IN  IF idx = {} THEN mods[m] = Unreg
            ELSE LET os == calls[CHOOSE i \in idx : \A j \in idx : j <= i][2]
                 IN  /\ IsUserVisible(m) <=> os = <<>>
                     /\ IsTargetable(m) <=> (os = <<>> \/ os[Len(os)] = "invtgt")

Emit == PrintT(ToJson([calls |-> calls,
                       registered |-> [m \in Mod |-> IsRegistered(m)],
                       visible |-> [m \in Mod |-> IsUserVisible(m)],
                       targetable |-> [m \in Mod |-> IsTargetable(m)],
                       names |-> UserVisibleNames]))
=============================================================================
