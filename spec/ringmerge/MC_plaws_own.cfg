\* C03 partition ring: all triples of single-owner descriptors (owner may own partition 1 or 2), every law
CONSTANTS
  NP = 0
  NO = 1
  NOwned = 2
  TsSet = {1, 2}
  PStates = {"Active"}
  LockTs = {0}
  Arity = 3
  EmitConv = TRUE
INIT Init
NEXT Next
INVARIANTS PairLaws TripleLaws RawLaws EmitConvergence
CHECK_DEADLOCK FALSE
