// Package c05 binds spec/ringmerge/RingReplica.tla to the real code (C05).
//
//	spec -> code  for every reachable replica state TLC lists, the path of merges that reaches it
//	              (peer updates, local CAS writes, token re-claims) is executed with real Desc.Merge calls
//	              inside a testing/synctest bubble; after every step the receiver and the returned change
//	              must be the specification's. The final real descriptor - as a client sees it (tombstones
//	              stripped) and as stored - is then handed to real ring.Ring clients (zone-aware and not)
//	              and queried under recover: ErrInconsistentTokensInfo or a panic is a violation, and the
//	              token index must name, for every position, the owner the specification names.
//	code -> spec  random merge sequences over five instances sharing three token positions are recorded
//	              (abs.RecordRingMerges), every receiver is queried the same way, and the log is validated
//	              by RingMergeTrace.tla together with TokenUnique / LeftHasNoTokens.
package c05

import (
	"encoding/json"
	"errors"
	"fmt"
	"math/rand"
	"os"
	"path/filepath"
	"sort"
	"testing"
	"testing/synctest"
	"time"

	"verifharness/internal/abs"

	"github.com/grafana/dskit/ring"
)

type step struct {
	Act      string    `json:"act"`
	Other    abs.MDesc `json:"other"`
	Cas      bool      `json:"cas"`
	Now      int       `json:"now"`
	Post     abs.MDesc `json:"post"`
	Nil      bool      `json:"nil"`
	Change   abs.MDesc `json:"change"`
	Resolved bool      `json:"resolved"`
	Owner    []int     `json:"owner"` // per position: the instance holding it after the step, 0 = nobody
}

type pathCase struct {
	Kind  string `json:"kind"`
	Steps []step `json:"steps"`
	Owner []int  `json:"owner"` // per position: the instance holding it in the final state, 0 = nobody
}

var corrupt = abs.EnvInt("VERIF_CORRUPT", 0)

// shift moves the positive timestamps of a descriptor by base seconds (the bubble clock only moves
// forward, every path starts at specification time 1; Merge depends on the order of timestamps only).
func shift(d abs.MDesc, base int) abs.MDesc {
	out := make(abs.MDesc, len(d))
	for k, e := range d {
		if e.Present() && e.Ts > 0 {
			e.Ts += base
		}
		out[k] = e
	}
	return out
}

var allStates = ring.NewOp([]ring.InstanceState{ring.ACTIVE, ring.LEAVING, ring.PENDING, ring.JOINING, ring.LEFT}, nil)

type prober struct {
	res  *abs.Result
	emb  abs.Embedding
	n    int
	keys []uint32
}

func newProber(res *abs.Result, emb abs.Embedding, n int) *prober {
	p := &prober{res: res, emb: emb, n: n}
	seen := map[uint32]bool{}
	for _, v := range append(append([]uint32{}, emb.Pos...), 1<<31) {
		for _, k := range []uint32{v - 1, v, v + 1} {
			if !seen[k] {
				seen[k] = true
				p.keys = append(p.keys, k)
			}
		}
	}
	return p
}

func tokenFeatures(d *ring.Desc) string {
	owners := map[uint32]int{}
	states := map[string]bool{}
	for _, ing := range d.Ingesters {
		for _, t := range ing.Tokens {
			owners[t]++
		}
		states[ing.State.String()] = true
	}
	shared := 0
	for _, c := range owners {
		if c > 1 {
			shared++
		}
	}
	return fmt.Sprintf("shared-tokens=%t", shared > 0)
}

// probe hands a descriptor to real ring clients and queries them. owner (optional) is the specification's
// position -> instance map for the descriptor.
func (p *prober) probe(d *ring.Desc, owner []int, label string, c any) (ok bool) {
	ok = true
	report := func(what string, got any) {
		ok = false
		p.res.Mismatch(abs.Mismatch{Sig: fmt.Sprintf("lookup:%s %s %s", what, label, tokenFeatures(d)), Case: c, Got: got, Want: "no ErrInconsistentTokensInfo, no panic"})
	}
	guard := func(what string, f func() error) {
		defer func() {
			if r := recover(); r != nil {
				report(what+" panic", fmt.Sprint(r))
			}
		}()
		if err := f(); err != nil && errors.Is(err, ring.ErrInconsistentTokensInfo) {
			report(what+" inconsistent-tokens", err.Error())
		}
	}
	for _, zoneAware := range []bool{false, true} {
		cfg := ring.Config{ReplicationFactor: 2, ZoneAwarenessEnabled: zoneAware, HeartbeatTimeout: time.Hour}
		var r *ring.Ring
		var stop func()
		guard("new-ring", func() error {
			var err error
			r, stop, err = abs.NewRing(abs.ViaRingCodec(d), cfg)
			if err != nil {
				p.res.Fatal = "NewRing: " + err.Error()
			}
			return nil
		})
		if r == nil {
			return false
		}
		ops := []ring.Operation{ring.Write, ring.Read, ring.Reporting, ring.WriteNoExtend, allStates}
		for _, op := range ops {
			for _, key := range p.keys {
				guard("Get", func() error { _, err := r.Get(key, op, nil, nil, nil); return err })
			}
			guard("GetReplicationSetForOperation", func() error { _, err := r.GetReplicationSetForOperation(op); return err })
			guard("GetAllHealthy", func() error { _, err := r.GetAllHealthy(op); return err })
		}
		for k := 1; k <= p.n; k++ {
			id := abs.MergeID(k, p.n)
			guard("GetTokenRangesForInstance", func() error {
				tr, err := r.GetTokenRangesForInstance(id)
				if err == nil && !sort.SliceIsSorted(tr, func(i, j int) bool { return tr[i] < tr[j] }) {
					report("GetTokenRangesForInstance unsorted", tr)
				}
				return err
			})
		}
		for _, size := range []int{1, 2, 3} {
			for _, tenant := range []string{"tenant-a", "t2"} {
				guard("ShuffleShard", func() error {
					sub := r.ShuffleShard(tenant, size)
					for _, key := range p.keys {
						if _, err := sub.Get(key, ring.Write, nil, nil, nil); err != nil && errors.Is(err, ring.ErrInconsistentTokensInfo) {
							return err
						}
					}
					_, err := sub.GetReplicationSetForOperation(ring.Read)
					return err
				})
				guard("ShuffleShardWithLookback", func() error {
					sub := r.ShuffleShardWithLookback(tenant, size, time.Hour, time.Now())
					for _, key := range p.keys {
						if _, err := sub.Get(key, ring.Read, nil, nil, nil); err != nil && errors.Is(err, ring.ErrInconsistentTokensInfo) {
							return err
						}
					}
					_, err := sub.GetReplicationSetForOperation(ring.Reporting)
					return err
				})
			}
		}
		stop()
	}
	// the token index names the owner the specification names: with RF 1, no zones and an operation
	// for which every state is healthy, the key just below a token is served by that token's owner
	if owner != nil {
		guard("owner-index", func() error {
			r, stop, err := abs.NewRing(abs.ViaRingCodec(d), ring.Config{ReplicationFactor: 1, HeartbeatTimeout: time.Hour})
			if err != nil {
				p.res.Fatal = "NewRing: " + err.Error()
				return nil
			}
			defer stop()
			for pos, o := range owner {
				if o == 0 {
					continue
				}
				rs, err := r.Get(p.emb.Pos[pos]-1, allStates, nil, nil, nil)
				want := abs.MergeID(o, p.n)
				if err != nil || len(rs.Instances) != 1 || rs.Instances[0].Id != want {
					ok = false
					got := fmt.Sprint(err)
					if err == nil {
						got = fmt.Sprint(rs.GetAddresses(), " ", len(rs.Instances))
						if len(rs.Instances) == 1 {
							got = rs.Instances[0].Id
						}
					}
					p.res.Mismatch(abs.Mismatch{Sig: "lookup:owner-index " + label + " " + tokenFeatures(d), Case: c, Got: got, Want: want,
						Note: fmt.Sprintf("position %d", pos)})
					return err
				}
			}
			return nil
		})
	}
	return ok
}

func firstDiff(a, b abs.MDesc) int {
	for k := range a {
		if k >= len(b) || !a[k].Equal(b[k]) {
			return k
		}
	}
	return -1
}

func TestC05(t *testing.T) {
	in := os.Getenv("VERIF_IN")
	traceDir := os.Getenv("VERIF_TRACE_DIR")
	if in == "" && traceDir == "" {
		t.Skip("VERIF_IN / VERIF_TRACE_DIR not set")
	}
	res := &abs.Result{}
	rnd := rand.New(rand.NewSource(abs.Seed()))
	reps := abs.EnvInt("VERIF_REPS", 3)
	m := abs.EnvInt("VERIF_M", 2)
	npaths, nprobed, nsteps, nwatched := 0, 0, 0, 0
	probed := map[string]bool{}

	if in != "" {
		synctest.Test(t, func(t *testing.T) {
			base := 0
			err := abs.ReadNDJSON(in, func(line []byte) error {
				if res.Fatal != "" {
					return nil
				}
				var c pathCase
				if err := json.Unmarshal(line, &c); err != nil {
					return err
				}
				if c.Kind != "path" || len(c.Steps) == 0 {
					return fmt.Errorf("not a path: %.80s", line)
				}
				npaths++
				if corrupt > 0 && npaths == corrupt {
					last := &c.Steps[len(c.Steps)-1]
					last.Post[0].Ts++
				}
				n := len(c.Steps[0].Post)
				if len(c.Owner) > 0 {
					m = len(c.Owner) // the number of token positions of the model that produced the path
				}
				resolved := false
				var final *ring.Desc
				var emb abs.Embedding
				for rep := 0; rep < reps; rep++ {
					emb = abs.BoundaryEmbedding(m)
					if rep%2 == 1 {
						emb = abs.RandomEmbedding(m, rnd)
					}
					maxNow := 1
					for _, s := range c.Steps {
						if s.Now > maxNow {
							maxNow = s.Now
						}
					}
					abs.SleepUntil(base + 1)
					d := ring.NewDesc()
					// on the last repetition a long-lived reader watches the replica (watch_test.go)
					var w *watcher
					if rep == reps-1 {
						w = newWatcher(res, emb, n, newProber(res, emb, n).keys)
						defer w.close()
					}
					for si, s := range c.Steps {
						abs.SleepUntil(base + s.Now)
						if s.Act == "Tick" {
							continue
						}
						nsteps++
						resolved = resolved || s.Resolved
						other := abs.BuildDesc(shift(s.Other, base), abs.RingBuild{Emb: emb, Rnd: rnd, Tag: "o"})
						ch, err, pan := abs.SafeMerge(d, other, s.Cas)
						sig := func(what string) string {
							return fmt.Sprintf("ring:path %s act=%s resolved=%t", what, s.Act, s.Resolved)
						}
						if pan != "" || err != nil {
							res.Mismatch(abs.Mismatch{Sig: sig("panic-or-error"), Case: c, Got: fmt.Sprint(pan, err), Want: "no panic, no error", Note: fmt.Sprintf("step %d", si+1)})
							return nil
						}
						got, problems := abs.ProjectDesc(d, n, emb)
						if len(problems) > 0 {
							res.Mismatch(abs.Mismatch{Sig: sig("receiver-not-normalised"), Case: c, Got: problems, Want: "sorted duplicate-free token lists", Note: fmt.Sprintf("step %d", si+1)})
							return nil
						}
						if want := shift(s.Post, base); !got.Equal(want) {
							k := firstDiff(want, got)
							res.Mismatch(abs.Mismatch{Sig: sig("result") + " want=" + want[k].State, Case: c, Got: shift(got, -base), Want: s.Post, Note: fmt.Sprintf("step %d repetition %d", si+1, rep)})
							return nil
						}
						if abs.IsNilMergeable(ch) != s.Nil {
							res.Mismatch(abs.Mismatch{Sig: sig("change-nil"), Case: c, Got: abs.IsNilMergeable(ch), Want: s.Nil, Note: fmt.Sprintf("step %d", si+1)})
							return nil
						}
						if !s.Nil {
							gotc, problems := abs.ProjectDesc(ch.(*ring.Desc), n, emb)
							if want := shift(s.Change, base); len(problems) > 0 || !gotc.Equal(want) {
								res.Mismatch(abs.Mismatch{Sig: sig("change"), Case: c, Got: map[string]any{"change": shift(gotc, -base), "problems": problems}, Want: s.Change, Note: fmt.Sprintf("step %d repetition %d", si+1, rep)})
								return nil
							}
						}
						if w != nil {
							nwatched++
							if !w.after(d, s.Owner, c, fmt.Sprintf("step %d (%s)", si+1, s.Act)) {
								return nil
							}
						}
					}
					final = d
					base += maxNow + 1
				}
				// the merged descriptor in front of real ring clients (last repetition's object); a descriptor
				// reached by several paths is queried once
				okV, okS := true, true
				if key := fmt.Sprint(c.Steps[len(c.Steps)-1].Post); !probed[key] {
					probed[key] = true
					pr := newProber(res, emb, n)
					visible := abs.ViaRingCodec(final)
					visible.RemoveTombstones(time.Time{})
					okV = pr.probe(visible, c.Owner, "visible", c)
					nprobed++
					if abs.Tier() == "thorough" { // also with the tombstones a consul/etcd-backed client would see
						okS = pr.probe(final, c.Owner, "stored", c)
						nprobed++
					}
				}
				if okV && okS {
					res.Cases++
					if resolved {
						res.Nontrivial++
						res.Sample(c)
					}
				}
				return nil
			})
			if err != nil {
				res.Fatal = "replay: " + err.Error()
			}
		})
	}

	if traceDir != "" && res.Fatal == "" {
		synctest.Test(t, func(t *testing.T) {
			n, tm := abs.EnvInt("VERIF_TN", 5), abs.EnvInt("VERIF_TM", 3)
			var pr *prober
			every := abs.EnvInt("VERIF_TPROBE_EVERY", 4)
			rec := abs.RingRecorder{N: n, M: tm, Replicas: 3, Steps: abs.EnvInt("VERIF_TSTEPS", 400), MaxNow: abs.EnvInt("VERIF_TMAXNOW", 60), SharedPct: 100,
				Seed: abs.Seed()*15485863 + 5, Path: filepath.Join(traceDir, "ring_trace.ndjson"), SigPrefix: "ring:trace", Corrupt: abs.EnvInt("VERIF_CORRUPT_TRACE", 0)}
			watchers := map[int]*watcher{}
			defer func() {
				for _, w := range watchers {
					w.close()
				}
			}()
			rec.AfterStep = func(r int, d *ring.Desc, ev int, emb abs.Embedding) {
				if watchers[r] == nil {
					watchers[r] = newWatcher(res, emb, n, newProber(res, emb, n).keys)
				}
				nwatched++
				watchers[r].after(d, nil, fmt.Sprintf("recorded event %d", ev), fmt.Sprintf("replica %d", r+1))
				if ev%every != 0 {
					return
				}
				if pr == nil {
					pr = newProber(res, emb, n)
				}
				visible := abs.ViaRingCodec(d)
				visible.RemoveTombstones(time.Time{})
				pr.probe(visible, nil, "visible-recorded", fmt.Sprintf("recorded event %d", ev))
				nprobed++
			}
			_, nev := abs.RecordRingMerges(rec, res)
			res.AddExtra("ring_trace_events", nev)
		})
	}
	res.AddExtra("paths", npaths)
	res.AddExtra("merge_steps_executed", nsteps)
	res.AddExtra("descriptors_probed", nprobed)
	res.AddExtra("steps_watched_by_long_lived_reader", nwatched)
	res.Write(t)
}
