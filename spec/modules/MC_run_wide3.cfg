CONSTANTS
  N = 3
  Graphs <- ClosedShapes
  Faults = {"start", "run", "exit", "stop"}
  AwaitStoppingInner = TRUE
  LateStart = FALSE
INIT InitWide
NEXT Next
VIEW view
INVARIANTS TypeOK StopOrderState FailurePropagates
PROPERTIES StartAfterDeps StopAfterDependants
CHECK_DEADLOCK TRUE
