CONSTANTS
  WithDone = FALSE
  TrackerBug = "none"
  Shapes <- ShapesQuick
SPECIFICATION Spec
PROPERTIES Termination
CHECK_DEADLOCK FALSE
