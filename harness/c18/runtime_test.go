package c18

// Run-time part of C18 (record direction): real modules.Manager wrappers around scripted services
// inside a testing/synctest bubble.  Every observation point is synchronous:
//
//   istart / istop   the wrapper calls StartAsync / StopAsync of the wrapped service (the service is
//                    handed to the manager behind obsService, which logs the call and delegates)
//   sstart, sstartret, srun, srunret, sstop, sstopret
//                    entry / return of the scripted service's start, run and stop functions
//   wstart / wstop   the driver calls StartAsync / StopAsync of a wrapper
//   final            everything has been asked to stop and the bubble is quiescent
//
// Each event is appended under one mutex together with a snapshot State() of every wrapper and every
// wrapped service.  spec/modules/ModulesRunTrace.tla evaluates the ordering clauses of the
// specification on every event.  (Listener callbacks are delivered by per-listener goroutines, i.e.
// asynchronously, so they cannot order events of different services; see the report.)

import (
	"context"
	"errors"
	"fmt"
	"math/rand"
	"os"
	"sort"
	"sync"
	"testing"
	"testing/synctest"
	"time"

	"github.com/go-kit/log"

	"verifharness/internal/abs"

	"github.com/grafana/dskit/modules"
	"github.com/grafana/dskit/services"
)

const tick = time.Millisecond

type script struct {
	StartLat  int    `json:"start_lat"`
	StartFail bool   `json:"start_fail"`
	StartCtx  bool   `json:"start_ctx"` // start function returns ctx.Err() when cancelled
	Run       string `json:"run"`       // block | exit | fail
	RunLat    int    `json:"run_lat"`
	StopLat   int    `json:"stop_lat"`
	StopFail  bool   `json:"stop_fail"`
}

type scenario struct {
	ID      int      `json:"id"`
	N       int      `json:"n"`
	Edges   [][2]int `json:"edges"`
	Kind    []string `json:"kind"` // per module: svc | nosvc | noinit
	Scripts []script `json:"scripts"`
	Targets []int    `json:"targets"`
	StartAt []int    `json:"start_at"` // per module: tick at which the wrapper is started, -1 never
	StopAt  []int    `json:"stop_at"`  // per module: tick at which the wrapper is stopped, -1 only at the end
	Label   string   `json:"label"`
	// Manager: all wrappers run under one services.Manager whose failure listener stops everything on the
	// first failure (what Mimir / Loki do); MgrStopAt = tick of Manager.StopAsync (-1: only at the end)
	Manager   bool `json:"manager,omitempty"`
	MgrStopAt int  `json:"mgr_stop_at,omitempty"`
}

var stateCode = map[services.State]int{services.New: 0, services.Starting: 1, services.Running: 2,
	services.Stopping: 3, services.Terminated: 4, services.Failed: 5}

type event struct {
	K  string `json:"k"`
	Ev string `json:"ev"`
	M  int    `json:"m"`
	OK bool   `json:"ok"`
	T  int    `json:"-"`
	W  []int  `json:"w"`
	S  []int  `json:"s"`
	// final event only: failure case of every wrapper / service (0 none, 1 modules.ErrStopProcess, 2 other)
	WF []int `json:"wf,omitempty"`
	SF []int `json:"sf,omitempty"`
}

type header struct {
	K      string   `json:"k"`
	ID     int      `json:"id"`
	N      int      `json:"n"`
	Edges  [][2]int `json:"edges"`
	Svc    []int    `json:"svc"`
	Blocks []bool   `json:"blocks"`
}

type recorder struct {
	mu     sync.Mutex
	events []event
	n      int
	w      []services.Service // per module (index m-1), nil if the module has no service
	s      []services.Service
	t0     time.Time
}

func (r *recorder) snapshotLocked() ([]int, []int) {
	w := make([]int, r.n)
	s := make([]int, r.n)
	for i := 0; i < r.n; i++ {
		if r.w[i] != nil {
			w[i] = stateCode[r.w[i].State()]
		}
		if r.s[i] != nil {
			s[i] = stateCode[r.s[i].State()]
		}
	}
	return w, s
}

// log appends an event; do (if not nil) runs while the log is locked, after the snapshot.
func (r *recorder) log(ev string, m int, ok bool, do func()) {
	r.mu.Lock()
	defer r.mu.Unlock()
	w, s := r.snapshotLocked()
	r.events = append(r.events, event{K: "e", Ev: ev, M: m, OK: ok, T: int(time.Since(r.t0) / tick), W: w, S: s})
	if do != nil {
		do()
	}
}

func failClass(s services.Service) int {
	if s == nil {
		return 0
	}
	err := s.FailureCase()
	switch {
	case err == nil:
		return 0
	case errors.Is(err, modules.ErrStopProcess):
		return 1
	}
	return 2
}

// logFinal appends the final event with the failure classes.
func (r *recorder) logFinal() {
	r.mu.Lock()
	defer r.mu.Unlock()
	w, s := r.snapshotLocked()
	e := event{K: "e", Ev: "final", OK: true, T: int(time.Since(r.t0) / tick), W: w, S: s, WF: make([]int, r.n), SF: make([]int, r.n)}
	for i := 0; i < r.n; i++ {
		e.WF[i], e.SF[i] = failClass(r.w[i]), failClass(r.s[i])
	}
	r.events = append(r.events, e)
}

// obsWrapper sits between a services.Manager and a module wrapper: it logs the manager's StartAsync / StopAsync.
type obsWrapper struct {
	services.Service
	r *recorder
	m int
}

func (o *obsWrapper) StartAsync(ctx context.Context) error {
	o.r.mu.Lock()
	defer o.r.mu.Unlock()
	w, s := o.r.snapshotLocked()
	err := o.Service.StartAsync(ctx)
	o.r.events = append(o.r.events, event{K: "e", Ev: "wstart", M: o.m, OK: err == nil, T: int(time.Since(o.r.t0) / tick), W: w, S: s})
	return err
}

func (o *obsWrapper) StopAsync() {
	o.r.log("wstop", o.m, true, func() { o.Service.StopAsync() })
}

// obsService is what the manager sees as the module's service.
type obsService struct {
	services.Service
	r *recorder
	m int
}

func (o *obsService) StartAsync(ctx context.Context) error {
	var err error
	o.r.log("istart", o.m, true, func() { err = o.Service.StartAsync(ctx) })
	return err
}

func (o *obsService) StopAsync() {
	o.r.log("istop", o.m, true, func() { o.Service.StopAsync() })
}

func newScripted(r *recorder, m int, sc script) services.Service {
	start := func(ctx context.Context) error {
		r.log("sstart", m, true, nil)
		if sc.StartCtx {
			select {
			case <-ctx.Done():
				r.log("sstartret", m, false, nil)
				return ctx.Err()
			case <-time.After(time.Duration(sc.StartLat) * tick):
			}
		} else {
			time.Sleep(time.Duration(sc.StartLat) * tick)
		}
		r.log("sstartret", m, !sc.StartFail, nil)
		if sc.StartFail {
			return errors.New("scripted start failure")
		}
		return nil
	}
	run := func(ctx context.Context) error {
		r.log("srun", m, true, nil)
		if sc.Run == "block" {
			<-ctx.Done()
			r.log("srunret", m, true, nil)
			return nil
		}
		select {
		case <-ctx.Done():
			r.log("srunret", m, true, nil)
			return nil
		case <-time.After(time.Duration(sc.RunLat) * tick):
		}
		r.log("srunret", m, sc.Run == "exit", nil)
		switch sc.Run {
		case "fail":
			return errors.New("scripted run failure")
		case "stopproc":
			return modules.ErrStopProcess
		}
		return nil
	}
	stop := func(_ error) error {
		r.log("sstop", m, true, nil)
		time.Sleep(time.Duration(sc.StopLat) * tick)
		r.log("sstopret", m, !sc.StopFail, nil)
		if sc.StopFail {
			return errors.New("scripted stop failure")
		}
		return nil
	}
	return &obsService{Service: services.NewBasicService(start, run, stop), r: r, m: m}
}

func modName(m int) string { return fmt.Sprintf("m%02d", m) }

type runResult struct {
	hdr      header
	events   []event
	horizon  int    // tick of the last event before the final stop
	problem  string // infrastructure trouble / panic
	leftover bool   // goroutines were still blocked at the end (termination failure)
}

// runScenario executes one scenario in its own bubble.
func runScenario(t *testing.T, sc scenario) (res runResult) {
	defer func() {
		if p := recover(); p != nil {
			res.problem = fmt.Sprintf("panic: %v", p)
		}
	}()
	synctest.Test(t, func(t *testing.T) {
		r := &recorder{n: sc.N, w: make([]services.Service, sc.N), s: make([]services.Service, sc.N), t0: time.Now()}
		mm := modules.NewManager(log.NewNopLogger())
		for m := 1; m <= sc.N; m++ {
			m := m
			switch sc.Kind[m-1] {
			case "noinit":
				mm.RegisterModule(modName(m), nil)
			case "nosvc":
				mm.RegisterModule(modName(m), func() (services.Service, error) { return nil, nil }, modules.UserInvisibleModule)
			default:
				mm.RegisterModule(modName(m), func() (services.Service, error) {
					s := newScripted(r, m, sc.Scripts[m-1])
					r.s[m-1] = s
					return s, nil
				})
			}
		}
		for _, e := range sc.Edges {
			if err := mm.AddDependency(modName(e[0]), modName(e[1])); err != nil {
				res.problem = "AddDependency: " + err.Error()
				return
			}
		}
		names := make([]string, len(sc.Targets))
		for i, m := range sc.Targets {
			names[i] = modName(m)
		}
		sm, err := mm.InitModuleServices(names...)
		if err != nil {
			res.problem = "InitModuleServices: " + err.Error()
			return
		}
		res.hdr = header{K: "h", ID: sc.ID, N: sc.N, Edges: append([][2]int{}, sc.Edges...), Svc: []int{}, Blocks: make([]bool, sc.N)}
		for m := 1; m <= sc.N; m++ {
			if w, ok := sm[modName(m)]; ok {
				r.w[m-1] = w
				res.hdr.Svc = append(res.hdr.Svc, m)
			}
			res.hdr.Blocks[m-1] = sc.Scripts[m-1].Run == "block"
		}
		if sc.Manager {
			runUnderManager(r, sc, &res)
			return
		}
		// the plan: (tick, start/stop, module), executed in order; equal ticks keep the scenario's order
		type step struct {
			at   int
			stop bool
			m    int
		}
		var plan []step
		for i, m := range res.hdr.Svc {
			_ = i
			if at := sc.StartAt[m-1]; at >= 0 {
				plan = append(plan, step{at, false, m})
			}
			if at := sc.StopAt[m-1]; at >= 0 {
				plan = append(plan, step{at, true, m})
			}
		}
		sort.SliceStable(plan, func(i, j int) bool { return plan[i].at < plan[j].at })
		now := 0
		for _, st := range plan {
			if st.at > now {
				time.Sleep(time.Duration(st.at-now) * tick)
				now = st.at
				synctest.Wait()
			}
			w := r.w[st.m-1]
			if st.stop {
				r.log("wstop", st.m, true, func() { w.StopAsync() })
			} else {
				var err error
				r.log("wstart", st.m, true, func() { err = w.StartAsync(context.Background()) })
				if err != nil { // rewrite the ok flag: the wrapper was not started
					r.mu.Lock()
					for i := len(r.events) - 1; i >= 0; i-- {
						if r.events[i].Ev == "wstart" && r.events[i].M == st.m {
							r.events[i].OK = false
							break
						}
					}
					r.mu.Unlock()
				}
			}
		}
		// let everything settle, then ask every wrapper to stop and wait for quiescence
		time.Sleep(1000 * tick)
		synctest.Wait()
		r.mu.Lock()
		if len(r.events) > 0 {
			res.horizon = r.events[len(r.events)-1].T
		}
		r.mu.Unlock()
		for _, m := range res.hdr.Svc {
			w := r.w[m-1]
			r.log("wstop", m, true, func() { w.StopAsync() })
		}
		time.Sleep(1000 * tick)
		synctest.Wait()
		r.logFinal()
		// a service that is still active would leave goroutines blocked in the bubble: get them out
		for _, m := range res.hdr.Svc {
			if st := r.s[m-1].State(); st == services.Starting || st == services.Running {
				res.leftover = true
				r.s[m-1].(*obsService).Service.StopAsync()
			}
		}
		time.Sleep(1000 * tick)
		synctest.Wait()
		r.mu.Lock()
		res.events = append([]event(nil), r.events...)
		r.mu.Unlock()
	})
	return res
}

// runUnderManager: every wrapper under one services.Manager; the first failure stops the manager.
func runUnderManager(r *recorder, sc scenario, res *runResult) {
	var ws []services.Service
	for _, m := range res.hdr.Svc {
		ws = append(ws, &obsWrapper{Service: r.w[m-1], r: r, m: m})
	}
	finish := func() {
		r.mu.Lock()
		res.events = append([]event(nil), r.events...)
		r.mu.Unlock()
	}
	if len(ws) == 0 {
		r.logFinal()
		finish()
		return
	}
	mgr, err := services.NewManager(ws...)
	if err != nil {
		res.problem = "services.NewManager: " + err.Error()
		return
	}
	mgr.AddListener(services.NewManagerListener(nil, nil, func(services.Service) { mgr.StopAsync() }))
	if err := mgr.StartAsync(context.Background()); err != nil {
		res.problem = "Manager.StartAsync: " + err.Error()
		return
	}
	if sc.MgrStopAt >= 0 {
		time.Sleep(time.Duration(sc.MgrStopAt) * tick)
		synctest.Wait()
		mgr.StopAsync()
	}
	time.Sleep(1000 * tick)
	synctest.Wait()
	r.mu.Lock()
	if len(r.events) > 0 {
		res.horizon = r.events[len(r.events)-1].T
	}
	r.mu.Unlock()
	mgr.StopAsync()
	time.Sleep(1000 * tick)
	synctest.Wait()
	r.logFinal()
	for _, m := range res.hdr.Svc {
		if st := r.s[m-1].State(); st == services.Starting || st == services.Running {
			res.leftover = true
			r.s[m-1].(*obsService).Service.StopAsync()
		}
	}
	time.Sleep(1000 * tick)
	synctest.Wait()
	finish()
}

// ---------------------------------------------------------------------------------------------
// scenario generation

type shape struct {
	n     int
	edges [][2]int
	label string
	kinds []string // preset module kinds (nil: all with a service, plus seeded variants with service-less modules)
}

// every set of "down" edges (a -> b with b < a) on n modules: contains every DAG shape on n modules
func allDownGraphs(n int) []shape {
	var pairs [][2]int
	for a := 2; a <= n; a++ {
		for b := 1; b < a; b++ {
			pairs = append(pairs, [2]int{a, b})
		}
	}
	var out []shape
	for mask := 0; mask < 1<<len(pairs); mask++ {
		es := [][2]int{}
		for i, p := range pairs {
			if mask&(1<<i) != 0 {
				es = append(es, p)
			}
		}
		out = append(out, shape{n, es, fmt.Sprintf("down%d/%d", n, mask), nil})
	}
	return out
}

func randomDAG(rng *rand.Rand, n int, p float64) shape {
	perm := rng.Perm(n)
	es := [][2]int{}
	for i := 0; i < n; i++ {
		for j := 0; j < i; j++ {
			if rng.Float64() < p {
				es = append(es, [2]int{perm[i] + 1, perm[j] + 1})
			}
		}
	}
	rng.Shuffle(len(es), func(i, j int) { es[i], es[j] = es[j], es[i] })
	return shape{n, es, fmt.Sprintf("random%d", n), nil}
}

func okScript(rng *rand.Rand) script {
	return script{StartLat: 2 * rng.Intn(3), Run: "block", StopLat: 2 * rng.Intn(3), StartCtx: rng.Intn(4) == 0}
}

var faultKinds = []string{"none", "start", "run", "exit", "stop"}

func applyFault(sc *script, kind string, rng *rand.Rand) {
	switch kind {
	case "start":
		sc.StartFail = true
	case "run":
		sc.Run, sc.RunLat = "fail", 2*rng.Intn(4)
	case "exit":
		sc.Run, sc.RunLat = "exit", 2*rng.Intn(4)
		if sc.StopLat == 0 {
			sc.StopLat = 2
		}
	case "stop":
		sc.StopFail = true
	case "stopproc":
		sc.Run, sc.RunLat = "stopproc", 2*rng.Intn(4)
	}
}

func allTargets(n int) []int {
	t := make([]int, n)
	for i := range t {
		t[i] = i + 1
	}
	return t
}

func fill(n, v int) []int {
	s := make([]int, n)
	for i := range s {
		s[i] = v
	}
	return s
}

// ---------------------------------------------------------------------------------------------

func namedShapes() []shape {
	return []shape{
		{4, [][2]int{{2, 1}, {3, 2}, {4, 3}}, "chain4", nil},
		{4, [][2]int{{2, 1}, {3, 1}, {4, 2}, {4, 3}}, "diamond4", nil},
		{4, [][2]int{{2, 1}, {3, 2}, {4, 2}}, "deep4", nil},
		{4, [][2]int{{3, 1}, {3, 2}, {4, 3}}, "target4", nil},
		// dependencies that are only transitive, through modules without a service
		{4, [][2]int{{2, 1}, {3, 2}, {4, 3}}, "chain4-hollow", []string{"svc", "nosvc", "noinit", "svc"}},
		{4, [][2]int{{2, 1}, {3, 1}, {4, 2}, {4, 3}}, "diamond4-hollow", []string{"svc", "nosvc", "noinit", "svc"}},
	}
}

// scenarios derives the run-time scenarios of this tier from the seed.  emit is called for each.
func scenarios(t *testing.T, seed int64, thorough bool, emit func(sc scenario, systematic bool)) {
	rng := rand.New(rand.NewSource(seed*7919 + 18))
	var shapes []shape
	for n := 1; n <= 3; n++ {
		shapes = append(shapes, allDownGraphs(n)...)
	}
	if thorough {
		shapes = append(shapes, allDownGraphs(4)...)
	}
	shapes = append(shapes, namedShapes()...)
	id := 0
	next := func() int { id++; return id }
	for _, sh := range shapes {
		// which modules have a service: all, and (for 3+ modules) one without service / without init function
		kindsList := [][]string{nil}
		if sh.kinds != nil {
			kindsList = [][]string{sh.kinds}
		} else if sh.n >= 3 && (thorough || rng.Intn(3) == 0) { // quick tier: a third of the shapes get the variant
			hole := 1 + rng.Intn(sh.n)
			k := make([]string, sh.n)
			for i := range k {
				k[i] = "svc"
			}
			k[hole-1] = []string{"nosvc", "noinit"}[rng.Intn(2)]
			kindsList = append(kindsList, k)
		}
		for ki, kinds := range kindsList {
			if kinds == nil {
				kinds = make([]string, sh.n)
				for i := range kinds {
					kinds[i] = "svc"
				}
			}
			for _, fk := range faultKinds {
				faulty := []int{0}
				if fk != "none" {
					faulty = nil
					for m := 1; m <= sh.n; m++ {
						if kinds[m-1] == "svc" {
							faulty = append(faulty, m)
						}
					}
					if ki > 0 || sh.n == 4 { // fewer combinations off the main line and for the many shapes on 4 modules
						faulty = []int{faulty[rng.Intn(len(faulty))]}
					}
				}
				for _, f := range faulty {
					scripts := make([]script, sh.n)
					for i := range scripts {
						scripts[i] = okScript(rng)
					}
					if f > 0 {
						applyFault(&scripts[f-1], fk, rng)
					}
					base := scenario{N: sh.n, Edges: sh.edges, Kind: kinds, Scripts: scripts, Targets: allTargets(sh.n),
						StartAt: fill(sh.n, 0), StopAt: fill(sh.n, -1), Label: fmt.Sprintf("%s fault=%s@%d", sh.label, fk, f)}
					rng.Shuffle(len(base.Targets), func(i, j int) { base.Targets[i], base.Targets[j] = base.Targets[j], base.Targets[i] })
					if sh.n >= 2 && rng.Intn(3) == 0 { // not every module is a target: the rest is initialised only if needed
						base.Targets = base.Targets[:1+rng.Intn(sh.n-1)]
					}
					base.ID = next()
					probe := runScenario(t, base)
					emitRun(emit, base, probe, true)
					h := probe.horizon
					if h > 40 {
						h = 40
					}
					step, off := 1, 0
					if !thorough && fk != "none" { // quick tier: every other tick for the faulty variants
						step, off = 2, rng.Intn(2)
					}
					for k := off; k <= h+1; k += step { // stop everything at tick k: during start-up, while running, after a failure
						sc := base
						sc.ID = next()
						sc.StopAt = fill(sh.n, k)
						sc.Label = base.Label + fmt.Sprintf(" stopall@%d", k)
						emit(sc, true)
					}
					for i := 0; i < 2; i++ { // staggered stops, a late or never started wrapper
						sc := base
						sc.ID = next()
						sc.StopAt = make([]int, sh.n)
						for m := range sc.StopAt {
							sc.StopAt[m] = rng.Intn(h+4) - 1
						}
						sc.StartAt = fill(sh.n, 0)
						switch rng.Intn(3) {
						case 0:
							sc.StartAt[rng.Intn(sh.n)] = -1
						case 1:
							sc.StartAt[rng.Intn(sh.n)] = rng.Intn(h + 2)
						}
						sc.Label = base.Label + " staggered"
						emit(sc, true)
					}
				}
			}
		}
	}
	// the services.Manager family: stop-on-first-failure, ErrStopProcess
	for _, sh := range shapes {
		if len(sh.edges) == 0 || (thorough && sh.n == 4 && sh.kinds == nil && len(sh.label) > 4 && sh.label[:4] == "down") {
			continue
		}
		for _, fk := range append(append([]string{}, faultKinds...), "stopproc") {
			kinds := sh.kinds
			if kinds == nil {
				kinds = make([]string, sh.n)
				for i := range kinds {
					kinds[i] = "svc"
				}
			}
			faulty := []int{0}
			if fk != "none" {
				faulty = nil
				for m := 1; m <= sh.n; m++ {
					if kinds[m-1] == "svc" {
						faulty = append(faulty, m)
					}
				}
				if !thorough || sh.n == 4 {
					faulty = []int{faulty[rng.Intn(len(faulty))]}
				}
			}
			for _, f := range faulty {
				scripts := make([]script, sh.n)
				for i := range scripts {
					scripts[i] = okScript(rng)
				}
				if f > 0 {
					applyFault(&scripts[f-1], fk, rng)
				}
				base := scenario{ID: next(), N: sh.n, Edges: sh.edges, Kind: kinds, Scripts: scripts, Targets: allTargets(sh.n),
					StartAt: fill(sh.n, 0), StopAt: fill(sh.n, -1), Manager: true, MgrStopAt: -1,
					Label: fmt.Sprintf("manager %s fault=%s@%d", sh.label, fk, f)}
				probe := runScenario(t, base)
				emit(base, true)
				h := probe.horizon
				if h > 30 {
					h = 30
				}
				ticks := []int{rng.Intn(h + 2)}
				if thorough {
					ticks = nil
					for k := rng.Intn(2); k <= h+1; k += 2 {
						ticks = append(ticks, k)
					}
				}
				for _, k := range ticks {
					sc := base
					sc.ID = next()
					sc.MgrStopAt = k
					sc.Label = base.Label + fmt.Sprintf(" stop@%d", k)
					emit(sc, true)
				}
			}
		}
	}
	// random DAGs on up to 12 modules
	nr := 40
	if thorough {
		nr = 600
	}
	for i := 0; i < nr; i++ {
		n := 5 + rng.Intn(8)
		sh := randomDAG(rng, n, 0.15+0.35*rng.Float64())
		kinds := make([]string, n)
		scripts := make([]script, n)
		for m := range kinds {
			kinds[m] = "svc"
			if rng.Intn(6) == 0 {
				kinds[m] = []string{"nosvc", "noinit"}[rng.Intn(2)]
			}
			scripts[m] = okScript(rng)
		}
		fk := faultKinds[rng.Intn(len(faultKinds))]
		if fk != "none" {
			f := rng.Intn(n)
			applyFault(&scripts[f], fk, rng)
		}
		sc := scenario{ID: next(), N: n, Edges: sh.edges, Kind: kinds, Scripts: scripts, Targets: allTargets(n),
			StartAt: fill(n, 0), StopAt: fill(n, -1), Label: sh.label + " fault=" + fk}
		rng.Shuffle(n, func(i, j int) { sc.Targets[i], sc.Targets[j] = sc.Targets[j], sc.Targets[i] })
		sc.Targets = sc.Targets[:1+rng.Intn(n)]
		switch rng.Intn(3) {
		case 0:
			k := rng.Intn(30)
			sc.StopAt = fill(n, k)
		case 1:
			for m := range sc.StopAt {
				sc.StopAt[m] = rng.Intn(32) - 1
			}
		}
		if rng.Intn(3) == 0 {
			sc.StartAt[rng.Intn(n)] = []int{-1, rng.Intn(10)}[rng.Intn(2)]
		}
		emit(sc, false)
	}
}

func emitRun(emit func(sc scenario, systematic bool), sc scenario, _ runResult, systematic bool) {
	emit(sc, systematic)
}

func TestRuntime(t *testing.T) {
	out := os.Getenv("VERIF_TRACE")
	if out == "" {
		t.Skip("VERIF_TRACE not set")
	}
	res := &abs.Result{}
	w, err := abs.NewNDJSONWriter(out)
	if err != nil {
		t.Fatal(err)
	}
	scen, err := abs.NewNDJSONWriter(out + ".scenarios")
	if err != nil {
		t.Fatal(err)
	}
	nev := 0
	scenarios(t, abs.Seed(), abs.Tier() == "thorough", func(sc scenario, systematic bool) {
		r := runScenario(t, sc)
		if r.problem != "" {
			res.Mismatch(abs.Mismatch{Sig: "runtime:panic-or-deadlock", Case: sc, Got: r.problem, Want: "scenario runs to completion"})
			return
		}
		res.Cases++
		nontrivial := false
		for _, e := range r.events {
			if e.Ev == "istop" {
				nontrivial = true
			}
		}
		if nontrivial && len(sc.Edges) > 0 {
			res.Nontrivial++
		}
		_ = scen.Write(sc)
		_ = w.Write(r.hdr)
		for _, e := range r.events {
			_ = w.Write(e)
			nev++
		}
		if res.Cases%997 == 1 {
			res.Sample(map[string]any{"scenario": sc, "events": len(r.events)})
		}
	})
	if err := w.Close(); err != nil {
		res.Fatal = err.Error()
	}
	_ = scen.Close()
	res.AddExtra("runtime_events", nev)
	res.Write(t)
}
