-------------------------- MODULE PropagationTrace --------------------------
(***************************************************************************)
(* C20, code -> specification, propagation.  ptrace.ndjson holds chains    *)
(* recorded by harness/c20 TestRecordPropagation: a seeded driver walks    *)
(* context -> HTTP -> context -> gRPC -> context chains of random length   *)
(* through the real inject/extract functions and middlewares (a random     *)
(* implementation variant at every hop) and logs, per hop, the action, its *)
(* environment arguments and the projected state after the hop.            *)
(*                                                                         *)
(* Every logged hop must be a step of Propagation.tla's own action with    *)
(* exactly the logged post-state, and the invariants of the property hold  *)
(* in every state on the way.  A chain the specification cannot follow     *)
(* ends in a state without successor: TLC reports it as a deadlock whose   *)
(* trace names the chain (k) and the hop (j + 1).                          *)
(***************************************************************************)
EXTENDS Propagation

VARIABLES k,    \* number of the chain (line of the log) this behaviour follows
          j     \* hops of the chain consumed so far

Log == ndJsonDeserialize("ptrace.ndjson")

tvars == <<vars, k, j>>

TInit == /\ k \in 1..Len(Log)
         /\ j = 0
         /\ chan = Log[k].chan
         /\ at = Log[k].start.at /\ ctx = Log[k].start.ctx /\ hdr = Log[k].start.hdr
         /\ md = Log[k].start.md /\ err = Log[k].start.err
         /\ origin = Log[k].origin
         /\ hops = 0
         /\ hist = <<>>

\* the recorded start is a start of the specification (Propagation!Init)
StartIsSpecStart ==
    j = 0 => /\ chan \in Channels /\ err = ""
             /\ \/ at = "ctx"  /\ origin = ctx /\ hdr = <<>> /\ md = <<>>
                \/ at = "http" /\ ctx = None /\ md = <<>>
                                /\ origin = (IF First(hdr) = Empty THEN None ELSE First(hdr))
                \/ at = "grpc" /\ chan = "org" /\ ctx = None /\ hdr = <<>>
                                /\ origin = (IF Len(md) = 1 THEN md[1] ELSE None)

IsHop(e, a) == e.a = a

Matches(e) == /\ at' = e.post.at /\ ctx' = e.post.ctx /\ hdr' = e.post.hdr
              /\ md' = e.post.md /\ err' = e.post.err

Hop == /\ j < Len(Log[k].steps)
       /\ LET e == Log[k].steps[j + 1] IN
            /\ \/ IsHop(e, "CtxToHTTP") /\ CtxToHTTP(e.pre)
               \/ IsHop(e, "HTTPToCtx") /\ HTTPToCtx(e.stale)
               \/ IsHop(e, "CtxToGRPC") /\ CtxToGRPC(e.present, e.pre)
               \/ IsHop(e, "GRPCToCtx") /\ GRPCToCtx(e.stale)
            /\ Matches(e)
       /\ j' = j + 1
       /\ UNCHANGED k

Done == /\ j = Len(Log[k].steps)
        /\ UNCHANGED tvars

TNext == Hop \/ Done

\* vacuity guard for the driver: chains were consumed
Consumed == j <= Len(Log[k].steps)
=============================================================================
