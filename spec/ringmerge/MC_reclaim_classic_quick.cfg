\* C05 owners' side (classic lifecycler): instance 2 of 3 wants 1 token(s) out of 3 positions; <= 2 peer updates.
CONSTANTS
  N = 3
  M = 3
  Shared = TRUE
  Kind = "classic"
  Me = 2
  NumTok = 1
  PeerTs = {1, 2}
  PeerSt = {"ACTIVE", "LEAVING"}
  MaxDeliver = 2
  MaxClock = 9
  ThinE = @@THINE@@
  ThinC = @@THINC@@
  ThinR = @@THINR@@
INIT Init
NEXT Next
VIEW View
INVARIANTS TypeOK InvTokenUnique InvLeftHasNoTokens EmitScenario
PROPERTIES VerifiedOwns ReclaimRule MemoryMatchesWrite
CHECK_DEADLOCK FALSE
