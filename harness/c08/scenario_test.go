package c08

import (
	"fmt"
	"math/rand"
	"strconv"
)

// ---------------------------------------------------------------------------------------------
// configurations

func randCfg(r *rand.Rand, kind string) lcCfg {
	c := lcCfg{Kind: kind, Join: r.Intn(3), Obs: r.Intn(3), Hb: 1 + r.Intn(2), Unreg: r.Intn(2) == 0,
		File: r.Intn(2) == 0, Health: r.Intn(2) == 0, Regst: "ACTIVE"}
	if r.Intn(4) == 0 {
		c.Fsleep = 1 + r.Intn(2)
	}
	if kind == "basic" {
		c.Join, c.Health, c.Fsleep = 0, false, 0
		c.Hb = r.Intn(3) // zero disables heartbeating
		c.Regst = []string{"ACTIVE", "ACTIVE", "JOINING", "PENDING"}[r.Intn(4)]
		if r.Intn(2) == 0 {
			c.Forget = 2 + r.Intn(2)
		}
		c.Keep = !c.Unreg
	} else {
		c.Keep = !c.Unreg
	}
	return c
}

var chain = []string{"PENDING", "JOINING", "ACTIVE", "LEAVING"}

// publishedState of i in the store (driver-side knowledge used to respect documented preconditions).
func (w *world) publishedState(i int) string {
	d := w.storeRing()
	if d == nil {
		return "ABSENT"
	}
	ing, ok := d.Ingesters[instID(i)]
	if !ok {
		return "ABSENT"
	}
	return ing.State.String()
}

// ---------------------------------------------------------------------------------------------
// seeded free-running schedules (C08, and the store-fault part of C09)

type schedOpts struct {
	n        int
	steps    int
	faults   bool // wipes and reject windows
	disallow bool // request disallowed ChangeState edges from classic lifecyclers
	kinds    string
}

func randomSchedule(w *world, r *rand.Rand, o schedOpts) error {
	cfgs := make([]lcCfg, o.n+1)
	for i := 1; i <= o.n; i++ {
		kind := "classic"
		if o.kinds == "basic" || (o.kinds == "both" && r.Intn(2) == 0) {
			kind = "basic"
		}
		cfgs[i] = randCfg(r, kind)
		if cfgs[i].File && r.Intn(4) == 0 {
			// a tokens file left by an earlier life: fewer, exactly or more tokens than configured
			k := 1 + r.Intn(w.numTokens+1)
			perm := r.Perm(len(w.univ))[:k]
			sortInts(perm)
			if err := w.seedFile(i, perm); err != nil {
				return err
			}
		}
	}
	for s := 0; s < o.steps && w.steps < 800 && w.fatal == ""; s++ {
		i := 1 + r.Intn(o.n)
		switch x := r.Intn(100); {
		case x < 22:
			if !w.alive(i) && w.idle(i) {
				if r.Intn(5) == 0 {
					cfgs[i] = randCfg(r, cfgs[i].Kind)
				}
				if err := w.start(i, cfgs[i], r.Int63(), 0, ""); err != nil {
					return err
				}
			}
		case x < 50:
			w.sleep(1 + r.Intn(3))
		case x < 62:
			if w.running(i) {
				c := w.inc[i]
				if c.classic != nil {
					to := chain[r.Intn(4)]
					if !o.disallow {
						// only edges of the documented chain from the current state
						to = nextOf(c.classic.GetState().String())
					}
					w.request(i, "cs", to)
				} else {
					w.request(i, "cs", nextOf(w.publishedOr(i, c.basic.GetState().String())))
				}
			}
		case x < 68:
			if w.running(i) {
				w.request(i, "ro", strconv.FormatBool(r.Intn(2) == 0))
			}
		case x < 74:
			j := 1 + r.Intn(o.n)
			if w.running(i) && w.inc[i].classic != nil && j != i &&
				w.publishedState(i) != "ABSENT" && w.publishedState(j) == "LEAVING" {
				w.request(i, "claim", strconv.Itoa(j))
			}
		case x < 82:
			if w.alive(i) && w.inc[i].classic != nil {
				w.checkReady(i)
			}
		case x < 92:
			if w.alive(i) && !w.stopping(i) {
				w.stop(i)
			}
		case x < 96:
			if o.faults {
				w.wipe()
			}
		default:
			if o.faults && w.alive(i) {
				w.setKV(i, w.inc[i].rec.reject)
			}
		}
	}
	return nil
}

func sortInts(a []int) {
	for i := 1; i < len(a); i++ {
		for j := i; j > 0 && a[j-1] > a[j]; j-- {
			a[j-1], a[j] = a[j], a[j-1]
		}
	}
}

func nextOf(s string) string {
	for k, c := range chain {
		if c == s && k+1 < len(chain) {
			return chain[k+1]
		}
	}
	return "LEAVING"
}

func (w *world) publishedOr(i int, def string) string {
	if s := w.publishedState(i); s != "ABSENT" {
		return s
	}
	return def
}

// idle: no incarnation of i is still winding down.
func (w *world) idle(i int) bool { c := w.inc[i]; return c == nil || c.over }

func (w *world) stopping(i int) bool {
	c := w.inc[i]
	return c != nil && c.svc.State().String() == "Stopping"
}

// ---------------------------------------------------------------------------------------------
// C09: scenarios whose every write of the target (identity 1) is a crash point

type crashPlan struct {
	inc  int // which incarnation of the target within the scenario (1-based); 0 = none
	at   int // the at-th write of that incarnation
	side string
	// or a reject window: the store rejects the CAS calls rejFrom .. rejFrom+rejLen-1 of that incarnation
	rejFrom, rejLen int
	// or a CAS conflict: the first attempt of the confAt-th CAS call of that incarnation is lost (conflict_test.go)
	confAt int
}

type scenario struct {
	name string
	tgt  lcCfg
	run  func(s *scRun)
}

type scRun struct {
	w    *world
	plan crashPlan
	tgt  lcCfg
	incs int         // incarnations of the target started so far
	recs []*recorder // the target's incarnations, in order
	seed int64
	dead bool
}

func (s *scRun) startTarget() {
	if s.dead {
		return
	}
	s.incs++
	at, side := 0, ""
	if prev := s.w.inc[1]; prev != nil && prev.rec.reject {
		s.w.setKV(1, true) // a window still open when the process ended closes before the next life
	}
	if s.plan.inc == s.incs {
		at, side = s.plan.at, s.plan.side
		s.w.rejNext = [2]int{s.plan.rejFrom, s.plan.rejLen}
		s.w.confNext = s.plan.confAt
	}
	if err := s.w.start(1, s.tgt, s.seed+int64(s.incs), at, side); err != nil {
		s.w.fatal = err.Error()
	}
	s.recs = append(s.recs, s.w.inc[1].rec)
	s.check()
}

func (s *scRun) check() {
	if c := s.w.inc[1]; c != nil && c.crashed {
		s.dead = true
	}
}

// do runs a driver step unless the target has already died (the rest of the scenario is moot then).
func (s *scRun) do(f func()) {
	if s.dead || s.w.fatal != "" {
		return
	}
	f()
	s.check()
}

func bystander() lcCfg {
	return lcCfg{Kind: "classic", Join: 0, Obs: 0, Hb: 1, Unreg: false, File: false, Regst: "ACTIVE", Keep: true}
}

func scenarios() []scenario {
	cl := func(join, obs int, unreg, file bool) lcCfg {
		return lcCfg{Kind: "classic", Join: join, Obs: obs, Hb: 1, Unreg: unreg, File: file, Regst: "ACTIVE", Keep: !unreg}
	}
	ba := func(obs int, unreg, file bool, regst string) lcCfg {
		return lcCfg{Kind: "basic", Obs: obs, Hb: 1, Unreg: unreg, File: file, Regst: regst, Keep: !unreg, Forget: 0}
	}
	withOther := func(s *scRun) {
		s.do(func() { _ = s.w.start(2, bystander(), s.seed+100, 0, "") })
	}
	join := func(s *scRun) {
		withOther(s)
		s.startTarget()
		s.do(func() { s.w.sleep(s.tgt.Join + 2*s.tgt.Obs + 2) })
	}
	leave := func(s *scRun) {
		join(s)
		s.do(func() {
			if s.w.alive(1) && !s.w.stopping(1) { // (it may have failed on its own when the store rejected its join)
				s.w.stop(1)
			}
		})
		s.do(func() { s.w.sleep(1) })
	}
	return []scenario{
		{"fresh-join", cl(1, 0, false, false), join},
		{"join-observe", cl(1, 1, false, true), join},
		{"join-observe-nofile", cl(0, 2, true, false), join},
		{"restart-from-file", cl(1, 1, true, true), func(s *scRun) {
			leave(s) // unregisters: only the file remembers the tokens
			s.startTarget()
			s.do(func() { s.w.sleep(3) })
		}},
		{"restart-from-ring", cl(1, 0, false, false), func(s *scRun) {
			leave(s) // entry stays as LEAVING
			s.startTarget()
			s.do(func() { s.w.sleep(3) })
		}},
		{"leave-keep", cl(0, 0, false, true), leave},
		{"leave-unregister", cl(0, 1, true, true), leave},
		{"claim", cl(3, 0, false, true), func(s *scRun) {
			withOther(s)
			s.do(func() { s.w.sleep(1) })
			s.do(func() { s.w.stop(2) }) // 2 stays in the ring as LEAVING with its tokens
			s.startTarget()
			s.do(func() {
				if s.w.running(1) {
					s.w.request(1, "cs", "JOINING")
				}
			})
			s.do(func() {
				if s.w.running(1) {
					s.w.request(1, "claim", "2")
				}
			})
			s.do(func() {
				if !s.w.running(1) {
					return
				}
				// the transfer worked: go ACTIVE with the claimed tokens; otherwise (the store rejected the
				// claim) fall back to PENDING and let the auto-join pick tokens
				if d := s.w.storeRing(); d != nil && len(d.Ingesters[instID(1)].Tokens) == s.w.numTokens {
					s.w.request(1, "cs", "ACTIVE")
				} else {
					s.w.request(1, "cs", "PENDING")
				}
			})
			s.do(func() { s.w.sleep(2) })
		}},
		{"basic-register", ba(0, true, true, "ACTIVE"), join},
		{"basic-observe", ba(1, false, true, "ACTIVE"), join},
		{"basic-leave", ba(1, true, true, "ACTIVE"), leave},
		{"basic-restart-keep", ba(0, false, false, "ACTIVE"), func(s *scRun) {
			leave(s)
			s.startTarget()
			s.do(func() { s.w.sleep(2) })
		}},
	}
}

// runScenario executes sc with the given crash plan; after a crash the target is restarted with the
// same identity and configuration and given time to recover; the trace ends with "settled".
func runScenario(w *world, sc scenario, plan crashPlan, seed int64) (writes []int, crashed bool) {
	s := &scRun{w: w, plan: plan, tgt: sc.tgt, seed: seed}
	sc.run(s)
	for _, r := range s.recs {
		if plan.rejLen < 0 { // dry run for window enumeration: count CAS calls instead of writes
			writes = append(writes, r.calls)
		} else {
			writes = append(writes, r.writes)
		}
	}
	for i := 1; i <= w.n && w.fatal == ""; i++ {
		if w.alive(i) && w.inc[i].rec.reject {
			w.setKV(i, true) // every window closes before the recovery time starts
		}
	}
	if s.dead && w.fatal == "" {
		if err := w.start(1, sc.tgt, seed+50, 0, ""); err != nil {
			w.fatal = err.Error()
		}
	}
	if w.fatal == "" {
		w.sleep(sc.tgt.Join + 3*sc.tgt.Obs + 4)
	}
	return writes, s.dead
}

func (p crashPlan) String() string {
	if p.inc == 0 {
		return "dry"
	}
	if p.rejFrom > 0 {
		return fmt.Sprintf("inc%d-reject-calls%d+%d", p.inc, p.rejFrom, p.rejLen)
	}
	return fmt.Sprintf("inc%d-w%d-%s", p.inc, p.at, p.side)
}
