\* t_steps: see checks/ringlookup_common.py (UNIVERSES) for what this universe is for
CONSTANTS
  NK = 5
  Gaps = {2}
  N = 3
  MaxTok = 1
  MaxIdle = 1
  Z = 2
  StateSet = {"ACTIVE", "JOINING"}
  HbSet = {"edge"}
  RFMax = 3
  Canon = 1
  WithRemove = TRUE
  EmitOn = TRUE
INIT Init
NEXT Next
VIEW View
INVARIANTS TypeOK SizeOK ZoneOK ClockwiseFirst SlackExact WalkDefsAgree QuorumIntersection Emit
PROPERTIES MinimalDisruption
CHECK_DEADLOCK FALSE
