----------------------------- MODULE TokensFile -----------------------------
(***************************************************************************)
(* C09, last clause - the tokens file under SEQUENCES of Tokens.StoreToFile*)
(* calls, each of which may be interrupted (process death, failpoint) at   *)
(* any stage, with LoadTokensFromFile possible at any point.               *)
(*                                                                         *)
(* StoreToFile(k) creates (and truncates) path.tmp, writes the JSON of     *)
(* token set k, closes it and renames it over path.  Token sets differ in  *)
(* serialized length (Size[k]); bytes are abstracted to content classes:    *)
(*   main : 0 = no file, k > 0 = exactly the JSON of set k, -1 = garbage   *)
(*   tmp  : [c |-> "none" | "empty" | "part" | "full" | "mix", k, n]       *)
(*          part = a proper prefix of k's JSON, full = exactly k's JSON,   *)
(*          mix = k's JSON followed by the tail of a longer older content, *)
(*          n = length class of the file                                   *)
(* Lifecycler.tla relies on what is decided here: file[i] changes          *)
(* atomically, to the tokens of a store that completed.                    *)
(* The harness replays every emitted call sequence on the real code        *)
(* through the failpoints tokens.store.created / .written / .closed.       *)
(***************************************************************************)
EXTENDS Integers, Sequences, TLC, Json

CONSTANTS K,         \* token sets 1..K
          Size,      \* Size[k]: length class of the JSON of set k
          MaxStores, \* calls per sequence
          Direct,    \* TRUE: write the final path directly (a mutant; the code uses temp file + rename)
          Trunc      \* FALSE: open the temp file without truncating it (a mutant; the code truncates)

VARIABLES main, tmp,
          pc,      \* "idle" | "created" | "written" | "closed"
          cur,     \* the set being stored
          last,    \* history: the set of the last COMPLETED store (0 = none)
          hist     \* history: <<[k, at, main]>> one record per finished call ("" = completed)

vars == <<main, tmp, pc, cur, last, hist>>

NoTmp    == [c |-> "none", k |-> 0, n |-> 0]
EmptyTmp == [c |-> "empty", k |-> 0, n |-> 0]

Init == main = 0 /\ tmp = NoTmp /\ pc = "idle" /\ cur = 0 /\ last = 0 /\ hist = <<>>

\* writing all of k's JSON at offset 0 of a file that currently holds n bytes
Over(f, k) == IF f.c \in {"none", "empty"} \/ Size[k] >= f.n
              THEN [c |-> "full", k |-> k, n |-> Size[k]]
              ELSE [c |-> "mix", k |-> k, n |-> f.n]
Class(f) == IF f.c = "full" THEN f.k ELSE IF f.c = "none" THEN 0 ELSE -1
MainAsFile == IF main = 0 THEN NoTmp ELSE IF main > 0 THEN [c |-> "full", k |-> main, n |-> Size[main]]
              ELSE [c |-> "mix", k |-> 0, n |-> 99]

Create(k) == /\ pc = "idle" /\ Len(hist) < MaxStores /\ pc' = "created" /\ cur' = k
             /\ IF Direct
                THEN /\ main' = IF Trunc \/ main = 0 THEN -1 ELSE main   \* truncated to nothing: unreadable
                     /\ UNCHANGED tmp
                ELSE /\ tmp' = IF Trunc \/ tmp.c = "none" THEN EmptyTmp ELSE tmp
                     /\ UNCHANGED main
             /\ UNCHANGED <<last, hist>>
\* the write is not atomic: a prefix may have reached the file when the process dies
WritePart == /\ pc = "created" /\ ~Direct /\ tmp.c = "empty"
             /\ tmp' = [c |-> "part", k |-> cur, n |-> 0]
             /\ UNCHANGED <<main, pc, cur, last, hist>>
Write == /\ pc = "created" /\ pc' = "written"
         /\ IF Direct
            THEN main' = Class(Over(IF Trunc THEN EmptyTmp ELSE MainAsFile, cur)) /\ UNCHANGED tmp
            ELSE tmp' = Over(IF tmp.c = "part" THEN EmptyTmp ELSE tmp, cur) /\ UNCHANGED main
         /\ UNCHANGED <<cur, last, hist>>
Close == pc = "written" /\ pc' = "closed" /\ UNCHANGED <<main, tmp, cur, last, hist>>
Rename == /\ pc = "closed" /\ pc' = "idle"
          /\ IF Direct THEN UNCHANGED <<main, tmp>>
             ELSE main' = Class(tmp) /\ tmp' = NoTmp           \* rename(2) is atomic
          /\ last' = cur /\ cur' = 0
          /\ hist' = Append(hist, [k |-> cur, at |-> "", main |-> main'])
Abort == /\ pc \in {"created", "written", "closed"} /\ pc' = "idle"
         /\ hist' = Append(hist, [k |-> cur, at |-> pc, main |-> main])
         /\ cur' = 0 /\ UNCHANGED <<main, tmp, last>>

Next == (\E k \in 1..K : Create(k)) \/ WritePart \/ Write \/ Close \/ Rename \/ Abort
Spec == Init /\ [][Next]_vars

TypeOK == main \in -1..K /\ pc \in {"idle", "created", "written", "closed"} /\ last \in 0..K

\* at ANY point a reader finds exactly the tokens of the last completed store (or no file): never garbage,
\* never the tokens of an interrupted store, never an older set
FileNeverCorrupt == main = last
\* an abort never changes what a reader finds; the file only ever changes to the complete new content
AbortKeepsOld == [][(pc # "idle" /\ pc' = "idle" /\ last' = last) => main' = main]_vars
OnlyOldOrNew  == [][main' # main => (main' = cur /\ cur > 0)]_vars

Len3 == <<1, 2, 3>>        \* three sets of increasing serialized length
Len4 == <<1, 2, 2, 3>>     \* ... and two different sets of the same length

\* case emitter (gen/replay): every sequence of MaxStores calls with what a reader must find after each call
Emit == (pc = "idle" /\ Len(hist) = MaxStores) => PrintT(ToJson(hist))
=============================================================================
