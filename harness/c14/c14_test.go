// Package c14 replays the ownership matrices enumerated by spec/tokenranges/TokenRanges.tla
// against ring.Ring.GetTokenRangesForInstance / PartitionRing.GetTokenRangesForPartition and the
// real lookups (C14).
package c14

import (
	"encoding/json"
	"fmt"
	"os"
	"sort"
	"testing"
	"time"

	"verifharness/internal/abs"

	"github.com/grafana/dskit/ring"
)

type tcase struct {
	Own   []int   `json:"own"`   // per key class: -1 gap, 0 no token, i owner
	Zone  []int   `json:"zone"`  // per owner
	Owned [][]int `json:"owned"` // per owner: key classes it owns
}

func contains(s []int, v int) bool {
	for _, x := range s {
		if x == v {
			return true
		}
	}
	return false
}

func wellFormed(tr ring.TokenRanges) string {
	if len(tr)%2 != 0 {
		return "odd length"
	}
	if !sort.SliceIsSorted(tr, func(i, j int) bool { return tr[i] < tr[j] }) {
		return "not sorted"
	}
	return ""
}

// sigFor describes the class of a failing input: which boundary features the zone's token list has.
func sigFor(mode string, kind string, key uint32, zoneTokens []uint32, ownerOf map[uint32]int, owner int) string {
	feat := ""
	if len(zoneTokens) > 0 {
		if zoneTokens[0] == 0 {
			feat += fmt.Sprintf(" tok0=%s", rel(ownerOf[0], owner))
		}
		if len(zoneTokens) > 1 && zoneTokens[1] == 1 && zoneTokens[0] == 0 {
			feat += fmt.Sprintf(" tok1=%s", rel(ownerOf[1], owner))
		}
		if zoneTokens[len(zoneTokens)-1] == ^uint32(0) {
			feat += fmt.Sprintf(" tokMax=%s", rel(ownerOf[^uint32(0)], owner))
		}
	}
	kc := "mid"
	switch key {
	case 0:
		kc = "0"
	case ^uint32(0):
		kc = "max"
	}
	return fmt.Sprintf("%s:%s key=%s%s", mode, kind, kc, feat)
}

func rel(a, b int) string {
	if a == b {
		return "self"
	}
	return "other"
}

func TestReplay(t *testing.T) {
	in := os.Getenv("VERIF_IN")
	mode := os.Getenv("VERIF_MODE") // instance | partition
	nk := abs.EnvInt("VERIF_NK", 0)
	var gaps []int
	_ = json.Unmarshal([]byte(os.Getenv("VERIF_GAPS")), &gaps)
	if in == "" || nk == 0 {
		t.Skip("VERIF_IN / VERIF_NK not set")
	}
	classes := abs.KeyClasses(nk, gaps)
	res := &abs.Result{}
	now := time.Now()
	// Table of every enumerated ring: a shuffle-shard subring of one enumerated ring is (as far as
	// ownership goes) another enumerated ring, the one where the tokens of non-members are unowned.
	table := map[string][][]int{}
	subChecked, subSkipped := 0, 0
	if mode != "partition" {
		_ = abs.ReadNDJSON(in, func(line []byte) error {
			var c tcase
			if err := json.Unmarshal(line, &c); err != nil {
				return err
			}
			table[caseKey(c.Own, c.Zone)] = c.Owned
			return nil
		})
	}
	err := abs.ReadNDJSON(in, func(line []byte) error {
		var c tcase
		if err := json.Unmarshal(line, &c); err != nil {
			return err
		}
		res.Cases++
		n := len(c.Zone)
		toks := make([][]uint32, n+1)
		ntoks := 0
		for k, o := range c.Own {
			if o > 0 {
				toks[o] = append(toks[o], classes[k][0])
				ntoks++
			}
		}
		nontrivial := false
		if mode == "partition" {
			desc := ring.NewPartitionRingDesc()
			for i := 1; i <= n; i++ {
				desc.AddPartition(int32(i), ring.PartitionActive, now)
				p := desc.Partitions[int32(i)]
				p.Tokens = toks[i]
				desc.Partitions[int32(i)] = p
			}
			pr, err := ring.NewPartitionRing(*desc)
			if err != nil {
				return fmt.Errorf("NewPartitionRing: %w", err)
			}
			allTokens := []uint32{}
			ownerOf := map[uint32]int{}
			for i := 1; i <= n; i++ {
				for _, tk := range toks[i] {
					allTokens = append(allTokens, tk)
					ownerOf[tk] = i
				}
			}
			sort.Slice(allTokens, func(a, b int) bool { return allTokens[a] < allTokens[b] })
			for i := 1; i <= n; i++ {
				tr, err := pr.GetTokenRangesForPartition(int32(i))
				if err != nil {
					res.Mismatch(abs.Mismatch{Sig: "partition:error", Case: c, Got: err.Error(), Want: "ranges", Note: fmt.Sprintf("partition %d", i)})
					continue
				}
				if wf := wellFormed(tr); wf != "" {
					res.Mismatch(abs.Mismatch{Sig: "partition:malformed " + wf, Case: c, Got: tr, Want: "sorted even-length", Note: fmt.Sprintf("partition %d", i)})
				}
				for k := 0; k < nk; k++ {
					want := contains(c.Owned[i-1], k)
					for _, key := range classes[k] {
						got := tr.IncludesKey(key)
						lk, lerr := pr.ActivePartitionForKey(key)
						look := lerr == nil && lk == int32(i)
						if got != want || look != want {
							if len(c.Owned[i-1]) < nk {
								nontrivial = true
							}
							kind := "ranges"
							if got == want {
								kind = "lookup"
							}
							res.Mismatch(abs.Mismatch{Sig: sigFor(mode, kind, key, allTokens, ownerOf, i), Case: c,
								Got:  map[string]any{"includes": got, "lookup_assigns": look, "ranges": tr, "key": key, "partition": i, "tokens": toks},
								Want: map[string]any{"owns": want, "class": k}})
						}
					}
				}
				if len(c.Owned[i-1]) > 0 && len(c.Owned[i-1]) < nk {
					nontrivial = true
				}
			}
		} else {
			desc := ring.NewDesc()
			zonesWithTokens := map[int]bool{}
			for i := 1; i <= n; i++ {
				id := abs.InstID(i)
				desc.AddIngester(id, "addr-"+id, abs.ZoneName(c.Zone[i-1]), toks[i], ring.ACTIVE, now, false, time.Time{}, nil)
				if len(toks[i]) > 0 {
					zonesWithTokens[c.Zone[i-1]] = true
				}
			}
			rf := len(zonesWithTokens)
			r, stop, err := abs.NewRing(desc, ring.Config{ReplicationFactor: rf, ZoneAwarenessEnabled: true, HeartbeatTimeout: time.Hour, SubringCacheDisabled: true})
			if err != nil {
				return fmt.Errorf("NewRing: %w", err)
			}
			for i := 1; i <= n; i++ {
				id := abs.InstID(i)
				zoneTokens := []uint32{}
				ownerOf := map[uint32]int{}
				for j := 1; j <= n; j++ {
					if c.Zone[j-1] == c.Zone[i-1] {
						for _, tk := range toks[j] {
							zoneTokens = append(zoneTokens, tk)
							ownerOf[tk] = j
						}
					}
				}
				sort.Slice(zoneTokens, func(a, b int) bool { return zoneTokens[a] < zoneTokens[b] })
				tr, err := r.GetTokenRangesForInstance(id)
				if len(zoneTokens) == 0 {
					// zone without tokens: the code reports an error, the specification says "owns nothing"
					if err == nil && len(tr) != 0 {
						res.Mismatch(abs.Mismatch{Sig: "instance:tokenless-zone-has-ranges", Case: c, Got: tr, Want: "error or empty"})
					}
					continue
				}
				if err != nil {
					res.Mismatch(abs.Mismatch{Sig: "instance:error", Case: c, Got: err.Error(), Want: "ranges", Note: id})
					continue
				}
				if wf := wellFormed(tr); wf != "" {
					res.Mismatch(abs.Mismatch{Sig: "instance:malformed " + wf, Case: c, Got: tr, Want: "sorted even-length", Note: id})
				}
				for k := 0; k < nk; k++ {
					want := contains(c.Owned[i-1], k)
					for _, key := range classes[k] {
						got := tr.IncludesKey(key)
						rs, gerr := r.Get(key, ring.WriteNoExtend, nil, nil, nil)
						look := false
						if gerr == nil {
							for _, inst := range rs.Instances {
								if inst.Id == id {
									look = true
								}
							}
						}
						if got != want || look != want {
							kind := "ranges"
							if got == want {
								kind = "lookup"
							}
							res.Mismatch(abs.Mismatch{Sig: sigFor(mode, kind, key, zoneTokens, ownerOf, i), Case: c,
								Got:  map[string]any{"includes": got, "lookup_assigns": look, "ranges": tr, "key": key, "instance": id, "tokens": toks, "zone_tokens": zoneTokens},
								Want: map[string]any{"owns": want, "class": k}})
						}
					}
				}
				if len(c.Owned[i-1]) > 0 && len(c.Owned[i-1]) < nk {
					nontrivial = true
				}
			}
			// The same relation on shuffle-shard subrings (built by Ring.buildRingForTheShard, which
			// re-merges the per-zone token lists): ranges <=> ownership in the sub-descriptor <=> lookup.
			for _, tenant := range []string{"s-0", "s-1", "s-2"} {
				for _, size := range []int{rf, 2 * rf} {
					sub, ok := r.ShuffleShard(tenant, size).(*ring.Ring)
					if !ok || sub == r {
						continue
					}
					member := map[int]bool{}
					for i := 1; i <= n; i++ {
						if sub.HasInstance(abs.InstID(i)) {
							member[i] = true
						}
					}
					if len(member) == n || len(member) == 0 {
						continue
					}
					own2 := make([]int, len(c.Own))
					hasTok := map[int]bool{} // zones that keep tokens
					for k, o := range c.Own {
						own2[k] = o
						if o > 0 && !member[o] {
							own2[k] = 0
						}
						if own2[k] > 0 {
							hasTok[c.Zone[own2[k]-1]] = true
						}
					}
					if len(hasTok) != rf {
						subSkipped++ // a zone lost all its tokens: outside "as many zones as replicas"
						continue
					}
					minZone := 0
					for z := range hasTok {
						if minZone == 0 || z < minZone {
							minZone = z
						}
					}
					zone2 := make([]int, n)
					for i := 1; i <= n; i++ {
						zone2[i-1] = c.Zone[i-1]
						owns := false
						for _, o := range own2 {
							if o == i {
								owns = true
							}
						}
						if !owns {
							zone2[i-1] = minZone // canonical zone of a token-less owner in the specification's universe
						}
					}
					want2, found := table[caseKey(own2, zone2)]
					if !found {
						subSkipped++
						continue
					}
					subChecked++
					for i := range member {
						id := abs.InstID(i)
						tr, err := sub.GetTokenRangesForInstance(id)
						if err != nil {
							res.Mismatch(abs.Mismatch{Sig: "subring:error", Case: c, Got: err.Error(), Want: "ranges", Note: fmt.Sprintf("%s tenant=%s size=%d", id, tenant, size)})
							continue
						}
						for k := 0; k < nk; k++ {
							want := contains(want2[i-1], k)
							for _, key := range classes[k] {
								got := tr.IncludesKey(key)
								rs, gerr := sub.Get(key, ring.WriteNoExtend, nil, nil, nil)
								look := false
								if gerr == nil {
									for _, inst := range rs.Instances {
										if inst.Id == id {
											look = true
										}
									}
								}
								if got != want || look != want {
									kind := "ranges"
									if got == want {
										kind = "lookup"
									}
									kc := "mid"
									if key == 0 {
										kc = "0"
									} else if key == ^uint32(0) {
										kc = "max"
									}
									res.Mismatch(abs.Mismatch{Sig: fmt.Sprintf("subring:%s key=%s", kind, kc), Case: c,
										Got:  map[string]any{"includes": got, "lookup_assigns": look, "ranges": tr, "key": key, "instance": id, "members": member, "tenant": tenant, "size": size},
										Want: map[string]any{"owns": want, "class": k, "sub_own": own2}})
								}
							}
						}
					}
				}
			}
			stop()
		}
		if nontrivial {
			res.Nontrivial++
		}
		if res.Cases%9973 == 1 {
			res.Sample(map[string]any{"mode": mode, "case": c})
		}
		return nil
	})
	if err != nil {
		res.Fatal = err.Error()
	}
	res.AddExtra("subrings_checked", subChecked)
	res.AddExtra("subrings_skipped", subSkipped)
	res.Write(t)
}

func caseKey(own, zone []int) string {
	return fmt.Sprint(own, zone)
}
