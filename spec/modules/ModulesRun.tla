----------------------------- MODULE ModulesRun ------------------------------
(***************************************************************************)
(* C18, run-time part - modules/module_service.go.                         *)
(*                                                                         *)
(* Every module m of Svc got a service S[m] from its init function and a   *)
(* wrapper W[m] = NewModuleService(S[m], startDeps = Trans[m],             *)
(* stopDeps = dependants of m), both filtered to the modules that have a   *)
(* service (module_service_wrapper.go getDeps).  W[m] and S[m] are         *)
(* services.BasicService machines                                          *)
(*     New -> Starting -> Running -> Stopping -> Terminated | Failed       *)
(* (plus New -> Terminated, Starting -> Failed | Stopping); S[m] runs a    *)
(* scripted start/run/stop, W[m] runs moduleService.start/run/stop, one    *)
(* action per blocking point / critical section of that code:              *)
(*                                                                         *)
(*   start  WAwaitDep*  AwaitRunning(W[d]) for every d of startDeps, any   *)
(*                      order (Go map); error if W[d] is not Running or    *)
(*                      the start-up is cancelled                          *)
(*          WStartInner S[m].StartAsync                                    *)
(*          WAwaitInner S[m].AwaitRunning; on error / cancellation         *)
(*          WCleanup*   StopAndAwaitTerminated(S[m]), then fail            *)
(*   run    WRunRet     S[m].AwaitTerminated or cancellation               *)
(*   stop   WStopCheck  S[m] Running?  then                                *)
(*          WWaitDependant  AwaitTerminated(W[x]) for every dependant x    *)
(*          WStopInner  S[m].StopAsync                                     *)
(*          WStopAwait  S[m].AwaitTerminated                               *)
(*                                                                         *)
(* The environment starts and stops each wrapper at any time, in any       *)
(* order (EnvStart, EnvStop): stop during start-up, stop of a dependency   *)
(* only, wrappers never started.  Latencies are interleavings.             *)
(***************************************************************************)
EXTENDS ModulesDefs, TLC

CONSTANTS N,               \* modules 1..N
          Graphs,          \* set of dependency graphs explored (MC module)
          Faults,          \* subset of {"start", "run", "exit", "stop"}: what the one faulty service may do
          LateStart,       \* TRUE: wrappers may also be started one by one at any later time
          AwaitStoppingInner  \* TRUE: W.stop also awaits an S[m] that is already Stopping - the property needs
                              \* it (with FALSE, module_service.go before dskit fix fe293af, TLC finds
                              \* StopOrderState / StopAfterDependants violated: finding F8)

Mod == 1..N

VARIABLES deps, tr, svc,   \* fixed by Init: graph, its transitive closure, modules that have a service
          script,          \* script[m] = [start, run, stop]: "ok"/"fail", "block"/"exit"/"fail", "ok"/"fail"
          wst, wpc, todo,  \* wrapper: service state, program counter inside start/run/stop, awaits left
          wcancel, wfail,  \* wrapper: service context cancelled; failure recorded by run
          sst, scancel, sfail,  \* wrapped service: state, context cancelled, failure recorded by run
          startAsked, stopAsked, startedOK, sRan, wRan, wStarted, wFailedStarting  \* history

vars == <<deps, tr, svc, script, wst, wpc, todo, wcancel, wfail, sst, scancel, sfail,
          startAsked, stopAsked, startedOK, sRan, wRan, wStarted, wFailedStarting>>

(* VIEW for the safety configs: flags are masked where the code never reads them again, so that  *)
(* states that differ only there are explored once.                                             *)
view == <<deps, tr, svc, script, wst, wpc, sst, startAsked, stopAsked, startedOK, sRan, wRan, wStarted, wFailedStarting,
          [m \in Mod |-> IF wpc[m] \in {"deps", "stopWait"} THEN todo[m] ELSE {}],
          [m \in Mod |-> wcancel[m] /\ wst[m] \in {"Starting", "Running"}],
          [m \in Mod |-> wfail[m] /\ wst[m] = "Stopping"],
          [m \in Mod |-> scancel[m] /\ sst[m] \in {"Starting", "Running"}],
          [m \in Mod |-> sfail[m] /\ sst[m] = "Stopping"]>>

blocks == [m \in Mod |-> script[m].run = "block"]
TS(m) == TransSvc(tr, svc, m)
DS(m) == DependantsSvc(tr, svc, m)

Scripts(f, kind) ==   \* module f misbehaves in `kind`, everybody else is well behaved
    [m \in Mod |-> [start |-> IF m = f /\ kind = "start" THEN "fail" ELSE "ok",
                    run   |-> IF m = f /\ kind = "run" THEN "fail" ELSE IF m = f /\ kind = "exit" THEN "exit" ELSE "block",
                    stop  |-> IF m = f /\ kind = "stop" THEN "fail" ELSE "ok"]]

Init == /\ deps \in Graphs
        /\ tr = TransFn(deps, Mod)
        /\ svc \in SUBSET Mod
        /\ \E f \in Mod, kind \in Faults \cup {"none"} :
              /\ (kind = "none" => f = 1) /\ (kind # "none" => f \in svc)
              /\ script = Scripts(f, kind)
        \* Wrappers are started together (services.Manager.StartAsync) or never: a wrapper started
        \* later behaves like one started now whose first step is delayed, except that a stop
        \* request finds it New - which is what a never started wrapper covers.
        /\ \E started \in SUBSET svc :
              /\ wst = [m \in Mod |-> IF m \in started THEN "Starting" ELSE "New"]
              /\ wpc = [m \in Mod |-> IF m \in started THEN "deps" ELSE "idle"]
              /\ todo = [m \in Mod |-> IF m \in started THEN TransSvc(tr, svc, m) ELSE {}]
              /\ wStarted = [m \in Mod |-> m \in started]
        /\ wcancel = [m \in Mod |-> FALSE] /\ wfail = [m \in Mod |-> FALSE]
        /\ sst = [m \in Mod |-> "New"] /\ scancel = [m \in Mod |-> FALSE] /\ sfail = [m \in Mod |-> FALSE]
        /\ startAsked = [m \in Mod |-> FALSE] /\ stopAsked = [m \in Mod |-> FALSE]
        /\ startedOK = [m \in Mod |-> FALSE] /\ sRan = [m \in Mod |-> FALSE] /\ wRan = [m \in Mod |-> FALSE]
        /\ wFailedStarting = [m \in Mod |-> FALSE]

Set(f, m, v) == [f EXCEPT ![m] = v]

UNCH_S == UNCHANGED <<sst, scancel, sfail, startedOK, sRan>>
UNCH_FIX == UNCHANGED <<deps, tr, svc, script>>

(* ---- the wrapped service S[m] (scripted BasicService) -------------------------------------- *)
SStartRet(m) ==
    /\ sst[m] = "Starting"
    /\ IF script[m].start = "fail"
       THEN sst' = Set(sst, m, "Failed") /\ UNCHANGED <<startedOK, sRan, sfail>>
       ELSE /\ startedOK' = Set(startedOK, m, TRUE)
            /\ IF scancel[m]
               THEN sst' = Set(sst, m, "Stopping") /\ sfail' = Set(sfail, m, FALSE) /\ UNCHANGED sRan
               ELSE sst' = Set(sst, m, "Running") /\ sRan' = Set(sRan, m, TRUE) /\ UNCHANGED sfail
    /\ UNCHANGED <<scancel, wst, wpc, todo, wcancel, wfail, startAsked, stopAsked, wRan, wStarted, wFailedStarting>>
    /\ UNCH_FIX

SRunRet(m, self) ==     \* self: the run function returns on its own account (script), else because cancelled
    /\ sst[m] = "Running"
    /\ IF self THEN script[m].run # "block" ELSE scancel[m]
    /\ sst' = Set(sst, m, "Stopping")
    /\ sfail' = Set(sfail, m, self /\ script[m].run = "fail")
    /\ UNCHANGED <<scancel, startedOK, sRan, wst, wpc, todo, wcancel, wfail, startAsked, stopAsked, wRan, wStarted, wFailedStarting>>
    /\ UNCH_FIX

SStopRet(m) ==
    /\ sst[m] = "Stopping"
    /\ sst' = Set(sst, m, IF sfail[m] \/ script[m].stop = "fail" THEN "Failed" ELSE "Terminated")
    /\ UNCHANGED <<scancel, sfail, startedOK, sRan, wst, wpc, todo, wcancel, wfail, startAsked, stopAsked, wRan, wStarted, wFailedStarting>>
    /\ UNCH_FIX

(* S[m].StopAsync() as called by the wrapper *)
InnerStopAsync(m) ==
    /\ stopAsked' = Set(stopAsked, m, TRUE)
    /\ CASE sst[m] = "New" -> sst' = Set(sst, m, "Terminated") /\ UNCHANGED scancel
         [] sst[m] \in {"Starting", "Running"} -> scancel' = Set(scancel, m, TRUE) /\ UNCHANGED sst
         [] OTHER -> UNCHANGED <<sst, scancel>>

(* ---- environment --------------------------------------------------------------------------- *)
EnvStart(m) ==
    /\ m \in svc /\ wst[m] = "New"
    /\ wst' = Set(wst, m, "Starting") /\ wpc' = Set(wpc, m, "deps") /\ todo' = Set(todo, m, TS(m))
    /\ wStarted' = Set(wStarted, m, TRUE)
    /\ UNCHANGED <<wcancel, wfail, startAsked, stopAsked, wRan, wFailedStarting>> /\ UNCH_S /\ UNCH_FIX

EnvStop(m) ==      \* W[m].StopAsync(); a second call, or one on a Stopping / terminal wrapper, does nothing
    /\ m \in svc
    /\ \/ wst[m] = "New" /\ wst' = Set(wst, m, "Terminated") /\ UNCHANGED wcancel
       \/ wst[m] \in {"Starting", "Running"} /\ ~wcancel[m] /\ wcancel' = Set(wcancel, m, TRUE) /\ UNCHANGED wst
    /\ UNCHANGED <<wpc, todo, wfail, startAsked, stopAsked, wRan, wStarted, wFailedStarting>> /\ UNCH_S /\ UNCH_FIX

(* ---- moduleService.start ------------------------------------------------------------------- *)
WFailStart(m) ==   \* start returned an error: Starting -> Failed
    /\ wst' = Set(wst, m, "Failed") /\ wpc' = Set(wpc, m, "idle") /\ todo' = Set(todo, m, {})
    /\ wFailedStarting' = Set(wFailedStarting, m, TRUE)

WAwaitDep(m, d) ==
    /\ wst[m] = "Starting" /\ wpc[m] = "deps" /\ d \in todo[m]
    /\ wst[d] \notin {"New", "Starting"}            \* runningWaitersCh of W[d] is closed
    /\ IF wst[d] = "Running"
       THEN todo' = Set(todo, m, todo[m] \ {d}) /\ UNCHANGED <<wst, wpc, wFailedStarting>>
       ELSE WFailStart(m)
    /\ UNCHANGED <<wcancel, wfail, startAsked, stopAsked, wRan, wStarted>> /\ UNCH_S /\ UNCH_FIX

WAwaitDepCancelled(m) ==
    /\ wst[m] = "Starting" /\ wpc[m] = "deps" /\ todo[m] # {} /\ wcancel[m]
    /\ WFailStart(m)
    /\ UNCHANGED <<wcancel, wfail, startAsked, stopAsked, wRan, wStarted>> /\ UNCH_S /\ UNCH_FIX

WStartInner(m) ==
    /\ wst[m] = "Starting" /\ wpc[m] = "deps" /\ todo[m] = {}
    /\ sst[m] = "New"
    /\ startAsked' = Set(startAsked, m, TRUE)
    /\ sst' = Set(sst, m, "Starting")
    /\ wpc' = Set(wpc, m, "awaitInner")
    /\ UNCHANGED <<wst, todo, wcancel, wfail, stopAsked, wRan, wStarted, wFailedStarting,
                   scancel, sfail, startedOK, sRan>> /\ UNCH_FIX

WAwaitInner(m, cancelled) ==
    /\ wst[m] = "Starting" /\ wpc[m] = "awaitInner"
    /\ IF cancelled THEN wcancel[m] ELSE sst[m] \notin {"New", "Starting"}
    /\ IF ~cancelled /\ sst[m] = "Running"
       THEN IF wcancel[m]      \* BasicService.main: start succeeded but the context is cancelled
            THEN wst' = Set(wst, m, "Stopping") /\ wpc' = Set(wpc, m, "stopCheck") /\ UNCHANGED wRan
            ELSE wst' = Set(wst, m, "Running") /\ wpc' = Set(wpc, m, "run") /\ wRan' = Set(wRan, m, TRUE)
       ELSE wpc' = Set(wpc, m, "cleanupStop") /\ UNCHANGED <<wst, wRan>>
    /\ UNCHANGED <<todo, wcancel, wfail, startAsked, stopAsked, wStarted, wFailedStarting>> /\ UNCH_S /\ UNCH_FIX

WCleanupStop(m) ==
    /\ wst[m] = "Starting" /\ wpc[m] = "cleanupStop"
    /\ InnerStopAsync(m)
    /\ wpc' = Set(wpc, m, "cleanupAwait")
    /\ UNCHANGED <<wst, todo, wcancel, wfail, startAsked, wRan, wStarted, wFailedStarting, sfail, startedOK, sRan>> /\ UNCH_FIX

WCleanupAwait(m) ==
    /\ wst[m] = "Starting" /\ wpc[m] = "cleanupAwait"
    /\ sst[m] \in Terminal
    /\ WFailStart(m)
    /\ UNCHANGED <<wcancel, wfail, startAsked, stopAsked, wRan, wStarted>> /\ UNCH_S /\ UNCH_FIX

(* ---- moduleService.run --------------------------------------------------------------------- *)
WRunRet(m) ==
    /\ wst[m] = "Running" /\ wpc[m] = "run"
    /\ wcancel[m] \/ sst[m] \in Terminal
    /\ wfail' = Set(wfail, m, sst[m] = "Failed")      \* S[m].FailureCase()
    /\ wst' = Set(wst, m, "Stopping") /\ wpc' = Set(wpc, m, "stopCheck")
    /\ UNCHANGED <<todo, wcancel, startAsked, stopAsked, wRan, wStarted, wFailedStarting>> /\ UNCH_S /\ UNCH_FIX

(* ---- moduleService.stop -------------------------------------------------------------------- *)
WFinish(m) ==
    /\ wst' = Set(wst, m, IF wfail[m] \/ sst[m] = "Failed" THEN "Failed" ELSE "Terminated")
    /\ wpc' = Set(wpc, m, "idle")

WStopCheck(m) ==
    /\ wst[m] = "Stopping" /\ wpc[m] = "stopCheck"
    /\ CASE sst[m] = "Running" -> wpc' = Set(wpc, m, "stopWait") /\ todo' = Set(todo, m, DS(m)) /\ UNCHANGED wst
         [] sst[m] = "Stopping" /\ AwaitStoppingInner -> wpc' = Set(wpc, m, "stopAwait") /\ UNCHANGED <<wst, todo>>
         [] OTHER -> WFinish(m) /\ UNCHANGED todo
    /\ UNCHANGED <<wcancel, wfail, startAsked, stopAsked, wRan, wStarted, wFailedStarting>> /\ UNCH_S /\ UNCH_FIX

WWaitDependant(m, x) ==
    /\ wst[m] = "Stopping" /\ wpc[m] = "stopWait" /\ x \in todo[m]
    /\ wst[x] \in Terminal
    /\ todo' = Set(todo, m, todo[m] \ {x})
    /\ UNCHANGED <<wst, wpc, wcancel, wfail, startAsked, stopAsked, wRan, wStarted, wFailedStarting>> /\ UNCH_S /\ UNCH_FIX

WStopInner(m) ==
    /\ wst[m] = "Stopping" /\ wpc[m] = "stopWait" /\ todo[m] = {}
    /\ InnerStopAsync(m)
    /\ wpc' = Set(wpc, m, "stopAwait")
    /\ UNCHANGED <<wst, todo, wcancel, wfail, startAsked, wRan, wStarted, wFailedStarting, sfail, startedOK, sRan>> /\ UNCH_FIX

WStopAwait(m) ==
    /\ wst[m] = "Stopping" /\ wpc[m] = "stopAwait"
    /\ sst[m] \in Terminal
    /\ WFinish(m)
    /\ UNCHANGED <<todo, wcancel, wfail, startAsked, stopAsked, wRan, wStarted, wFailedStarting>> /\ UNCH_S /\ UNCH_FIX

SvcStep(m) == SStartRet(m) \/ SRunRet(m, TRUE) \/ SRunRet(m, FALSE) \/ SStopRet(m)
WrapStep(m) == \/ \E d \in Mod : WAwaitDep(m, d)
               \/ WAwaitDepCancelled(m) \/ WStartInner(m) \/ WAwaitInner(m, TRUE) \/ WAwaitInner(m, FALSE)
               \/ WCleanupStop(m) \/ WCleanupAwait(m) \/ WRunRet(m) \/ WStopCheck(m)
               \/ \E x \in Mod : WWaitDependant(m, x)
               \/ WStopInner(m) \/ WStopAwait(m)

(* Nothing is left to do only when everything has stopped (TLC reports any other state without a *)
(* successor as a deadlock: EnvStop stays enabled until every wrapper was asked to stop).         *)
Done == /\ AllStopped(svc, wst, sst)
        /\ FailurePropagatesDone(tr, svc, wst, sRan, wStarted)
        /\ UNCHANGED vars

Next == Done \/ \E m \in Mod : (LateStart /\ EnvStart(m)) \/ EnvStop(m) \/ SvcStep(m) \/ WrapStep(m)

(* Everything the code does eventually happens; every wrapper is eventually asked to stop. *)
Fairness == \A m \in Mod : WF_vars(SvcStep(m)) /\ WF_vars(WrapStep(m)) /\ WF_vars(EnvStop(m))
Spec == Init /\ [][Next]_vars /\ Fairness

(* ---- what TLC decides ---------------------------------------------------------------------- *)
TypeOK == /\ wst \in [Mod -> SvcStates] /\ sst \in [Mod -> SvcStates]
          /\ \A m \in Mod \ svc : wst[m] = "New" /\ sst[m] = "New"
          /\ \A m \in Mod : todo[m] \subseteq svc

(* a module's service starts only after all its dependencies are running *)
StartAfterDepsStep ==
    \A m \in Mod : (startAsked'[m] /\ ~startAsked[m]) =>
        /\ StartCond(tr, svc, m, wst, sst, startedOK, stopAsked, blocks)
        /\ \A d \in TS(m) : wRan[d]
StartAfterDeps == [][StartAfterDepsStep]_vars

(* ... and is stopped only after every module depending on it has stopped *)
StopAfterDependantsStep ==
    \A m \in Mod : (stopAsked'[m] /\ ~stopAsked[m]) =>
        /\ StopCondW(tr, svc, m, wst, startAsked)
        /\ StopCondS(tr, svc, m, sst)
StopAfterDependants == [][StopAfterDependantsStep]_vars
StopAfterDependantsW == [][\A m \in Mod : (stopAsked'[m] /\ ~stopAsked[m]) => StopCondW(tr, svc, m, wst, startAsked)]_vars
StopOrderState == ActiveKeepsDeps(tr, svc, sst, stopAsked)

(* if a dependency fails to start its dependants are not started and fail as well *)
FailurePropagates ==
    /\ \A d \in svc : wFailedStarting[d] =>
          \A x \in DS(d) : /\ ~startAsked[x] /\ ~wRan[x]
                           /\ wst[x] = "Terminated" => ~wStarted[x]
    /\ FailurePropagatesSafe(tr, svc, wst, sRan, startAsked, wStarted)
FailurePropagatesLive ==
    \A d, x \in Mod : (wFailedStarting[d] /\ x \in DS(d) /\ wStarted[x]) ~> (wst[x] = "Failed")

FailureIsReported == FailureReported(svc, wst, sst)

(* once every wrapper has been asked to stop, everything stops - whenever that happens *)
Termination == <>[](AllStopped(svc, wst, sst))
(* (safety form, checked as absence of deadlock: the only states without a step other than Done *)
(* are those where everything stopped and every started dependant of a failed start has failed) *)
=============================================================================
