--------------------------- MODULE PartitionClientMC ---------------------------
(* Model-checking instances of PartitionClient: the shard function is the abstract walk. *)
EXTENDS PartitionClient

MCPCompute(d, id, size, L, W) == AbstractPShard(d, id, size, L, W)

\* the watcher starts on an empty store or on ANY combination of partition states and state times
MCPInitDescs == {NoPDesc} \cup
    {[parts |-> [p \in Part |-> [state |-> f[p][1], sts |-> f[p][2], tok |-> 0]], owners |-> <<>>] :
        f \in [Part -> PStates \X PStamps]}
MCPNarrowInitDescs == {NoPDesc, [parts |-> [p \in Part |-> [state |-> "ACTIVE", sts |-> 2, tok |-> 0]], owners |-> <<>>]}
=============================================================================
