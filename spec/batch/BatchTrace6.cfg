CONSTANTS
  MinKeys = 0
  MaxKeys = 0
  NI = 6
  MaxRF = 6
  Shape = "any"
  Grain = "atomic"
  Gate = FALSE
  EmptyFix = TRUE
  AllowCancel = TRUE
  EarlyExits = TRUE
  MaxConc = 9
  Spawn = "go"
  Record = FALSE
SPECIFICATION TSpec
INVARIANTS TypeOK SingleSend ReturnsOnce SuccessMeansQuorum ErrorMeansNoQuorum ErrorIsReal ChannelErrorIsReal
           EarlyError LastAnswerError DecidedIsDelivered SuccessDelivered NoHang CalledExactly CleanupOnceAfterAll Report
CHECK_DEADLOCK FALSE
