package abs

// code -> spec recorder for the instance ring (used by the C03 and C05 drivers): random descriptors,
// random merge sequences on a few replicas (fresh updates from peers, re-delivered and relayed changes,
// full-state pushes, local CAS writes), every Desc.Merge call logged with the receiver before and
// after, the argument and the returned change. spec/ringmerge/RingMergeTrace.tla recomputes every call.

import (
	"fmt"
	"math/rand"
	"time"

	"github.com/grafana/dskit/kv/memberlist"
	"github.com/grafana/dskit/ring"
)

// SafeMerge calls the exported Merge and turns a panic into a string.
func SafeMerge(recv memberlist.Mergeable, other memberlist.Mergeable, cas bool) (ch memberlist.Mergeable, err error, panicked string) {
	defer func() {
		if r := recover(); r != nil {
			panicked = fmt.Sprint(r)
		}
	}()
	ch, err = recv.Merge(other, cas)
	return
}

// ViaRingCodec moves a descriptor through the ring codec, as a gossiped message does.
func ViaRingCodec(d *ring.Desc) *ring.Desc {
	b, err := ring.GetCodec().Encode(d)
	if err != nil {
		panic(err)
	}
	v, err := ring.GetCodec().Decode(b)
	if err != nil {
		panic(err)
	}
	out := v.(*ring.Desc)
	if out.Ingesters == nil {
		out.Ingesters = map[string]ring.InstanceDesc{}
	}
	return out
}

// ProjectDescRaw projects a descriptor that need not be normalised (token lists taken as sets).
func ProjectDescRaw(d *ring.Desc, n int, emb Embedding) MDesc {
	c := &ring.Desc{Ingesters: map[string]ring.InstanceDesc{}}
	for id, ing := range d.Ingesters {
		seen := map[uint32]bool{}
		var toks []uint32
		for _, t := range ing.Tokens {
			if !seen[t] {
				seen[t] = true
				toks = append(toks, t)
			}
		}
		for i := 1; i < len(toks); i++ { // insertion sort, tiny lists
			for j := i; j > 0 && toks[j-1] > toks[j]; j-- {
				toks[j-1], toks[j] = toks[j], toks[j-1]
			}
		}
		ing.Tokens = toks
		c.Ingesters[id] = ing
	}
	out, _ := ProjectDesc(c, n, emb)
	return out
}

func EmptyMDesc(n int) MDesc {
	d := make(MDesc, n)
	for k := range d {
		d[k] = MEntry{State: "ABSENT", Toks: []int{}}
	}
	return d
}

// RingEvent is one logged Merge call.
type RingEvent struct {
	R      int   `json:"r"`
	Mine   MDesc `json:"mine"`
	Other  MDesc `json:"other"`
	Cas    bool  `json:"cas"`
	Now    int   `json:"now"`
	Result MDesc `json:"result"`
	Nil    bool  `json:"nil"`
	Change MDesc `json:"change"`
}

// RingRecorder configures RecordRingMerges.
type RingRecorder struct {
	N, M      int   // instance ids, token positions
	Replicas  int   // replicas
	Steps     int   // scheduler steps
	MaxNow    int   // the clock runs 1..MaxNow
	SharedPct int   // chance (percent) that a token is drawn from the whole pool instead of the instance's own block
	Seed      int64 //
	Path      string
	SigPrefix string                                                 // "ring:trace"
	Corrupt   int                                                    // self-test: corrupt one field of the n-th logged event
	AfterStep func(replica int, d *ring.Desc, ev int, emb Embedding) // called with the receiver after every logged call
}

var recStates = []string{"ACTIVE", "LEAVING", "PENDING", "JOINING", "LEFT", "ACTIVE", "ACTIVE", "LEAVING"}

// RecordRingMerges must run inside a testing/synctest bubble (Merge reads time.Now()).
// It returns the embedding used and the number of logged events.
func RecordRingMerges(c RingRecorder, res *Result) (Embedding, int) {
	n, m := c.N, c.M
	rnd := rand.New(rand.NewSource(c.Seed))
	emb := RandomEmbedding(m, rnd)
	if c.Seed%2 == 0 {
		emb = BoundaryEmbedding(m)
	}
	w, err := NewNDJSONWriter(c.Path)
	if err != nil {
		res.Fatal = err.Error()
		return emb, 0
	}
	defer w.Close()

	replicas := make([]*ring.Desc, c.Replicas)
	for i := range replicas {
		replicas[i] = ring.NewDesc()
	}
	var msgs []*ring.Desc
	now := 1
	SleepUntil(now)
	per := m / n
	if per < 1 {
		per = 1
	}
	randEntry := func(k int, ts int) MEntry {
		e := MEntry{Ts: ts, State: recStates[rnd.Intn(len(recStates))], Toks: []int{}}
		for c2 := rnd.Intn(3); c2 > 0; c2-- {
			p := (k*per + rnd.Intn(per)) % m // the instance's own block
			if rnd.Intn(100) < c.SharedPct {
				p = rnd.Intn(m) // somebody else's: a collision in the making
			}
			dup := false
			for _, q := range e.Toks {
				dup = dup || q == p
			}
			if !dup {
				e.Toks = append(e.Toks, p)
			}
		}
		return e
	}
	recentTs := func() int {
		ts := now
		if rnd.Intn(3) == 0 {
			ts = now - 1 - rnd.Intn(2)
		}
		if ts < 0 || rnd.Intn(50) == 0 {
			ts = 0
		}
		return ts
	}
	deliver := func(r int, other *ring.Desc, cas bool) {
		ev := RingEvent{R: r + 1, Cas: cas, Now: UnixToTs(time.Now().Unix())}
		var problems []string
		ev.Mine, problems = ProjectDesc(replicas[r], n, emb)
		ev.Other = ProjectDescRaw(other, n, emb)
		ch, err, pan := SafeMerge(replicas[r], other, cas)
		if pan != "" || err != nil {
			res.Mismatch(Mismatch{Sig: c.SigPrefix + " panic-or-error", Case: ev, Got: fmt.Sprint(pan, err), Want: "no panic, no error"})
			return
		}
		var p2, p3 []string
		ev.Result, p2 = ProjectDesc(replicas[r], n, emb)
		ev.Nil = IsNilMergeable(ch)
		ev.Change = EmptyMDesc(n)
		if !ev.Nil {
			chd := ch.(*ring.Desc)
			ev.Change, p3 = ProjectDesc(chd, n, emb)
			msgs = append(msgs, ViaRingCodec(chd))
		}
		if problems = append(append(problems, p2...), p3...); len(problems) > 0 {
			res.Mismatch(Mismatch{Sig: c.SigPrefix + " receiver-or-change-not-normalised", Case: ev, Got: problems, Want: "sorted duplicate-free token lists"})
		}
		if c.Corrupt > 0 && w.N+1 == c.Corrupt {
			ev.Result[0].Ts++ // self-test: one corrupted logged field must make the validator reject
		}
		if err := w.Write(ev); err != nil {
			res.Fatal = err.Error()
		}
		if c.AfterStep != nil {
			c.AfterStep(r, replicas[r], w.N, emb)
		}
	}
	for s := 0; s < c.Steps && res.Fatal == ""; s++ {
		switch x := rnd.Intn(100); {
		case x < 20:
			if now < c.MaxNow {
				now++
				SleepUntil(now)
			}
		case x < 60: // a fresh update from some peer
			u := EmptyMDesc(n)
			for c2 := 1 + rnd.Intn(3); c2 > 0; c2-- {
				k := rnd.Intn(n)
				u[k] = randEntry(k, recentTs())
			}
			deliver(rnd.Intn(c.Replicas), BuildDesc(u, RingBuild{Emb: emb, Rnd: rnd, Tag: "u"}), false)
		case x < 70: // an earlier change is delivered (again, late, to anybody)
			if len(msgs) > 0 {
				deliver(rnd.Intn(c.Replicas), ViaRingCodec(msgs[rnd.Intn(len(msgs))]), false)
			}
		case x < 77: // full state push
			a, b := rnd.Intn(c.Replicas), rnd.Intn(c.Replicas)
			if a != b {
				deliver(b, ViaRingCodec(replicas[a]), false)
			}
		default: // local CAS: the visible content with a few entries rewritten / removed
			r := rnd.Intn(c.Replicas)
			out := ViaRingCodec(replicas[r])
			out.RemoveTombstones(time.Time{})
			for c2 := 1 + rnd.Intn(2); c2 > 0; c2-- {
				k := rnd.Intn(n)
				id := MergeID(k+1, n)
				if _, ok := out.Ingesters[id]; ok && rnd.Intn(2) == 0 {
					out.RemoveIngester(id)
					continue
				}
				one := EmptyMDesc(n)
				one[k] = randEntry(k, now)
				out.Ingesters[id] = BuildDesc(one, RingBuild{Emb: emb, Rnd: rnd, Tag: "cas"}).Ingesters[id]
			}
			deliver(r, out, true)
		}
	}
	return emb, w.N
}
