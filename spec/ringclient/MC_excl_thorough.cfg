\* ExcludedZones, 3 instances, 3 updates deep, two query times, zone-aware
CONSTANTS
  Inst = {1, 2, 3}
  Ident = {1}
  Sizes = {1}
  Lookbacks = {1}
  Times = {3, 4}
  Readers = {}
  MaxUpd = 3
  ZoneAware = TRUE
  Addrs = {1}
  Zones = {1, 2}
  Toks = {0, 1}
  Stamps = {0, 2}
  States = {"ACTIVE"}
  Beats = {1, 2}
  Excluded = {2}
  WrongFastPath = FALSE
  Compute <- MCCompute
INIT XInit
NEXT XNext
INVARIANTS TypeOK UnobservableFast PendingSound ClientHoldsFiltered NoExcludedVisible
PROPERTY HiddenKeepsCaches
