package c14

import (
	"context"
	"encoding/json"
	"fmt"
	"os"
	"runtime"
	"sync"
	"sync/atomic"
	"testing"
	"time"

	"github.com/go-kit/log"

	"verifharness/internal/abs"

	"github.com/grafana/dskit/kv"
	"github.com/grafana/dskit/ring"
	"github.com/grafana/dskit/services"
)

// pushKV is a kv.Client whose WatchKey hands the callback to the test, so that the test pushes ring
// updates through Ring.updateRingState exactly as a store's watch would.
type pushKV struct {
	abs.StubKV
	mu sync.Mutex
	cb func(any) bool
}

var _ kv.Client = (*pushKV)(nil)

func (p *pushKV) WatchKey(ctx context.Context, _ string, f func(any) bool) {
	p.mu.Lock()
	p.cb = f
	p.mu.Unlock()
	<-ctx.Done()
}

func (p *pushKV) push(v any) bool {
	p.mu.Lock()
	f := p.cb
	p.mu.Unlock()
	if f == nil {
		return false
	}
	f(v)
	return true
}

func buildDesc(c tcase, classes [][]uint32, now time.Time) (*ring.Desc, int) {
	n := len(c.Zone)
	toks := make([][]uint32, n+1)
	for k, o := range c.Own {
		if o > 0 {
			toks[o] = append(toks[o], classes[k][0])
		}
	}
	desc := ring.NewDesc()
	zones := map[int]bool{}
	for i := 1; i <= n; i++ {
		id := abs.InstID(i)
		desc.AddIngester(id, "addr-"+id, abs.ZoneName(c.Zone[i-1]), toks[i], ring.ACTIVE, now, false, time.Time{}, nil)
		if len(toks[i]) > 0 {
			zones[c.Zone[i-1]] = true
		}
	}
	return desc, len(zones)
}

// TestConcurrent: while a writer flips the ring between two enumerated rings A and B through the
// watch path, concurrent readers ask for token ranges; every answer must be the specification's
// ownership of A or of B for that instance - never a mixture and never an error (the range
// computation is atomic with respect to ring updates).
func TestConcurrent(t *testing.T) {
	in := os.Getenv("VERIF_IN")
	nk := abs.EnvInt("VERIF_NK", 0)
	var gaps []int
	_ = json.Unmarshal([]byte(os.Getenv("VERIF_GAPS")), &gaps)
	if in == "" || nk == 0 {
		t.Skip("VERIF_IN / VERIF_NK not set")
	}
	maxPairs := abs.EnvInt("VERIF_PAIRS", 40)
	flips := abs.EnvInt("VERIF_FLIPS", 300)
	classes := abs.KeyClasses(nk, gaps)
	res := &abs.Result{}
	now := time.Now()
	var cases []tcase
	_ = abs.ReadNDJSON(in, func(line []byte) error {
		var c tcase
		if err := json.Unmarshal(line, &c); err != nil {
			return err
		}
		cases = append(cases, c)
		return nil
	})
	// pairs (A, B): same zone vector, same number of zones with tokens, different ownership,
	// every owner has tokens in both (so quiescent answers are error-free); spread over the file by seed.
	step := len(cases)/(maxPairs*3+1) + 1
	off := int(abs.Seed()) % step
	pairs := 0
	for ai := off; ai+1 < len(cases) && pairs < maxPairs; ai += step {
		a := cases[ai]
		var b tcase
		found := false
		for bi := ai + 1; bi < len(cases) && bi < ai+400; bi++ {
			if fmt.Sprint(cases[bi].Zone) == fmt.Sprint(a.Zone) && fmt.Sprint(cases[bi].Own) != fmt.Sprint(a.Own) {
				b = cases[bi]
				found = true
				break
			}
		}
		if !found {
			continue
		}
		descA, rfA := buildDesc(a, classes, now)
		descB, rfB := buildDesc(b, classes, now)
		n := len(a.Zone)
		ok := rfA == rfB
		for i := 0; i < n && ok; i++ {
			if len(a.Owned[i]) == 0 || len(b.Owned[i]) == 0 {
				ok = false
			}
		}
		if !ok {
			continue
		}
		store := &pushKV{}
		store.Value = descA
		r, err := ring.NewWithStoreClientAndStrategy(ring.Config{ReplicationFactor: rfA, ZoneAwarenessEnabled: true, HeartbeatTimeout: time.Hour, SubringCacheDisabled: true},
			"verif", "ring", store, ring.NewDefaultReplicationStrategy(), nil, log.NewNopLogger())
		if err != nil {
			t.Fatalf("ring: %v", err)
		}
		if err := services.StartAndAwaitRunning(context.Background(), r); err != nil {
			t.Fatalf("start: %v", err)
		}
		for !store.push(cloneDesc(descA)) {
			runtime.Gosched()
		}
		pairs++
		res.Cases++
		res.Nontrivial++
		vec := func(tr ring.TokenRanges) string {
			s := make([]byte, nk)
			for k := 0; k < nk; k++ {
				s[k] = '0'
				if tr.IncludesKey(classes[k][0]) {
					s[k] = '1'
				}
			}
			return string(s)
		}
		want := func(c tcase, i int) string {
			s := make([]byte, nk)
			for k := 0; k < nk; k++ {
				s[k] = '0'
				if contains(c.Owned[i], k) {
					s[k] = '1'
				}
			}
			return string(s)
		}
		var stop atomic.Bool
		var wg sync.WaitGroup
		var mu sync.Mutex
		for g := 0; g < 4; g++ {
			wg.Add(1)
			go func() {
				defer wg.Done()
				for !stop.Load() {
					for i := 1; i <= n; i++ {
						tr, err := r.GetTokenRangesForInstance(abs.InstID(i))
						got := "error"
						if err == nil {
							got = vec(tr)
						} else {
							got = "error: " + err.Error()
						}
						wa, wb := want(a, i-1), want(b, i-1)
						if got != wa && got != wb {
							mu.Lock()
							res.Mismatch(abs.Mismatch{Sig: "concurrent:ranges-of-neither-ring", Case: map[string]any{"a": a, "b": b},
								Got: map[string]any{"instance": abs.InstID(i), "answer": got, "ranges": tr}, Want: map[string]any{"ring_a": wa, "ring_b": wb}})
							mu.Unlock()
							stop.Store(true)
							return
						}
					}
				}
			}()
		}
		for f := 0; f < flips && !stop.Load(); f++ {
			if f%2 == 0 {
				store.push(cloneDesc(descB))
			} else {
				store.push(cloneDesc(descA))
			}
			runtime.Gosched()
		}
		stop.Store(true)
		wg.Wait()
		_ = services.StopAndAwaitTerminated(context.Background(), r)
		if pairs <= 2 {
			res.Sample(map[string]any{"concurrent_pair": []tcase{a, b}})
		}
	}
	res.AddExtra("concurrent_pairs", pairs)
	res.Write(t)
}

func cloneDesc(d *ring.Desc) *ring.Desc {
	b, err := d.Marshal()
	if err != nil {
		panic(err)
	}
	out := ring.NewDesc()
	if err := out.Unmarshal(b); err != nil {
		panic(err)
	}
	return out
}
