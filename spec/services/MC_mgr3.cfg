CONSTANTS
  NS = 3
  NML = 2
  WH = {1}
  WS = {2}
  ParentCancels = TRUE
  DirectStops = TRUE
INIT MInit
NEXT MNext
INVARIANTS MTypeOK ViewIsLastDelivered QuiescentViewExact HealthyExact StoppedExact HealthyLatchExact MNoDoubleClose FailureReportedOnce MListenerOrder MNotifierNeverBlocks MWaitersExact StartResultExact
CHECK_DEADLOCK FALSE
