--------------------------- MODULE PartitionMerge ---------------------------
(***************************************************************************)
(* C03 - the merge of partition-ring descriptors                           *)
(* (ring.PartitionRingDesc.Merge, ring/partition_ring_model.go).           *)
(*                                                                         *)
(* A descriptor is [parts : Part -> partition entry, owners : Own -> owner *)
(* entry].  A partition entry holds two independent last-writer-wins       *)
(* registers: (state, sts) - Deleted wins a timestamp tie - and the state  *)
(* change lock (locked, lts) - strictly newer wins, no tie rule.  The      *)
(* partition's id and tokens are immutable: a partition the receiver does  *)
(* not know is copied whole, afterwards only the registers are merged.     *)
(* An owner entry is one register (state, part, ts), Deleted wins ties.    *)
(* A missing owner is how the code sees a missing map key: ts 0, state not *)
(* Deleted.  With localCAS every partition / owner the argument does not   *)
(* mention and that is not Deleted already becomes Deleted, stamped `now`  *)
(* (the rest of the entry - lock register, owned partition - is kept).     *)
(***************************************************************************)
EXTENDS Integers, FiniteSets, Sequences, TLC

CONSTANTS NP,      \* partitions 1..NP
          NO,      \* owners 1..NO
          NOwned   \* an owner owns one of the partitions 1..NOwned (need not exist in the descriptor)

Part == 1..NP
Own  == 1..NO

PLive == {"Pending", "Active", "Inactive"}
AbsentP == [state |-> "ABSENT", sts |-> 0, locked |-> FALSE, lts |-> 0]
AbsentO == [state |-> "ABSENT", ts |-> 0, part |-> 0]
PresentE(e) == e.state # "ABSENT"
IsDel(e) == e.state = "Deleted"
Empty == [parts |-> [p \in Part |-> AbsentP], owners |-> [o \in Own |-> AbsentO]]

\* lts = 0 means "never locked": (locked = TRUE, lts = 0) only arrives in raw arguments
PartEntries(T, S, LT, raw) ==
    {AbsentP} \cup {e \in [state : S \cup {"Deleted"}, sts : T, locked : BOOLEAN, lts : LT] : raw \/ ~(e.locked /\ e.lts = 0)}
OwnEntries(T) ==
    {AbsentO} \cup {[state |-> s, ts |-> t, part |-> q] : s \in {"Active", "Deleted"}, t \in T, q \in 1..NOwned}
DescsOf(T, S, LT, raw) ==
    {[parts |-> ps, owners |-> os] : ps \in [Part -> PartEntries(T, S, LT, raw)], os \in [Own -> OwnEntries(T)]}

---------------------------------------------------------------------------
StateSupersedes(o, m) == \/ o.sts > m.sts
                         \/ o.sts = m.sts /\ IsDel(o) /\ ~IsDel(m)
LockSupersedes(o, m)  == o.lts > m.lts

MergePart(m, o) ==     \* both present
    LET s == IF StateSupersedes(o, m) THEN [m EXCEPT !.state = o.state, !.sts = o.sts] ELSE m
    IN  IF LockSupersedes(o, m) THEN [s EXCEPT !.locked = o.locked, !.lts = o.lts] ELSE s

OwnerSupersedes(o, m) ==
    /\ PresentE(o)
    /\ \/ o.ts > m.ts
       \/ o.ts = m.ts /\ IsDel(o) /\ ~IsDel(m)

NoChange == [nil |-> TRUE, d |-> Empty]

(* PartitionRingDesc.Merge(other, localCAS) with time.Now() = now.          *)
(*   created : partitions copied whole from the argument (their tokens are  *)
(*             the argument's; all others keep the receiver's tokens)       *)
Merge(mine, other, localCAS, now) ==
    LET created == {p \in Part : PresentE(other.parts[p]) /\ ~PresentE(mine.parts[p])}
        pchg    == {p \in Part : /\ PresentE(other.parts[p]) /\ PresentE(mine.parts[p])
                                 /\ \/ StateSupersedes(other.parts[p], mine.parts[p])
                                    \/ LockSupersedes(other.parts[p], mine.parts[p])}
        ptomb   == IF localCAS
                   THEN {p \in Part : PresentE(mine.parts[p]) /\ ~PresentE(other.parts[p]) /\ ~IsDel(mine.parts[p])}
                   ELSE {}
        otaken  == {o \in Own : OwnerSupersedes(other.owners[o], mine.owners[o])}
        otomb   == IF localCAS
                   THEN {o \in Own : PresentE(mine.owners[o]) /\ ~PresentE(other.owners[o]) /\ ~IsDel(mine.owners[o])}
                   ELSE {}
        ps == [p \in Part |-> IF p \in created THEN other.parts[p]
                              ELSE IF p \in pchg THEN MergePart(mine.parts[p], other.parts[p])
                              ELSE IF p \in ptomb THEN [mine.parts[p] EXCEPT !.state = "Deleted", !.sts = now]
                              ELSE mine.parts[p]]
        os == [o \in Own |-> IF o \in otaken THEN other.owners[o]
                             ELSE IF o \in otomb THEN [mine.owners[o] EXCEPT !.state = "Deleted", !.ts = now]
                             ELSE mine.owners[o]]
        pupd == created \cup pchg \cup ptomb
        oupd == otaken \cup otomb
    IN  IF pupd = {} /\ oupd = {}
        THEN [result |-> mine, change |-> NoChange, created |-> {}, pupd |-> {}, oupd |-> {}]
        ELSE [result |-> [parts |-> ps, owners |-> os],
              change |-> [nil |-> FALSE,
                          d |-> [parts  |-> [p \in Part |-> IF p \in pupd THEN ps[p] ELSE AbsentP],
                                 owners |-> [o \in Own |-> IF o \in oupd THEN os[o] ELSE AbsentO]]],
              created |-> created, pupd |-> pupd, oupd |-> oupd]

R(a, b) == Merge(a, b, FALSE, 0).result
C(a, b) == Merge(a, b, FALSE, 0).change
Apply(a, ch) == IF ch.nil THEN a ELSE R(a, ch.d)

(* What clients see: Deleted partitions and owners stripped.                *)
Logical(d) == [parts  |-> [p \in Part |-> IF IsDel(d.parts[p]) THEN AbsentP ELSE d.parts[p]],
               owners |-> [o \in Own |-> IF IsDel(d.owners[o]) THEN AbsentO ELSE d.owners[o]]]

(* Named deviation TombstonePayload: an owner tombstone keeps the partition *)
(* it last owned, and two removals of the same second are never compared,   *)
(* so replicas may hold Deleted@t entries that differ in that dead field    *)
(* forever.  No reader ever sees it (tombstones are stripped, and a later   *)
(* write replaces the whole entry), so the laws compare descriptors modulo  *)
(* the payload of owner tombstones.                                         *)
Canon(d) == [d EXCEPT !.owners = [o \in Own |-> IF IsDel(d.owners[o]) THEN [d.owners[o] EXCEPT !.part = 0] ELSE d.owners[o]]]
Eq(x, y) == Canon(x) = Canon(y)
Contains(r, a) == Eq(R(r, a), r)

---------------------------------------------------------------------------
(* Provisos: each register value is determined by (entry, timestamp) unless *)
(* one of the two is a removal; timestamps of entries are > 0 (lts = 0 is   *)
(* the never-locked default and then locked = FALSE).                       *)
OneContent(x, y) ==
    /\ \A p \in Part : PresentE(x.parts[p]) /\ PresentE(y.parts[p]) =>
          /\ x.parts[p].sts = y.parts[p].sts => x.parts[p].state = y.parts[p].state \/ IsDel(x.parts[p]) \/ IsDel(y.parts[p])
          /\ x.parts[p].lts = y.parts[p].lts => x.parts[p].locked = y.parts[p].locked
    /\ \A o \in Own : PresentE(x.owners[o]) /\ PresentE(y.owners[o]) /\ x.owners[o].ts = y.owners[o].ts =>
          \/ x.owners[o] = y.owners[o]
          \/ IsDel(x.owners[o]) \/ IsDel(y.owners[o])
WellStamped(x) ==
    /\ \A p \in Part : PresentE(x.parts[p]) => x.parts[p].sts > 0 /\ (x.parts[p].lts = 0 => ~x.parts[p].locked)
    /\ \A o \in Own : PresentE(x.owners[o]) => x.owners[o].ts > 0
Provisos(S) == /\ \A x, y \in S : OneContent(x, y)
               /\ \A x \in S : WellStamped(x)

Max(x, y) == IF x >= y THEN x ELSE y

Idem(a, b) == /\ R(R(a, b), b) = R(a, b)
              /\ C(R(a, b), b).nil
CommB(a, b) == Eq(R(a, b), R(b, a))
Comm(a, b)  == Provisos({a, b}) => CommB(a, b)
NilIsNoop(a, b) == C(a, b).nil => R(a, b) = a /\ Logical(R(a, b)) = Logical(a)
NilConverseB(a, b) == R(a, b) = a => C(a, b).nil
NilConverse(a, b)  == Provisos({a, b}) => NilConverseB(a, b)
NewestWins(a, b) ==
    LET r == R(a, b) IN
    /\ \A p \in Part :
          LET x == a.parts[p] y == b.parts[p] z == r.parts[p] IN
          /\ PresentE(x) /\ PresentE(y) =>
                /\ z.sts = Max(x.sts, y.sts) /\ z.lts = Max(x.lts, y.lts)
                /\ y.sts > x.sts => z.state = y.state
                /\ x.sts > y.sts => z.state = x.state
                /\ y.lts > x.lts => z.locked = y.locked
                /\ x.lts >= y.lts => z.locked = x.locked
          /\ ~PresentE(x) => z = y
          /\ ~PresentE(y) => z = x
    /\ \A o \in Own :
          LET x == a.owners[o] y == b.owners[o] z == r.owners[o] IN
          /\ z.ts = Max(x.ts, y.ts)
          /\ PresentE(y) /\ y.ts > x.ts => z = y
          /\ x.ts > y.ts => z = x
RemovalWinsTies(a, b) ==
    LET r == R(a, b) IN
    /\ \A p \in Part : LET x == a.parts[p] y == b.parts[p] IN
          PresentE(x) /\ PresentE(y) /\ x.sts = y.sts /\ (IsDel(x) \/ IsDel(y)) => IsDel(r.parts[p])
    /\ \A o \in Own : LET x == a.owners[o] y == b.owners[o] IN
          PresentE(x) /\ PresentE(y) /\ x.ts = y.ts /\ (IsDel(x) \/ IsDel(y)) => IsDel(r.owners[o])
DeltaSelfB(a, b) == Eq(Apply(a, C(a, b)), R(a, b))
DeltaSelf(a, b)  == Provisos({a, b}) => DeltaSelfB(a, b)
DeltaOtherB(a, b, r) == Contains(r, a) => Eq(Apply(r, C(a, b)), R(r, b))
DeltaOther(a, b, r)  == Provisos({a, b, r}) => DeltaOtherB(a, b, r)
ChangeShape(mine, other, cas, now) ==
    LET m == Merge(mine, other, cas, now) IN
    /\ m.change.nil <=> m.pupd = {} /\ m.oupd = {}
    /\ ~m.change.nil => /\ \A p \in Part : m.change.d.parts[p] = IF p \in m.pupd THEN m.result.parts[p] ELSE AbsentP
                        /\ \A o \in Own : m.change.d.owners[o] = IF o \in m.oupd THEN m.result.owners[o] ELSE AbsentO
    /\ \A p \in Part \ m.pupd : m.result.parts[p] = mine.parts[p]
    /\ \A o \in Own \ m.oupd : m.result.owners[o] = mine.owners[o]
    /\ cas => /\ \A p \in Part : PresentE(mine.parts[p]) /\ ~PresentE(other.parts[p]) =>
                      IsDel(m.result.parts[p]) /\ (~IsDel(mine.parts[p]) => m.result.parts[p].sts = now)
              /\ \A o \in Own : PresentE(mine.owners[o]) /\ ~PresentE(other.owners[o]) =>
                      IsDel(m.result.owners[o]) /\ (~IsDel(mine.owners[o]) => m.result.owners[o].ts = now)

AssocB(a, b, c) == Eq(R(a, R(b, c)), R(R(a, b), c))
Assoc(a, b, c)  == Provisos({a, b, c}) => AssocB(a, b, c)

RECURSIVE Fold(_, _)
Fold(s, seq) == IF seq = <<>> THEN s ELSE Fold(R(s, Head(seq)), Tail(seq))
Perm3 == {p \in [1..3 -> 1..3] : \A i, j \in 1..3 : i # j => p[i] # p[j]}
Target(a, b, c) == Fold(Empty, <<a, b, c>>)
Schedules(x, y, z) ==
    << <<x, y, z>>,
       <<x, y, x, z, y, z, x>>,
       <<R(x, y), z>>,
       <<x, R(y, z)>>,
       <<R(x, R(y, z))>>,
       <<R(R(x, y), z), y>> >>
Relayed(x, y, z) == Apply(Apply(R(Empty, x), C(x, y)), C(R(x, y), z))
ConvergenceB(a, b, c) ==
      LET u == <<a, b, c>> t == Target(a, b, c) IN
      \A p \in Perm3 :
         LET x == u[p[1]] y == u[p[2]] z == u[p[3]] s == Schedules(x, y, z) IN
         /\ \A k \in DOMAIN s : Eq(Fold(Empty, s[k]), t)
         /\ Eq(Relayed(x, y, z), t)
Convergence(a, b, c) == Provisos({a, b, c}) => ConvergenceB(a, b, c)
=============================================================================
