package c08

import (
	"os"
	"strings"
	"testing"

	"verifharness/internal/abs"
)

// CAS retries (C08): kv.Client.CAS may evaluate its callback more than once - an attempt whose read was
// overtaken by another writer is lost and the callback runs again on the newer ring.  For every scenario, a
// dry run counts the CAS calls of the target (identity 1); then EVERY call k is run once per interloper with
// its first attempt lost: the callback is evaluated on the current content, the result is thrown away, the
// interloper (another writer) changes the ring, the call is retried.  The specification says the retry is the
// action (it reads the ring it writes on) and the lost attempt leaves no trace (Stall / Unstall in
// Lifecycler.tla).  All token generators propose the LOWEST free tokens, like a deterministic generator: two
// instances choosing from the same ring version propose the same tokens, so only the "taken tokens" of the
// ring version actually read keeps them apart.

// interlopers: what the overtaking writer does between the lost attempt and the retry.
var interlopers = map[string]func(w *world){
	// a third lifecycler registers and joins at once (takes the lowest free tokens)
	"join3": func(w *world) {
		c := lcCfg{Kind: "classic", Join: 0, Obs: 0, Hb: 1, Unreg: false, File: false, Regst: "ACTIVE", Keep: true}
		if w.idle(3) {
			_ = w.start(3, c, 33, 0, "")
		}
	},
	// a basic lifecycler registers (tokens generated inside its registration)
	"basic3": func(w *world) {
		c := lcCfg{Kind: "basic", Obs: 0, Hb: 1, Unreg: false, File: false, Regst: "ACTIVE", Keep: true}
		if w.idle(3) {
			_ = w.start(3, c, 34, 0, "")
		}
	},
	// the bystander rewrites its own entry (any foreign write makes a store retry)
	"ro2": func(w *world) {
		if w.running(2) {
			ro, _ := w.inc[2].classic.GetReadOnlyState()
			w.request(2, "ro", map[bool]string{true: "false", false: "true"}[ro])
		}
	},
	// the bystander starts leaving: its entry turns LEAVING
	"stop2": func(w *world) {
		if w.alive(2) && !w.stopping(2) {
			w.stop(2)
		}
	},
	// nobody writes: the callback is merely evaluated twice
	"none": func(w *world) {},
}

func TestRecordConflicts(t *testing.T) {
	res := &abs.Result{}
	defer res.Write(t)
	sink, err := newSink(res)
	if err != nil {
		t.Skip(err)
	}
	defer sink.close()
	installFailpoint()
	seed := abs.Seed()
	scs := map[string]bool{"fresh-join": true, "join-observe": true, "restart-from-ring": true, "claim": true,
		"basic-register": true, "basic-observe": true}
	ils := []string{"join3", "ro2"}
	if os.Getenv("VERIF_CONFLICTS") == "full" {
		scs, ils = nil, []string{"join3", "basic3", "ro2", "stop2", "none"}
	}
	if v := os.Getenv("VERIF_CONFLICT_SCENARIOS"); v != "" { // development
		scs = map[string]bool{}
		for _, n := range strings.Split(v, ",") {
			scs[n] = true
		}
	}
	conflicts, stalls, unreached := 0, 0, 0
	for _, sc := range scenarios() {
		if scs != nil && !scs[sc.name] {
			continue
		}
		var calls []int
		w := oneTrace(t, 2, func(w *world) {
			w.lowestGen = true
			calls, _ = runScenario(w, sc, crashPlan{rejLen: -1}, seed)
			w.finish("end")
		})
		if w.fatal != "" {
			res.Fatal = sc.name + " conflict dry: " + w.fatal
			return
		}
		for inc, k := range calls {
			for a := 1; a <= k; a++ {
				for _, il := range ils {
					plan := crashPlan{inc: inc + 1, confAt: a}
					label := "c08/conflict/" + sc.name + "/inc" + itoa(inc+1) + "-call" + itoa(a) + "-" + il
					w := oneTrace(t, 2, func(w *world) {
						w.lowestGen = true
						w.interloper = interlopers[il]
						runScenario(w, sc, plan, seed)
						w.finish("end")
					})
					if w.fatal != "" {
						res.Fatal = label + ": " + w.fatal
						return
					}
					conflicts++
					if w.stalls == 0 {
						unreached++
					}
					stalls += w.stalls
					if err := sink.add(w, label); err != nil {
						res.Fatal = err.Error()
						return
					}
				}
			}
		}
	}
	res.AddExtra("cas_conflict_runs", conflicts)
	res.AddExtra("cas_conflicts_injected", stalls)
	res.AddExtra("cas_conflicts_unreached", unreached)
}

func itoa(n int) string {
	if n == 0 {
		return "0"
	}
	s := ""
	for n > 0 {
		s = string(rune('0'+n%10)) + s
		n /= 10
	}
	return s
}
