"""C01 - key lookup returns the consistent-hash replica set and its exact quorum slack.

spec/ringlookup: Lookup is stated from the property (clockwise walk from the first token strictly greater than the
key, first RF replicas proper with at most one per zone, one further instance per extending instance, health filter,
majority of max(RF, walked), MaxErrors = healthy - majority).  TLC checks SizeOK, ZoneOK, ClockwiseFirst, SlackExact,
WalkDefsAgree in every descriptor of the tier's universes and MinimalDisruption on every AddInstance / RemoveInstance
step, and emits the expected result of every (descriptor, key class, operation, RF, zone-awareness); harness/c01 replays
them on the real Ring.Get / GetWithOptions and records seeded random larger rings that RingLookupTrace.tla validates.
"""
import ringlookup_common as rl

PROPERTY = "C01"
META = {
    "level_text": "TLC explores every ring descriptor of several bounded universes (<=3-4 instances, <=2 tokens each on a key-class circle whose "
                  "positions embed to 0,1,2,..,2^32-2,2^32-1 with literal adjacency plus gap classes; zones, the instance states, the three "
                  "heartbeat-age classes, instances without tokens) through AddInstance/RemoveInstance steps, checks on the specification that "
                  "the lookup operator has the stated size, zone, clockwise-first and exact-slack properties in every state and the "
                  "minimal-disruption property on every step, and emits the result demanded for every key class x 4 operations x RF x "
                  "zone-awareness; every one is replayed on a real ring.Ring (two embeddings, every concrete key of every class, Get and "
                  "GetWithOptions with buffers of capacity 0, 1 and GetBufferSize) inside a synctest bubble so heartbeat ages are exact. "
                  "Also replayed: ring.Config.ExcludedZones (universes q_excl / t_excl), a per-call replication factor above the configured one "
                  "(refused by the default strategy) and, in the thorough tier, the ignore-unhealthy strategy with expanded replication. "
                  "In the other direction seeded random rings (<=40 instances x <=128 tokens, 0-5 zones, all states) are rank-compressed, "
                  "logged and accepted by TLC only if every logged result equals the specification's.",
    "level_note": "Exhaustive only within the listed universes (names in coverage.universes); larger rings are sampled, not enumerated. "
                  "Trusted: TLC, the key-class embedding and rank compression, the synctest clock, renaming symmetry of instance and zone "
                  "names, heartbeat classes concretised for a clock on a whole second and inside a second.",
    "technique": "TLA+ specification (RingLookup.tla) model-checked by TLC; TLC-generated cases replayed into the real code; "
                 "traces recorded from the real code validated by TLC",
    "design_ref": "DESIGN.md 2 C01",
}


def run(ctx):
    ctx.rule = ("one case = (descriptor, key class, operation, RF, zone-awareness) with the specification's result, replayed on every "
                "concrete key of the class in two embeddings, plus every logged call of the recorded random rings; distinct = distinct "
                "TLC states (descriptors) x 4 operations x RF x 2; non-trivial = the result is not simply 'the first <=RF instances of the "
                "walk, all healthy' (an instance was passed over for its zone, extended the set, was filtered as unhealthy, or the lookup fails)")
    return rl.run_family(ctx, "c01")
