----------------------------- MODULE ModulesDefs -----------------------------
(***************************************************************************)
(* C18 - constant-level definitions shared by the graph machine            *)
(* (Modules.tla), the runtime machine (ModulesRun.tla) and the two trace   *)
(* validators.  A dependency graph is a set of pairs <<a, b>> = "module a  *)
(* depends on module b" (modules/modules.go: module.deps).                 *)
(***************************************************************************)
EXTENDS Integers, FiniteSets, Sequences

Direct(deps, m) == {e[2] : e \in {f \in deps : f[1] = m}}

RECURSIVE Reach(_, _, _)
Reach(deps, frontier, seen) ==
    LET nxt == UNION {Direct(deps, f) : f \in frontier} \ seen
    IN  IF nxt = {} THEN seen ELSE Reach(deps, nxt, seen \cup nxt)

(* Trans[m]: everything reachable from m over one or more edges (contains m iff m is on a cycle). *)
TransOf(deps, m) == Reach(deps, {m}, {})

Acyclic(deps, M) == \A m \in M : m \notin TransOf(deps, m)

(* The edge a -> b closes a cycle in an acyclic graph iff a = b or a is reachable from b. *)
ClosesCycle(deps, a, b) == a = b \/ a \in TransOf(deps, b)

TransFn(deps, M) == [m \in M |-> TransOf(deps, m)]   \* the closure as a function (computed once, looked up often)

NeededT(tr, T) == T \cup UNION {tr[t] : t \in T}
Needed(deps, T) == T \cup UNION {TransOf(deps, t) : t \in T}

DependantsOf(deps, M, m) == {x \in M : m \in TransOf(deps, x)}

SeqSet(s) == {s[i] : i \in 1..Len(s)}
NoDup(s)  == \A i, j \in 1..Len(s) : i # j => s[i] # s[j]

(***************************************************************************)
(* The property, declaratively.  `order` is the order in which init        *)
(* functions ran for targets T, observed on the modules H that have an     *)
(* init function (H = all modules: the full initialisation order); tr is   *)
(* the transitive closure TransFn(deps, Mod).                              *)
(*   InitOnce          every module at most once                           *)
(*   InitOnlyNeeded    nothing but needed modules                          *)
(*   InitAllNeeded     every needed module                                 *)
(*   InitAfterDeps     each module after all of Trans[m]                   *)
(***************************************************************************)
InitOnce(order)                 == NoDup(order)
InitOnlyNeeded(tr, T, H, order) == SeqSet(order) \subseteq (NeededT(tr, T) \cap H)
InitAllNeeded(tr, T, H, order)  == (NeededT(tr, T) \cap H) \subseteq SeqSet(order)
InitAfterDeps(tr, H, order) ==
    \A i \in 1..Len(order) :
        \A d \in tr[order[i]] \cap H : \E j \in 1..(i-1) : order[j] = d

AdmissibleInit(tr, T, H, order) ==
    /\ InitOnce(order)
    /\ InitOnlyNeeded(tr, T, H, order)
    /\ InitAllNeeded(tr, T, H, order)
    /\ InitAfterDeps(tr, H, order)

(* An initialisation that was aborted by a failing init function: admissible so far. *)
AdmissibleInitPrefix(tr, T, H, order) ==
    /\ InitOnce(order)
    /\ InitOnlyNeeded(tr, T, H, order)
    /\ InitAfterDeps(tr, H, order)

(***************************************************************************)
(* Run-time ordering clauses, as predicates over the observable state of   *)
(* the wrappers W and the wrapped services S.  S = set of modules that got *)
(* a service (initialised, init function returned a service).  wst / sst   *)
(* map a module to one of the service states below.                        *)
(***************************************************************************)
SvcStates == {"New", "Starting", "Running", "Stopping", "Terminated", "Failed"}
Terminal  == {"Terminated", "Failed"}
Active    == {"Starting", "Running", "Stopping"}

SvcNext(s) == CASE s = "New"      -> {"Starting", "Terminated"}
                [] s = "Starting" -> {"Running", "Stopping", "Failed"}
                [] s = "Running"  -> {"Stopping"}
                [] s = "Stopping" -> {"Terminated", "Failed"}
                [] OTHER          -> {}
RECURSIVE SvcReach(_, _)
SvcReach(from, to) == from = to \/ \E n \in SvcNext(from) : SvcReach(n, to)

(* tr = TransFn(deps, Mod), the transitive closure as a function *)
TransSvc(tr, S, m)      == tr[m] \cap S
DependantsSvc(tr, S, m) == {x \in S : m \in tr[x]}

(* S[m] is started (W[m] calls S[m].StartAsync) only when every dependency's service has      *)
(* started successfully, its wrapper has reached Running, and it was not told to stop; a      *)
(* dependency whose run function only returns when told to (blocks[d]) is literally Running.  *)
StartCond(tr, S, m, wst, sst, startedOK, stopAsked, blocks) ==
    \A d \in TransSvc(tr, S, m) :
        /\ startedOK[d]
        /\ ~stopAsked[d]
        /\ wst[d] \notin {"New", "Starting"}
        /\ sst[d] \notin {"New", "Starting"}
        /\ blocks[d] => (sst[d] = "Running" /\ wst[d] \in {"Running", "Stopping"})

(* S[m] is told to stop (W[m] calls S[m].StopAsync) only when no dependant's service is       *)
(* active; on the regular path (W[m] is Stopping) every dependant's wrapper is terminal, on   *)
(* the interrupted-start-up path (W[m] still Starting) no dependant's service was ever started.*)
StopCondW(tr, S, m, wst, startAsked) ==
    \A x \in DependantsSvc(tr, S, m) :
        /\ wst[m] = "Stopping" => wst[x] \in Terminal
        /\ wst[m] = "Starting" => ~startAsked[x]
        /\ wst[m] \in {"Starting", "Stopping"}
StopCondS(tr, S, m, sst) ==
    \A x \in DependantsSvc(tr, S, m) : sst[x] \notin Active

(* State form of the same clause: while a module's service is active, none of its             *)
(* dependencies' services has been told to stop.                                              *)
ActiveKeepsDeps(tr, S, sst, stopAsked) ==
    \A m \in S : sst[m] \in Active => \A d \in TransSvc(tr, S, m) : ~stopAsked[d]

(* A dependency that failed without its service ever running: dependants' services are never  *)
(* started and their wrappers never run.                                                      *)
FailedToStart(d, wst, sRan) == wst[d] = "Failed" /\ ~sRan[d]
FailurePropagatesSafe(tr, S, wst, sRan, startAsked, wStarted) ==
    \A d \in S : FailedToStart(d, wst, sRan) =>
        \A x \in DependantsSvc(tr, S, d) :
            /\ ~startAsked[x]
            /\ wst[x] \in {"New", "Starting", "Failed", "Terminated"}
            /\ wst[x] = "Terminated" => ~wStarted[x]
(* ... and, once everything is quiescent, every started dependant has failed.                 *)
FailurePropagatesDone(tr, S, wst, sRan, wStarted) ==
    \A d \in S : FailedToStart(d, wst, sRan) =>
        \A x \in DependantsSvc(tr, S, d) : wStarted[x] => wst[x] = "Failed"

(* a wrapper never reports a clean stop for a service that failed *)
FailureReported(S, wst, sst) == \A m \in S : wst[m] = "Terminated" => sst[m] # "Failed"

AllStopped(S, wst, sst) ==
    \A m \in S : wst[m] \in Terminal /\ sst[m] \in {"New", "Terminated", "Failed"}
=============================================================================
