--------------------------- MODULE CacheStackScript ---------------------------
(***************************************************************************)
(* CacheStack.tla run on given operation sequences ("scripts").            *)
(*                                                                         *)
(* scripts.ndjson holds one script per line:                               *)
(*   {"stack": id, "cap": c, "dttl": d,                                    *)
(*    "ops": [{"name": ..., "w": view, "keys": [...], "vals": [...],       *)
(*             "ttl": seconds (advance: the delta),                        *)
(*             "fail": the backend call of this operation fails}, ...]}    *)
(* The only thing taken from the script is WHICH operation is performed    *)
(* next; what it does, what it replies and what the backend holds          *)
(* afterwards are CacheStack's own actions.  Where an action is            *)
(* nondeterministic (Go map iteration order inside SetMultiAsync and the   *)
(* back-fill loop) TLC follows every branch, so for one script it prints   *)
(* every behaviour the specification allows; the replay driver accepts the *)
(* real run iff it equals one of them.                                     *)
(***************************************************************************)
EXTENDS CacheStack

VARIABLE sid       \* which script this behaviour follows

Scripts == ndJsonDeserialize("scripts.ndjson")

svars == <<conf, lru, bk, last, ownLeft, retLeft, foreign, limbo, op, hist, pk, sid>>

ScriptInit ==
  /\ sid \in 1..Len(Scripts)
  /\ Init
  /\ conf = [stack |-> Scripts[sid].stack, cap |-> Scripts[sid].cap, dttl |-> Scripts[sid].dttl]

Do(o) ==
  CASE o.name \in {"set", "setasync"} -> Set(o.name, o.w, o.keys[1], o.vals[1], o.ttl, o.fail)
    [] o.name = "setmulti" -> SetMulti(o.w, o.keys, o.vals, o.ttl, o.fail)
    [] o.name = "add"      -> Add(o.w, o.keys[1], o.vals[1], o.ttl, o.fail)
    [] o.name \in {"get", "getplain"} -> Get(o.name, o.w, o.keys, o.fail)
    [] o.name = "stop"     -> Stop(o.w)
    [] o.name = "delete"   -> Delete(o.w, o.keys[1], o.fail)
    [] o.name = "advance"  -> Advance(o.ttl)
    [] o.name = "poke"     -> Poke(o.w, o.keys[1], o.ttl)

ScriptNext ==
  /\ Len(hist) < Len(Scripts[sid].ops)
  /\ Do(Scripts[sid].ops[Len(hist) + 1])
  /\ UNCHANGED sid

(* INVARIANT: print every complete behaviour of every script *)
EmitScript ==
  Len(hist) < Len(Scripts[sid].ops) \/
    PrintT(ToJson([sid |-> sid, b |-> Behaviour(hist, Cur)]))
=============================================================================
