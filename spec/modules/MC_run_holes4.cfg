CONSTANTS
  N = 4
  Graphs <- Named4Open
  Faults = {"start", "exit"}
  AwaitStoppingInner = TRUE
  LateStart = FALSE
INIT InitHoles
NEXT Next
VIEW view
INVARIANTS TypeOK StopOrderState FailurePropagates FailureIsReported
PROPERTIES StartAfterDeps StopAfterDependants
CHECK_DEADLOCK TRUE
