"""Shared driver of the ringlookup family (C01 key lookup, C02 quorum intersection).

spec/ringlookup/RingLookup.tla      the operators (Lookup, ReplicationSetFor / ReadSet, executor success predicates)
                                     and the theorems, written from the property statements
spec/ringlookup/RingLookupMC.tla    bounded universes of descriptors explored through AddInstance / RemoveInstance;
                                     TLC checks the theorems in every state / on every step and prints, per descriptor,
                                     the results the specification demands (MC_<universe>.cfg)
spec/ringlookup/RingLookupTrace.tla accepts a recorded line iff the logged results are the specification's
harness/c01                          TestReplay (spec -> code), TestRecord (code -> spec)

Development-time switches (never set in MANIFEST commands):
  VERIF_SELFTEST=corrupt-expected   flip one expected result of one emitted descriptor  -> the run must report a violation
  VERIF_SELFTEST=corrupt-trace      change one logged field of the recorded trace       -> the run must report a violation
  VERIF_TLC_WORKERS=n               TLC worker threads (default: all cores)
"""
import json
import os

import verif

AJ = ["ACTIVE", "JOINING"]
S4 = ["ACTIVE", "LEAVING", "PENDING", "JOINING"]
S5 = S4 + ["LEFT"]


def U(nk, gaps, n, maxtok, maxidle, z, states, hbs, rfmax, canon=2, remove=False, excl=(), sets=False, execs=0, xmax=0, what=""):
    """One bounded universe = the constants of spec/ringlookup/MC_<name>.cfg (written by `python3 checks/ringlookup_common.py
    --write-cfgs`).  execs = k > 0: the executor binding (C02) runs on every k-th descriptor of the universe."""
    return dict(nk=nk, gaps=list(gaps), n=n, maxtok=maxtok, maxidle=maxidle, z=z, states=states, hbs=hbs, rfmax=rfmax,
                canon=canon, remove=remove, excl=list(excl), sets=sets or execs > 0, execs=execs, xmax=xmax, what=what)


UNIVERSES = {
    # quick
    "q_layout":  U(5, [2], 3, 2, 1, 2, AJ, ["edge"], 3,
                   what="token layouts: <=3 instances x <=2 tokens on 4 positions (0,1 | gap | 2^32-2,2^32-1), 1 tokenless, zones 0..2, ACTIVE/JOINING"),
    "q_health":  U(4, [1], 3, 1, 0, 3, ["ACTIVE", "LEAVING", "PENDING"], ["edge", "stale"], 3,
                   what="states x health x zones: 3 single-token instances, {ACTIVE,LEAVING,PENDING} x {edge,stale}, zones 0..3 (JOINING/LEFT: q_layout, q_steps, q_hb)"),
    "q_hb":      U(4, [1], 2, 1, 1, 1, ["ACTIVE", "LEFT"], ["fresh", "edge", "stale"], 3, execs=1,
                   what="all three heartbeat classes x {ACTIVE,LEFT}, 2 instances, tokenless allowed"),
    "q_steps":   U(4, [1], 3, 1, 1, 1, AJ, ["edge"], 2, canon=1, remove=True,
                   what="AddInstance and RemoveInstance steps in every relative token position (ids not ordered by token)"),
    "q_excl":    U(4, [1], 3, 1, 1, 3, AJ, ["edge"], 3, excl=[2], execs=1,
                   what="ring.Config.ExcludedZones = {zone 2}: 3 single-token instances, zones 0..3, ACTIVE/JOINING, tokenless allowed"),
    "q_zones":   U(5, [2], 4, 1, 1, 4, AJ, ["edge"], 4, execs=6,
                   what="C02: 4 single-token instances, zones 0..4 (fewer, equal, more than RF 1..4), ACTIVE/JOINING"),
    "q_stale":   U(4, [1], 3, 1, 1, 3, ["ACTIVE"], ["edge", "stale"], 3, execs=1,
                   what="C02: unhealthy non-extending instances: ACTIVE x {edge,stale}, zones 0..3, tokenless allowed"),
    # thorough (RF 1..5 everywhere)
    "t_layout":  U(6, [3], 3, 2, 1, 2, AJ, ["edge"], 5,
                   what="token layouts: <=3 instances x <=2 tokens on 5 positions (0,1,2 | gap | 2^32-2,2^32-1), 1 tokenless, zones 0..2, ACTIVE/JOINING"),
    "t_health":  U(4, [1], 3, 1, 1, 3, S4, ["edge", "stale"], 5, execs=8,
                   what="states x health x zones: 3 single-token instances + tokenless, 4 states x {edge,stale}, zones 0..3"),
    "t_hb":      U(4, [1], 3, 1, 0, 2, S5, ["fresh", "edge", "stale"], 5,
                   what="all five states x all three heartbeat classes, 3 single-token instances, zones 0..2"),
    "t_active":  U(9, [4], 4, 2, 1, 0, ["ACTIVE"], ["edge"], 5,
                   what="successor/boundary: <=4 instances x <=2 tokens on 8 positions, everything ACTIVE"),
    "t_steps":   U(5, [2], 3, 1, 1, 2, AJ, ["edge"], 3, canon=1, remove=True,
                   what="AddInstance and RemoveInstance steps in every relative token position, 4 positions"),
    "t_n4zs":    U(5, [2], 4, 1, 1, 3, S4, ["edge"], 5, execs=16,
                   what="4 single-token instances + tokenless: all four behaviour classes of states x zones 0..3"),
    "t_n4hb":    U(5, [2], 4, 1, 0, 2, ["ACTIVE", "LEAVING"], ["fresh", "edge", "stale"], 5,
                   what="4 single-token instances: {ACTIVE,LEAVING} x all three heartbeat classes x zones 0..2"),
    "t_excl":    U(5, [2], 3, 1, 1, 3, AJ, ["edge", "stale"], 5, excl=[1, 3], execs=8,
                   what="ring.Config.ExcludedZones = {zone 1, zone 3}: 3 single-token instances on 4 positions, zones 0..3, ACTIVE/JOINING x {edge,stale}"),
    "t_expand":  U(5, [2], 4, 1, 0, 2, AJ, ["edge", "stale"], 2, xmax=5,
                   what="ignore-unhealthy strategy with per-call replication factors 1..5 over configured 1..2: 4 single-token instances, zones 0..2, ACTIVE/JOINING x {edge,stale}"),
    "t_z5ext":   U(6, [3], 5, 1, 0, 5, AJ, ["edge"], 5, execs=16,
                   what="C02: 5 single-token instances, zones 0..5, ACTIVE/JOINING"),
    "t_z5stale": U(6, [3], 5, 1, 0, 5, ["ACTIVE"], ["edge", "stale"], 5, execs=16,
                   what="C02: 5 single-token instances, zones 0..5, ACTIVE x {edge,stale}"),
    "t_z5mix":   U(6, [3], 5, 1, 0, 5, ["ACTIVE", "LEAVING", "JOINING"], ["edge"], 5,
                   what="C02: 5 single-token instances, zones 0..5, {ACTIVE,LEAVING,JOINING}"),
}

TIERS = {
    ("c01", "quick"):    dict(cfgs=["q_layout", "q_health", "q_hb", "q_steps", "q_excl"], rings=60, keys=8),
    ("c01", "thorough"): dict(cfgs=["t_layout", "t_health", "t_hb", "t_active", "t_steps", "t_n4zs", "t_n4hb", "t_excl", "t_expand", "q_hb", "q_zones"],
                              rings=5000, keys=10),
    ("c02", "quick"):    dict(cfgs=["q_zones", "q_stale", "q_hb", "q_excl"], rings=60, keys=2),
    ("c02", "thorough"): dict(cfgs=["t_z5ext", "t_z5stale", "t_z5mix", "t_health", "t_n4zs", "t_excl", "q_zones", "q_stale", "q_hb"],
                              rings=5000, keys=2),
}


def write_cfgs():
    def tset(xs, q=False):
        return "{" + ", ".join(('"%s"' % x) if q else str(x) for x in xs) + "}"
    for name, u in UNIVERSES.items():
        body = """\\* %s: %s
\\* (generated from UNIVERSES in checks/ringlookup_common.py: python3 checks/ringlookup_common.py --write-cfgs)
CONSTANTS
  NK = %d
  Gaps = %s
  N = %d
  MaxTok = %d
  MaxIdle = %d
  Z = %d
  StateSet = %s
  HbSet = %s
  RFMax = %d
  Canon = %d
  WithRemove = %s
  Excl = %s
  EmitOn = TRUE
  EmitSets = %s
  XMax = %d
INIT Init
NEXT Next
VIEW View
INVARIANTS TypeOK SizeOK ZoneOK ClockwiseFirst SlackExact WalkDefsAgree QuorumIntersection ExpandedOK Emit
PROPERTIES MinimalDisruption
CHECK_DEADLOCK FALSE
""" % (name, u["what"], u["nk"], tset(u["gaps"]), u["n"], u["maxtok"], u["maxidle"], u["z"], tset(u["states"], True),
       tset(u["hbs"], True), u["rfmax"], u["canon"], "TRUE" if u["remove"] else "FALSE", tset(u["excl"]),
       "TRUE" if u["sets"] else "FALSE", u["xmax"])
        open(os.path.join(verif.SPEC, "ringlookup", "MC_%s.cfg" % name), "w").write(body)


ASSUMPTIONS = [
    "monotone embedding of key classes into uint32 (harness/internal/abs KeyClasses, RandomKeyClasses) and its inverse, rank compression (abs.RankCompressor)",
    "heartbeat age classes are concretised inside a testing/synctest bubble, once with the clock on a whole second (fresh = 0..59 s, "
    "edge = exactly the 60 s timeout, stale = 61 s or more) and once with the clock inside a second (replay: +500 ms, record: random ms; "
    "fresh = <= 58 s + f, edge = 59 s + f, stale = 60 s + f, i.e. timeout < age < timeout + 1 s, or more)",
    "instances and zones may be renamed (Canon >= 1 universes enumerate one descriptor per renaming)",
    "default replication strategy everywhere (a per-call replication factor above the configured one is refused: LookupCall); the ignore-unhealthy "
    "strategy with expanded replication only in universe t_expand (LookupIgnoreUnhealthy); token sets pairwise disjoint",
    "executor binding (C02): callbacks return immediately, success exactly on the chosen subset; every subset of the replica / replication set is tried",
]


def _workers():
    w = os.environ.get("VERIF_TLC_WORKERS")
    return int(w) if w else None


def _corrupt_expected(path):
    """Self-test: flip one expected lookup result and one expected replication set in the middle of the file."""
    lines = open(path).read().splitlines()
    i = len(lines) // 2
    d = json.loads(lines[i])
    d["look"][0][0][0][0] ^= 1          # key class 0, Write, za off, rf 1: id mask bit of instance 1
    d["rset"][2][0][0] ^= 1             # Read, za off, rf 1
    lines[i] = json.dumps(d)
    open(path, "w").write("\n".join(lines) + "\n")


def _corrupt_trace(path):
    lines = open(path).read().splitlines()
    done = 0
    for i, l in enumerate(lines):
        d = json.loads(l)
        for q in d["look"]:
            for r in q["res"]:
                if r["ok"] and r["op"] == "Write" and not done & 1:
                    r["me"] += 1
                    done |= 1
        for r in d["rset"]:
            if r["ok"] and r["ids"] and not done & 2:
                r["ids"] = r["ids"][:-1]
                done |= 2
        lines[i] = json.dumps(d)
        if done == 3:
            break
    open(path, "w").write("\n".join(lines) + "\n")


def run_family(ctx, part):
    """part = "c01" (lookups of the four operations) or "c02" (replication sets + Write lookups)."""
    plan = TIERS[(part, ctx.tier)]
    selftest = os.environ.get("VERIF_SELFTEST", "")
    ctx.exhaustive = True
    ctx.assumptions = list(ASSUMPTIONS)

    # 1. TLC: the theorems on every descriptor of every universe of the tier, and the expected results
    inputs, total = [], 0
    for name in plan["cfgs"]:
        u = UNIVERSES[name]
        nk, gaps = u["nk"], u["gaps"]
        cover = ctx.tier == "thorough" and name in ("t_steps", "q_steps")
        r = ctx.tlc("ringlookup", "RingLookupMC", cfg="MC_%s.cfg" % name, timeout=2400, workers=_workers(),
                    deadlock=False, coverage=cover)
        ctx.require_tlc_ok(r, "MC_" + name)
        if r.emitted == 0 or r.emitted != r.distinct:
            raise verif.Inconclusive("MC_%s: %d descriptors but %d emitted lines" % (name, r.distinct, r.emitted))
        if cover and [a for a in r.coverage_zero if a in ("AddInstance", "RemoveInstance", "Init")]:
            raise verif.Inconclusive("MC_%s: action never taken: %s" % (name, r.coverage_zero))
        if selftest == "corrupt-expected" and not inputs:
            _corrupt_expected(r.out_path)
        inputs.append({"path": r.out_path, "nk": nk, "gaps": gaps, "label": name, "execs": u["execs"] if part == "c02" else 0})
        total += r.emitted

    # 2. spec -> code: replay every descriptor against the real ring
    res = ctx.run_harness("c01", "^TestReplay$", env={"VERIF_INPUTS": json.dumps(inputs), "VERIF_PART": part}, timeout=2400)
    if (res.get("extra") or {}).get("descriptors") != total and not res.get("fatal"):
        raise verif.Inconclusive("replay covered %s of %d descriptors" % ((res.get("extra") or {}).get("descriptors"), total))
    ctx.absorb(res, "replay")

    # 3. code -> spec: seeded random larger rings, validated by TLC
    trace = ctx.path("trace", "trace.ndjson")
    env = {"VERIF_TRACE": trace, "VERIF_RINGS": plan["rings"], "VERIF_KEYS": plan["keys"]}
    rec = ctx.run_harness("c01", "^TestRecord$", env=env, timeout=900)
    if rec.get("fatal"):
        raise verif.Inconclusive("recorder: %s" % rec["fatal"])
    if selftest == "corrupt-trace":
        _corrupt_trace(trace)
    nlines = sum(1 for _ in open(trace))
    v = ctx.tlc("ringlookup", "RingLookupTrace", extra_files={trace: "trace.ndjson"}, workers=_workers(),
                deadlock=False, timeout=2400)
    ctx.require_tlc_ok(v, "RingLookupTrace")
    if v.distinct != 2 * nlines:
        raise verif.Inconclusive("RingLookupTrace checked %d of %d states" % (v.distinct, 2 * nlines))
    rejected = verif.read_ndjson(v.out_path)
    mine = [x for x in rejected if _belongs(x, part)]
    if mine and selftest != "corrupt-trace":
        # a rejection must repeat on a second recording with the same seed (DESIGN 1.4)
        trace2 = ctx.path("trace", "trace2.ndjson")
        ctx.run_harness("c01", "^TestRecord$", env=dict(env, VERIF_TRACE=trace2), timeout=900)
        if open(trace).read() != open(trace2).read():
            raise verif.Inconclusive("recorded trace is not reproducible for seed %d" % ctx.seed)
    rec["cases"] = max(0, int(rec.get("cases", 0)) - len(rejected))
    ctx.absorb(rec, "record")
    for x in mine:
        lg = x["logged"]
        one = lg.get("res", lg)
        ctx.disagreement({
            "sig": "trace:%s:%s op=%s" % (x["kind"], _diff(one, x["want"]), one.get("op")),
            "case": {"ring": x["ring"], "seed": ctx.seed, "rings": plan["rings"], "keys": plan["keys"],
                     "how": "VERIF_SEED=%d VERIF_RINGS=%d VERIF_KEYS=%d go test -tags verif -run '^TestRecord$' ./c01 records ring %d"
                            % (ctx.seed, plan["rings"], plan["keys"], x["ring"]),
                     "key": lg.get("key"), "key_rank": lg.get("k")},
            "got": one, "want": x["want"]}, "record/validate")
    ctx.extra["trace_rings"] = nlines
    ctx.extra["trace_rejections"] = len(rejected)
    ctx.extra["universes"] = {n: UNIVERSES[n]["what"] for n in plan["cfgs"]}
    return "model_checking"


def _belongs(x, part):
    if part == "c01":
        return x["kind"] == "lookup"
    return x["kind"] == "rset" or x["logged"].get("res", {}).get("op") == "Write"


def _diff(logged, want):
    if logged.get("ok") != want.get("ok") or logged.get("err") != want.get("err"):
        return "error"
    if sorted(logged.get("ids") or []) != sorted(want.get("ids") or []):
        return "ids"
    if logged.get("me") != want.get("me"):
        return "maxerrors"
    if "muz" in want and logged.get("muz") != want.get("muz"):
        return "maxunavailablezones"
    return "zoneawareflag"


if __name__ == "__main__":
    import sys
    if "--write-cfgs" in sys.argv:
        write_cfgs()
        print("wrote %d cfgs" % len(UNIVERSES))
