------------------------------ MODULE BatchSim ------------------------------
(***************************************************************************)
(* C10, spec -> code on universes too large to enumerate (4 keys x 6       *)
(* replicas x RF 5): instead of starting from every case of Batch!Cases,   *)
(* a behaviour first draws its case at random (two steps, so that the      *)
(* tolerances are drawn for replication sets that are already fixed in the *)
(* state), then runs the gated specification Batch.  Used with             *)
(* tlc -simulate: every simulated behaviour ends in a state without        *)
(* successors where the invariant Emit of Batch prints it.                 *)
(***************************************************************************)
EXTENDS Batch

NoCase == [nk |-> 0, reps |-> <<>>, maxErr |-> <<>>, getErrAt |-> 0, noInst |-> FALSE]

SimInit == InitWithMain(NoCase, "choose")

(* tuples are built eagerly: every RandomElement below is evaluated exactly once *)
DrawReps(n) ==
    /\ main = "choose"
    /\ cfg' = [NoCase EXCEPT !.nk = n,
                             !.reps = SubSeq(<<RandomElement(RepSets), RandomElement(RepSets),
                                               RandomElement(RepSets), RandomElement(RepSets)>>, 1, n),
                             !.maxErr = SubSeq(<<0, 0, 0, 0>>, 1, n)]
    /\ main' = "choose2"
    /\ UNCHANGED <<gi, ctx, items, s, cleanG, cleaned, nret, ret, spawns, pend, hist>>

Tol(k) == IF k <= cfg.nk THEN RandomElement(0..(Cardinality(cfg.reps[k]) - 1)) ELSE 0
DrawTolerances ==
    /\ main = "choose2"
    /\ cfg' = [cfg EXCEPT !.maxErr = SubSeq(<<Tol(1), Tol(2), Tol(3), Tol(4)>>, 1, cfg.nk)]
    /\ main' = "start"
    /\ s' = [s EXCEPT !.succ = [k \in 1..cfg.nk |-> 0], !.failC = [k \in 1..cfg.nk |-> 0], !.failS = [k \in 1..cfg.nk |-> 0],
                      !.rem = [k \in 1..cfg.nk |-> 0], !.errv = [k \in 1..cfg.nk |-> 0]]
    /\ UNCHANGED <<gi, ctx, items, cleanG, cleaned, nret, ret, spawns, pend, hist>>

SimNext == \/ \E n \in MinKeys..MaxKeys : DrawReps(n)
           \/ DrawTolerances
           \/ main \notin {"choose", "choose2"} /\ (Internal \/ Env \/ Observe)
SimSpec == SimInit /\ [][SimNext]_vars

ASSUME MaxKeys <= 4
=============================================================================
