CONSTANTS
  MaxN = 2
  NSet = {1, 2}
  MaxZ = 2
  Modes = {"default", "zone"}
  MinHedge = {0, 1, 3}
  Preds = {"nil", "never", "class", "all", "nottransient"}
  NoCancels = {TRUE, FALSE}
SPECIFICATION Spec
PROPERTIES Termination
INVARIANTS TypeOK OnlySuccessful QuorumBacked ErrWhenExceeded AtMostOneCall Minimised CleanupSafe CleanupExactlyOnce UnusedCancelled ReturnedNotCancelled PlainAllCancelled CancelJustified
CHECK_DEADLOCK FALSE
