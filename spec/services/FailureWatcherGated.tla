------------------------ MODULE FailureWatcherGated ------------------------
(***************************************************************************)
(* FailureWatcher.tla at the granularity a harness can replay on the real  *)
(* services.FailureWatcher inside testing/synctest: an environment step    *)
(* (a service fails, the reader receives one value, Close is called, a     *)
(* WatchService on the closed watcher) followed by the code's own steps    *)
(* until everything is blocked:  fw' = FSettle(EnvOp(fw)).                 *)
(* Close is called only when no failure is queued behind a pending send    *)
(* (manager mode), because the listener goroutine would then choose        *)
(* between its stop channel and the queued notification by a coin flip.    *)
(* The observation names the state in which Close is stuck behind a report *)
(* nobody receives: blk = "Close-blocked-while-report-pending".            *)
(***************************************************************************)
EXTENDS FailureWatcher, Json

VARIABLE hist
fgvars == <<fw, hist>>

FIntEn(f) == (\E k \in Svc : StartSendEn(f, k) \/ ExitEn(f, k)) \/ CloseNextEn(f)
FIntStep(f) == IF \E k \in Svc : StartSendEn(f, k) THEN StartSend(f, CHOOSE k \in Svc : StartSendEn(f, k))
               ELSE IF \E k \in Svc : ExitEn(f, k) THEN Exit(f, CHOOSE k \in Svc : ExitEn(f, k))
               ELSE CloseNext(f)
RECURSIVE FSettle(_)
FSettle(f) == IF FIntEn(f) THEN FSettle(FIntStep(f)) ELSE f

FObs(f) == [ got |-> f.got,
             close |-> IF f.cpc = 0 THEN "none" ELSE IF f.cpc = CloseDone THEN "done" ELSE "blocked",
             chan |-> IF f.chClosed THEN "closed" ELSE "open",
             blk |-> IF f.cpc \in Svc THEN "Close-blocked-while-report-pending" ELSE "none",
             st |-> f.st, panics |-> f.panics ]

FEnvEn(f, a) == CASE a[1] = "Fail" -> FailEn(f, a[2])
                  [] a[1] = "Recv" -> RecvEn(f)
                  [] a[1] = "Close" -> CloseCallEn(f) /\ \A k \in Svc : f.q[k] = <<>>
                  [] a[1] = "WatchAfterClose" -> WatchAfterCloseEn(f)
FEnvOp(f, a) == CASE a[1] = "Fail" -> Fail(f, a[2])
                  [] a[1] = "Recv" -> Recv(f)
                  [] a[1] = "Close" -> CloseCall(f)
                  [] a[1] = "WatchAfterClose" -> WatchAfterClose(f)

FGInit == \E m \in Modes : fw = FInitRec(m) /\ hist = << <<"New", m>> >>
FGStep(a) == FEnvEn(fw, a) /\ fw' = FSettle(FEnvOp(fw, a)) /\ hist' = Append(hist, a)
FGNext == (\E s \in Svc : FGStep(<<"Fail", s>>)) \/ FGStep(<<"Recv", 0>>) \/ FGStep(<<"Close", 0>>) \/ FGStep(<<"WatchAfterClose", 0>>)
FGView == fw
FEmitTransition == PrintT(ToJson([h |-> hist', o |-> FObs(fw')]))
FEmitInit == Len(hist) > 1 \/ PrintT(ToJson([h |-> hist, o |-> FObs(fw)]))
FQuiescent == ~FIntEn(fw)
=============================================================================
