package c08

import (
	"context"
	"fmt"
	"testing"
	"testing/synctest"
	"time"

	"github.com/go-kit/log"
	"github.com/grafana/dskit/kv"
	"github.com/grafana/dskit/kv/consul"
	"github.com/grafana/dskit/ring"
	"github.com/grafana/dskit/services"
)

type rec struct {
	kv.Client
	name string
	t0   time.Time
}

func (r *rec) CAS(ctx context.Context, key string, f func(in interface{}) (out interface{}, retry bool, err error)) error {
	return r.Client.CAS(ctx, key, func(in interface{}) (interface{}, bool, error) {
		out, retry, err := f(in)
		fmt.Printf("%s t=%v in=%v out=%v err=%v\n", r.name, time.Since(r.t0), in, out, err)
		return out, retry, err
	})
}

func TestProbe(t *testing.T) {
	synctest.Test(t, func(t *testing.T) {
		t0 := time.Now()
		store, closer := consul.NewInMemoryClient(ring.GetCodec(), log.NewNopLogger(), nil)
		var cfg ring.LifecyclerConfig
		cfg.RingConfig.KVStore.Mock = &rec{Client: store, name: "i-1", t0: t0}
		cfg.RingConfig.HeartbeatTimeout = time.Minute
		cfg.NumTokens = 2
		cfg.HeartbeatPeriod = time.Second
		cfg.HeartbeatTimeout = time.Minute
		cfg.JoinAfter = time.Second
		cfg.ObservePeriod = time.Second
		cfg.Addr = "1.1.1.1"
		cfg.Port = 1
		cfg.ID = "i-1"
		cfg.UnregisterOnShutdown = true
		l, err := ring.NewLifecycler(cfg, nil, "ring", "ring", false, log.NewNopLogger(), nil)
		if err != nil {
			t.Fatal(err)
		}
		l.StartAsync(context.Background())
		synctest.Wait()
		fmt.Println("started", l.State(), l.GetState(), time.Since(t0))
		time.Sleep(3500 * time.Millisecond)
		synctest.Wait()
		fmt.Println("slept", l.State(), l.GetState(), time.Since(t0), l.CheckReady(context.Background()))
		l.StopAsync()
		synctest.Wait()
		fmt.Println("stopped", l.State(), l.GetState(), time.Since(t0))
		_ = services.StopAndAwaitTerminated(context.Background(), l)
		closer.Close()
	})
}
