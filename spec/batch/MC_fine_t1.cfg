CONSTANTS
  MinKeys = 0
  MaxKeys = 2
  NI = 3
  MaxRF = 2
  Shape = "any"
  Grain = "atomic"
  Gate = FALSE
  EmptyFix = TRUE
  AllowCancel = TRUE
  EarlyExits = TRUE
  MaxConc = 3
  Spawn = "go"
  Record = FALSE
SPECIFICATION Spec
INVARIANTS TypeOK SingleSend ReturnsOnce SuccessMeansQuorum ErrorMeansNoQuorum ErrorIsReal ChannelErrorIsReal
           EarlyError LastAnswerError DecidedIsDelivered SuccessDelivered NoHang CalledExactly CleanupOnceAfterAll
PROPERTIES CleanupStable
CHECK_DEADLOCK TRUE
