------------------------------ MODULE RingMerge ------------------------------
(***************************************************************************)
(* C03 / C05 - the merge of instance-ring descriptors (ring.Desc.Merge,    *)
(* ring/model.go) as a pure operator, written from the documented rules    *)
(* and the exact tie rules of the code, plus the algebraic laws the        *)
(* gossiping KV store relies on (kv/memberlist/mergeable.go).              *)
(*                                                                         *)
(* A descriptor is a function Inst -> entry; an instance the descriptor    *)
(* does not mention is the distinguished entry Absent, whose timestamp is  *)
(* 0 and whose state is not LEFT - exactly how the code sees a missing map *)
(* key (Go zero value: Timestamp 0, State ACTIVE, no tokens).              *)
(* Token lists are sets: "sorted, duplicate-free" is the representation    *)
(* invariant the harness checks on the real slices.                        *)
(***************************************************************************)
EXTENDS Integers, FiniteSets, Sequences, TLC

CONSTANTS N,       \* instance ids 1..N ("i-<n>" in the harness: string order = numeric order)
          M,       \* token positions 0..M-1 (embedded monotonically into uint32 by the harness)
          Shared   \* TRUE: every instance may claim every position (collisions are the norm);
                   \* FALSE: instance i draws from its own block of M \div N positions

Inst == 1..N
Pos  == 0..(M-1)
PoolOf(i) == IF Shared THEN Pos ELSE {p \in Pos : p \div (M \div N) = i - 1}

LiveStates == {"ACTIVE", "LEAVING", "PENDING", "JOINING"}
Absent  == [ts |-> 0, state |-> "ABSENT", toks |-> {}]
Present(e) == e.state # "ABSENT"
IsLeft(e)  == e.state = "LEFT"
Empty   == [i \in Inst |-> Absent]

(* The universe of entries of instance i over timestamps T and live states *)
(* L.  raw = TRUE adds what only an *incoming* descriptor may contain:     *)
(* LEFT entries that still list tokens (the argument of Merge need not be  *)
(* normalised; unsorted / duplicated lists are added by the harness).      *)
EntriesOf(i, T, L, raw) ==
    {Absent}
    \cup {[ts |-> t, state |-> s, toks |-> S] : t \in T, s \in L, S \in SUBSET PoolOf(i)}
    \cup {[ts |-> t, state |-> "LEFT", toks |-> S] : t \in T, S \in IF raw THEN SUBSET PoolOf(i) ELSE {{}}}
DescsOf(T, L, raw) ==
    LET All == UNION {EntriesOf(i, T, L, raw) : i \in Inst}
    IN  {d \in [Inst -> All] : \A i \in Inst : d[i] \in EntriesOf(i, T, L, raw)}

NumPresent(d) == Cardinality({i \in Inst : Present(d[i])})

(* A cheap deterministic number of a descriptor, used only to slice / thin  *)
(* the sets of cases handed to the harness.                                 *)
StateIx(s) == CASE s = "ABSENT" -> 0 [] s = "ACTIVE" -> 1 [] s = "LEAVING" -> 2 [] s = "PENDING" -> 3
                [] s = "JOINING" -> 4 [] s = "LEFT" -> 5
Rank(d) == LET W(i) == i * (7 * d[i].ts + 3 * StateIx(d[i].state) + Cardinality(d[i].toks))
               f[k \in 0..N] == IF k = 0 THEN 0 ELSE f[k - 1] + W(k)
           IN  f[N]

---------------------------------------------------------------------------
(* normalizeIngestersMap: LEFT entries have no tokens (sorting and          *)
(* de-duplication are the identity on sets).                                *)
NormEntry(e) == IF IsLeft(e) THEN [e EXCEPT !.toks = {}] ELSE e
Normalize(d) == [i \in Inst |-> NormEntry(d[i])]
Normal(d)    == d = Normalize(d)

(* The incoming entry o replaces my entry m: strictly newer, or the same    *)
(* second and o is a removal while m is not ("we accept LEFT even if the    *)
(* timestamp hasn't changed").  m may be Absent (ts 0, not LEFT).           *)
StrictlyNewer(o, m) == Present(o) /\ o.ts > m.ts
Supersedes(o, m) ==
    /\ Present(o)
    /\ \/ o.ts > m.ts
       \/ o.ts = m.ts /\ IsLeft(o) /\ ~IsLeft(m)

(* conflictingTokensExist: some position is listed by two entries.          *)
Conflicts(d) == \E i, j \in Inst : i # j /\ d[i].toks \cap d[j].toks # {}

(* resolveConflicts, declaratively: among the non-LEFT claimants of a       *)
(* position a non-LEAVING one beats a LEAVING one, then the smaller id      *)
(* wins; every loser simply lacks the position; LEFT entries end up empty.  *)
Claimants(d, p) == {i \in Inst : Present(d[i]) /\ ~IsLeft(d[i]) /\ p \in d[i].toks}
Beats(d, i, j) ==
    \/ d[i].state # "LEAVING" /\ d[j].state = "LEAVING"
    \/ (d[i].state = "LEAVING") = (d[j].state = "LEAVING") /\ i < j
Winner(d, p) == CHOOSE i \in Claimants(d, p) : \A j \in Claimants(d, p) \ {i} : Beats(d, i, j)
Resolve(d) ==
    [i \in Inst |-> IF Present(d[i])
                    THEN [d[i] EXCEPT !.toks = {p \in Pos : Claimants(d, p) # {} /\ Winner(d, p) = i}]
                    ELSE Absent]

(* resolveConflicts, operationally: the code walks a Go map (any order) and *)
(* keeps, per token, the winner of a pairwise comparison with the previous  *)
(* holder.  CodePick is the switch statement of the code, case by case.     *)
CodePick(d, ing, prev) ==
    IF d[ing].state = "LEAVING" /\ d[prev].state # "LEAVING" THEN prev
    ELSE IF d[prev].state = "LEAVING" /\ d[ing].state # "LEAVING" THEN ing
    ELSE IF ing < prev THEN ing
    ELSE IF prev < ing THEN prev
    ELSE ing
RECURSIVE FoldOwner(_, _, _, _)
FoldOwner(d, p, order, k) ==
    IF k = 0 THEN 0
    ELSE LET prev == FoldOwner(d, p, order, k - 1)
             ing  == order[k]
         IN  IF ~(Present(d[ing]) /\ ~IsLeft(d[ing]) /\ p \in d[ing].toks) THEN prev
             ELSE IF prev = 0 THEN ing
             ELSE CodePick(d, ing, prev)
FoldResolve(d, order) ==
    [i \in Inst |-> IF Present(d[i])
                    THEN [d[i] EXCEPT !.toks = {p \in Pos : FoldOwner(d, p, order, N) = i}]
                    ELSE Absent]
Orders == {o \in [1..N -> Inst] : \A i, j \in 1..N : i # j => o[i] # o[j]}

(* C05 "deterministic resolution": the outcome does not depend on the map   *)
(* iteration order and is the winner the rule names - a function of the     *)
(* descriptor's content only.                                               *)
ResolveDeterministic(d) == \A o \in Orders : FoldResolve(d, o) = Resolve(d)

---------------------------------------------------------------------------
NoChange == [nil |-> TRUE, d |-> Empty]

(* Desc.Merge(other, localCAS) with time.Now() = now.  `mine` is the        *)
(* receiver (normalised, by contract); `other0` the argument.               *)
(*   result  - the receiver afterwards                                      *)
(*   change  - the returned Mergeable (nil <=> change.nil)                  *)
(*   taken / tomb / resolved / pre - bookkeeping used by properties & tests *)
Merge(mine, other0, localCAS, now) ==
    LET other   == Normalize(other0)
        taken   == {i \in Inst : Supersedes(other[i], mine[i])}
        tomb    == IF localCAS
                   THEN {i \in Inst : Present(mine[i]) /\ ~Present(other[i]) /\ ~IsLeft(mine[i])}
                   ELSE {}
        updated == taken \cup tomb
        \* the `tokensChanged` shortcut: only strictly newer entries are compared
        tokChg  == \E i \in Inst : StrictlyNewer(other[i], mine[i]) /\ mine[i].toks # other[i].toks
        pre     == [i \in Inst |-> IF i \in taken THEN other[i]
                                   ELSE IF i \in tomb THEN [ts |-> now, state |-> "LEFT", toks |-> {}]
                                   ELSE mine[i]]
        resolved == tokChg /\ Conflicts(pre)
        res     == IF resolved THEN Resolve(pre) ELSE pre
    IN  IF updated = {}
        THEN [result |-> mine, change |-> NoChange, taken |-> {}, tomb |-> {}, resolved |-> FALSE, pre |-> mine]
        ELSE [result |-> res,
              change |-> [nil |-> FALSE, d |-> [i \in Inst |-> IF i \in updated THEN res[i] ELSE Absent]],
              taken |-> taken, tomb |-> tomb, resolved |-> resolved, pre |-> pre]

(* Gossip merges (localCAS = FALSE; `now` is irrelevant).                   *)
R(a, b) == Merge(a, b, FALSE, 0).result
C(a, b) == Merge(a, b, FALSE, 0).change
Apply(a, ch) == IF ch.nil THEN a ELSE R(a, ch.d)
Contains(r, a) == R(r, a) = r

(* What clients see: tombstones stripped (RemoveTombstones(zero time)).     *)
Logical(d) == [i \in Inst |-> IF IsLeft(d[i]) THEN Absent ELSE d[i]]

---------------------------------------------------------------------------
(* The provisos of the property's statement.                                *)
(*  - each (entry, timestamp) pair denotes one content, unless one of the   *)
(*    two is a removal;                                                     *)
(*  - no two instances claim the same token;                                *)
(*  - timestamps are real clock readings (> 0): an entry stamped 0 is       *)
(*    indistinguishable from a missing one (ZeroTimestamp deviation below). *)
OneContent(x, y) ==
    \A i \in Inst : Present(x[i]) /\ Present(y[i]) /\ x[i].ts = y[i].ts
                    => NormEntry(x[i]) = NormEntry(y[i]) \/ IsLeft(x[i]) \/ IsLeft(y[i])
NoSharedTokens(S) ==
    \A x, y \in S : \A i, j \in Inst : i # j => NormEntry(x[i]).toks \cap NormEntry(y[j]).toks = {}
PositiveTs(x) == \A i \in Inst : Present(x[i]) => x[i].ts > 0
Provisos(S) == /\ \A x, y \in S : OneContent(x, y)
               /\ NoSharedTokens(S)
               /\ \A x \in S : PositiveTs(x) /\ Normal(x)

Max(x, y) == IF x >= y THEN x ELSE y

(* Named deviation ZeroTimestamp: a missing entry is compared as "stamped   *)
(* 0, not LEFT", so an entry that really is stamped 0 is never accepted by  *)
(* a replica that lacks it - unless it is a removal, which wins the tie     *)
(* against the missing entry.  Real timestamps are time.Now().Unix() > 0;   *)
(* the laws therefore assume PositiveTs, the replayed cases do not.         *)
ZeroTimestamp(e) == Present(e) /\ e.ts = 0 => (Supersedes(NormEntry(e), Absent) <=> IsLeft(e))

(* Every law that needs the provisos is stated as  Law == Provisos => LawB  *)
(* so that a model can evaluate the provisos once per operand tuple.        *)

(* --- laws of pairs ------------------------------------------------------ *)
(* Idempotency holds without any proviso (even with collisions and raw b).  *)
Idem(a, b) == /\ R(R(a, b), b) = R(a, b)
              /\ C(R(a, b), b).nil
(* An argument need not be normalised: it is as if it were.                 *)
NormalizeInvisible(a, b) == Merge(a, b, FALSE, 0) = Merge(a, Normalize(b), FALSE, 0)
CommB(a, b) == R(a, b) = R(b, a)
Comm(a, b)  == Provisos({a, b}) => CommB(a, b)
(* "a merge that reports no change leaves the logical content untouched";   *)
(* in fact it leaves everything untouched, and conversely (under provisos). *)
NilIsNoop(a, b)  == C(a, b).nil => R(a, b) = a /\ Logical(R(a, b)) = Logical(a)
NilConverseB(a, b) == R(a, b) = a => C(a, b).nil
NilConverse(a, b)  == Provisos({a, b}) => NilConverseB(a, b)
NewestWins(a, b) ==
    \A i \in Inst :
       LET r == R(a, b)[i]
           o == NormEntry(b[i]) IN
       /\ r.ts = Max(a[i].ts, b[i].ts)
       /\ StrictlyNewer(o, a[i]) => r.state = o.state /\ r.toks \subseteq o.toks
       /\ ~Supersedes(o, a[i]) => r.state = a[i].state /\ r.toks \subseteq a[i].toks
       /\ NoSharedTokens({a, b}) /\ StrictlyNewer(o, a[i]) => r = o
       /\ NoSharedTokens({a, b}) /\ ~Supersedes(o, a[i]) => r = a[i]
RemovalWinsTies(a, b) ==
    \A i \in Inst : Present(a[i]) /\ Present(b[i]) /\ a[i].ts = b[i].ts /\ (IsLeft(a[i]) \/ IsLeft(b[i]))
                    => R(a, b)[i] = [ts |-> a[i].ts, state |-> "LEFT", toks |-> {}]
(* The change is sufficient for the sender's own pre-state ...              *)
DeltaSelfB(a, b) == Apply(a, C(a, b)) = R(a, b)
DeltaSelf(a, b)  == Provisos({a, b}) => DeltaSelfB(a, b)
(* ... and for any replica r that already contains that pre-state.          *)
DeltaOtherB(a, b, r) == Contains(r, a) => Apply(r, C(a, b)) = R(r, b)
DeltaOther(a, b, r)  == Provisos({a, b, r}) => DeltaOtherB(a, b, r)
(* The change never mentions an entry that was not updated, and an updated  *)
(* entry appears in it as it is in the result (i.e. *after* resolution); a  *)
(* tombstone made by a local CAS is stamped `now` and has no tokens.        *)
ChangeShape(mine, other, cas, now) ==
    LET m == Merge(mine, other, cas, now) IN
    /\ m.change.nil <=> m.taken \cup m.tomb = {}
    /\ ~m.change.nil => \A i \in Inst : m.change.d[i] = IF i \in m.taken \cup m.tomb THEN m.result[i] ELSE Absent
    /\ \A i \in Inst \ (m.taken \cup m.tomb) : m.result[i].ts = mine[i].ts /\ m.result[i].state = mine[i].state
    /\ \A i \in m.tomb : m.result[i] = [ts |-> now, state |-> "LEFT", toks |-> {}]

(* --- laws of triples ---------------------------------------------------- *)
AssocB(a, b, c) == R(a, R(b, c)) = R(R(a, b), c)
Assoc(a, b, c)  == Provisos({a, b, c}) => AssocB(a, b, c)

RECURSIVE Fold(_, _)
Fold(s, seq) == IF seq = <<>> THEN s ELSE Fold(R(s, Head(seq)), Tail(seq))
Perm3 == {p \in [1..3 -> 1..3] : \A i, j \in 1..3 : i # j => p[i] # p[j]}

(* Replicas that received the same set of <= 3 updates in any order,        *)
(* grouping or multiplicity (and, for a replica fed by a relay, as the      *)
(* relay's successive changes) hold the same descriptor.  The schedule      *)
(* shapes are the ones harness/c03 executes on real objects.                *)
Target(a, b, c) == Fold(Empty, <<a, b, c>>)
Schedules(x, y, z) ==
    << <<x, y, z>>,                         \* 1 order
       <<x, y, x, z, y, z, x>>,             \* 2 duplication
       <<R(x, y), z>>,                      \* 3 sender pre-merged x and y
       <<x, R(y, z)>>,                      \* 4
       <<R(x, R(y, z))>>,                   \* 5
       <<R(R(x, y), z), y>> >>              \* 6
Relayed(x, y, z) == Apply(Apply(R(Empty, x), C(x, y)), C(R(x, y), z))   \* 7 changes forwarded by a relay that had x
ConvergenceB(a, b, c) ==
      LET u == <<a, b, c>> t == Target(a, b, c) IN
      \A p \in Perm3 :
         LET x == u[p[1]] y == u[p[2]] z == u[p[3]] s == Schedules(x, y, z) IN
         /\ \A k \in DOMAIN s : Fold(Empty, s[k]) = t
         /\ Relayed(x, y, z) = t
Convergence(a, b, c) == Provisos({a, b, c}) => ConvergenceB(a, b, c)

---------------------------------------------------------------------------
(* C05 state predicates.                                                    *)
TokenUnique(d) == \A i, j \in Inst : i # j /\ ~IsLeft(d[i]) /\ ~IsLeft(d[j]) => d[i].toks \cap d[j].toks = {}
LeftHasNoTokens(d) == \A i \in Inst : IsLeft(d[i]) => d[i].toks = {}
Owner(d, p) == IF Claimants(d, p) = {} THEN 0 ELSE CHOOSE i \in Claimants(d, p) : TRUE

(* Whenever a merge meets a fresh collision, the position goes to the       *)
(* claimant the rule names and every other claimant lacks it.               *)
CollisionRule(mine, other, cas, now) ==
    LET m == Merge(mine, other, cas, now) IN
    \A p \in Pos : Cardinality(Claimants(m.pre, p)) > 1 =>
        /\ m.resolved
        /\ Claimants(m.result, p) = {Winner(m.pre, p)}
=============================================================================
