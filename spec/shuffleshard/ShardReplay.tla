----------------------------- MODULE ShardReplay -----------------------------
(***************************************************************************)
(* C12 (a) bound to the code: cases.ndjson holds concretised inputs of the *)
(* white-box walk - a ring content in rank-compressed form (positions =    *)
(* ranks of the real tokens) and, per zone, the start positions the real   *)
(* code derives from its seeded generator for one identifier (computed by  *)
(* harness/c12 with the exported shard.ShuffleShardSeed + math/rand).      *)
(* For every case TLC evaluates Shard / PShard of ShuffleShard.tla on each *)
(* listed query and prints the member sets; the harness compares them with *)
(* what the real ShuffleShard / ShuffleShardWithLookback return.           *)
(*   {"idx":n,"kind":"inst","M":..,"own":[..],"zone":[..],"mem":[..],      *)
(*    "ro":[..],"reg":[..],"rots":[..],"za":b,"starts":[[..],..],          *)
(*    "queries":[{"size":k,"L":l,"now":t},..]}                             *)
(*   {"idx":n,"kind":"part","M":..,"own":[..],"mem":[..],"st":[..],        *)
(*    "sts":[..],"starts":[..],"queries":[..]}                             *)
(***************************************************************************)
EXTENDS ShuffleShard, TLC, Json

Cases == ndJsonDeserialize("cases.ndjson")

VARIABLE l
Init == l = 0
Next == l < Len(Cases) /\ l' = l + 1

Range(s) == {s[j] : j \in 1..Len(s)}

InstC(c) == [M |-> c.M, own |-> c.own, zone |-> c.zone, mem |-> Range(c.mem), za |-> c.za,
             ro |-> c.ro, reg |-> c.reg, rots |-> c.rots, starts |-> c.starts]
PartC(c) == [M |-> c.M, own |-> c.own, mem |-> Range(c.mem), st |-> c.st, sts |-> c.sts, starts |-> c.starts]

Answers(c) == [j \in 1..Len(c.queries) |->
                 LET q == c.queries[j]
                 IN IF c.kind = "inst" THEN Shard(InstC(c), q.size, q.L, q.now)
                                       ELSE PShard(PartC(c), q.size, q.L, q.now)]

Emit == l >= 1 => PrintT(ToJson([idx |-> Cases[l].idx, S |-> Answers(Cases[l])]))
=============================================================================
