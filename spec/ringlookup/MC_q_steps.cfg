\* q_steps: see checks/ringlookup_common.py (UNIVERSES) for what this universe is for
CONSTANTS
  NK = 4
  Gaps = {1}
  N = 3
  MaxTok = 1
  MaxIdle = 1
  Z = 1
  StateSet = {"ACTIVE", "JOINING"}
  HbSet = {"edge"}
  RFMax = 2
  Canon = 1
  WithRemove = TRUE
  EmitOn = TRUE
INIT Init
NEXT Next
VIEW View
INVARIANTS TypeOK SizeOK ZoneOK ClockwiseFirst SlackExact WalkDefsAgree QuorumIntersection Emit
PROPERTIES MinimalDisruption
CHECK_DEADLOCK FALSE
