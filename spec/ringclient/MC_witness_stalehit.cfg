\* non-vacuity witness: NeverStaleHit is EXPECTED to be violated (the situation it denies is reachable)
CONSTANTS
  Inst = {1, 2}
  Ident = {1}
  Sizes = {1}
  Lookbacks = {1}
  Times = {3, 4}
  Readers = {}
  MaxUpd = 3
  ZoneAware = FALSE
  Addrs = {1, 2}
  Zones = {1}
  Toks = {0}
  Stamps = {0, 2}
  States = {"ACTIVE", "LEAVING"}
  Beats = {1, 2}
  Compute <- MCCompute
  InitDescs <- NarrowInitDescs
INIT Init
NEXT Next
INVARIANT NeverStaleHit
