CONSTANTS
  NK = 9
  Gaps = {4}
  N = 4
  Z = 1
  MaxTok = 3
INIT Init
NEXT Next
INVARIANTS TypeOK RangesAreOwnership Tiling Emit
CHECK_DEADLOCK FALSE
