package c16

import (
	"context"
	"fmt"
	"sort"
	"sync"
	"testing"
	"testing/synctest"
	"time"

	"github.com/go-kit/log"
	"github.com/grafana/dskit/kv"
	"github.com/grafana/dskit/kv/consul"
	"github.com/grafana/dskit/ring"
	"github.com/grafana/dskit/services"
)

// recKV reports the value of every successful CAS, in the order in which the writes succeed.
type recKV struct {
	kv.Client
	mu      sync.Mutex
	onWrite func(*ring.Desc)
}

func (k *recKV) CAS(ctx context.Context, key string, f func(in interface{}) (out interface{}, retry bool, err error)) error {
	var last interface{}
	err := k.Client.CAS(ctx, key, func(in interface{}) (interface{}, bool, error) {
		out, retry, err := f(in)
		last = out
		return out, retry, err
	})
	if err == nil && last != nil {
		if d, ok := last.(*ring.Desc); ok && d != nil {
			k.mu.Lock()
			k.onWrite(d)
			k.mu.Unlock()
		}
	}
	return err
}

// segLifecyclers: REAL ring.Lifecycler instances with the spread-minimising generator (CanJoin check on) on one
// in-memory store under the virtual clock. In zone b they are started in REVERSE index order, so only the CanJoin
// gate can make them register in index order. Every ring write in which an instance appears with tokens for the
// first time is logged as that member's GenerateTokens(NumTokens, ring tokens) = registered tokens; an instance
// that disappears is a leave. The specification's cluster machine then checks the contract clauses, AllDistinct,
// SpreadOwnReserve, NeverShort and PrefixWhenGrowing on what the lifecyclers really registered.
func segLifecyclers(t *testing.T, seed int64, thorough bool) *segment {
	r := newRecorder("lifecyclers", seed)
	zones := []string{"zone-b", "zone-a"} // unsorted on purpose
	sortedZones := []string{"zone-a", "zone-b"}
	nInst := 3
	if thorough {
		nInst = 6
	}
	type inst struct {
		id     string
		z, i   int
		g      *genInfo
		lc     *ring.Lifecycler
		member int
	}
	var all []*inst
	byID := map[string]*inst{}
	for z, zname := range sortedZones {
		for i := 0; i < nInst; i++ {
			id := fmt.Sprintf("ingester-%s-%d", zname, i)
			g := r.spreadByName("ingester-"+zname+"-", i, fmt.Sprint(i), zname, zones, true, true)
			if g == nil {
				continue
			}
			r.observe(g, nil)
			in := &inst{id: id, z: z, i: i, g: g, member: i*8 + z}
			all = append(all, in)
			byID[id] = in
		}
	}
	registered := map[string]bool{}
	fatal := ""
	synctest.Test(t, func(t *testing.T) {
		inner, closer := consul.NewInMemoryClient(ring.GetCodec(), log.NewNopLogger(), nil)
		defer closer.Close()
		store := &recKV{Client: inner}
		store.onWrite = func(d *ring.Desc) {
			ids := make([]string, 0, len(d.Ingesters))
			for id := range d.Ingesters {
				ids = append(ids, id)
			}
			sort.Strings(ids)
			for _, id := range ids {
				in := byID[id]
				toks := d.Ingesters[id].Tokens
				if in == nil || len(toks) == 0 || registered[id] {
					continue
				}
				registered[id] = true
				r.seg.calls++
				r.seg.nontrivial++
				r.seg.add(ev{"ev": "call", "h": in.g.h, "req": reserveSize, "taken": []limb{}, "member": in.member,
					"out": limbs(toks), "panic": false, "msg": "", "lifecycler": id})
			}
			for id, was := range registered {
				if _, still := d.Ingesters[id]; was && !still {
					registered[id] = false
					r.seg.add(ev{"ev": "leave", "member": byID[id].member})
				}
			}
		}
		start := func(in *inst) {
			gen, err := ring.NewSpreadMinimizingTokenGenerator(in.id, sortedZones[in.z], zones, true)
			if err != nil {
				fatal = err.Error()
				return
			}
			var lc ring.LifecyclerConfig
			lc.RingConfig.KVStore.Mock = store
			lc.RingConfig.HeartbeatTimeout = time.Minute
			lc.RingConfig.ReplicationFactor = 1
			lc.NumTokens = reserveSize
			lc.HeartbeatPeriod = 5 * time.Second
			lc.HeartbeatTimeout = time.Minute
			lc.JoinAfter = 0
			lc.ObservePeriod = 0
			lc.MinReadyDuration = 0
			lc.FinalSleep = 0
			lc.Zone = sortedZones[in.z]
			lc.UnregisterOnShutdown = true
			lc.Addr = fmt.Sprintf("10.0.%d.%d", in.z, in.i)
			lc.Port = 1
			lc.ID = in.id
			lc.RingTokenGenerator = gen
			l, err := ring.NewLifecycler(lc, nil, "verif", "ring", false, log.NewNopLogger(), nil)
			if err != nil {
				fatal = err.Error()
				return
			}
			in.lc = l
			if err := l.StartAsync(context.Background()); err != nil {
				fatal = err.Error()
			}
		}
		// zone a in index order, zone b in reverse order, one start per virtual second
		var order []*inst
		for i := 0; i < nInst; i++ {
			order = append(order, all[i])                 // zone a: 0,1,2
			order = append(order, all[nInst+nInst-1-i])    // zone b: n-1,..,0
		}
		for _, in := range order {
			start(in)
			time.Sleep(time.Second)
			synctest.Wait()
		}
		time.Sleep(20 * time.Second)
		synctest.Wait()
		// stop them (highest index first, so that the ring shrinks from the top), every entry is removed
		for k := len(all) - 1; k >= 0; k-- {
			if all[k].lc == nil {
				continue
			}
			all[k].lc.StopAsync()
			time.Sleep(time.Second)
			synctest.Wait()
		}
		for _, in := range all {
			if in.lc != nil {
				_ = services.StopAndAwaitTerminated(context.Background(), in.lc)
			}
		}
	})
	if fatal != "" {
		r.seg.panics = append(r.seg.panics, "driver: "+fatal)
	}
	nreg := 0
	for _, e := range r.seg.events {
		if e["lifecycler"] != nil {
			nreg++
		}
	}
	if nreg != len(all) {
		r.seg.panics = append(r.seg.panics, fmt.Sprintf("driver: %d of %d lifecyclers registered tokens", nreg, len(all)))
	}
	return r.seg
}
