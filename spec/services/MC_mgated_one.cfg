CONSTANTS
  NS = 1
  NML = 1
  WH = {1}
  WS = {}
  ParentCancels = FALSE
  DirectStops = FALSE
INIT MGInit
NEXT MGNext
VIEW MGView
INVARIANTS MTypeOK ViewIsLastDelivered QuiescentViewExact HealthyExact StoppedExact HealthyLatchExact MNoDoubleClose FailureReportedOnce MListenerOrder MNotifierNeverBlocks MWaitersExact StartResultExact MQuiescent MEmitInit
ACTION_CONSTRAINT MEmitTransition
CHECK_DEADLOCK FALSE
