\* C06 behaviour generation: 3 nodes, 2 ids, clock 0..5, retention 2 s, T = 2, up to 8 CAS and 4
\* faults, blocking watchers on nodes 1 and 2, gated workers (channel capacity 1) on nodes 2 and 3;
\* about a quarter of the behaviours start with the relay script.
CONSTANTS
  N = 3
  NI = 2
  NK = 2
  MaxClock = 5
  Retention = 2
  T = 2
  MaxCas = 8
  MaxFaults = 4
  LiveStates = {"ACTIVE", "LEAVING", "PENDING"}
  WatchNodes = {1, 2, 3}
  HoldNodes = {1, 2}
  AllowRestart = TRUE
  AllowGarbage = TRUE
  AllowPartition = TRUE
  AllowJunkPP = TRUE
  GateNodes = {2, 3}
  InboxCap = 1
  VersionTest = TRUE
  KeyTest = TRUE
  MaxDel = 0
  ObsoleteTimeout = 1
  LockKeys = {}
  ConsumeNet = FALSE
  Ideal = TRUE
  Ghost = TRUE
  Record = TRUE
  Quiesce = TRUE
  RunDepth = @@RUN@@
  QRounds = 2
INIT Init
NEXT SimNext
INVARIANTS TypeOK TombstonesInvisible NoInventedContent WatcherNeverStale PrefixWatcherNeverStale QuiescentOK EmitDone
PROPERTIES TombstonesForwarded NoResurrection GCOnlyExpired NoExpiredTombstoneStored OnlyChangesForwarded DeletedStaysDeleted RemovedOnlyWhenObsolete DeletedNotRevived
CHECK_DEADLOCK FALSE
