--------------------------- MODULE FailureWatcher ---------------------------
(***************************************************************************)
(* C17 (failure fan-in) - services.FailureWatcher (failure_watcher.go)     *)
(* watching NS services.  WatchService adds a service listener whose       *)
(* Failed callback SENDS on the watcher's UNBUFFERED channel, so the       *)
(* listener goroutine of a failed service stays in that send until         *)
(* somebody receives from Chan().  Close takes the watcher's mutex, calls  *)
(* the remove function of every listener (which waits for the listener     *)
(* goroutine to exit - see Service.tla RemoveClose/RemoveDelete/RemoveWait)*)
(* and only then closes the channel.                                       *)
(*                                                                         *)
(* Decided here: every failure is reported at most once, exactly once if   *)
(* the reader keeps reading and the watcher is not closed first; nothing   *)
(* is ever sent on the closed channel; Close returns PROVIDED somebody is  *)
(* still receiving (CloseReturns under ReaderFair).  Without a reader      *)
(* Close blocks for ever while a failure is pending (MC_fw_noreader.cfg is *)
(* the witness; harness/c17 TestFailureWatcherCloseNeedsReader replays it  *)
(* on the real code) - an observation outside the clauses of C17.          *)
(***************************************************************************)
EXTENDS Integers, Sequences, FiniteSets, TLC

CONSTANTS NS, ReaderFair

Svc == 1..NS

VARIABLES st,       \* st[s]: "ok" | "failed"  (the watched service)
          lgo,      \* listener goroutine of s: "idle" | "sending" | "exited"
          pend,     \* pend[s]: a Failed notification is queued for the listener goroutine
          stopd,    \* stop channel of the listener closed (remove function called)
          cpc,      \* Close: 0 not called | index of the listener being removed | NS+1 closing the channel | NS+2 returned
          chClosed, \* the watcher's channel is closed
          got,      \* got[s]: how often the reader received the failure of s
          sendOnClosed
vars == <<st, lgo, pend, stopd, cpc, chClosed, got, sendOnClosed>>

Init == /\ st = [s \in Svc |-> "ok"] /\ lgo = [s \in Svc |-> "idle"] /\ pend = [s \in Svc |-> FALSE]
        /\ stopd = [s \in Svc |-> FALSE] /\ cpc = 0 /\ chClosed = FALSE
        /\ got = [s \in Svc |-> 0] /\ sendOnClosed = FALSE

\* the service fails; its (still registered) listener gets the notification
Fail(s) == /\ st[s] = "ok" /\ st' = [st EXCEPT ![s] = "failed"]
           /\ pend' = [pend EXCEPT ![s] = ~stopd[s]]
           /\ UNCHANGED <<lgo, stopd, cpc, chClosed, got, sendOnClosed>>
\* the listener goroutine takes the notification and starts w.ch <- err
StartSend(s) == /\ lgo[s] = "idle" /\ pend[s]
                /\ lgo' = [lgo EXCEPT ![s] = "sending"] /\ pend' = [pend EXCEPT ![s] = FALSE]
                /\ sendOnClosed' = (sendOnClosed \/ chClosed)
                /\ UNCHANGED <<st, stopd, cpc, chClosed, got>>
\* somebody receives from Chan(): the send completes
Recv(s) == /\ lgo[s] = "sending" /\ ~chClosed
           /\ lgo' = [lgo EXCEPT ![s] = "idle"] /\ got' = [got EXCEPT ![s] = @ + 1]
           /\ UNCHANGED <<st, pend, stopd, cpc, chClosed, sendOnClosed>>
\* listener goroutine exits: stop closed (or the service is terminal and nothing is queued)
Exit(s) == /\ lgo[s] = "idle" /\ (stopd[s] \/ (st[s] = "failed" /\ ~pend[s]))
           /\ lgo' = [lgo EXCEPT ![s] = "exited"]
           /\ UNCHANGED <<st, pend, stopd, cpc, chClosed, got, sendOnClosed>>

\* Close(): for each listener stop() = close(stop); remove; wg.Wait()
CloseCall == /\ cpc = 0 /\ cpc' = 1 /\ stopd' = [stopd EXCEPT ![1] = TRUE]
             /\ UNCHANGED <<st, lgo, pend, chClosed, got, sendOnClosed>>
CloseNext == /\ cpc \in Svc /\ lgo[cpc] = "exited"
             /\ cpc' = cpc + 1
             /\ stopd' = IF cpc = NS THEN stopd ELSE [stopd EXCEPT ![cpc + 1] = TRUE]
             /\ UNCHANGED <<st, lgo, pend, chClosed, got, sendOnClosed>>
CloseChan == /\ cpc = NS + 1 /\ cpc' = NS + 2 /\ chClosed' = TRUE
             /\ UNCHANGED <<st, lgo, pend, stopd, got, sendOnClosed>>

Internal == (\E s \in Svc : StartSend(s) \/ Exit(s)) \/ CloseNext \/ CloseChan
Reader == \E s \in Svc : Recv(s)
Next == (\E s \in Svc : Fail(s)) \/ CloseCall \/ Internal \/ Reader

Spec == Init /\ [][Next]_vars /\ WF_vars(Internal) /\ (IF ReaderFair THEN WF_vars(Reader) ELSE TRUE)

TypeOK == /\ \A s \in Svc : st[s] \in {"ok", "failed"} /\ lgo[s] \in {"idle", "sending", "exited"}
          /\ cpc \in 0..(NS + 2)
ReportedAtMostOnce == \A s \in Svc : got[s] <= 1 /\ (got[s] = 1 => st[s] = "failed")
NeverSendOnClosed == ~sendOnClosed /\ (chClosed => \A s \in Svc : lgo[s] = "exited")
\* with a reader and no Close, every failure is eventually reported
EveryFailureReported == \A s \in Svc : (st[s] = "failed" /\ cpc = 0) ~> (got[s] = 1 \/ cpc # 0)
\* Close returns - only if somebody keeps receiving
CloseReturns == (cpc # 0) ~> (cpc = NS + 2)
=============================================================================
