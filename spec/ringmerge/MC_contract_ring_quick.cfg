\* C03 Mergeable contract, instance ring, quick: two ids sharing one position
CONSTANTS
  N = 2
  M = 1
  Shared = TRUE
  TsSet = {1, 2}
  LiveSt = {"ACTIVE"}
  Lim2Set = {0, 1, 2, 3, 4, 5}
  NowSet = {3}
INIT Init
NEXT Next
INVARIANTS SeedLaws CaseLaws Emit
CHECK_DEADLOCK FALSE
