CONSTANTS
  N = 4
  Graphs <- ClosedShapes
  Faults = {}
  AwaitStoppingInner = TRUE
  LateStart = FALSE
INIT InitAllStarted
NEXT Next
VIEW view
INVARIANTS TypeOK StopOrderState FailurePropagates FailureIsReported
PROPERTIES StartAfterDeps StopAfterDependants
CHECK_DEADLOCK TRUE
