----------------------------- MODULE ModulesTrace ----------------------------
(***************************************************************************)
(* C18, graph part, code -> spec: validates what the real modules.Manager  *)
(* did (harness/c18/graph_test.go) against the declarative clauses of      *)
(* ModulesDefs - the ones Modules.tla proves of the initialisation         *)
(* algorithm for every DAG.  obs.ndjson has one line per manager:          *)
(*   n, edges      the graph that was built                                *)
(*   hasinit, hassvc  modules with an init function / whose init function  *)
(*                 returns a service                                       *)
(*   runs          calls InitModuleServices(targets...), each a tuple      *)
(*                 <<targets, order, keys, err_at, err>>: the order in     *)
(*                 which init functions ran (Go map iteration makes it     *)
(*                 vary; any admissible order is fine), the keys of the    *)
(*                 returned service map, the module whose init function    *)
(*                 fails (0: none), whether an error came back (0/1)       *)
(*   deps          DependenciesForModule(m) for every m (or empty)         *)
(*   adds          AddDependency(a, B...) attempts on that graph (each on  *)
(*                 a fresh manager): accepted?                             *)
(* TLC walks the file in chunks (one initial state per chunk: parallel)    *)
(* and prints one JSON line per observation that breaks a clause.          *)
(***************************************************************************)
EXTENDS ModulesDefs, TLC, Json

CONSTANT Chunk

Obs == ndJsonDeserialize("obs.ndjson")
NObs == Len(Obs)

VARIABLES i
vars == <<i>>

Deps(o) == {<<e[1], e[2]>> : e \in SeqSet(o.edges)}
Sorted(s) == \A j \in 1..(Len(s) - 1) : s[j] < s[j + 1]

BadRun(tr, H, S, rr) ==
    LET r == [targets |-> rr[1], order |-> rr[2], keys |-> rr[3], err_at |-> rr[4], err |-> rr[5] = 1]
        T == SeqSet(r.targets)
        fails == r.err_at # 0 /\ r.err_at \in NeededT(tr, T) \cap H
        named(c, name) == IF c THEN {} ELSE {name}
    IN  named(InitOnce(r.order), "InitOnce")
        \cup named(InitOnlyNeeded(tr, T, H, r.order), "InitOnlyNeeded")
        \cup named(InitAfterDeps(tr, H, r.order), "InitAfterDeps")
        \cup (IF fails
              THEN named(r.err /\ Len(r.order) > 0 /\ r.order[Len(r.order)] = r.err_at, "InitStopsAtFailure")
              ELSE named(~r.err, "InitSucceeds")
                   \cup named(InitAllNeeded(tr, T, H, r.order), "InitAllNeeded")
                   \cup named(SeqSet(r.keys) = NeededT(tr, T) \cap S, "ServiceMapIsNeededWithService"))

(* DependenciesForModule(m) for every m: the transitive closure, sorted *)
BadDeps(tr, o) ==
    IF \A m \in 1..Len(o.deps) : SeqSet(o.deps[m]) = tr[m] /\ Sorted(o.deps[m])
    THEN {} ELSE {"DependenciesAreTransitiveClosure"}

(* AddDependency(a, B...) on the graph: accepted iff no edge closes a cycle *)
BadAdd(o, t) ==
    LET closes == \E b \in SeqSet(t.B) : ClosesCycle(Deps(o), t.a, b)
    IN  IF t.accepted = ~closes THEN {} ELSE IF closes THEN {"CycleRejected"} ELSE {"AcyclicAccepted"}

(* one line = one manager (graph, which modules have an init function / a service) and everything observed on it *)
Bad(o) ==
    LET tr == TransFn(Deps(o), 1..o.n)
        H == SeqSet(o.hasinit)
        S == SeqSet(o.hassvc)
    IN  UNION {BadRun(tr, H, S, o.runs[j]) : j \in 1..Len(o.runs)}
        \cup BadDeps(tr, o)
        \cup UNION {BadAdd(o, o.adds[j]) : j \in 1..Len(o.adds)}

Witness(o) ==   \* the first run / attempt that breaks a clause
    LET tr == TransFn(Deps(o), 1..o.n)
        H == SeqSet(o.hasinit)
        S == SeqSet(o.hassvc)
        rs == {j \in 1..Len(o.runs) : BadRun(tr, H, S, o.runs[j]) # {}}
        as == {j \in 1..Len(o.adds) : BadAdd(o, o.adds[j]) # {}}
    IN  [run |-> IF rs = {} THEN <<>> ELSE <<o.runs[CHOOSE j \in rs : \A k \in rs : j <= k]>>,
         add |-> IF as = {} THEN <<>> ELSE <<o.adds[CHOOSE j \in as : \A k \in as : j <= k]>>]

Report(j) == LET bad == Bad(Obs[j])
             IN  IF bad = {} THEN TRUE
                 ELSE PrintT(ToJson([line |-> j, case |-> Obs[j].case, bad |-> bad, witness |-> Witness(Obs[j])]))

Init == i \in {j \in 1..NObs : j % Chunk = 1 \/ Chunk = 1} /\ Report(i)
Next == /\ i < NObs /\ i % Chunk # 0
        /\ i' = i + 1
        /\ Report(i + 1)
Spec == Init /\ [][Next]_vars
=============================================================================
