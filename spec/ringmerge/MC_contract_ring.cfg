\* C03 Mergeable contract, instance ring: MergeContent / RemoveTombstones(limit in half seconds) laws on all
\* descriptors of two ids (raw ones included), contract laws on all (stored, incoming, localCAS); gc cases emitted
CONSTANTS
  N = 2
  M = 2
  Shared = TRUE
  TsSet = {1, 2}
  LiveSt = {"ACTIVE"}
  Lim2Set = {0, 1, 2, 3, 4, 5}
  NowSet = {3}
INIT Init
NEXT Next
INVARIANTS SeedLaws CaseLaws Emit
CHECK_DEADLOCK FALSE
