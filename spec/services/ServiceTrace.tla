---------------------------- MODULE ServiceTrace ----------------------------
(***************************************************************************)
(* code -> spec: validation of traces recorded from real BasicServices on  *)
(* which free-running goroutines race StartAsync / StopAsync / parent      *)
(* cancel / AddListener / remove / Await* / State (harness/c17 TestRecord).*)
(*                                                                         *)
(* Only what is visible from outside is logged: call and return of every   *)
(* API call (with its result), begin/end of the three service functions    *)
(* (with their result) and begin/end of listener callbacks (with the       *)
(* event).  Every event carries a stamp from one atomic counter, taken     *)
(* BEFORE a call is made and AFTER it returned, so the stamp order is a    *)
(* sound real-time order; the log is sorted by stamp.  The critical        *)
(* sections of the code are not logged: TLC infers them - between two log  *)
(* events any enabled internal operator of Service.tla may be applied      *)
(* (Silent), an API call takes effect somewhere between its call and its   *)
(* return event.  A trace is accepted iff some such interleaving explains  *)
(* every logged result; TLC prints [accepted |-> t] when it reaches the    *)
(* end of trace t and the check demands that for every t.                  *)
(***************************************************************************)
EXTENDS Service, Json

CONSTANTS NP            \* harness processes 1..NP (one pending API call each)

Log == ndJsonDeserialize("trace.ndjson")
NT == IF Len(Log) = 0 THEN 0 ELSE Log[Len(Log)].t
Traces == [t \in 1..NT |-> SelectSeq(Log, LAMBDA e : e.t = t)]

VARIABLES tid,    \* which trace
          i,      \* next event of Traces[tid]
          op      \* op[p]: the API call process p is in: <<"idle">> | <<name, n, "called">> | <<name, n, "done", result>>
tvars == <<sv, tid, i, op>>

Procs == 1..NP
Tr == Traces[tid]
Last(q) == q[Len(q)]

TInit == /\ tid \in 1..NT
         /\ i = 1
         /\ op = [p \in Procs |-> <<"idle">>]
         /\ sv = InitRec({"start", "run", "stop"}, "any")

Pending(p, name) == Len(op[p]) = 3 /\ op[p][1] = name
Finish(p, res) == op' = [op EXCEPT ![p] = <<op[p][1], op[p][2], "done", res>>]

(* effects of pending API calls - not logged, inferred *)
SilentCall(p) ==
  \/ /\ Pending(p, "StartAsync") /\ StartAsyncEn(sv)
     /\ sv' = StartAsync(sv) /\ Finish(p, <<Last(sv'.startRes)>>)
  \/ /\ Pending(p, "StopAsync")
     /\ \/ StopCheckEn(sv, op[p][2]) /\ sv' = StopCheck(sv, op[p][2])
        \/ StopSwitchEn(sv, op[p][2]) /\ sv' = StopSwitch(sv, op[p][2])
     /\ UNCHANGED op
  \/ /\ Pending(p, "ParentCancel") /\ sv' = ParentCancel(sv) /\ Finish(p, <<>>)
  \/ /\ Pending(p, "AddListener") /\ AddListenerEn(sv, op[p][2])
     /\ sv' = AddListener(sv, op[p][2]) /\ Finish(p, <<>>)
  \/ /\ Pending(p, "Remove")
     /\ LET l == op[p][2] IN
        \/ RemoveCloseEn(sv, l) /\ sv' = RemoveClose(sv, l)
        \/ RemoveDeleteEn(sv, l) /\ sv' = RemoveDelete(sv, l)
        \/ RemoveWaitEn(sv, l) /\ sv' = RemoveWait(sv, l)
        \/ sv.lst[l] = "nop" /\ sv.rpc[l] = "none" /\ sv' = [sv EXCEPT !.rpc[l] = "done"]
     /\ UNCHANGED op
  \/ /\ Pending(p, "AwaitCancel")        \* the cancelled context wins the select, or it does not
     /\ \/ AwaitCancelEn(sv, op[p][2]) /\ sv' = AwaitCancel(sv, op[p][2])
        \/ UNCHANGED sv
     /\ Finish(p, <<>>)
  \/ /\ Pending(p, "State") /\ UNCHANGED sv /\ Finish(p, <<sv.state>>)
  \/ /\ Pending(p, "FailureCase") /\ UNCHANGED sv /\ Finish(p, <<sv.failure>>)

(* the code's own steps that leave no log event *)
SilentCode ==
  /\ UNCHANGED op
  /\ \/ aMAfterStart \/ aMToRunning \/ aMToStopping \/ aMCancel \/ aMFinal
     \/ \E l \in Lis : aLExit(l)
     \/ \E w \in Waiters : aAwaitWake(w) \/ aAwaitFail(w)

Silent == /\ i <= Len(Tr) /\ UNCHANGED <<tid, i>>
          /\ (SilentCode \/ \E p \in Procs : SilentCall(p))

(* log events *)
RetOK(ev) ==
  IF ev.s = "StopAsync" THEN sv.spc[ev.n] = (IF ev.v = <<"panic">> THEN "panicked" ELSE "done")
  ELSE IF ev.s = "Remove" THEN sv.rpc[ev.n] = "done"
  ELSE IF ev.s = "Await" THEN sv.wpc[ev.n] = "returned" /\ sv.wres[ev.n] = ev.v
  ELSE Len(op[ev.p]) = 4 /\ op[ev.p][4] = ev.v

FnBegin(ev) ==
  IF ev.s = "start" THEN MCallStartEn(sv) /\ sv' = MCallStart(sv)
  ELSE IF ev.s = "run" THEN MCallRunEn(sv) /\ sv' = MCallRun(sv)
  ELSE MCallStopEn(sv) /\ sv' = MCallStop(sv) /\ <<sv'.stopCtx, sv'.stopArg>> = ev.v

FnEnd(ev) ==
  IF ev.s = "start" THEN StartFnReturnEn(sv, ev.v[1]) /\ sv' = StartFnReturn(sv, ev.v[1])
  ELSE IF ev.s = "run" THEN RunFnReturnEn(sv, ev.v[1]) /\ sv' = RunFnReturn(sv, ev.v[1])
  ELSE StopFnReturnEn(sv, ev.v[1]) /\ sv' = StopFnReturn(sv, ev.v[1])

Event ==
  /\ i <= Len(Tr) /\ i' = i + 1 /\ UNCHANGED tid
  /\ LET ev == Tr[i] IN
     CASE ev.e = "call" ->
            /\ op[ev.p] = <<"idle">>
            /\ op' = [op EXCEPT ![ev.p] = <<ev.s, ev.n, "called">>]
            /\ IF ev.s = "Await" THEN AwaitCallEn(sv, ev.n) /\ sv' = AwaitCall(sv, ev.n) ELSE UNCHANGED sv
       [] ev.e = "ret" ->
            /\ Len(op[ev.p]) >= 3 /\ op[ev.p][1] = ev.s /\ op[ev.p][2] = ev.n
            /\ RetOK(ev)
            /\ op' = [op EXCEPT ![ev.p] = <<"idle">>]
            /\ UNCHANGED sv
       [] ev.e = "fn.begin" -> UNCHANGED op /\ FnBegin(ev)
       [] ev.e = "fn.end"   -> UNCHANGED op /\ FnEnd(ev)
       [] ev.e = "cb.begin" ->
            /\ UNCHANGED op
            /\ LRecvEn(sv, ev.n) /\ Head(sv.lq[ev.n]) = ev.v /\ sv' = LRecv(sv, ev.n)
       [] ev.e = "cb.end" ->
            /\ UNCHANGED op
            /\ LReturnEn(sv, ev.n) /\ sv' = LReturn(sv, ev.n)

TNext == Event \/ Silent

TView == <<sv, tid, i, op>>

\* printed once per accepting state; the check collects the set of accepted trace ids
Accept == i <= Len(Tr) \/ PrintT(ToJson([accepted |-> tid]))
\* how far each trace got (diagnostics for a rejected trace): high-water mark per trace in TLC registers is
\* not portable across workers, so the check re-runs a rejected trace alone with Progress as invariant
Progress == PrintT(ToJson([trace |-> tid, reached |-> i]))
=============================================================================
