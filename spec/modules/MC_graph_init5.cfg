CONSTANTS
  N = 5
  MaxB = 1
  WithInit = TRUE
  CanonInit = TRUE
  SelfEdgeChecked = TRUE
  EmitCases = FALSE
INIT Init
NEXT Next
VIEW view
INVARIANTS TypeOK GraphAcyclic TrConsistent InitOrder InitExactlyNeeded InitProgress  Emit
PROPERTIES CycleRejected
CHECK_DEADLOCK FALSE
