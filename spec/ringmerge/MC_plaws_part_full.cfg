\* C03 partition ring, thorough: all triples of single-partition descriptors over all states (41^3), every law
CONSTANTS
  NP = 1
  NO = 0
  NOwned = 1
  TsSet = {1, 2}
  PStates = {"Pending", "Active", "Inactive"}
  LockTs = {0, 1, 2}
  Arity = 3
  EmitConv = TRUE
INIT Init
NEXT Next
INVARIANTS PairLaws TripleLaws RawLaws EmitConvergence
CHECK_DEADLOCK FALSE
