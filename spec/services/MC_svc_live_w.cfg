CONSTANTS
  NC = 1
  NL = 0
  WRun = {1}
  WTerm = {2}
  QCap = 4
  MaxIters = 2
  MaxStart = 1
  ParentCancels = TRUE
  Presents = {{"start","run","stop"}}
  RunModes = {"any"}
  GuardNilCancel = @@GUARD@@
SPECIFICATION Spec
INVARIANTS TypeOK ChainedHistory SwitchNeverFails FnOrder RunOnlyAfterStart StopFnIffStarted CtxCancelledBeforeStopFn StopFnGetsRunError ContextReleased ContextOnceStarted WaitersExact NoDoubleClose FirstErrorWins ListenerOrder NotifierNeverBlocks @@NONIL@@ 
PROPERTIES EventuallyTerminal WaitersReturn
CHECK_DEADLOCK FALSE
