\* t_hb: all five states x all three heartbeat classes, 3 single-token instances, zones 0..2
\* (generated from UNIVERSES in checks/ringlookup_common.py: python3 checks/ringlookup_common.py --write-cfgs)
CONSTANTS
  NK = 4
  Gaps = {1}
  N = 3
  MaxTok = 1
  MaxIdle = 0
  Z = 2
  StateSet = {"ACTIVE", "LEAVING", "PENDING", "JOINING", "LEFT"}
  HbSet = {"fresh", "edge", "stale"}
  RFMax = 5
  Canon = 2
  WithRemove = FALSE
  Excl = {}
  EmitOn = TRUE
  EmitSets = FALSE
  XMax = 0
INIT Init
NEXT Next
VIEW View
INVARIANTS TypeOK SizeOK ZoneOK ClockwiseFirst SlackExact WalkDefsAgree QuorumIntersection ExpandedOK Emit
PROPERTIES MinimalDisruption
CHECK_DEADLOCK FALSE
