CONSTANTS
  NSet = {1, 2, 3}
  MaxZ = 3
  Modes = {"default", "zone"}
  Delays = {TRUE, FALSE}
SPECIFICATION Spec
PROPERTIES Termination
CHECK_DEADLOCK FALSE
