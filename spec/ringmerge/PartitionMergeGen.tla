-------------------------- MODULE PartitionMergeGen --------------------------
(***************************************************************************)
(* C03 binding, spec -> code, partition ring: every (mine, other,          *)
(* localCAS, now) of the configured universe is one case with the receiver *)
(* and the change PartitionMerge!Merge demands; harness/c03 executes it on *)
(* real *ring.PartitionRingDesc objects through the exported Merge.        *)
(***************************************************************************)
EXTENDS PartitionMerge, Json

CONSTANTS TsSet, PStates, LockTs, NowSet

VARIABLES mine, other, cas, now, phase
vars == <<mine, other, cas, now, phase>>

UMine == DescsOf(TsSet, PStates, LockTs, FALSE)
URaw  == DescsOf(TsSet, PStates, LockTs, TRUE)

Init == /\ mine \in UMine
        /\ other = Empty /\ cas = FALSE /\ now = 0
        /\ phase = "seed"
Next == /\ phase = "seed"
        /\ phase' = "case"
        /\ mine' = mine
        /\ other' \in URaw
        /\ cas' \in BOOLEAN
        /\ now' \in IF cas' THEN NowSet ELSE {CHOOSE n \in NowSet : \A k \in NowSet : n >= k}
Spec == Init /\ [][Next]_vars

Case == phase = "case"

CaseProps ==
    Case => /\ ChangeShape(mine, other, cas, now)
            /\ Idem(mine, other)
            /\ NilIsNoop(mine, other)
            /\ NewestWins(mine, other)
            /\ RemovalWinsTies(mine, other)

JDesc(d) == [parts |-> d.parts, owners |-> d.owners]
Emit ==
    Case => LET m == Merge(mine, other, cas, now) IN
            PrintT(ToJson([kind |-> "pmerge", mine |-> JDesc(mine), other |-> JDesc(other), cas |-> cas, now |-> now,
                           result |-> JDesc(m.result), nil |-> m.change.nil, change |-> JDesc(m.change.d),
                           created |-> m.created]))
=============================================================================
