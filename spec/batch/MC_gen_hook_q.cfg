CONSTANTS
  MinKeys = 1
  MaxKeys = 2
  NI = 2
  MaxRF = 2
  Shape = "any"
  Grain = "hook"
  Gate = TRUE
  EmptyFix = TRUE
  AllowCancel = FALSE
  EarlyExits = FALSE
  MaxConc = 3
  Spawn = "go"
  Record = TRUE
SPECIFICATION Spec
INVARIANTS TypeOK SingleSend ReturnsOnce SuccessMeansQuorum ErrorMeansNoQuorum ErrorIsReal ChannelErrorIsReal
           EarlyError LastAnswerError DecidedIsDelivered SuccessDelivered NoHang CalledExactly CleanupOnceAfterAll Emit
CHECK_DEADLOCK TRUE
