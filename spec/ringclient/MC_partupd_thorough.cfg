\* partition ring, watcher: 2 updates of any kind (state, tokens, add, remove, owners only, equal) from an empty and a
\* full ring, map cache and LRU of capacity 1, 2 identifiers
CONSTANTS
  Part = {1, 2}
  Owners = {1}
  PIdent = {1, 2}
  PSizes = {1}
  PLookbacks = {1}
  PTimes = {3, 4}
  Capacities = {0, 1}
  PMaxUpd = 2
  PStates = {"PENDING", "ACTIVE", "INACTIVE"}
  PStamps = {2, 3}
  PToks = {0, 1}
  PCompute <- MCPCompute
  PInitDescs <- MCPNarrowInitDescs
INIT PInit
NEXT PNext
INVARIANTS PTypeOK PUnobservable
