\* CacheStackScript.tla: the constants only bound the domains (TypeOK, Init); operations come from scripts.ndjson
CONSTANTS
  StackIds = {1, 2, 3, 4, 5, 6, 7, 8, 9, 10, 11, 12, 13, 14, 15, 16, 17, 18}
  Caps = {1, 2, 3}
  DTTLs = {1, 2, 3}
  Keys = {"k1", "k2", "k3"}
  Values = {"a", "b", "c"}
  TTLs = {0, 1, 2, 3}
  Deltas = {1, 2, 3}
  NViews = 3
  PokeTTLs = {1, 2, 3}
  MaxOps = 1000
  Faults = TRUE
  Full = TRUE
  DetOnly = FALSE
  Wrong = "none"
INIT ScriptInit
NEXT ScriptNext
INVARIANTS TypeOK EncodingConsistent KeysWellPlaced EmitScript
PROPERTIES FailedReadIsLocal FailedWriteKeepsBackend NoErrorWithoutFault NeverWrong NeverAfterDelete NeverAfterDeadline NeverCorrupt ReadIsPeek NoAlias AddSemantics ReadYourWrites DeleteRemoves StopIsInert
CHECK_DEADLOCK FALSE
