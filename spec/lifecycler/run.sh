#!/bin/sh
# usage: run.sh <cfg> [module] [extra tlc args]   (development helper)
cfg=$1; mod=${2:-MC_Lifecycler}; shift; [ $# -gt 0 ] && shift
D=$(mktemp -d); cp /verif/spec/lifecycler/*.tla /verif/spec/lifecycler/*.cfg $D; cd $D
timeout ${TMO:-900} java -XX:+UseParallelGC -Xmx4g -cp /opt/veriftools/tla/tla2tools.jar:/opt/veriftools/tla/CommunityModules-deps.jar tlc2.TLC -metadir $D/md -workers ${W:-4} -deadlock -noGenerateSpecTE -config $cfg "$@" $mod.tla 2>&1 | grep -v "^Progress" | tail -${TAIL:-60}
rm -rf $D
