\* quick tier: decides C19 on the COMPLETE reachable state graph (histories of any length) of every stack
\* without a Versioned layer (one view), with foreign undecodable backend writes.
CONSTANTS
  StackIds = {1, 2, 4, 7, 8}
  Caps = {1, 2}
  DTTLs = {1, 2}
  Keys = {k1, k2}
  Values = {a, b}
  TTLs = {1, 2}
  Deltas = {1}
  NViews = 2
  PokeTTLs = {1}
  MaxOps = 1000
  Faults = FALSE
  Full = FALSE
  DetOnly = FALSE
  Wrong = "none"
INIT Init
NEXT Next
VIEW View
SYMMETRY Sym
INVARIANTS TypeOK EncodingConsistent KeysWellPlaced PkIsPeek PeekNeverWrong PeekNeverAfterDeadline PeekBoundedStaleness
PROPERTIES NeverWrong NeverAfterDelete NeverAfterDeadline NeverCorrupt ReadIsPeek NoAlias AddSemantics ReadYourWrites DeleteRemoves StopIsInert
CHECK_DEADLOCK FALSE
