CONSTANTS
  NS = 2
  Modes = {"services", "manager"}
  ReaderFair = TRUE
SPECIFICATION Spec
INVARIANTS TypeOK ReportedAtMostOnce NeverSendOnClosed
PROPERTIES EveryFailureReported CloseReturns
CHECK_DEADLOCK FALSE
