---------------------------- MODULE RingContract ----------------------------
(***************************************************************************)
(* C03 - the rest of the memberlist.Mergeable contract of the instance     *)
(* ring (kv/memberlist/mergeable.go, as mergeValueForKey / KV.get use it): *)
(*                                                                         *)
(*   MergeContent()          Content(d)   - the ids a value mentions; the  *)
(*                           KV treats a change with empty content as "no  *)
(*                           change" and uses content inclusion to         *)
(*                           invalidate queued broadcasts                  *)
(*   RemoveTombstones(limit) GC(d, lim2)  - LEFT entries stamped strictly  *)
(*                           before `limit` are dropped (all of them for   *)
(*                           the zero time); returns (total kept, removed) *)
(*   Clone()                 the identity on abstract values; the harness  *)
(*                           checks independence of the copy               *)
(*   codec                   Encode/Decode is the identity on abstract     *)
(*                           values (checked by the harness on every case) *)
(*                                                                         *)
(* Limits are measured in HALF seconds (lim2) so that a limit that falls   *)
(* between two clock seconds is part of the universe: the code compares    *)
(* time.Unix(ts, 0).Before(limit), i.e. 2*ts < lim2;  lim2 = 0 stands for  *)
(* the zero time.Time ("remove every tombstone").                          *)
(***************************************************************************)
EXTENDS RingMerge, Json

CONSTANTS TsSet, LiveSt,
          Lim2Set,   \* limits in half seconds (0 = zero time)
          NowSet

VARIABLES a, b, cas, now, phase
vars == <<a, b, cas, now, phase>>

U    == DescsOf(TsSet, LiveSt, FALSE)
URaw == DescsOf(TsSet, LiveSt, TRUE)

---------------------------------------------------------------------------
Content(d) == {i \in Inst : Present(d[i])}

Expired(e, lim2) == IsLeft(e) /\ (lim2 = 0 \/ 2 * e.ts < lim2)
GC(d, lim2) ==
    [result  |-> [i \in Inst |-> IF Expired(d[i], lim2) THEN Absent ELSE d[i]],
     removed |-> Cardinality({i \in Inst : Expired(d[i], lim2)}),
     total   |-> Cardinality({i \in Inst : IsLeft(d[i]) /\ ~Expired(d[i], lim2)})]

(* --- laws of RemoveTombstones ------------------------------------------- *)
GCLaws(d) ==
    /\ GC(d, 0).result = Logical(d)                        \* what KV.get shows
    /\ GC(d, 0).total = 0
    /\ \A l \in Lim2Set :
          LET g == GC(d, l) IN
          /\ g.total + g.removed = Cardinality({i \in Inst : IsLeft(d[i])})
          /\ \A i \in Inst : ~IsLeft(d[i]) => g.result[i] = d[i]          \* live entries are never touched
          /\ \A i \in Inst : g.result[i] \in {d[i], Absent}
          /\ GC(g.result, l) = [result |-> g.result, removed |-> 0, total |-> g.total]   \* "twice with the same limit is a no-op"
          /\ Logical(g.result) = Logical(d)                               \* invisible to readers
          /\ \A k \in Lim2Set : k # 0 /\ l # 0 /\ k <= l => GC(GC(d, k).result, l).result = g.result
    \* boundary: a tombstone stamped t survives the limit t (not strictly before) and goes at t + 1/2 s
    /\ \A i \in Inst : IsLeft(d[i]) /\ d[i].ts > 0 =>
          /\ Present(GC(d, 2 * d[i].ts).result[i])
          /\ ~Present(GC(d, 2 * d[i].ts + 1).result[i])

(* --- Merge and the rest of the contract --------------------------------- *)
ContractLaws(mine, other, c, n) ==
    LET m == Merge(mine, other, c, n) IN
    \* the KV's emptiness test on the change is the nil test
    /\ m.change.nil <=> Content(m.change.d) = {}
    /\ Content(m.change.d) = m.taken \cup m.tomb
    \* Merge never drops an id: only RemoveTombstones does
    /\ PositiveTs(other) => Content(m.result) = Content(mine) \cup Content(other)
    \* mergeValueForKey collects tombstones from result and change with one limit: the change stays the
    \* restriction of the result to the updated ids
    /\ \A l \in Lim2Set :
          LET gr == GC(m.result, l).result  gc == GC(m.change.d, l).result IN
          /\ Content(gc) \subseteq Content(gr)
          /\ \A i \in Content(gc) : gc[i] = gr[i]
          /\ \A i \in (m.taken \cup m.tomb) \ Content(gc) : ~Present(gr[i])

---------------------------------------------------------------------------
Init == /\ a \in URaw
        /\ b = Empty /\ cas = FALSE /\ now = 0
        /\ phase = "seed"
Next == /\ phase = "seed" /\ Normal(a)
        /\ phase' = "case"
        /\ a' = a
        /\ b' \in URaw
        /\ cas' \in BOOLEAN
        /\ now' \in IF cas' THEN NowSet ELSE {0}
Spec == Init /\ [][Next]_vars

SeedLaws == phase = "seed" => GCLaws(a)
CaseLaws == phase = "case" => ContractLaws(a, b, cas, now)

(* Negative control (MC_contract_neg.cfg must be VIOLATED): collecting with *)
(* "stamped at or before the limit" is a different function.                *)
ExpiredWrong(e, lim2) == IsLeft(e) /\ (lim2 = 0 \/ 2 * e.ts <= lim2)
GCWrongIsGC == phase = "seed" =>
    \A l \in Lim2Set : \A i \in Inst : Expired(a[i], l) <=> ExpiredWrong(a[i], l)

JEntry(e) == [ts |-> e.ts, state |-> e.state, toks |-> e.toks]
JDesc(d)  == [i \in Inst |-> JEntry(d[i])]
Emit ==
    phase = "seed" =>
       \A l \in Lim2Set :
          LET g == GC(a, l) IN
          PrintT(ToJson([kind |-> "gc", d |-> JDesc(a), lim2 |-> l, result |-> JDesc(g.result),
                         total |-> g.total, removed |-> g.removed, content |-> Content(a)]))
=============================================================================
