\* t_hb: see checks/ringlookup_common.py (UNIVERSES) for what this universe is for
CONSTANTS
  NK = 4
  Gaps = {1}
  N = 3
  MaxTok = 1
  MaxIdle = 0
  Z = 0
  StateSet = {"ACTIVE", "LEAVING", "PENDING", "JOINING", "LEFT"}
  HbSet = {"fresh", "edge", "stale"}
  RFMax = 3
  Canon = 2
  WithRemove = FALSE
  EmitOn = TRUE
INIT Init
NEXT Next
VIEW View
INVARIANTS TypeOK SizeOK ZoneOK ClockwiseFirst SlackExact WalkDefsAgree QuorumIntersection Emit
PROPERTIES MinimalDisruption
CHECK_DEADLOCK FALSE
