\* C06 behaviour generation: 2 nodes, no tombstone collection, T = 1.
CONSTANTS
  N = 2
  NI = 2
  MaxClock = 3
  Retention = 0
  T = 1
  MaxCas = 8
  MaxFaults = 4
  LiveStates = {"ACTIVE", "LEAVING"}
  WatchNodes = {1, 2}
  HoldNodes = {1, 2}
  AllowRestart = TRUE
  AllowGarbage = TRUE
  AllowPartition = TRUE
  AllowJunkPP = TRUE
  ConsumeNet = FALSE
  Ideal = TRUE
  Ghost = TRUE
  Record = TRUE
  Quiesce = TRUE
  RunDepth = @@RUN@@
  QRounds = 2
INIT Init
NEXT SimNext
INVARIANTS TypeOK TombstonesInvisible NoInventedContent WatcherNeverStale QuiescentOK EmitDone
PROPERTIES TombstonesForwarded NoResurrection GCOnlyExpired NoExpiredTombstoneStored OnlyChangesForwarded
CHECK_DEADLOCK FALSE
