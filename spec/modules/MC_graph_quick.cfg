CONSTANTS
  N = 4
  MaxB = 2
  WithInit = TRUE
  CanonInit = TRUE
  SelfEdgeChecked = TRUE
  EmitCases = TRUE
INIT Init
NEXT Next
VIEW view
INVARIANTS TypeOK GraphAcyclic TrConsistent InitOrder InitExactlyNeeded InitProgress ProjectionLemma Emit
PROPERTIES CycleRejected
CHECK_DEADLOCK FALSE
