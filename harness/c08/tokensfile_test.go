package c08

import (
	"encoding/json"
	"errors"
	"fmt"
	"os"
	"path/filepath"
	"testing"

	"github.com/grafana/dskit/ring"

	"verifharness/internal/abs"
)

type fileCall struct {
	K    int    `json:"k"`    // token set stored
	At   string `json:"at"`   // stage at which the call is aborted ("" = completes)
	Main int    `json:"main"` // what a reader must find afterwards: 0 no file, k the tokens of set k
}

// token sets of increasing serialized length (Size = 1, 2, 2, 3 in TokensFile.tla): fewer tokens and
// fewer digits make a shorter file.
var fileSets = map[int]ring.Tokens{
	1: {7},
	2: {1000001, 2000002},
	3: {3000003, 4000004},
	4: {4294967290, 4294967291, 4294967295},
}

func fileSetsFor(k int) map[int]ring.Tokens {
	if k == 3 { // sizes 1, 2, 3
		return map[int]ring.Tokens{1: fileSets[1], 2: fileSets[2], 3: fileSets[4]}
	}
	return fileSets
}

// TestTokensFile replays every call sequence spec/lifecycler/TokensFile.tla emits (each
// Tokens.StoreToFile completes or is aborted at one of its stages through the failpoints of build
// tag verif) on real files, and after every call compares what LoadTokensFromFile finds with
// what the specification says a reader must find.
func TestTokensFile(t *testing.T) {
	in := os.Getenv("VERIF_IN")
	if in == "" {
		t.Skip("VERIF_IN not set")
	}
	sets := fileSetsFor(abs.EnvInt("VERIF_K", 3))
	res := &abs.Result{}
	defer res.Write(t)
	defer func() { ring.VerifFailpoint = nil }()
	seen := map[string]bool{}
	root, err := os.MkdirTemp("", "verif-tf-")
	if err != nil {
		t.Fatal(err)
	}
	defer os.RemoveAll(root)
	n := 0
	err = abs.ReadNDJSON(in, func(line []byte) error {
		if seen[string(line)] {
			return nil
		}
		seen[string(line)] = true
		var calls []fileCall
		if err := json.Unmarshal(line, &calls); err != nil {
			return err
		}
		res.Cases++
		n++
		dir := filepath.Join(root, fmt.Sprint(n))
		if err := os.Mkdir(dir, 0o755); err != nil {
			return err
		}
		path := filepath.Join(dir, "tokens.json")
		aborted := 0
		for ci, c := range calls {
			ring.VerifFailpoint = nil
			if c.At != "" {
				aborted++
				at := c.At
				ring.VerifFailpoint = func(p string) error {
					if p == "tokens.store."+at {
						return errors.New("verif: abort at " + p)
					}
					return nil
				}
			}
			serr := append(ring.Tokens{}, sets[c.K]...).StoreToFile(path)
			ring.VerifFailpoint = nil
			got := -1
			lt, lerr := ring.LoadTokensFromFile(path)
			switch {
			case lerr != nil && os.IsNotExist(lerr):
				got = 0
			case lerr == nil:
				for k, s := range sets {
					if len(lt) == len(s) && lt.Equals(append(ring.Tokens{}, s...)) {
						got = k
					}
				}
			}
			if got != c.Main || (serr == nil) != (c.At == "") {
				found := "garbage"
				if got == 0 {
					found = "nothing"
				} else if got > 0 {
					found = "other-set"
				}
				prev := "first-call"
				if ci > 0 {
					prev = "after-abort=" + calls[ci-1].At
				}
				res.Mismatch(abs.Mismatch{Sig: fmt.Sprintf("tokensfile call abort=%q %s reader-finds=%s", c.At, prev, found), Case: calls,
					Got:  map[string]any{"call": ci, "file": got, "store_error": serr != nil, "load_error": fmt.Sprint(lerr)},
					Want: map[string]any{"file": c.Main, "store_error": c.At != ""}})
				break
			}
		}
		if aborted > 0 {
			res.Nontrivial++
		}
		if res.Cases%500 == 1 {
			res.Sample(calls)
		}
		_ = os.RemoveAll(dir)
		return nil
	})
	if err != nil {
		res.Fatal = err.Error()
	}
}
