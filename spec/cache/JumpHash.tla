------------------------------- MODULE JumpHash -------------------------------
(***************************************************************************)
(* C19, placement - which memcached server a key is sent to                *)
(* (cache/memcached_server_selector.go, cache/jump_hash.go).               *)
(*                                                                         *)
(* Server names are numbers: the name "host-<m>" is m, and the natural     *)
(* order of the names ("host-2" before "host-10") is the numeric order.    *)
(* A key is represented by what jump consistent hashing derives from it:   *)
(* its set of jump destinations J (0 \in J; jumpHash's loop visits         *)
(* j0 = 0 < j1 < j2 < ..., a sequence that depends on the key only, and    *)
(* returns the last one below the number of buckets).                      *)
(*                                                                         *)
(* The specification is relational: ANY J per key is allowed; TLC decides  *)
(* that whatever J is, placement is order-insensitive and append-stable.   *)
(* JumpHashTrace.tla then checks that the placements observed on the real  *)
(* selector are explained by some J per key.                               *)
(***************************************************************************)
EXTENDS Integers, Sequences, FiniteSets, TLC
LOCAL SX == INSTANCE SequencesExt

CONSTANTS N,               \* server names 1..N
          Dups,            \* TRUE = a name may be listed several times ("a server is given more weight if it's listed
                           \* multiple times": the stored list keeps the duplicates, naturally sorted)
          Wrong            \* "none" = the selector as coded; a deliberately WRONG selector otherwise (negative control):
                           \*   "nosort"   SetServers keeps the caller's order     (TLC must refute OrderInsensitive)
                           \*   "offbyone" jumpHash(key, n - 1)                    (TLC must refute AppendStable)

VARIABLES jumps,           \* the key: its jump destinations
          a, b             \* two server lists as passed to SetServers (any order; duplicates iff Dups)

Range(s) == {s[i] : i \in 1..Len(s)}
Max(S)   == CHOOSE x \in S : \A y \in S : y <= x

(* SetServers: the list is stored in natural sort order, duplicates kept *)
Count(s, x) == Cardinality({i \in 1..Len(s) : s[i] = x})
RECURSIVE Rep(_, _)
Rep(x, n) == IF n = 0 THEN <<>> ELSE <<x>> \o Rep(x, n - 1)
RECURSIVE Flat(_, _)
Flat(ds, s) == IF ds = <<>> THEN <<>> ELSE Rep(Head(ds), Count(s, Head(ds))) \o Flat(Tail(ds), s)
NatSort(s) == Flat(SX!SetToSortSeq(Range(s), LAMBDA x, y : x < y), s)

(* jumpHash(key, n) for a key with jump destinations J *)
Bucket(J, n) == Max({j \in J : j < (IF Wrong = "offbyone" /\ n > 1 THEN n - 1 ELSE n)})

(* PickServer *)
PickIn(J, sorted) == sorted[Bucket(J, Len(sorted)) + 1]
Pick(J, servers)  == PickIn(J, IF Wrong = "nosort" THEN servers ELSE NatSort(servers))

Lists == UNION {{s \in [1..n -> 1..N] : Dups \/ \A i, j \in 1..n : i # j => s[i] # s[j]} : n \in 1..N}
JumpSets == {J \in SUBSET (0..(N - 1)) : 0 \in J}

Init == jumps \in JumpSets /\ a \in Lists /\ b \in Lists
Next == UNCHANGED <<jumps, a, b>>

PickInList == Pick(jumps, a) \in Range(a)

(* the same servers in any order place the key on the same server *)
SameServers(x, y) == NatSort(x) = NatSort(y)          \* the same names, each as many times
OrderInsensitive == SameServers(a, b) => Pick(jumps, a) = Pick(jumps, b)

(* b = a plus one server that sorts after all of a's: the key stays or moves to the new server *)
Appended(x, y) == \E m \in Range(y) : /\ NatSort(y) = Append(NatSort(x), m)
                                      /\ \A s \in Range(x) : s < m
AppendStable == Appended(a, b) => Pick(jumps, b) \in {Pick(jumps, a), Max(Range(b))}

(* not part of C19, guards against a vacuous model: some key moves, and it is the sort that matters *)
MonotoneBuckets == \A n \in 1..(N - 1) : Bucket(jumps, n + 1) \in {Bucket(jumps, n), n}

(* Reachability witnesses for the implication-shaped clauses (JumpHashMC.tla ASSUMEs them; the state space is
   exactly Init, so a witness in JumpSets x Lists x Lists is a reachable state): the antecedents are satisfiable
   in both non-trivial ways and the sort is what makes the placement order-insensitive. *)
WitnessSortMatters == \E J \in JumpSets, x, y \in Lists :
                         SameServers(x, y) /\ x # y /\ PickIn(J, x) # PickIn(J, y) /\ Pick(J, x) = Pick(J, y)
WitnessKeyMoves    == \E J \in JumpSets, x, y \in Lists :
                         Appended(x, y) /\ Pick(J, y) # Pick(J, x) /\ Pick(J, y) = Max(Range(y))
WitnessKeyStays    == \E J \in JumpSets, x, y \in Lists :
                         Appended(x, y) /\ Len(x) > 1 /\ Pick(J, y) = Pick(J, x) /\ Pick(J, x) # NatSort(x)[1]
WitnessDuplicate   == Dups => \E J \in JumpSets, x \in Lists :      \* a name listed twice owns two buckets
                         Len(x) = 3 /\ Cardinality(Range(x)) = 2 /\ Pick(J, x) = NatSort(x)[2] /\ NatSort(x)[2] = NatSort(x)[3]
=============================================================================
