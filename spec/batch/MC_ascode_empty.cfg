CONSTANTS
  MinKeys = 0
  MaxKeys = 0
  NI = 1
  MaxRF = 1
  Shape = "any"
  Grain = "atomic"
  Gate = FALSE
  EmptyFix = FALSE
  AllowCancel = FALSE
  EarlyExits = FALSE
  MaxConc = 3
  Spawn = "go"
  Record = FALSE
SPECIFICATION Spec
INVARIANTS TypeOK SingleSend ReturnsOnce SuccessMeansQuorum ErrorMeansNoQuorum ErrorIsReal ChannelErrorIsReal
           EarlyError LastAnswerError DecidedIsDelivered SuccessDelivered CalledExactly CleanupOnceAfterAll
CHECK_DEADLOCK TRUE
