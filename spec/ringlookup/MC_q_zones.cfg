\* q_zones: C02: 4 single-token instances, zones 0..4 (fewer, equal, more than RF 1..4), ACTIVE/JOINING
\* (generated from UNIVERSES in checks/ringlookup_common.py: python3 checks/ringlookup_common.py --write-cfgs)
CONSTANTS
  NK = 5
  Gaps = {2}
  N = 4
  MaxTok = 1
  MaxIdle = 1
  Z = 4
  StateSet = {"ACTIVE", "JOINING"}
  HbSet = {"edge"}
  RFMax = 4
  Canon = 2
  WithRemove = FALSE
  Excl = {}
  EmitOn = TRUE
  EmitSets = TRUE
  XMax = 0
INIT Init
NEXT Next
VIEW View
INVARIANTS TypeOK SizeOK ZoneOK ClockwiseFirst SlackExact WalkDefsAgree QuorumIntersection ExpandedOK Emit
PROPERTIES MinimalDisruption
CHECK_DEADLOCK FALSE
