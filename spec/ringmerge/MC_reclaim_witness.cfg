\* witness: TLC must exhibit a scenario with two re-claims (NeverTwice is expected to be VIOLATED)
CONSTANTS
  N = 3
  M = 3
  Shared = TRUE
  Kind = "basic"
  Me = 2
  NumTok = 1
  PeerTs = {1, 2}
  PeerSt = {"ACTIVE", "LEAVING"}
  MaxDeliver = 2
  MaxClock = 7
  ThinE = 0
  ThinC = 0
  ThinR = 0
INIT Init
NEXT Next
VIEW View
INVARIANTS TypeOK NeverTwice
CHECK_DEADLOCK FALSE
