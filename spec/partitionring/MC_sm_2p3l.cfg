CONSTANTS
  NP = 2
  NL = 3
  NO = 3
  MaxClock = 1000
  AgeCap = 2
  Multi = FALSE
  LCfg <- Cfg2p3l
  TokOf <- Tok2
  Homes <- Homes2p3l
  WaitModes = {}
  LockParts = {1}
  ReqStates = {"A", "I"}
INIT Init
NEXT Next
VIEW ageview
INVARIANTS TypeOK
PROPERTIES LegalEdges LockRespected PromotionTiming DeletionGuard LockOnlyByEditor RefusedIsNoWrite
CHECK_DEADLOCK FALSE
