-------------------------------- MODULE KVCas --------------------------------
(***************************************************************************)
(* C07 - kv.Client.CAS on one key of one store, NC concurrent callers.     *)
(*                                                                         *)
(* The store cell is [val, ver].  ver is the optimistic-concurrency token  *)
(* of the backend (Consul ModifyIndex / etcd Version / memberlist          *)
(* ValueDesc.Version); ver = 0 <=> the key is absent.  Values are          *)
(* grow-only sets of <<client, op, pos>>: the function passed to CAS by    *)
(* call op of client c ("append own tag") adds <<c, op, |in| + 1>>, so a   *)
(* value records who wrote and what each writer had seen; Nil = {} is the  *)
(* absent key (f is handed nil).                                           *)
(*                                                                         *)
(* Granularity.  The only point where the harness (and any caller) can     *)
(* interleave two CAS calls is the callback f, which every backend calls   *)
(* between its read of the cell and its conditional write.  One action =   *)
(* everything a call does between two such points:                         *)
(*   Begin(c)      start call, read the cell, enter f                      *)
(*   Put(c, rf)    f returns (in + own tag, retry = rf, nil); conditional  *)
(*                 write; on success the call returns nil; on a conflict   *)
(*                 the backend retries (re-read, f entered again) or gives *)
(*                 up (limit reached; memberlist: also when rf = FALSE)    *)
(*   Decline(c)    f returns (nil, _, nil): no write, the call returns nil *)
(*   Err(c, rf)    f returns an error: rf = FALSE the call fails, rf =     *)
(*                 TRUE the attempt is consumed and the cell re-read       *)
(*   Same(c, rf)   f returns its input unchanged (not nil).  Consul and    *)
(*                 etcd write it (the index moves, the value does not);    *)
(*                 memberlist's merge finds no change (errNoChangeDetected)*)
(*                 and, if rf and attempts are left, sleeps 1 s before the *)
(*                 next attempt: the caller is parked in "sleep" until     *)
(*   Tick          1 s passes: every sleeper re-reads and enters f again   *)
(*                 (all sleepers share the deadline: time only moves here) *)
(*   Bad(c, rf)    f returns a value the store cannot take (the codec      *)
(*                 cannot serialise it / it is not a Mergeable): nothing   *)
(*                 is written; Consul and etcd consume the attempt and     *)
(*                 re-read whatever rf says, memberlist only if rf         *)
(*   Other         a CAS on ANOTHER key of the same store succeeds: the    *)
(*                 cells of different keys are independent, no caller of   *)
(*                 this key can tell (only the store-wide counter moves)   *)
(* A failed comparison and the re-read that follows it have no gate in     *)
(* between in any backend and a failed comparison stays failed (ver only   *)
(* grows while nobody deletes), so fusing them loses no reachable cell     *)
(* state.  Read each backend: consul/client.go cas + consul/mock.go CAS,   *)
(* etcd/etcd.go CAS + mock.go evalCmp, memberlist_client.go CAS /          *)
(* trySingleCas / mergeValueForKey.                                        *)
(***************************************************************************)
EXTENDS Integers, Sequences, FiniteSets, TLC, Json

CONSTANTS NC,          \* callers 1..NC
          OpsPer,      \* CAS calls per caller
          Backends,    \* subset of {"consul", "etcd", "memberlist"}: the stores of this run
          Limits,      \* the retry limits of this run (attempts per call).  10 is every backend's default; the
                       \* harness sets smaller ones (consul Config.MaxCasRetries, etcd Config.MaxRetries,
                       \* memberlist KV.maxCasRetries) so that exhaustion by conflicts alone is reachable
          MaxErr,      \* bound of the model: error-with-retry outcomes per call
          Secondaries, \* subset of {"none", "consul", "memberlist"}: "none" = no MultiClient, otherwise
                       \* a MultiClient mirrors every successful CAS into a second store of that kind
          WithDelete,  \* TRUE: a Delete action exists (outside C07: documentation configs)
          WithSame,    \* TRUE: f may also return its input unchanged (Same / Tick)
          WithBad,     \* TRUE: f may also return a value the store cannot serialise / merge (Bad)
          NOther,      \* writes to another key of the same store that may interleave (Other)
          NW,          \* watchers 1..NW (WatchKey / WatchPrefix on the key)
          Emit         \* TRUE: print one behaviour per transition (gen/replay binding)

ASSUME Backends \subseteq {"consul", "etcd", "memberlist"} /\ Secondaries \subseteq {"none", "consul", "memberlist"}

Clients == 1..NC
Nil     == {}

VARIABLES Backend,  \* the store under test, chosen in Init and never changed (one TLC run covers all)
          Secondary,
          Limit,    \* its retry limit, likewise
          cell,     \* [val, ver]
          ctr,      \* Consul: the store-wide index the next ModifyIndex is taken from
          cl,       \* cl[c] = [pc, op, att, errs, sval, sver]
          applied,  \* history: the successful writes in the order they hit the store
          res,      \* history: res[c][k] = "" | "ok" | "noop" (declined or failed)
          mirror,   \* value in the secondary store of a mirroring MultiClient
          wt,       \* wt[w] = [on, from, last]: watcher w registered when `from` writes had hit the store and
                    \* was last called with the value left by write number `last` (of `applied`)
          hist      \* behaviour so far (not in the VIEW)

vars == <<Backend, Secondary, Limit, cell, ctr, cl, applied, res, mirror, wt, hist>>
view == <<Backend, Secondary, Limit, cell, ctr, cl, applied, res, mirror, wt>>
Watchers == 1..NW

Tags(v)        == {<<t[1], t[2]>> : t \in v}
AppendTag(v, c, k) == v \cup {<<c, k, Cardinality(v) + 1>>}

IdleRec(k) == [pc |-> "idle", op |-> k, att |-> 0, errs |-> 0, sval |-> Nil, sver |-> 0]

(* value of the cell after the first n successful calls were executed one at a time; a blind   *)
(* memberlist write (made by a call that had read "absent") is a merge of its output           *)
RECURSIVE After(_)
After(n) == IF n = 0 THEN Nil
            ELSE LET a == applied[n] IN
                 IF a.same THEN After(n - 1)
                 ELSE IF a.blind THEN After(n - 1) \cup a.out ELSE AppendTag(After(n - 1), a.c, a.k)

(* the MultiClient can be built (kv.NewClient, store "multi") from the in-memory Consul store *)
(* and a memberlist KV, in either order                                                        *)
Init == /\ Backend \in Backends
        /\ Limit \in Limits
        /\ Secondary \in {s \in Secondaries : s = "none" \/ (s # Backend /\ Backend # "etcd")}
        /\ cell = [val |-> Nil, ver |-> 0]
        /\ ctr = 1
        /\ cl = [c \in Clients |-> IdleRec(0)]
        /\ applied = <<>>
        /\ res = [c \in Clients |-> [k \in 1..OpsPer |-> ""]]
        /\ mirror = Nil
        /\ wt = [w \in Watchers |-> [on |-> FALSE, from |-> 0, last |-> 0]]
        /\ hist = <<[a |-> "setup", be |-> Backend, sec |-> Secondary, limit |-> Limit]>>

(* What a read leaves in the caller's local index/revision/version variable.  Consul and etcd   *)
(* clients overwrite it only when the key exists (it keeps its previous value otherwise, 0 at   *)
(* the start of a call); memberlist's get returns the stored version, 0 for an absent key.      *)
ReadVer(old) == IF cell.ver # 0 \/ Backend = "memberlist" THEN cell.ver ELSE old

(* The conditional write of each backend.                                                      *)
(*  consul mock: `ok && existing.ModifyIndex != p.ModifyIndex` fails; an absent key accepts any *)
(*  etcd:        If(Version(key) = revision), an absent key has Version 0                       *)
(*  memberlist:  `casVersion > 0 && curr.Version != casVersion` fails; casVersion = 0 (the key  *)
(*               was absent when read) is a plain merge that cannot conflict                    *)
CanWrite(c) == CASE Backend = "consul"     -> cell.ver = 0 \/ cell.ver = cl[c].sver
                 [] Backend = "etcd"       -> cell.ver = cl[c].sver
                 [] Backend = "memberlist" -> cl[c].sver = 0 \/ cell.ver = cl[c].sver

Blind(c)   == Backend = "memberlist" /\ cl[c].sver = 0 /\ cell.ver # 0
NextVer    == IF Backend = "consul" THEN ctr + 1 ELSE cell.ver + 1
Written(out) == IF Backend = "memberlist" THEN cell.val \cup out ELSE out   \* merge vs overwrite
Mirrored(out) == CASE Secondary = "none"       -> mirror
                   [] Secondary = "consul"     -> out                        \* f of the mirror write ignores its input
                   [] Secondary = "memberlist" -> mirror \cup out

(* what the step looks like from outside: e = what happened to caller c ("fin": its f was       *)
(* (re-)entered and handed `in`; "ok" / "fail": its call returned), val = what Get returns       *)
(* afterwards, mir = the secondary store.  The whole path is kept only when behaviours are       *)
(* emitted; otherwise hist is just the last step (KVCasTrace binds logged events to it).         *)
Step(a, c, rf, e, in) ==
    LET r == [a |-> a, c |-> c, rf |-> rf, e |-> e, in |-> in, val |-> cell'.val, mir |-> mirror']
    IN hist' = IF Emit THEN Append(hist, r) ELSE <<r>>

Begin(c) ==
    /\ cl[c].pc = "idle" /\ cl[c].op < OpsPer
    /\ cl' = [cl EXCEPT ![c] = [pc |-> "inf", op |-> @.op + 1, att |-> 1, errs |-> 0,
                                sval |-> cell.val, sver |-> ReadVer(0)]]
    /\ UNCHANGED <<Backend, Secondary, Limit, cell, ctr, applied, res, mirror, wt>>
    /\ Step("begin", c, FALSE, "fin", cell.val)

(* the attempt did not write: next attempt (re-read, f entered again) or the call fails *)
NoWrite(a, c, rf, retry, errs) ==
    /\ UNCHANGED <<Backend, Secondary, Limit, cell, ctr, applied, mirror, wt>>
    /\ IF retry /\ cl[c].att < Limit
       THEN /\ cl' = [cl EXCEPT ![c] = [@ EXCEPT !.att = @ + 1, !.errs = errs, !.sval = cell.val,
                                                 !.sver = ReadVer(cl[c].sver)]]
            /\ res' = res
            /\ Step(a, c, rf, "fin", cell.val)
       ELSE /\ cl' = [cl EXCEPT ![c] = IdleRec(@.op)]
            /\ res' = [res EXCEPT ![c][cl[c].op] = "noop"]
            /\ Step(a, c, rf, "fail", Nil)

Put(c, rf) ==
    /\ cl[c].pc = "inf"
    /\ LET k   == cl[c].op
           out == AppendTag(cl[c].sval, c, k)
       IN IF CanWrite(c)
          THEN /\ cell' = [val |-> Written(out), ver |-> NextVer]
               /\ ctr' = ctr + 1
               /\ applied' = Append(applied, [c |-> c, k |-> k, seen |-> cl[c].sval, out |-> out, blind |-> Blind(c),
                                                    prev |-> cell.val, same |-> FALSE])
               /\ res' = [res EXCEPT ![c][k] = "ok"]
               /\ mirror' = Mirrored(out)
               /\ cl' = [cl EXCEPT ![c] = IdleRec(k)]
               /\ UNCHANGED <<Backend, Secondary, Limit, wt>>
               /\ Step("put", c, rf, "ok", Nil)
          ELSE \* consul, etcd: always another attempt; memberlist: only if f said retry
               NoWrite("put", c, rf, Backend # "memberlist" \/ rf, cl[c].errs)

Decline(c) ==
    /\ cl[c].pc = "inf"
    /\ cl' = [cl EXCEPT ![c] = IdleRec(@.op)]
    /\ res' = [res EXCEPT ![c][cl[c].op] = "noop"]
    /\ UNCHANGED <<Backend, Secondary, Limit, cell, ctr, applied, mirror, wt>>
    /\ Step("decline", c, FALSE, "ok", Nil)

Err(c, rf) ==
    /\ cl[c].pc = "inf"
    /\ rf => cl[c].errs < MaxErr
    /\ NoWrite("err", c, rf, rf, IF rf THEN cl[c].errs + 1 ELSE cl[c].errs)

(* f returns the value it was handed.  memberlist: trySingleCas checks the version first      *)
(* (errVersionMismatch, retried only if f said so), then the merge reports no change           *)
(* (errNoChangeDetected): `continue` if f said retry - the loop sleeps noChangeDetectedRetrySleep *)
(* = 1 s at the top of the next attempt, none if this was the last attempt - else the call fails. *)
Same(c, rf) ==
    /\ WithSame /\ cl[c].pc = "inf" /\ cl[c].sval # Nil
    /\ LET k == cl[c].op
           out == cl[c].sval
       IN IF Backend # "memberlist"
          THEN IF CanWrite(c)
               THEN /\ cell' = [val |-> out, ver |-> NextVer]
                    /\ ctr' = ctr + 1
                    /\ applied' = Append(applied, [c |-> c, k |-> k, seen |-> out, out |-> out, blind |-> FALSE,
                                                    prev |-> cell.val, same |-> TRUE])
                    /\ res' = [res EXCEPT ![c][k] = "ok"]
                    /\ mirror' = Mirrored(out)
                    /\ cl' = [cl EXCEPT ![c] = IdleRec(k)]
                    /\ UNCHANGED <<Backend, Secondary, Limit, wt>>
                    /\ Step("same", c, rf, "ok", Nil)
               ELSE NoWrite("same", c, rf, TRUE, cl[c].errs)
          ELSE IF ~CanWrite(c)
               THEN NoWrite("same", c, rf, rf, cl[c].errs)
               ELSE IF rf /\ cl[c].att < Limit
                    THEN /\ cl[c].errs < MaxErr
                         /\ cl' = [cl EXCEPT ![c] = [@ EXCEPT !.pc = "sleep", !.errs = @ + 1]]
                         /\ UNCHANGED <<Backend, Secondary, Limit, cell, ctr, applied, res, mirror, wt>>
                         /\ Step("same", c, rf, "sleep", Nil)
                    ELSE NoWrite("same", c, rf, FALSE, cl[c].errs)

(* f returns something that cannot be stored.  consul/client.go and etcd/etcd.go: codec.Encode  *)
(* fails ("error serialising value") -> `continue`: the attempt is consumed, the key re-read and *)
(* f entered again, whatever retry flag f returned; when the attempts are used up the call       *)
(* fails.  memberlist trySingleCas: "invalid type ... expected Mergeable" is returned with f's    *)
(* retry flag.  In no store does anything reach the cell.                                        *)
Bad(c, rf) ==
    /\ WithBad /\ cl[c].pc = "inf"
    /\ cl[c].errs < MaxErr
    /\ NoWrite("bad", c, rf, Backend # "memberlist" \/ rf, cl[c].errs + 1)

(* A successful CAS on another key of the same store (through the same client).  ctr counts the *)
(* writes to the store (Consul takes the next ModifyIndex from it), so the number of writes to   *)
(* other keys so far is ctr - 1 - Len(applied).  Frame condition: this key's cell, its callers'  *)
(* snapshots, its watchers and its mirror are untouched - a conditional write that looked at      *)
(* anything store-wide (an index, a revision) would now fail or succeed differently.              *)
Others == ctr - 1 - Len(applied)
Other ==
    /\ Others < NOther
    /\ ctr' = ctr + 1
    /\ UNCHANGED <<Backend, Secondary, Limit, cell, cl, applied, res, mirror, wt>>
    /\ LET r == [a |-> "other", c |-> 0, rf |-> FALSE, e |-> "", in |-> Nil, val |-> cell.val, mir |-> mirror, n |-> Others + 1]
       IN hist' = IF Emit THEN Append(hist, r) ELSE <<r>>

Sleepers == {c \in Clients : cl[c].pc = "sleep"}

Tick ==
    /\ Sleepers # {}
    /\ cl' = [c \in Clients |-> IF c \in Sleepers
                                THEN [cl[c] EXCEPT !.pc = "inf", !.att = @ + 1, !.sval = cell.val, !.sver = ReadVer(cl[c].sver)]
                                ELSE cl[c]]
    /\ UNCHANGED <<Backend, Secondary, Limit, cell, ctr, applied, res, mirror, wt>>
    /\ LET r == [a |-> "tick", c |-> 0, rf |-> FALSE, e |-> "fin", in |-> cell.val, val |-> cell.val, mir |-> mirror,
                 w |-> Sleepers]
       IN hist' = IF Emit THEN Append(hist, r) ELSE <<r>>

(* Watchers (WatchKey / WatchPrefix on the key).  A watcher is called with values the store   *)
(* held, in the order they were stored, possibly skipping some (Consul: long poll on the       *)
(* index; memberlist: notifications coalesce) - the etcd mock forwards every put.  Consul's    *)
(* watch starts with index 0 and therefore reports the value present at registration; the      *)
(* other two report only later writes.                                                         *)
Watch(w) ==
    /\ ~wt[w].on
    /\ wt' = [wt EXCEPT ![w] = [on |-> TRUE, from |-> Len(applied),
                                last |-> IF Backend = "consul" /\ Len(applied) > 0 THEN Len(applied) - 1 ELSE Len(applied)]]
    /\ UNCHANGED <<Backend, Secondary, Limit, cell, ctr, cl, applied, res, mirror>>
    /\ Step("watch", w, FALSE, "", cell.val)

Deliver(w, i) ==
    /\ wt[w].on /\ i \in (wt[w].last + 1)..Len(applied)
    /\ Backend = "etcd" => i = wt[w].last + 1
    /\ wt' = [wt EXCEPT ![w].last = i]
    /\ UNCHANGED <<Backend, Secondary, Limit, cell, ctr, cl, applied, res, mirror>>
    /\ Step("deliver", w, FALSE, "", After(i))

(* Outside C07: kv.Client.Delete by somebody else.  etcd mock: the entry is dropped, the next  *)
(* put restarts Version at 1 (ABA).  Consul mock: the entry is dropped, ModifyIndex keeps       *)
(* growing, but an absent key accepts a write with any index.                                   *)
Delete ==
    /\ WithDelete /\ cell.ver # 0 /\ Backend # "memberlist"
    /\ cell' = [val |-> Nil, ver |-> 0]
    /\ UNCHANGED <<Backend, Secondary, Limit, ctr, cl, applied, res, mirror, wt>>
    /\ Step("delete", 0, FALSE, "", Nil)

Next == \/ \E c \in Clients : \/ Begin(c)
                              \/ \E rf \in BOOLEAN : Put(c, rf) \/ Err(c, rf) \/ Same(c, rf) \/ Bad(c, rf)
                              \/ Decline(c)
        \/ Tick
        \/ Other
        \/ \E w \in Watchers : Watch(w) \/ \E i \in 1..Len(applied) : Deliver(w, i)
        \/ Delete

Spec == Init /\ [][Next]_vars

-----------------------------------------------------------------------------
(* The property.                                                           *)

TypeOK == /\ cell.ver \in Nat
          /\ WithDelete \/ (cell.ver = 0 <=> cell.val = Nil)
          /\ \A c \in Clients : /\ cl[c].pc \in {"idle", "inf", "sleep"}
                                /\ cl[c].op \in 0..OpsPer
                                /\ cl[c].att \in 0..Limit
          /\ \A i \in 1..Len(applied) : applied[i].blind => Backend = "memberlist"

(* the final value reflects exactly the successful calls *)
Serial == cell.val = After(Len(applied))

(* each successful call applied its function to the value left by the previous successful call *)
(* (memberlist: or had read "absent", in which case its output was merged, not stored)          *)
SeenChain == \A i \in 1..Len(applied) :
                /\ applied[i].blind \/ applied[i].seen = After(i - 1)
                /\ applied[i].blind => applied[i].seen = Nil
                /\ applied[i].out = IF applied[i].same THEN applied[i].seen
                                    ELSE AppendTag(applied[i].seen, applied[i].c, applied[i].k)

(* no successful update is overwritten unseen / nothing appears that no successful call wrote *)
AppliedCalls == {<<applied[i].c, applied[i].k>> : i \in 1..Len(applied)}
AppliedTags  == {<<applied[i].c, applied[i].k>> : i \in {j \in 1..Len(applied) : ~applied[j].same}}
NoLostNoPhantom == Tags(cell.val) = AppliedTags
MirrorSound == Tags(mirror) \subseteq AppliedTags

(* a call is applied at most once, and exactly the calls that reported success are applied *)
AtMostOncePerCall ==
    /\ \A i, j \in 1..Len(applied) : i # j => <<applied[i].c, applied[i].k>> # <<applied[j].c, applied[j].k>>
    /\ \A c \in Clients, k \in 1..OpsPer : (res[c][k] = "ok") <=> (<<c, k>> \in AppliedCalls)
    /\ \A c \in Clients, k \in 1..OpsPer : res[c][k] # "" <=> (k < cl[c].op \/ (k = cl[c].op /\ cl[c].pc = "idle"))

(* a call that reports failure, or whose function declines, leaves the stored value unchanged; *)
(* the cell changes only in the step in which a call reports success                            *)
FailureIsNoop ==
    [][ /\ (\E c \in Clients, k \in 1..OpsPer : res'[c][k] # res[c][k] /\ res'[c][k] = "noop") => cell' = cell
        /\ cell' # cell => \/ /\ Len(applied') = Len(applied) + 1
                              /\ LET a == applied'[Len(applied')] IN res[a.c][a.k] = "" /\ res'[a.c][a.k] = "ok"
                           \/ WithDelete /\ cell'.ver = 0 /\ res' = res
      ]_view

(* Watchers: a watcher is only ever called with values the store held (by construction of      *)
(* Deliver: After(i)), never goes back, and - liveness, under weak fairness of its deliveries - *)
(* has been called with the latest value once the writers are done.                             *)
WatchSound == \A w \in Watchers : wt[w].on => wt[w].last <= Len(applied) /\ wt[w].last + 1 >= wt[w].from
CaughtUp   == \A w \in Watchers : wt[w].on => wt[w].last = Len(applied)
FairSpec   == Spec /\ \A w \in Watchers : WF_vars(\E i \in 1..(NC * OpsPer) : Deliver(w, i))
EventuallyLatest == <>[](CaughtUp)

(* gen/replay: every transition of the (VIEW-)state graph yields the path to its source + itself *)
EmitHist == Emit => PrintT(ToJson(hist'))

(* Every successful write was computed from the value it replaced.  Implied by SeenChain and   *)
(* Serial while nobody deletes; with WithDelete = TRUE (documentation config, outside C07) TLC  *)
(* finds the ABA of the etcd mock (Version restarts at 1 after a delete) and the Consul mock's  *)
(* "absent key accepts any index".                                                              *)
SawCurrent == \A i \in 1..Len(applied) : applied[i].blind \/ applied[i].seen = applied[i].prev
=============================================================================
