\* Negative control / finding F7: with the silent in-place tombstone collection of mergeValueForKey
\* modelled as the code did it before its fix (Ideal = FALSE) TLC finds a stale watcher. This
\* configuration is EXPECTED to violate WatcherNeverStale.
CONSTANTS
  N = 2
  NI = 1
  NK = 1
  MaxClock = 3
  Retention = 2
  T = 1
  MaxCas = 2
  MaxFaults = 0
  LiveStates = {"ACTIVE"}
  WatchNodes = {1, 2}
  HoldNodes = {}
  AllowRestart = FALSE
  AllowGarbage = FALSE
  AllowPartition = FALSE
  AllowJunkPP = FALSE
  GateNodes = {}
  InboxCap = 1
  VersionTest = TRUE
  KeyTest = TRUE
  MaxDel = 0
  ObsoleteTimeout = 1
  LockKeys = {}
  ConsumeNet = FALSE
  Ideal = FALSE
  Ghost = TRUE
  Record = FALSE
  Quiesce = FALSE
  RunDepth = 0
  QRounds = 2
SPECIFICATION Spec
VIEW view
INVARIANTS WatcherNeverStale
CHECK_DEADLOCK FALSE
