package c17

// Replay of FailureWatcherGated.tla behaviours on a real services.FailureWatcher watching real
// BasicServices, one by one (WatchService) or through a real Manager (WatchManager).
// Environment steps: a service fails (its running function returns an error), the reader receives
// one value from Chan(), Close, WatchService on the closed watcher. The specification's observation
// blk = "Close-blocked-while-report-pending" names the state in which Close waits for a listener
// goroutine that is stuck sending a report nobody receives; the replay expects exactly that.

import (
	"context"
	"encoding/json"
	"fmt"
	"reflect"
	"strings"
	"testing"
	"testing/synctest"

	"verifharness/internal/abs"

	"github.com/grafana/dskit/services"
)

type fwHarness struct {
	w        *services.FailureWatcher
	svcs     []*services.BasicService
	gates    []chan string
	mgr      *services.Manager
	got      []any
	closeSt  string
	panics   int
	problems []string
}

func newFWHarness(mode string, ns int) (*fwHarness, error) {
	h := &fwHarness{w: services.NewFailureWatcher(), closeSt: "none"}
	var list []services.Service
	for i := 0; i < ns; i++ {
		g := make(chan string)
		s := services.NewBasicService(nil, func(ctx context.Context) error {
			select {
			case e := <-g:
				return errOf(e)
			case <-ctx.Done():
				return nil
			}
		}, nil).WithName(fmt.Sprintf("svc-%d", i+1))
		h.svcs = append(h.svcs, s)
		h.gates = append(h.gates, g)
		list = append(list, s)
	}
	if mode == "manager" {
		m, err := services.NewManager(list...)
		if err != nil {
			return nil, err
		}
		h.mgr = m
		h.w.WatchManager(m)
	} else {
		for _, s := range h.svcs {
			h.w.WatchService(s)
		}
	}
	for _, s := range h.svcs {
		if err := s.StartAsync(context.Background()); err != nil {
			return nil, err
		}
	}
	return h, nil
}

func (h *fwHarness) apply(label string, n int) error {
	switch label {
	case "Fail":
		return sendTo(h.gates[n-1], "erun", "running function")
	case "Recv":
		select {
		case e, ok := <-h.w.Chan():
			if !ok {
				return fmt.Errorf("recv:channel-closed")
			}
			id := 0
			for i := range h.svcs {
				if strings.Contains(e.Error(), fmt.Sprintf("svc-%d ", i+1)) {
					id = i + 1
				}
			}
			if id == 0 || !strings.Contains(e.Error(), "erun") {
				h.problems = append(h.problems, "unexpected report: "+e.Error())
			}
			h.got = append(h.got, id)
		default:
			return fmt.Errorf("recv:nothing-to-receive")
		}
	case "Close":
		h.closeSt = "blocked"
		go func() { h.w.Close(); h.closeSt = "done" }()
	case "WatchAfterClose":
		func() {
			defer func() {
				if r := recover(); r != nil {
					h.panics++
				}
			}()
			h.w.WatchService(h.svcs[0])
		}()
	default:
		return fmt.Errorf("unknown step %s", label)
	}
	return nil
}

func (h *fwHarness) observe() map[string]any {
	st := []any{}
	for _, s := range h.svcs {
		switch s.State() {
		case services.Failed:
			st = append(st, "failed")
		case services.Running:
			st = append(st, "ok")
		default:
			st = append(st, s.State().String())
		}
	}
	ch := "open"
	if h.closeSt == "done" {
		select {
		case _, ok := <-h.w.Chan():
			if !ok {
				ch = "closed"
			} else {
				h.problems = append(h.problems, "value received after Close returned")
			}
		default:
		}
	}
	blk := "none"
	if h.closeSt == "blocked" {
		blk = "Close-blocked-while-report-pending"
	}
	return map[string]any{"got": append([]any{}, h.got...), "close": h.closeSt, "chan": ch, "blk": blk, "st": st, "panics": h.panics}
}

func (h *fwHarness) cleanup() string {
	go func() {
		for range h.w.Chan() {
		}
	}()
	for _, s := range h.svcs {
		s.StopAsync()
	}
	if h.closeSt == "none" {
		h.closeSt = "blocked"
		go func() { h.w.Close(); h.closeSt = "done" }()
	}
	synctest.Wait()
	if h.closeSt != "done" {
		return "Close did not return although a reader drains the channel"
	}
	return ""
}

func replayFW(t *testing.T, tr *trie, leaf string, jb job) (mis []abs.Mismatch, nontrivial bool) {
	raws := tr.steps[leaf]
	report := func(sig string, upto int, got, want any, note string) {
		mis = append(mis, abs.Mismatch{Sig: sig, Case: map[string]any{"job": jb.Name, "steps": raws[:upto+1]}, Got: got, Want: want, Note: note})
	}
	synctest.Test(t, func(t *testing.T) {
		services.VerifYield = nil
		var h *fwHarness
		for i, raw := range raws {
			var parts []any
			if err := json.Unmarshal(raw, &parts); err != nil || len(parts) != 2 {
				report("harness:bad-step", i, string(raw), nil, "")
				break
			}
			label, _ := parts[0].(string)
			if i == 0 {
				mode, _ := parts[1].(string)
				var err error
				if h, err = newFWHarness(mode, jb.NS); err != nil {
					report("harness:fw:"+err.Error(), 0, nil, nil, "")
					return
				}
			} else {
				n, _ := parts[1].(float64)
				if err := h.apply(label, int(n)); err != nil {
					report("failurewatcher:"+err.Error()+" at "+label, i, nil, nil, "")
					break
				}
			}
			synctest.Wait()
			rawWant, ok := tr.obs[rawKey(raws[:i+1])]
			if !ok {
				continue
			}
			var want any
			_ = json.Unmarshal(rawWant, &want)
			got := generic(h.observe())
			if len(h.got) > 0 {
				nontrivial = true
			}
			if !reflect.DeepEqual(got, want) {
				var d []string
				g, _ := got.(map[string]any)
				w, _ := want.(map[string]any)
				for _, k := range []string{"got", "close", "chan", "blk", "st", "panics"} {
					if !reflect.DeepEqual(g[k], w[k]) {
						d = append(d, k)
					}
				}
				report("failurewatcher:obs:"+strings.Join(d, ",")+" after "+label, i, got, want, "")
				break
			}
		}
		if h != nil {
			if len(h.problems) > 0 {
				report("failurewatcher:"+h.problems[0], len(raws)-1, h.problems, nil, "")
			}
			if msg := h.cleanup(); msg != "" {
				report("failurewatcher:cleanup:"+msg, len(raws)-1, msg, nil, "")
			}
		}
	})
	return mis, nontrivial
}
