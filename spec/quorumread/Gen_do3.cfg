CONSTANTS
  NSet = {1, 2, 3}
  MaxZ = 3
  Modes = {"default", "zone"}
  Delays = {TRUE, FALSE}
INIT GInit
NEXT GNext
INVARIANTS TypeOK OnlySuccessful QuorumBacked ErrWhenExceeded AtMostOneCall Minimised AllCancelledAtReturn Emit
CHECK_DEADLOCK FALSE
