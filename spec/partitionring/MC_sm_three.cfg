CONSTANTS
  NP = 3
  NL = 3
  NO = 3
  MaxClock = 1000
  AgeCap = 2
  Multi = FALSE
  LCfg <- Cfg3q
  TokOf <- Tok3
  Homes <- Homes3r
  WaitModes = {}
  LockParts = {}
  ReqStates = {"I"}
INIT Init
NEXT Next
VIEW ageview
INVARIANTS TypeOK RoutingTotal
PROPERTIES LegalEdges LockRespected PromotionTiming DeletionGuard LockOnlyByEditor RefusedIsNoWrite
CHECK_DEADLOCK FALSE
