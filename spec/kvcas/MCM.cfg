\* Template for KVMulti.tla (checks/c07.py substitutes): by hand e.g.
\*   sed -e 's/@@NC@@/2/;s/@@OPS@@/1/;s/@@SW@@/1/;s/@@EMIT@@/FALSE/;s/@@INV@@/NoLostOnPrimary/' MCM.cfg > MCM_x.cfg
CONSTANTS
  NC = @@NC@@
  OpsPer = @@OPS@@
  MaxSwitch = @@SW@@
  Emit = @@EMIT@@
INIT Init
NEXT Next
VIEW view
INVARIANTS TypeOK @@INV@@
PROPERTY StaysOnItsPrimary
ACTION_CONSTRAINT EmitHist
CHECK_DEADLOCK FALSE
