------------------------------ MODULE ShardProps ------------------------------
(***************************************************************************)
(* C12 - the clauses of the shuffle-shard property as predicates over      *)
(* *answers* (sets of member identifiers) and *ring views*.  Nothing here  *)
(* knows how a shard is computed.  The same predicates are                 *)
(*   - the invariants TLC decides on the white-box walk (ShuffleShard.tla,  *)
(*     PartitionShard.tla: every start sequence over small rings), and     *)
(*   - the guards of the black-box history specification (ShardHistory.tla)*)
(*     against which answers recorded from the real code are validated.    *)
(*                                                                         *)
(* An instance-ring view is a record with at least                         *)
(*     mem  : set of registered instance ids                               *)
(*     zone : [mem -> zone]        ro : [mem -> BOOLEAN]   (read-only)     *)
(* A partition-ring view is a record with at least                         *)
(*     mem  : set of partition ids  st : [mem -> {"pending","active",      *)
(*                                                "inactive"}]             *)
(* A requested size <= 0 means "sharding disabled": every eligible member. *)
(***************************************************************************)
EXTENDS Integers, FiniteSets

Min2(a, b) == IF a <= b THEN a ELSE b
CeilDiv(a, b) == (a + b - 1) \div b

Zones(V)       == {V.zone[i] : i \in V.mem}
InZone(V, z)   == {i \in V.mem : V.zone[i] = z}
Eligible(V)    == {i \in V.mem : ~V.ro[i]}

(* "holds the requested number of instances, rounded up to a multiple of   *)
(* the number of zones and spread evenly over them (fewer only where a     *)
(* zone runs out of eligible instances)"; without zone-awareness the ring  *)
(* is one zone.                                                            *)
PerZone(V, za, size) == IF za THEN CeilDiv(size, Cardinality(Zones(V))) ELSE size

SizeOK(S, V, za, size) ==
    /\ S \subseteq V.mem
    /\ IF size <= 0 THEN S = Eligible(V)
       ELSE IF za
            THEN \A z \in Zones(V) :
                   Cardinality(S \cap InZone(V, z)) =
                       Min2(PerZone(V, za, size), Cardinality(Eligible(V) \cap InZone(V, z)))
            ELSE Cardinality(S) = Min2(size, Cardinality(Eligible(V)))

(* "excludes read-only instances" *)
NoReadOnly(S, V) == \A i \in S : i \in V.mem /\ ~V.ro[i]

(* "contains the shard of every smaller size": size a asks for no more     *)
(* than size b.                                                            *)
SizeLE(a, b) == b <= 0 \/ (a >= 1 /\ a <= b)
MonotoneOK(Sa, Sb) == Sa \subseteq Sb

(* "differs by at most one instance when one instance is added to or       *)
(* removed from the ring": at most one member added AND at most one        *)
(* removed (the measure of the repository's own consistency test), for two *)
(* views that differ by exactly one registered instance and - the per-zone *)
(* quota being a function of the number of zones - have the same zones     *)
(* when zone-awareness is on.                                              *)
Diff1(A, B) == Cardinality(A \ B) <= 1 /\ Cardinality(B \ A) <= 1

SameOnCommon(V, W) == \A i \in V.mem \cap W.mem : V.zone[i] = W.zone[i] /\ V.ro[i] = W.ro[i]
OneInstanceApart(V, W) ==
    /\ \/ (V.mem \subseteq W.mem /\ Cardinality(W.mem \ V.mem) = 1)
       \/ (W.mem \subseteq V.mem /\ Cardinality(V.mem \ W.mem) = 1)
    /\ SameOnCommon(V, W)
ConsistencyApplies(V, W, za) == OneInstanceApart(V, W) /\ (za => Zones(V) = Zones(W))
ConsistencyOK(SV, SW) == Diff1(SV, SW)

(* "the look-back variant returns a superset that contains every           *)
(* still-registered instance that belonged to the identifier's shard of    *)
(* that size at any moment of the look-back window": `past` is the set of  *)
(* shards of that identifier and size that were current at some moment of  *)
(* the window.                                                             *)
LookbackOK(S, past, memNow) == \A P \in past : (P \cap memNow) \subseteq S

(* With zone-awareness a shard of a ring version is required to be covered *)
(* only if that version had the same set of zones as the current ring: as  *)
(* for Consistency, the per-zone quota is a function of the number of      *)
(* zones.  (The code does not cover the appearance of a zone: ring z1 =    *)
(* {a,b,c}, size 2 -> shard {b,c}; d registers in a new zone z2 -> shard   *)
(* {b,d}; the look-back answer over that moment is {b,d}, without c.       *)
(* The repository's own look-back fuzz test keeps the zones fixed for the  *)
(* same reason.)  FALSE here makes both specifications demand it.          *)
ZoneChangesExempt == TRUE
ComparableZones(V, W, za) == za /\ ZoneChangesExempt => Zones(V) = Zones(W)

(***************************************************************************)
(* Partition ring: "the same guarantees over active partitions".           *)
(***************************************************************************)
Active(V) == {p \in V.mem : V.st[p] = "active"}

PSizeOK(S, V, size) ==
    /\ S \subseteq Active(V)
    /\ Cardinality(S) = IF size <= 0 THEN Cardinality(Active(V))
                        ELSE Min2(size, Cardinality(Active(V)))

(* one partition added, removed, or switched between states *)
POneApart(V, W) ==
    \/ /\ V.mem \subseteq W.mem /\ Cardinality(W.mem \ V.mem) = 1
       /\ \A p \in V.mem : V.st[p] = W.st[p]
    \/ /\ W.mem \subseteq V.mem /\ Cardinality(V.mem \ W.mem) = 1
       /\ \A p \in W.mem : V.st[p] = W.st[p]
    \/ /\ V.mem = W.mem
       /\ Cardinality({p \in V.mem : V.st[p] # W.st[p]}) = 1
=============================================================================
