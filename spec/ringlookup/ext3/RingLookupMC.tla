----------------------------- MODULE RingLookupMC -----------------------------
(***************************************************************************)
(* The bounded universe of ring descriptors for C01 / C02, explored as a   *)
(* state machine: instances register (AddInstance) and unregister          *)
(* (RemoveInstance) one at a time.  Every reachable descriptor is one      *)
(* state; `out` holds the results the specification demands for every key  *)
(* class, operation, replication factor and zone-awareness setting on that *)
(* descriptor (a function of `desc`, kept out of the VIEW).                *)
(*                                                                         *)
(* Keys are key classes 0..NK-1 in cyclic order exactly as in              *)
(* TokenRanges.tla: a class is a token position (one concrete uint32) or a *)
(* gap class (all keys strictly between the neighbouring positions); the   *)
(* harness embeds consecutive positions as literally adjacent uint32       *)
(* values, the first one as 0 and the last one as 2^32-1.                  *)
(***************************************************************************)
EXTENDS RingLookup, TLC, Json

CONSTANTS NK,         \* number of key classes
          Gaps,       \* key classes that are not token positions
          N,          \* instance ids 1..N
          MaxTok,     \* at most this many tokens per instance
          MaxIdle,    \* at most this many instances without tokens
          Z,          \* zones 1..Z, 0 = no zone
          StateSet,   \* instance states of this universe
          HbSet,      \* heartbeat classes of this universe
          RFMax,      \* replication factors 1..RFMax
          Canon,      \* 0: every descriptor; 1: one per renaming of instance ids and zones; 2: moreover
                      \*    owners numbered by their smallest token (one per renaming of instances)
          WithRemove, \* TRUE: RemoveInstance steps are explored as well
          WithChange, \* TRUE: ChangeInstance steps (a registered instance updates its entry) are explored as well
          EmitSteps,  \* TRUE: print every step (from, to) for the replay into ONE long-lived ring client
          Excl,       \* zones excluded by the ring's configuration (ring.Config.ExcludedZones)
          EmitOn,     \* TRUE: print the expected results of every state (one JSON line per descriptor)
          EmitSets,   \* TRUE: also print the acknowledging / answering subsets that make the executors succeed
          XMax        \* > 0: also the ignore-unhealthy strategy with per-call replication factors 1..XMax

Key    == 0..(NK-1)
TokPos == Key \ Gaps
Inst   == 1..N
OpSeq  == <<"Write", "WriteNoExtend", "Read", "Reporting">>
OpIx   == 1..4
OpAt(o) == Ops[OpSeq[o]]
ZASeq  == <<FALSE, TRUE>>
ZAIx   == 1..2
RFSet  == 1..RFMax

VARIABLES desc,   \* the ring descriptor (what the KV store holds)
          out     \* expected results on the ring a client configured with Excl builds from desc

vars == <<desc, out>>

(* Result codes for the case emitter.  A lookup result is one integer:     *)
(* (maxErrors + 2) * 2^N + id mask, 0 = empty ring, 2^N = too few healthy  *)
(* instances; a replication set:                                           *)
(* ((maxErrors + 2) * 8 + maxUnavailableZones) * 2^N + id mask.            *)
Mask(S) == LET f[i \in 0..N] == IF i = 0 THEN 0 ELSE f[i-1] + (IF i \in S THEN 2^(i-1) ELSE 0) IN f[N]
CodeL(r) == IF r.ok THEN (r.maxErrors + 2) * (2^N) + Mask(r.ids)
            ELSE IF r.err = "empty" THEN 0 ELSE 2^N
CodeR(r) == IF r.ok THEN ((r.maxErrors + 2) * 8 + r.maxUnavailableZones) * (2^N) + Mask(r.ids)
            ELSE IF r.err = "empty" THEN 0 ELSE 8 * (2^N)

(* Everything the specification says about descriptor d:                   *)
(*   ord[k]             the walk order for key class k                     *)
(*   res[w][o][z][rf]   the lookup result for walk order w, operation      *)
(*                      OpSeq[o], zone-awareness ZASeq[z], replication     *)
(*                      factor rf (keys with the same walk order share it) *)
(*   rset[o][z][rf]     the ring-wide replication set                      *)
(* TLCEval forces TLC to evaluate the (otherwise lazily re-evaluated)      *)
(* function values once.                                                   *)
Compute(d) ==
    LET ord == TLCEval([k \in Key |-> TLCEval(WalkOrder(NK, d, k))])
    IN [ord  |-> ord,
        res  |-> TLCEval([w \in {ord[k] : k \in Key} |-> TLCEval([o \in OpIx |-> TLCEval([z \in ZAIx |->
                    LET marks == TLCEval(Marks(d, OpAt(o), ZASeq[z], w))    \* shared by all rf
                    IN TLCEval([rf \in RFSet |->
                          LET r == ResultOn(d, w, OpAt(o), rf, Pick(w, marks, rf))
                          IN [r EXCEPT !.code = CodeL(r)]])])])]),
        rset |-> TLCEval([o \in OpIx |-> TLCEval([z \in ZAIx |-> TLCEval([rf \in RFSet |->
                    LET r == ReplicationSetFor(d, OpAt(o), rf, ZASeq[z])
                    IN [r EXCEPT !.code = CodeR(r)]])])])]

Empty == [i \in {} |-> 0]

(* The descriptor the ring works on: desc without the excluded zones. *)
Effective(d) == IF Excl = {} THEN d ELSE ExcludeZones(d, Excl)
Eff == Effective(desc)

Init == /\ desc = Empty
        /\ out = Compute(Empty)

MaxZone(d) == IF DOMAIN d = {} THEN 0 ELSE SetMax({d[i].zone : i \in DOMAIN d})
Idle(d)    == {i \in DOMAIN d : d[i].toks = {}}

(* Instance x registers with zone z, state s, heartbeat class h and the    *)
(* (still free) tokens T.  Neither the specification nor the property      *)
(* depends on the names of instances and zones, so with Canon >= 1 ids are *)
(* handed out in order and zone numbers are introduced in order; with      *)
(* Canon = 2 moreover owners are numbered by their smallest token and      *)
(* instances without tokens come last.                                     *)
AddInstance(x, z, s, h, T) ==
    /\ x \notin DOMAIN desc
    /\ T \cap AllTokens(desc) = {}
    /\ Cardinality(T) <= MaxTok
    /\ T = {} => Cardinality(Idle(desc)) < MaxIdle
    /\ Canon >= 1 => /\ x = Cardinality(DOMAIN desc) + 1
                     /\ z <= 1 + MaxZone(desc)
    /\ Canon >= 2 => (T # {} => \A i \in DOMAIN desc : desc[i].toks # {} /\ SetMin(desc[i].toks) < SetMin(T))
    /\ desc' = [i \in DOMAIN desc \cup {x} |->
                   IF i = x THEN [zone |-> z, state |-> s, hb |-> h, toks |-> T] ELSE desc[i]]
    /\ out' = Compute(Effective(desc'))

(* Instance x unregisters (with Canon >= 1: the one registered last). *)
RemoveInstance(x) ==
    /\ WithRemove
    /\ x \in DOMAIN desc
    /\ Canon >= 1 => x = Cardinality(DOMAIN desc)
    /\ desc' = [i \in DOMAIN desc \ {x} |-> desc[i]]
    /\ out' = Compute(Effective(desc'))

(* Instance x updates its own entry (what a lifecycler's heartbeat does):  *)
(* any combination of a new state, a new heartbeat class, a new zone and   *)
(* one token added, dropped or moved.  The ring content before and after   *)
(* has the same instances; a ring client that is told about the new        *)
(* content must answer from it and from nothing else.                      *)
ChangeInstance(x, z, s, h, T) ==
    /\ WithChange
    /\ x \in DOMAIN desc
    /\ [zone |-> z, state |-> s, hb |-> h, toks |-> T] # desc[x]
    /\ Cardinality(T \ desc[x].toks) <= 1 /\ Cardinality(desc[x].toks \ T) <= 1
    /\ T \cap UNION {desc[i].toks : i \in DOMAIN desc \ {x}} = {}
    /\ Cardinality(T) <= MaxTok
    /\ (T = {} /\ desc[x].toks # {}) => Cardinality(Idle(desc)) < MaxIdle
    /\ Canon >= 1 => z <= 1 + MaxZone(desc)
    /\ desc' = [desc EXCEPT ![x] = [zone |-> z, state |-> s, hb |-> h, toks |-> T]]
    /\ out' = Compute(Effective(desc'))

Next == \/ \E x \in Inst, z \in 0..Z, s \in StateSet, h \in HbSet, T \in SUBSET TokPos : AddInstance(x, z, s, h, T)
        \/ \E x \in Inst : RemoveInstance(x)
        \/ \E x \in Inst, z \in 0..Z, s \in StateSet, h \in HbSet, T \in SUBSET TokPos : ChangeInstance(x, z, s, h, T)

Spec == Init /\ [][Next]_vars

View == desc

----------------------------------------------------------------------------
TypeOK == /\ DOMAIN desc \subseteq Inst
          /\ \A i \in DOMAIN desc : /\ desc[i].zone \in 0..Z
                                    /\ desc[i].state \in StateSet
                                    /\ desc[i].hb \in HbSet
                                    /\ desc[i].toks \subseteq TokPos
          /\ WellFormed(desc)

Walks == DOMAIN out.res
L(k, o, z, rf) == out.res[out.ord[k]][o][z][rf]

(* C01.  The statements about a walked set hold for every walk order that  *)
(* occurs; the statements about where the walk starts for every key class. *)
SizeOK        == \A w \in Walks, o \in OpIx, z \in ZAIx, rf \in RFSet : SizeOKOn(Eff, OpAt(o), rf, ZASeq[z], out.res[w][o][z][rf])
ZoneOK        == \A w \in Walks, o \in OpIx, z \in ZAIx, rf \in RFSet : ZoneOKOn(Eff, OpAt(o), ZASeq[z], out.res[w][o][z][rf])
SlackExact    == \A w \in Walks, o \in OpIx, z \in ZAIx, rf \in RFSet : SlackExactOn(Eff, OpAt(o), rf, out.res[w][o][z][rf])
WalkDefsAgree == \A w \in Walks, o \in OpIx, z \in ZAIx, rf \in RFSet :
                    out.res[w][o][z][rf].walked = ReplicaWalkScan(Eff, OpAt(o), rf, ZASeq[z], w)
ClockwiseFirst == \A k \in Key :
                    LET reach == Reach(NK, Eff, k)
                    IN /\ WalkStartOK(NK, Eff, k, out.ord[k])
                       /\ \A o \in OpIx, z \in ZAIx, rf \in RFSet : NoJumpOn(Eff, reach, OpAt(o), ZASeq[z], L(k, o, z, rf))

(* C01, the consequence: a step that registers or removes one instance -   *)
(* or in which one instance updates its entry - changes the result only of *)
(* lookups whose walked set contained it before or contains it afterwards. *)
(* (Stated on the ring the client works on: an instance of an excluded     *)
(* zone is in neither walked set, so its steps change nothing.)            *)
Observable(r) == <<r.walked, r.ok, r.err, r.ids, r.maxErrors>>
Disruption ==
    LET changed == (DOMAIN desc' \ DOMAIN desc) \cup (DOMAIN desc \ DOMAIN desc')
                      \cup {i \in DOMAIN desc \cap DOMAIN desc' : desc[i] # desc'[i]}
    IN \A k \in Key, o \in OpIx, z \in ZAIx, rf \in RFSet :
          LET a == out.res[out.ord[k]][o][z][rf]
              b == out'.res[out'.ord[k]][o][z][rf]
          IN Observable(a) # Observable(b) => changed \cap (a.walked \cup b.walked) # {}
MinimalDisruption == [][Disruption]_vars

(* C02: with zone-awareness the property presupposes that every instance   *)
(* carries a zone.  (o = 1 is Write, o = 3 is Read.)                       *)
AllZoned == \A i \in DOMAIN Eff : Eff[i].zone # 0
QuorumIntersection ==
    \A z \in ZAIx, rf \in RFSet :
       (ZASeq[z] => AllZoned) =>
          LET r == out.rset[3][z][rf]
          IN r.ok => LET RB == ReadAnswerSets(Eff, r)
                     IN \A w \in Walks :
                           LET wr == out.res[w][1][z][rf]
                           IN wr.ok => \A A \in WriteAckSets(wr), B \in RB : A \cap B # {}

(* The ignore-unhealthy strategy with per-call replication factors        *)
(* (expanded replication), only in universes with XMax > 0.                *)
LX(k, o, z, rf, c) == LookupIgnoreUnhealthy(NK, Eff, k, OpAt(o), rf, c, ZASeq[z])
ExpandedOK ==
    XMax > 0 => \A k \in Key, o \in OpIx, z \in ZAIx, rf \in RFSet, c \in 1..XMax :
       LET r  == LX(k, o, z, rf, c)
           e  == Max2(rf, c)                    \* the effective factor
           t  == Max2(1, e \div rf)
           C  == {i \in r.walked : ~Extends(Eff, OpAt(o), i)}
       IN /\ Cardinality(C) <= e
          /\ ZASeq[z] => \A zz \in 1..Z : Cardinality({i \in C : Eff[i].zone = zz}) <= t
          /\ r.ids = {i \in r.walked : Healthy(Eff, OpAt(o), i)}
          /\ r.ok <=> r.ids # {}
          /\ r.ok => r.maxErrors = Cardinality(r.ids) - 1
          \* nothing changes up to the configured factor: the same walked set as the default strategy
          /\ c <= rf => r.walked = L(k, o, z, rf).walked
          \* for one replica per zone MarksT is Marks
          /\ MarksT(Eff, OpAt(o), ZASeq[z], out.ord[k], 1) = Marks(Eff, OpAt(o), ZASeq[z], out.ord[k])

(* A step changes the entry of exactly one instance. *)
OneInstanceSteps ==
    [][Cardinality((DOMAIN desc' \ DOMAIN desc) \cup (DOMAIN desc \ DOMAIN desc')
                     \cup {i \in DOMAIN desc \cap DOMAIN desc' : desc[i] # desc'[i]}) = 1]_vars

----------------------------------------------------------------------------
(* Step emitter (an ACTION_CONSTRAINT, so it is evaluated on every step of *)
(* the graph, also on those that lead to a descriptor already seen): the   *)
(* harness feeds `from` and then `to` (and `from` again) to one long-lived *)
(* ring client through its watch and demands after every update the        *)
(* results the specification gives for that descriptor alone.              *)
DescJson(d) == [ids   |-> [i \in 1..N |-> IF i \in DOMAIN d THEN 1 ELSE 0],
                zone  |-> [i \in 1..N |-> IF i \in DOMAIN d THEN d[i].zone ELSE 0],
                state |-> [i \in 1..N |-> IF i \in DOMAIN d THEN d[i].state ELSE ""],
                hb    |-> [i \in 1..N |-> IF i \in DOMAIN d THEN d[i].hb ELSE ""],
                toks  |-> [i \in 1..N |-> IF i \in DOMAIN d THEN d[i].toks ELSE {}]]
StepKind == IF DOMAIN desc' # DOMAIN desc
            THEN (IF Cardinality(DOMAIN desc') > Cardinality(DOMAIN desc) THEN "add" ELSE "remove")
            ELSE LET x == CHOOSE i \in DOMAIN desc : desc[i] # desc'[i]
                 IN IF desc[x].toks # desc'[x].toks
                    THEN (IF desc[x].state # desc'[x].state \/ desc[x].hb # desc'[x].hb THEN "change-tokens+state" ELSE "change-tokens")
                    ELSE IF desc[x].zone # desc'[x].zone THEN "change-zone" ELSE "change-state"
EmitStep == EmitSteps => PrintT(ToJson([step |-> StepKind, from |-> DescJson(desc), to |-> DescJson(desc')]))

----------------------------------------------------------------------------
(* Case emitter: one JSON line per descriptor. *)
AckMasks(k, z, rf)  == LET w == L(k, 1, z, rf) IN IF w.ok THEN {Mask(A) : A \in WriteAckSets(w)} ELSE {}
AnswerMasks(z, rf)  == LET r == out.rset[3][z][rf] IN IF r.ok THEN {Mask(B) : B \in ReadAnswerSets(Eff, r)} ELSE {}

Emit == EmitOn =>
    PrintT(ToJson(
      [ids   |-> [i \in 1..N |-> IF i \in DOMAIN desc THEN 1 ELSE 0],
       zone  |-> [i \in 1..N |-> IF i \in DOMAIN desc THEN desc[i].zone ELSE 0],
       state |-> [i \in 1..N |-> IF i \in DOMAIN desc THEN desc[i].state ELSE ""],
       hb    |-> [i \in 1..N |-> IF i \in DOMAIN desc THEN desc[i].hb ELSE ""],
       toks  |-> [i \in 1..N |-> IF i \in DOMAIN desc THEN desc[i].toks ELSE {}],
       excl  |-> Excl,
       look  |-> [k \in 1..NK |-> [o \in OpIx |-> [z \in ZAIx |-> [rf \in RFSet |-> L(k-1, o, z, rf).code]]]],
       rset  |-> [o \in OpIx |-> [z \in ZAIx |-> [rf \in RFSet |-> out.rset[o][z][rf].code]]],
       \* a per-call replication factor above the configured one (the same for every key, operation, setting)
       over  |-> LookupCall(NK, Eff, 0, OpAt(1), 1, 2, FALSE).err,
       \* the subsets (id masks) of the Write replica set / Read replication set on which DoBatch / DoUntilQuorum succeed
       acks  |-> IF EmitSets THEN [k \in 1..NK |-> [z \in ZAIx |-> [rf \in RFSet |-> AckMasks(k-1, z, rf)]]] ELSE <<>>,
       answers |-> IF EmitSets THEN [z \in ZAIx |-> [rf \in RFSet |-> AnswerMasks(z, rf)]] ELSE <<>>,
       \* ignore-unhealthy strategy: [key class][op][za][configured rf][per-call rf]
       lookx |-> IF XMax > 0 THEN [k \in 1..NK |-> [o \in OpIx |-> [z \in ZAIx |-> [rf \in RFSet |-> [c \in 1..XMax |->
                     CodeL(LX(k-1, o, z, rf, c))]]]]] ELSE <<>>,
       nt    |-> Cardinality({c \in Key \X OpIx \X ZAIx \X RFSet : ~L(c[1], c[2], c[3], c[4]).plain})]))
=============================================================================
