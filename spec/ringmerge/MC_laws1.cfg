\* C03 instance ring: all triples of single-id descriptors (35^3), every law.
CONSTANTS
  N = 1
  M = 2
  Shared = FALSE
  TsSet = {1, 2}
  LiveSt = {"ACTIVE", "LEAVING", "PENDING", "JOINING"}
  Arity = 3
  EmitConv = FALSE
INIT Init
NEXT Next
INVARIANTS PairLaws TripleLaws RawLaws EmitConvergence
CHECK_DEADLOCK FALSE
