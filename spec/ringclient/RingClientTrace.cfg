CONSTANTS
  Inst = {1, 2, 3, 4, 5, 6, 7, 8, 9}
  Ident = {1, 2, 3, 4}
  Sizes = {0, 1, 2, 3, 5, 20}
  Lookbacks = {1, 2, 3, 5, 8}
  Times = {}
  Readers = {1}
  MaxUpd = 100000000
  ZoneAware = FALSE
  Addrs = {}
  Zones = {}
  Toks = {}
  Stamps = {}
  States = {}
  Beats = {}
  Compute <- TraceCompute
INIT TraceInit
NEXT TraceNext
INVARIANT Report
VIEW TraceView
CHECK_DEADLOCK FALSE
