-------------------------------- MODULE MCRun --------------------------------
(* Model-checking harness of ModulesRun: which graphs are explored.                           *)
(* The run-time behaviour depends on the graph only through Trans restricted to the modules   *)
(* that have a service, i.e. on a strict partial order; every strict partial order on <= N    *)
(* elements is isomorphic to one whose pairs <<a, b>> all have b < a.  CanonClosed is the set *)
(* of all of them: every DAG shape (chain, diamond, fork, join, shared deep dependency,       *)
(* disconnected pieces, ...).  CanonAll additionally has the non-closed graphs, used with     *)
(* service-less modules in the middle.                                                        *)
EXTENDS ModulesRun

Down == {e \in Mod \X Mod : e[2] < e[1]}
CanonAll == SUBSET Down
CanonClosed == {g \in CanonAll : \A m \in Mod : TransOf(g, m) = Direct(g, m)}
(* one representative per isomorphism class (the one with the smallest code) *)
RECURSIVE Code(_)
Code(g) == IF g = {} THEN 0 ELSE LET e == CHOOSE x \in g : TRUE IN 2^((e[1]-1)*N + (e[2]-1)) + Code(g \ {e})
Perms == {p \in [Mod -> Mod] : \A i, j \in Mod : i # j => p[i] # p[j]}
Relabel(g, p) == {<<p[e[1]], p[e[2]]>> : e \in g}
Shapes(G) == {g \in G : \A p \in Perms : Relabel(g, p) \subseteq Down => Code(g) <= Code(Relabel(g, p))}
ClosedShapes == Shapes(CanonClosed)
AllShapes == Shapes(CanonAll)
(* the shapes DESIGN.md names: chain, diamond, shared deep dependency (4 and 3 both need 2, which needs 1), *)
(* two targets one of which is a dependency of the other (4 needs 3; both initialised; 3 needs 1, 2)        *)
Close(g) == {<<m, d>> \in Mod \X Mod : d \in TransOf(g, m)}
Chain4   == Close({<<2,1>>, <<3,2>>, <<4,3>>})
Diamond4 == Close({<<2,1>>, <<3,1>>, <<4,2>>, <<4,3>>})
Deep4    == Close({<<2,1>>, <<3,2>>, <<4,2>>})
Target4  == Close({<<3,1>>, <<3,2>>, <<4,3>>})
Named4 == {Chain4, Diamond4, Deep4, Target4}
(* the same shapes as written (not closed), for the configs where a module in the middle has no service *)
Named4Open == {{<<2,1>>, <<3,2>>, <<4,3>>}, {<<2,1>>, <<3,1>>, <<4,2>>, <<4,3>>}, {<<2,1>>, <<3,2>>, <<4,2>>}, {<<3,1>>, <<3,2>>, <<4,3>>}}
Connected(g) == \A m \in Mod : \E e \in g : e[1] = m \/ e[2] = m
ConnectedShapes == {g \in ClosedShapes : Connected(g)}
SvcSetsHoles == {s \in SUBSET Mod : Cardinality(s) = N - 1}
NoFault == \A m \in Mod : script[m] = [start |-> "ok", run |-> "block", stop |-> "ok"]
AllStarted == \A m \in svc : wStarted[m]
AllButOne == \E m \in svc : ~wStarted[m] /\ \A x \in svc \ {m} : wStarted[x]
(* all services present; all wrappers started, and - without a fault - also all but one *)
InitMain  == Init /\ svc = Mod /\ (AllStarted \/ (NoFault /\ AllButOne))
(* ... with a fault as well *)
InitWide  == Init /\ svc = Mod /\ (AllStarted \/ AllButOne)
(* one module has no service (transparent in the middle of the graph) *)
InitHoles == Init /\ svc \in SvcSetsHoles /\ AllStarted
(* quick tier: the shapes in which every module takes part in a dependency; without a fault    *)
(* all wrappers or all but one started, with a fault all wrappers started                      *)
InitQuick == Init /\ svc = Mod /\ Connected(deps) /\ IF NoFault THEN AllStarted \/ AllButOne ELSE AllStarted
InitAllStarted == Init /\ svc = Mod /\ AllStarted
(* liveness configs *)
LiveSpec == InitMain /\ [][Next]_vars /\ Fairness
LiveSpecAllStarted == InitAllStarted /\ [][Next]_vars /\ Fairness
(* every subset of wrappers started *)
InitAny   == Init /\ svc = Mod
=============================================================================
