package abs

// Shared by the C03 / C05 drivers (family ringmerge): JSON shapes of spec/ringmerge descriptors,
// construction of real *ring.Desc / *ring.PartitionRingDesc from them and the projection back.

import (
	"fmt"
	"math/rand"
	"reflect"
	"sort"
	"time"

	"github.com/grafana/dskit/ring"
)

// Epoch2000 is the unix time at which a testing/synctest bubble starts (2000-01-01T00:00:00Z).
// Specification timestamp t > 0 is unix second Epoch2000+t; specification timestamp 0 is the
// literal 0 (the value the code sees for a missing entry).
const Epoch2000 int64 = 946684800

func TsToUnix(ts int) int64 {
	if ts == 0 {
		return 0
	}
	return Epoch2000 + int64(ts)
}

func UnixToTs(u int64) int {
	if u == 0 {
		return 0
	}
	return int(u - Epoch2000)
}

// SleepUntil advances the bubble clock to specification time `now` (call inside a synctest bubble).
func SleepUntil(now int) {
	target := time.Unix(Epoch2000+int64(now), 0)
	if d := time.Until(target); d > 0 {
		time.Sleep(d)
	}
}

// MEntry is one instance entry of a RingMerge descriptor; State "ABSENT" = the descriptor does not mention the id.
type MEntry struct {
	Ts    int    `json:"ts"`
	State string `json:"state"`
	Toks  []int  `json:"toks"`
}

// MDesc is a descriptor: entry k belongs to instance k+1.
type MDesc []MEntry

func (e MEntry) Present() bool { return e.State != "ABSENT" }

func (e MEntry) Equal(o MEntry) bool {
	if e.Ts != o.Ts || e.State != o.State || len(e.Toks) != len(o.Toks) {
		return false
	}
	a := append([]int(nil), e.Toks...)
	b := append([]int(nil), o.Toks...)
	sort.Ints(a)
	sort.Ints(b)
	for i := range a {
		if a[i] != b[i] {
			return false
		}
	}
	return true
}

func (d MDesc) Equal(o MDesc) bool {
	if len(d) != len(o) {
		return false
	}
	for i := range d {
		if !d[i].Equal(o[i]) {
			return false
		}
	}
	return true
}

// MergeID names instance n of an n-instance universe; zero-padded so that string order = numeric order.
func MergeID(n, of int) string {
	if of <= 9 {
		return InstID(n)
	}
	return fmt.Sprintf("i-%02d", n)
}

// RingBuild describes how a specification descriptor becomes a real one.
type RingBuild struct {
	Emb Embedding  // position -> token
	Rnd *rand.Rand // non-nil: token lists are shuffled and get duplicates (an argument need not be normalised)
	Tag string     // stored in Addr: tells afterwards which operand an entry came from
}

// BuildDesc builds a real descriptor. Without Rnd the token lists are sorted and duplicate-free
// (the contract for a receiver).
func BuildDesc(d MDesc, b RingBuild) *ring.Desc {
	out := ring.NewDesc()
	for k, e := range d {
		if !e.Present() {
			continue
		}
		id := MergeID(k+1, len(d))
		var toks []uint32
		for _, p := range e.Toks {
			toks = append(toks, b.Emb.Pos[p])
		}
		sort.Slice(toks, func(i, j int) bool { return toks[i] < toks[j] })
		if b.Rnd != nil && len(toks) > 0 {
			for n := b.Rnd.Intn(3); n > 0; n-- { // duplicates
				toks = append(toks, toks[b.Rnd.Intn(len(toks))])
			}
			b.Rnd.Shuffle(len(toks), func(i, j int) { toks[i], toks[j] = toks[j], toks[i] })
		}
		out.Ingesters[id] = ring.InstanceDesc{
			Id:        id,
			Addr:      b.Tag,
			Timestamp: TsToUnix(e.Ts),
			State:     StateOf(e.State),
			Tokens:    toks,
			Zone:      ZoneName(1 + k%2),
		}
	}
	return out
}

// ProjectDesc maps a real descriptor back to the specification's shape. Problems lists violations
// of the representation invariant (unsorted / duplicated token list, unknown id or token).
func ProjectDesc(d *ring.Desc, n int, emb Embedding) (MDesc, []string) {
	var problems []string
	out := make(MDesc, n)
	for k := range out {
		out[k] = MEntry{State: "ABSENT", Toks: []int{}}
	}
	if d == nil {
		return out, problems
	}
	inv := make(map[uint32]int, len(emb.Pos))
	for p, v := range emb.Pos {
		inv[v] = p
	}
	ids := map[string]int{}
	for k := 1; k <= n; k++ {
		ids[MergeID(k, n)] = k
	}
	for id, ing := range d.Ingesters {
		k, ok := ids[id]
		if !ok {
			problems = append(problems, "unknown id "+id)
			continue
		}
		e := MEntry{Ts: UnixToTs(ing.Timestamp), State: ing.State.String(), Toks: []int{}}
		for i, t := range ing.Tokens {
			if i > 0 && ing.Tokens[i-1] > t {
				problems = append(problems, "unsorted tokens of "+id)
			}
			if i > 0 && ing.Tokens[i-1] == t {
				problems = append(problems, "duplicate token of "+id)
				continue
			}
			p, ok := inv[t]
			if !ok {
				problems = append(problems, fmt.Sprintf("unknown token %d of %s", t, id))
				continue
			}
			e.Toks = append(e.Toks, p)
		}
		sort.Ints(e.Toks)
		out[k-1] = e
	}
	return out, problems
}

// IsNilMergeable reports whether a returned change is "no change" (nil interface or typed nil).
func IsNilMergeable(v any) bool {
	if v == nil {
		return true
	}
	rv := reflect.ValueOf(v)
	return rv.Kind() == reflect.Ptr && rv.IsNil()
}

// ---------------------------------------------------------------------------- partition ring

type PEntry struct {
	State  string `json:"state"`
	Sts    int    `json:"sts"`
	Locked bool   `json:"locked"`
	Lts    int    `json:"lts"`
}

type OEntry struct {
	State string `json:"state"`
	Ts    int    `json:"ts"`
	Part  int    `json:"part"`
}

// PDesc is a PartitionMerge descriptor: parts[k] is partition k+1, owners[k] owner k+1.
type PDesc struct {
	Parts  []PEntry `json:"parts"`
	Owners []OEntry `json:"owners"`
}

func PStateOf(s string) ring.PartitionState {
	switch s {
	case "Pending":
		return ring.PartitionPending
	case "Active":
		return ring.PartitionActive
	case "Inactive":
		return ring.PartitionInactive
	case "Deleted":
		return ring.PartitionDeleted
	case "Unknown":
		return ring.PartitionUnknown
	}
	panic("unknown partition state " + s)
}

func PStateName(s ring.PartitionState) string {
	switch s {
	case ring.PartitionPending:
		return "Pending"
	case ring.PartitionActive:
		return "Active"
	case ring.PartitionInactive:
		return "Inactive"
	case ring.PartitionDeleted:
		return "Deleted"
	}
	return "Unknown"
}

func OStateOf(s string) ring.OwnerState {
	switch s {
	case "Active":
		return ring.OwnerActive
	case "Deleted":
		return ring.OwnerDeleted
	case "Unknown":
		return ring.OwnerUnknown
	}
	panic("unknown owner state " + s)
}

func OStateName(s ring.OwnerState) string {
	switch s {
	case ring.OwnerActive:
		return "Active"
	case ring.OwnerDeleted:
		return "Deleted"
	}
	return "Unknown"
}

func OwnerID(n, of int) string {
	if of <= 9 {
		return fmt.Sprintf("o-%d", n)
	}
	return fmt.Sprintf("o-%02d", n)
}

// PartTokens are the (immutable) tokens a descriptor built with tag `tag` gives partition p:
// they tell afterwards whose copy of the partition survived.
func PartTokens(p int, tag uint32) []uint32 {
	return []uint32{uint32(p)*1000 + tag, uint32(p)*1000 + tag + 500}
}

func BuildPDesc(d PDesc, tag uint32) *ring.PartitionRingDesc {
	out := ring.NewPartitionRingDesc()
	for k, e := range d.Parts {
		if e.State == "ABSENT" {
			continue
		}
		id := int32(k + 1)
		out.Partitions[id] = ring.PartitionDesc{
			Id:                         id,
			Tokens:                     PartTokens(k+1, tag),
			State:                      PStateOf(e.State),
			StateTimestamp:             TsToUnix(e.Sts),
			StateChangeLocked:          e.Locked,
			StateChangeLockedTimestamp: TsToUnix(e.Lts),
		}
	}
	for k, e := range d.Owners {
		if e.State == "ABSENT" {
			continue
		}
		out.Owners[OwnerID(k+1, len(d.Owners))] = ring.OwnerDesc{
			OwnedPartition:   int32(e.Part),
			State:            OStateOf(e.State),
			UpdatedTimestamp: TsToUnix(e.Ts),
		}
	}
	return out
}

// ProjectPDesc maps back; tokTag[k] is the tag found in the tokens of partition k+1 (0 = absent / unrecognised).
func ProjectPDesc(d *ring.PartitionRingDesc, np, no int) (PDesc, []uint32, []string) {
	var problems []string
	out := PDesc{Parts: make([]PEntry, np), Owners: make([]OEntry, no)}
	tags := make([]uint32, np)
	for k := range out.Parts {
		out.Parts[k] = PEntry{State: "ABSENT"}
	}
	for k := range out.Owners {
		out.Owners[k] = OEntry{State: "ABSENT"}
	}
	if d == nil {
		return out, tags, problems
	}
	for id, p := range d.Partitions {
		if id < 1 || int(id) > np {
			problems = append(problems, fmt.Sprintf("unknown partition %d", id))
			continue
		}
		if p.Id != id {
			problems = append(problems, fmt.Sprintf("partition %d has Id %d", id, p.Id))
		}
		out.Parts[id-1] = PEntry{State: PStateName(p.State), Sts: UnixToTs(p.StateTimestamp), Locked: p.StateChangeLocked, Lts: UnixToTs(p.StateChangeLockedTimestamp)}
		if len(p.Tokens) == 2 && p.Tokens[1] == p.Tokens[0]+500 && p.Tokens[0]/1000 == uint32(id) {
			tags[id-1] = p.Tokens[0] % 1000
		} else {
			problems = append(problems, fmt.Sprintf("partition %d has tokens %v", id, p.Tokens))
		}
	}
	ids := map[string]int{}
	for k := 1; k <= no; k++ {
		ids[OwnerID(k, no)] = k
	}
	for id, o := range d.Owners {
		k, ok := ids[id]
		if !ok {
			problems = append(problems, "unknown owner "+id)
			continue
		}
		out.Owners[k-1] = OEntry{State: OStateName(o.State), Ts: UnixToTs(o.UpdatedTimestamp), Part: int(o.OwnedPartition)}
	}
	return out, tags, problems
}

// CanonP erases the payload of owner tombstones (PartitionMerge!Canon).
func CanonP(d PDesc) PDesc {
	out := PDesc{Parts: append([]PEntry(nil), d.Parts...), Owners: append([]OEntry(nil), d.Owners...)}
	for k, o := range out.Owners {
		if o.State == "Deleted" {
			o.Part = 0
			out.Owners[k] = o
		}
	}
	return out
}

func (d PDesc) Equal(o PDesc) bool {
	if len(d.Parts) != len(o.Parts) || len(d.Owners) != len(o.Owners) {
		return false
	}
	for i := range d.Parts {
		if d.Parts[i] != o.Parts[i] {
			return false
		}
	}
	for i := range d.Owners {
		if d.Owners[i] != o.Owners[i] {
			return false
		}
	}
	return true
}
