\* Decides C19 for every stacking order with a Versioned layer (two views of different versions over one
\* shared lower stack): every history of at most MaxOps operations. The check substitutes @@STACKS@@ (all such
\* stacks: {3, 5, 6, 9, 10, 11, 12, 13, 14, 15, 16, 18}; shared-LRU stacks: {6, 13, 14, 16}), @@CAPS@@, @@MAXOPS@@.
CONSTANTS
  StackIds = @@STACKS@@
  Caps = @@CAPS@@
  DTTLs = {1, 2}
  Keys = {k1, k2}
  Values = {a, b}
  TTLs = {1, 2}
  Deltas = {1}
  NViews = 2
  PokeTTLs = {}
  MaxOps = @@MAXOPS@@
  Faults = FALSE
  Full = FALSE
  DetOnly = FALSE
  Wrong = "none"
INIT Init
NEXT Next
VIEW View
SYMMETRY Sym
CONSTRAINT Bounded
INVARIANTS TypeOK EncodingConsistent KeysWellPlaced PkIsPeek PeekNeverWrong PeekNeverAfterDeadline PeekBoundedStaleness
PROPERTIES NeverWrong NeverAfterDelete NeverAfterDeadline NeverCorrupt ReadIsPeek NoAlias AddSemantics ReadYourWrites DeleteRemoves StopIsInert
CHECK_DEADLOCK FALSE
