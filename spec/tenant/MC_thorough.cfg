\* C20 thorough tier: all strings of length <= 5 over a 9-byte alphabet, all strings of length <= 4 over 14 bytes (adds \ space % + DEL), every single byte,
\* run-length families at the 149/150/151 boundary, part lists, metadata strings.
CONSTANTS
  Alphabet = {97, 48, 46, 124, 58, 47, 61, 0, 195}
  MaxShort = 5
  Alphabet2 = {97, 48, 46, 124, 58, 47, 61, 0, 195, 92, 32, 37, 43, 127}
  MaxShort2 = 4
  RunBytes = {97, 48}
  RunCounts = {1, 2, 149, 150, 151}
  SepBytes = {46, 124, 58, 47}
  MaxSegs = 3
  Pool <- PoolQuick
  MaxParts = 5
  Pool2 <- PoolThorough
  MaxParts2 = 4
  MetaAlphabet = {58, 61, 97, 48, 47}
  MaxMeta = 6
  MetaRuns = {58, 59, 60, 61, 62, 63, 64}
INIT Init
NEXT Next
INVARIANTS TypeOK ValidIsDocumentedRule NoSeparatorInAccepted ResolversAgree MultiIsNormalised
           MetadataIgnoredConsistently SplitJoin MetaGrammar MetaOps NoOrgIsRefused Emit
CHECK_DEADLOCK FALSE
