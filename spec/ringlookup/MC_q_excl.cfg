\* q_excl: ring.Config.ExcludedZones = {zone 2}: 3 single-token instances, zones 0..3, ACTIVE/JOINING, tokenless allowed
\* (generated from UNIVERSES in checks/ringlookup_common.py: python3 checks/ringlookup_common.py --write-cfgs)
CONSTANTS
  NK = 4
  Gaps = {1}
  N = 3
  MaxTok = 1
  MaxIdle = 1
  Z = 3
  StateSet = {"ACTIVE", "JOINING"}
  HbSet = {"edge"}
  RFMax = 3
  Canon = 2
  WithRemove = FALSE
  Excl = {2}
  EmitOn = TRUE
  EmitSets = TRUE
  XMax = 0
INIT Init
NEXT Next
VIEW View
INVARIANTS TypeOK SizeOK ZoneOK ClockwiseFirst SlackExact WalkDefsAgree QuorumIntersection ExpandedOK Emit
PROPERTIES MinimalDisruption
CHECK_DEADLOCK FALSE
