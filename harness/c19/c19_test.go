// Package c19 binds spec/cache/CacheStack.tla and spec/cache/JumpHash.tla to the real dskit cache
// wrappers (C19).
//
//	TestReplay    spec -> code: behaviours printed by TLC (the transition cover of the exhaustive state
//	              graph, or every behaviour CacheStack.tla allows for a given operation script) are
//	              executed against the real LRUCache / Versioned / SnappyCache stacked in the same order
//	              over cache.NewMockCache(), inside a synctest bubble whose clock moves together with
//	              mock.Advance. After every operation the reply (values byte for byte, errors) and the
//	              complete backend content (keys, bytes, expiry) are compared with the specification's.
//	TestPlacement code -> spec: PickServer results of the real MemcachedJumpHashSelector are recorded
//	              for TLC (JumpHashTrace.tla).
package c19

import (
	"bytes"
	"context"
	"crypto/sha1"
	"encoding/json"
	"errors"
	"fmt"
	"math/rand"
	"net"
	"os"
	"sort"
	"strings"
	"testing"
	"testing/synctest"
	"time"

	"verifharness/internal/abs"

	"github.com/go-kit/log"
	"github.com/golang/snappy"
	"github.com/grafana/dskit/cache"
)

// ---------------------------------------------------------------------------------------------
// JSON shapes printed by CacheStack.tla

type strMap map[string]string

// TLC prints the empty function as [] and a non-empty one as an object.
func (m *strMap) UnmarshalJSON(b []byte) error {
	*m = strMap{}
	if len(b) > 0 && b[0] == '[' {
		return nil
	}
	return json.Unmarshal(b, (*map[string]string)(m))
}

type reply struct {
	Found  strMap `json:"found"`
	Err    bool   `json:"err"`
	Stored bool   `json:"stored"`
	Live   bool   `json:"live"`
}

type bkEntry struct {
	Ver  int    `json:"ver"`
	K    string `json:"k"`
	V    string `json:"v"`
	Enc  int    `json:"enc"`
	Left int    `json:"left"`
}

type step struct {
	Name string    `json:"name"`
	W    int       `json:"w"`
	Keys []string  `json:"keys"`
	Vals []string  `json:"vals"`
	TTL  int       `json:"ttl"`
	Fail bool      `json:"fail"`
	Rep  reply     `json:"rep"`
	ND   bool      `json:"nd"`
	Bk   []bkEntry `json:"bk"`
}

type sweepEntry struct {
	W   int    `json:"w"`
	K   string `json:"k"`
	V   string `json:"v"`
	Err bool   `json:"err"`
}

type behaviour struct {
	Stack []string     `json:"stack"`
	Cap   int          `json:"cap"`
	DTTL  int          `json:"dttl"`
	Steps []step       `json:"steps"`
	Sweep []sweepEntry `json:"sweep"`
}

type scripted struct {
	Sid int       `json:"sid"`
	B   behaviour `json:"b"`
}

// ---------------------------------------------------------------------------------------------
// model values / keys / versions -> concrete ones

var (
	corruptBytes = []byte("\xff\xff\xff\xff\xff\xff\xff\xff\xff\xffthis is not a snappy block")
	valuePalette [][]byte
	valueNames   = []string{"empty", "1byte", "64KiB-compressible", "64KiB-random", "snappy-looking"}
	backendKinds = []string{"mock", "instrumented", "erroring-nil"}
	keyPalettes  = [][]string{
		{"12@1@x", "x", "1@"},         // keys that contain the version prefixes of both views
		{"a", "b", "c"},               // plain
		{"1@12@", "12@12@1@", "@"},    // only prefixes
		{"k/1 é", "12@", "1@1@1@1@y"}, // non-ASCII, repeated prefix
	}
	// view w of the specification uses this version number ("1@" is a prefix of "12@...")
	versions = []uint{0, 1, 12, 121}
)

func init() {
	rnd := rand.New(rand.NewSource(0x5eed))
	random := make([]byte, 64<<10)
	rnd.Read(random)
	valuePalette = [][]byte{
		{},
		{0x00}, // also the snappy encoding of the empty string
		bytes.Repeat([]byte("abcd"), 16<<10),
		random,
		snappy.Encode(nil, bytes.Repeat([]byte("the quick brown fox "), 40)),
	}
	// Enumerated short byte strings and boundary sizes for the snappy layer (every model value is mapped to several
	// concrete byte strings, rotated by seed and behaviour number): all strings of length 1..2 over bytes that matter
	// to the snappy block format (varint length prefix 0x00/0x01/0x7f/0x80/0xff, literal tag 0x00, copy tags
	// 0x01/0x02/0x03, 60..63<<2 literal-length escapes 0xf0/0xf4/0xf8/0xfc), lengths around the literal-length
	// escapes (59..61, 255..257), around the 64 KiB block size (65535..65537: 65537 needs two blocks), and around
	// the minimum match length / hash-table input margins of the encoder (4, 15..17).
	add := func(name string, b []byte) {
		valuePalette = append(valuePalette, b)
		valueNames = append(valueNames, name)
	}
	special := []byte{0x00, 0x01, 0x02, 0x03, 0x7f, 0x80, 0xf0, 0xf4, 0xf8, 0xfc, 0xff}
	for _, x := range special {
		if x != 0x00 {
			add(fmt.Sprintf("byte-%02x", x), []byte{x})
		}
		for _, y := range special {
			add(fmt.Sprintf("bytes-%02x%02x", x, y), []byte{x, y})
		}
	}
	for _, n := range []int{3, 4, 15, 16, 17, 59, 60, 61, 255, 256, 257, 65535, 65536, 65537} {
		add(fmt.Sprintf("%dB-random", n), random2(rnd, n))
		add(fmt.Sprintf("%dB-run", n), bytes.Repeat([]byte{byte(n)}, n))
		if n >= 15 {
			half := random2(rnd, n/2)
			add(fmt.Sprintf("%dB-repeat-half", n), append(append([]byte{}, half...), append(half, make([]byte, n-2*(n/2))...)...))
		}
	}
	add("snappy-of-empty-twice", snappy.Encode(nil, snappy.Encode(nil, nil)))
	add("truncated-snappy", snappy.Encode(nil, bytes.Repeat([]byte("xyz"), 100))[:7])
	add("bad-varint", []byte{0xff, 0xff, 0xff, 0xff, 0xff, 0x0f})
}

func random2(rnd *rand.Rand, n int) []byte {
	b := make([]byte, n)
	rnd.Read(b)
	return b
}

type concretiser struct {
	vals map[string][]byte // model value -> bytes
	keys map[string]string // model key -> concrete key
	desc string
	// rotated with the behaviour number as well: which in-process backend of cache/mock.go is underneath, whether the
	// Snappy layers are made by NewCompression(CompressionConfig) instead of NewSnappy, whether the final sweep reads
	// through GetMulti instead of GetMultiWithError
	backend    string
	viaConfig  bool
	plainSweep bool
}

// newConcretiser maps the model's values and keys to concrete ones; n selects the combination so that
// successive behaviours rotate through all of them.
func newConcretiser(n int) *concretiser {
	c := &concretiser{vals: map[string][]byte{"corrupt": corruptBytes}, keys: map[string]string{}}
	np := len(valuePalette)
	off, stride := (n*7)%np, 1+(n/np)%(np-1)
	names := []string{}
	for i, mv := range []string{"a", "b", "c"} {
		idx := (off + i*stride) % np
		// a, b, c must be distinct byte strings
		for used := true; used; {
			used = false
			for _, prev := range []string{"a", "b", "c"}[:i] {
				if bytes.Equal(c.vals[prev], valuePalette[idx]) {
					used = true
					idx = (idx + 1) % np
				}
			}
		}
		c.vals[mv] = valuePalette[idx]
		names = append(names, valueNames[idx])
	}
	c.backend = backendKinds[(n/3)%len(backendKinds)]
	c.viaConfig = (n/2)%2 == 1
	c.plainSweep = n%2 == 1
	kp := keyPalettes[(n/7)%len(keyPalettes)]
	for i, mk := range []string{"k1", "k2", "k3"} {
		c.keys[mk] = kp[i]
	}
	c.desc = fmt.Sprintf("values a,b,c=%s keys k1,k2,k3=%q backend=%s snappy-via-config=%v", strings.Join(names, ","), kp, c.backend, c.viaConfig)
	return c
}

func (c *concretiser) physical(ver int, k string) string {
	if ver == 0 {
		return c.keys[k]
	}
	return fmt.Sprintf("%d@%s", versions[ver], c.keys[k])
}

// ---------------------------------------------------------------------------------------------
// the real stack

// faultyBackend is the mock backend with a switch: while failing is set every call returns errBackend
// and does nothing (SetAsync / SetMultiAsync drop the write silently, as a failed asynchronous write does).
type faultyBackend struct {
	mockBackend
	failing bool
	// observations: how many calls reached the backend, how many of them were Stop, options of the latest read
	calls, stops, lastOpts int
}

// mockBackend is what the in-process backends of cache/mock.go have in common (MockCache, InstrumentedMockCache,
// ErroringMockCache with a nil error).
type mockBackend interface {
	cache.Cache
	Advance(d time.Duration)
	GetItems() map[string]cache.Item
	Flush()
}

func newMockBackend(kind string) mockBackend {
	switch kind {
	case "instrumented":
		return cache.NewInstrumentedMockCache()
	case "erroring-nil":
		return cache.NewErroringMockCache(nil)
	}
	return cache.NewMockCache()
}

func (f *faultyBackend) Stop() {
	f.calls++
	f.stops++
	f.mockBackend.Stop()
}

var errBackend = errors.New("c19: injected backend failure")

func (f *faultyBackend) SetAsync(key string, value []byte, ttl time.Duration) {
	f.calls++
	if !f.failing {
		f.mockBackend.SetAsync(key, value, ttl)
	}
}
func (f *faultyBackend) SetMultiAsync(data map[string][]byte, ttl time.Duration) {
	f.calls++
	if !f.failing {
		f.mockBackend.SetMultiAsync(data, ttl)
	}
}
func (f *faultyBackend) Set(ctx context.Context, key string, value []byte, ttl time.Duration) error {
	f.calls++
	if f.failing {
		return errBackend
	}
	return f.mockBackend.Set(ctx, key, value, ttl)
}
func (f *faultyBackend) Add(ctx context.Context, key string, value []byte, ttl time.Duration) error {
	f.calls++
	if f.failing {
		return errBackend
	}
	return f.mockBackend.Add(ctx, key, value, ttl)
}
func (f *faultyBackend) Delete(ctx context.Context, key string) error {
	f.calls++
	if f.failing {
		return errBackend
	}
	return f.mockBackend.Delete(ctx, key)
}
func (f *faultyBackend) GetMultiWithError(ctx context.Context, keys []string, opts ...cache.Option) (map[string][]byte, error) {
	f.calls++
	f.lastOpts = len(opts)
	if f.failing {
		return map[string][]byte{}, errBackend
	}
	if f.calls%2 == 0 { // GetMulti and GetMultiWithError of the in-process backends are the same read
		return f.mockBackend.GetMulti(ctx, keys, opts...), nil
	}
	return f.mockBackend.GetMultiWithError(ctx, keys, opts...)
}
func (f *faultyBackend) GetMulti(ctx context.Context, keys []string, opts ...cache.Option) map[string][]byte {
	r, _ := f.GetMultiWithError(ctx, keys, opts...)
	return r
}

type realStack struct {
	mock    mockBackend
	backend *faultyBackend
	views   map[int]cache.Cache
}

func hasKind(stack []string, k string) bool {
	for _, s := range stack {
		if s == k {
			return true
		}
	}
	return false
}

func wrap(kind string, below cache.Cache, b *behaviour, view int, c *concretiser) (cache.Cache, error) {
	switch kind {
	case "lru":
		// a capacity that cannot hold anything is refused (and no wrapper is handed out)
		if bad, err := cache.WrapWithLRUCache(below, "c19", nil, 0, time.Second, log.NewNopLogger()); err == nil || bad != nil {
			return nil, fmt.Errorf("WrapWithLRUCache accepted capacity 0")
		}
		return cache.WrapWithLRUCache(below, "c19", nil, b.Cap, time.Duration(b.DTTL)*time.Second, log.NewNopLogger())
	case "snappy":
		if c != nil && c.viaConfig {
			cfg := cache.CompressionConfig{Compression: cache.CompressionSnappy}
			if err := cfg.Validate(); err != nil {
				return nil, fmt.Errorf("CompressionConfig{snappy}.Validate: %v", err)
			}
			if (&cache.CompressionConfig{Compression: "gzip"}).Validate() == nil {
				return nil, fmt.Errorf("CompressionConfig{gzip}.Validate accepted an unsupported compression")
			}
			// compression switched off is the identity wrapper: the stack below is handed back
			off := cache.CompressionConfig{}
			if err := off.Validate(); err != nil || cache.NewCompression(off, below, log.NewNopLogger()) != below {
				return nil, fmt.Errorf("NewCompression with compression off is not the identity")
			}
			return cache.NewCompression(cfg, below, log.NewNopLogger()), nil
		}
		return cache.NewSnappy(below, log.NewNopLogger()), nil
	case "ver":
		return cache.NewVersioned(below, versions[view], log.NewNopLogger()), nil
	}
	return nil, fmt.Errorf("unknown layer kind %q", kind)
}

// build stacks b.Stack (top first) over a fresh mock: layers below the Versioned layer are shared by
// the views, the Versioned layer and everything above exist once per view.
func build(b *behaviour, nviews int, cz *concretiser) (*realStack, error) {
	c := cz
	rs := &realStack{mock: newMockBackend(c.backend), views: map[int]cache.Cache{}}
	rs.backend = &faultyBackend{mockBackend: rs.mock}
	verPos := -1
	for i, k := range b.Stack {
		if k == "ver" {
			verPos = i
		}
	}
	var shared cache.Cache = rs.backend
	var err error
	for i := len(b.Stack) - 1; i > verPos; i-- {
		if shared, err = wrap(b.Stack[i], shared, b, 0, c); err != nil {
			return nil, err
		}
	}
	if verPos < 0 {
		rs.views[1] = shared
		return rs, nil
	}
	for w := 1; w <= nviews; w++ {
		c := shared
		for i := verPos; i >= 0; i-- {
			if c, err = wrap(b.Stack[i], c, b, w, cz); err != nil {
				return nil, err
			}
		}
		rs.views[w] = c
	}
	return rs, nil
}

// ---------------------------------------------------------------------------------------------
// running one behaviour

type diff struct {
	step int    // index into Steps, len(Steps)+i for sweep entry i
	what string // class of the difference
	got  any
	want any
}

func short(b []byte) string {
	if len(b) <= 24 {
		return fmt.Sprintf("%q", b)
	}
	return fmt.Sprintf("%q...(%d bytes)", b[:24], len(b))
}

func valueClass(c *concretiser, b []byte) string {
	for mv, v := range c.vals {
		if bytes.Equal(v, b) {
			return "value " + mv
		}
	}
	for mv, v := range c.vals {
		if bytes.Equal(snappy.Encode(nil, v), b) {
			return "snappy(" + mv + ")"
		}
	}
	return "other bytes"
}

// compareGet checks a GetMultiWithError result against the specification's reply.
func compareGet(c *concretiser, keys []string, want map[string]string, wantErr bool, got map[string][]byte, gotErr error) (string, any, any) {
	if (gotErr != nil) != wantErr {
		return "get:error", fmt.Sprint(gotErr), wantErr
	}
	wantConcrete := map[string]string{}
	for mk, mv := range want {
		wantConcrete[c.keys[mk]] = mv
	}
	for ck, gv := range got {
		mv, ok := wantConcrete[ck]
		if !ok {
			requested := false
			for _, mk := range keys {
				if c.keys[mk] == ck {
					requested = true
				}
			}
			if !requested {
				return "get:result-key-not-requested", ck, "one of the requested keys"
			}
			return "get:unexpected-hit(" + valueClass(c, gv) + ")", map[string]string{ck: short(gv)}, "miss"
		}
		if !bytes.Equal(gv, c.vals[mv]) {
			return "get:wrong-bytes(" + valueClass(c, gv) + ")", map[string]string{ck: short(gv)}, map[string]string{ck: short(c.vals[mv])}
		}
	}
	for ck, mv := range wantConcrete {
		if _, ok := got[ck]; !ok {
			return "get:unexpected-miss", "miss of " + ck, map[string]string{ck: "value " + mv}
		}
	}
	return "", nil, nil
}

// compareBackend checks the unexpired content of the mock against the specification's backend.
func compareBackend(c *concretiser, rs *realStack, want []bkEntry) (string, any, any) {
	now := time.Now()
	items := rs.mock.GetItems()
	live := map[string]cache.Item{}
	for k, it := range items {
		if it.ExpiresAt.After(now) {
			live[k] = it
		}
	}
	for _, e := range want {
		pk := c.physical(e.Ver, e.K)
		it, ok := live[pk]
		if !ok {
			return "backend:missing-entry", fmt.Sprintf("no live entry %q", pk), e
		}
		data := it.Data
		for i := 0; i < e.Enc; i++ {
			d, err := snappy.Decode(nil, data)
			if err != nil {
				return "backend:not-encoded", short(it.Data), e
			}
			data = d
		}
		if !bytes.Equal(data, c.vals[e.V]) {
			return "backend:wrong-bytes", short(it.Data), e
		}
		if left := it.ExpiresAt.Sub(now); left != time.Duration(e.Left)*time.Second {
			return "backend:wrong-expiry", left.String(), e
		}
		delete(live, pk)
	}
	for pk := range live {
		return "backend:extra-entry", pk, "absent"
	}
	return "", nil, nil
}

// execute runs the operations of the script once on a fresh real stack and compares what it observes
// with every candidate behaviour (all candidates have the same operations and differ only in what the
// specification expects, i.e. in how Go map iteration order was resolved). A candidate is dropped at its
// first difference; the run conforms iff a candidate survives to the end. Returns the index of a
// surviving candidate, or -1 and the difference of the candidate that survived longest.
// Must be called inside a synctest bubble.
func execute(cands []*behaviour, c *concretiser, nviews int) (survivor int, last *diff, lastIdx int, fatal error) {
	b := cands[0]
	rs, err := build(b, nviews, c)
	if err != nil {
		return -1, nil, 0, err
	}
	// Name(): Versioned and Snappy hand down the name of what they wrap, the top-most LRU layer names itself
	wantName := "mock"
	if hasKind(b.Stack, "lru") {
		wantName = "in-memory-c19"
	}
	for w, v := range rs.views {
		if got := v.Name(); got != wantName {
			return -1, &diff{step: 0, what: "name", got: got, want: wantName}, 0, nil
		}
		_ = w
	}
	alive := make([]bool, len(cands))
	for i := range alive {
		alive[i] = true
	}
	nalive := len(cands)
	kill := func(ci int, d *diff) {
		alive[ci] = false
		nalive--
		if last == nil || d.step >= last.step {
			last, lastIdx = d, ci
		}
	}
	ctx := context.Background()
	for i := range b.Steps {
		s := &b.Steps[i]
		var top cache.Cache
		if s.Name != "advance" {
			top = rs.views[s.W]
			if top == nil {
				return -1, nil, 0, fmt.Errorf("step %d: no view %d", i, s.W)
			}
		}
		ttl := time.Duration(s.TTL) * time.Second
		// what the operation itself revealed
		var opErr error
		var getRes map[string][]byte
		panicked := ""
		rs.backend.failing = s.Fail
		calls0, stops0 := rs.backend.calls, rs.backend.stops
		// read options (an allocator) are handed to every read on odd steps and must arrive at the backend
		var opts []cache.Option
		if i%2 == 1 {
			opts = []cache.Option{cache.WithAllocator(nopAllocator{}), cache.WithAllocator(nopAllocator{})}
		}
		func() {
			defer func() {
				rs.backend.failing = false
				if r := recover(); r != nil {
					panicked = fmt.Sprint(r)
				}
			}()
			switch s.Name {
			case "set":
				opErr = top.Set(ctx, c.keys[s.Keys[0]], c.vals[s.Vals[0]], ttl)
			case "setasync":
				top.SetAsync(c.keys[s.Keys[0]], c.vals[s.Vals[0]], ttl)
			case "setmulti":
				data := map[string][]byte{}
				for j, k := range s.Keys {
					data[c.keys[k]] = c.vals[s.Vals[j]]
				}
				top.SetMultiAsync(data, ttl)
			case "add":
				opErr = top.Add(ctx, c.keys[s.Keys[0]], c.vals[s.Vals[0]], ttl)
			case "get":
				keys := make([]string, len(s.Keys))
				for j, k := range s.Keys {
					keys[j] = c.keys[k]
				}
				getRes, opErr = top.GetMultiWithError(ctx, keys, opts...)
			case "getplain":
				keys := make([]string, len(s.Keys))
				for j, k := range s.Keys {
					keys[j] = c.keys[k]
				}
				getRes = top.GetMulti(ctx, keys, opts...)
			case "stop":
				top.Stop()
			case "delete":
				opErr = top.Delete(ctx, c.keys[s.Keys[0]])
			case "advance":
				rs.mock.Advance(ttl)
				time.Sleep(ttl) // the bubble's clock (time.Now() inside LRUCache) moves by exactly ttl
			case "poke":
				ver := 0
				if hasKind(b.Stack, "ver") {
					ver = s.W
				}
				opErr = rs.mock.Set(ctx, c.physical(ver, s.Keys[0]), corruptBytes, ttl)
			default:
				fatal = fmt.Errorf("unknown operation %q", s.Name)
			}
		}()
		if fatal != nil {
			return -1, nil, 0, fatal
		}
		for ci, cand := range cands {
			if !alive[ci] {
				continue
			}
			e := &cand.Steps[i]
			var what string
			var got, want any
			switch {
			case panicked != "":
				what, got, want = s.Name+":panic", panicked, "no panic"
			case s.Name == "add" && s.Fail:
				if opErr == nil || errors.Is(opErr, cache.ErrNotStored) {
					what, got, want = "add:backend-error-not-returned", fmt.Sprint(opErr), "the backend's error"
				}
			case s.Name == "add":
				switch {
				case opErr == nil && !e.Rep.Stored:
					what, got, want = "add:stored-over-live-entry", "nil", "ErrNotStored"
				case opErr != nil && e.Rep.Stored:
					what, got, want = "add:refused-without-live-entry", opErr.Error(), "nil"
				case opErr != nil && !errors.Is(opErr, cache.ErrNotStored):
					what, got, want = "add:other-error", opErr.Error(), "ErrNotStored"
				}
			case s.Name == "get":
				what, got, want = compareGet(c, s.Keys, e.Rep.Found, e.Rep.Err, getRes, opErr)
			case s.Name == "getplain": // GetMulti has no error to return (it is logged)
				what, got, want = compareGet(c, s.Keys, e.Rep.Found, false, getRes, nil)
				if what != "" {
					what = "plain-" + what
				}
			case s.Name == "stop":
				if n := rs.backend.stops - stops0; n != 1 {
					what, got, want = "stop:not-handed-down-once", n, 1
				}
			case (opErr != nil) != e.Rep.Err:
				what, got, want = s.Name+":error", fmt.Sprint(opErr), e.Rep.Err
			}
			if what == "" && (s.Name == "get" || s.Name == "getplain") && rs.backend.calls > calls0 && rs.backend.lastOpts != len(opts) {
				what, got, want = s.Name+":options-not-handed-down", rs.backend.lastOpts, len(opts)
			}
			if what == "" {
				what, got, want = compareBackend(c, rs, e.Bk)
				if what != "" {
					what = s.Name + ":" + what
				}
			}
			if what != "" {
				kill(ci, &diff{step: i, what: what, got: got, want: want})
			}
		}
		if nalive == 0 {
			return -1, last, lastIdx, nil
		}
	}
	for i, e0 := range b.Sweep {
		var res map[string][]byte
		var err error
		panicked := ""
		plain := false
		func() {
			defer func() {
				if r := recover(); r != nil {
					panicked = fmt.Sprint(r)
				}
			}()
			if c.plainSweep && i%2 == 0 {
				res = rs.views[e0.W].GetMulti(ctx, []string{c.keys[e0.K]})
				plain = true
			} else {
				res, err = rs.views[e0.W].GetMultiWithError(ctx, []string{c.keys[e0.K]})
			}
		}()
		for ci, cand := range cands {
			if !alive[ci] {
				continue
			}
			e := cand.Sweep[i]
			var what string
			var got, want any
			if panicked != "" {
				what, got, want = "panic", panicked, "no panic"
			} else {
				wantM := map[string]string{}
				if e.V != "none" {
					wantM[e.K] = e.V
				}
				what, got, want = compareGet(c, []string{e.K}, wantM, e.Err && !plain, res, err)
			}
			if what != "" {
				kill(ci, &diff{step: len(b.Steps) + i, what: "sweep:" + what, got: got, want: want})
			}
		}
		if nalive == 0 {
			return -1, last, lastIdx, nil
		}
	}
	for ci := range cands {
		if alive[ci] {
			return ci, nil, 0, nil
		}
	}
	return -1, last, lastIdx, nil
}

type nopAllocator struct{}

func (nopAllocator) Get(sz int) *[]byte { b := make([]byte, 0, sz); return &b }
func (nopAllocator) Put(*[]byte)        {}

// sameOps: all candidates of a script must have the same operations (they come from the same script).
func sameOps(a, b *behaviour) bool {
	if len(a.Steps) != len(b.Steps) || len(a.Sweep) != len(b.Sweep) {
		return false
	}
	for i := range a.Steps {
		x, y := &a.Steps[i], &b.Steps[i]
		if x.Name != y.Name || x.W != y.W || x.TTL != y.TTL || x.Fail != y.Fail || fmt.Sprint(x.Keys, x.Vals) != fmt.Sprint(y.Keys, y.Vals) {
			return false
		}
	}
	for i := range a.Sweep {
		if a.Sweep[i].W != b.Sweep[i].W || a.Sweep[i].K != b.Sweep[i].K {
			return false
		}
	}
	return true
}

// nontrivial: the behaviour contains a read that returned a value and, later than some store, a
// negative outcome (refused Add, a miss of a key stored before, a decode error) - i.e. it exercises
// more than "read what was just written".
func nontrivial(b *behaviour) bool {
	hit, neg := false, false
	stored := map[string]bool{}
	for _, s := range b.Steps {
		switch s.Name {
		case "set", "setasync", "setmulti":
			for _, k := range s.Keys {
				stored[fmt.Sprint(s.W, k)] = true
			}
		case "add":
			if s.Rep.Stored {
				stored[fmt.Sprint(s.W, s.Keys[0])] = true
			} else {
				neg = true
			}
		case "get", "getplain":
			if len(s.Rep.Found) > 0 {
				hit = true
			}
			if s.Rep.Err {
				neg = true
			}
			for _, k := range s.Keys {
				if _, ok := s.Rep.Found[k]; !ok && stored[fmt.Sprint(s.W, k)] {
					neg = true
				}
			}
		}
	}
	return hit && neg
}

func identity(b *behaviour) [20]byte {
	h := sha1.New()
	fmt.Fprint(h, b.Stack, b.Cap, b.DTTL)
	for _, s := range b.Steps {
		fmt.Fprint(h, "|", s.Name, s.W, s.Keys, s.Vals, s.TTL, s.Fail)
	}
	var out [20]byte
	copy(out[:], h.Sum(nil))
	return out
}

func opNames(b *behaviour, upto int) string {
	n := []string{}
	for i := 0; i <= upto && i < len(b.Steps); i++ {
		n = append(n, b.Steps[i].Name)
	}
	return strings.Join(n, ",")
}

func sigOf(b *behaviour, d *diff) string {
	return fmt.Sprintf("stack=%s %s", strings.Join(b.Stack, ">"), d.what)
}

func caseOf(b *behaviour, c *concretiser, d *diff) any {
	// the behaviour up to the failing step is enough to reproduce
	upto := d.step
	steps := b.Steps
	if upto < len(steps) {
		steps = steps[:upto+1]
	}
	type slim struct {
		Name string   `json:"name"`
		W    int      `json:"w"`
		Keys []string `json:"keys,omitempty"`
		Vals []string `json:"vals,omitempty"`
		TTL  int      `json:"ttl"`
		Fail bool     `json:"backend_fails,omitempty"`
	}
	ss := []slim{}
	for _, s := range steps {
		ss = append(ss, slim{s.Name, s.W, s.Keys, s.Vals, s.TTL, s.Fail})
	}
	return map[string]any{"stack": b.Stack, "cap": b.Cap, "dttl": b.DTTL, "ops": ss, "failing_step": d.step,
		"concrete": c.desc, "sweep": d.step >= len(b.Steps)}
}

// TestReplay: VERIF_IN = ndjson of behaviours (VERIF_MODE=cover) or of {sid, b} records grouped by sid
// (VERIF_MODE=script: the real run has to equal one of the behaviours of its script).
func TestReplay(t *testing.T) {
	in := os.Getenv("VERIF_IN")
	if in == "" {
		t.Skip("VERIF_IN not set")
	}
	mode := os.Getenv("VERIF_MODE")
	nviews := abs.EnvInt("VERIF_NVIEWS", 2)
	corruptOne := abs.EnvInt("VERIF_CORRUPT", 0) // self-test: corrupt the expected output of the n-th behaviour
	seed := int(abs.Seed())
	res := &abs.Result{}
	stacks := map[string]int{}
	seen := map[[20]byte]bool{} // distinct = distinct (configuration, operation sequence with arguments)
	opsRun, ndScripts, branches := 0, 0, 0

	if _, err := snappy.Decode(nil, corruptBytes); err == nil {
		res.Fatal = "corruptBytes decode as snappy"
		res.Write(t)
		return
	}

	// one script = all behaviours with the same sid (cover mode: each behaviour is its own group)
	var group []behaviour
	groupSid := -1
	ngroups := 0
	flush := func() error {
		if len(group) == 0 {
			return nil
		}
		ngroups++
		c := newConcretiser(seed + ngroups)
		if corruptOne > 0 && ngroups == corruptOne {
			corrupt(&group[0])
		}
		cands := make([]*behaviour, len(group))
		for i := range group {
			cands[i] = &group[i]
			if i > 0 && !sameOps(cands[0], cands[i]) {
				return fmt.Errorf("script %d: candidate behaviours with different operations", groupSid)
			}
		}
		var best *diff
		var bestB *behaviour
		matched := false
		var fatal error
		synctest.Test(t, func(t *testing.T) {
			survivor, d, di, err := execute(cands, c, nviews)
			fatal = err
			matched = survivor >= 0
			if !matched && err == nil {
				best, bestB = d, cands[di]
			}
		})
		if fatal != nil {
			return fatal
		}
		opsRun += len(cands[0].Steps) + len(cands[0].Sweep)
		res.Cases++
		branches += len(group)
		if len(group) > 1 {
			ndScripts++
		}
		b0 := &group[0]
		stacks[strings.Join(b0.Stack, ">")]++
		if key := identity(b0); !seen[key] {
			seen[key] = true
			if nontrivial(b0) {
				res.Nontrivial++
			}
		}
		if !matched {
			note := ""
			if len(group) > 1 {
				note = fmt.Sprintf("none of the %d behaviours the specification allows for this script matches; closest shown", len(group))
			}
			res.Mismatch(abs.Mismatch{Sig: sigOf(bestB, best), Case: caseOf(bestB, c, best), Got: best.got, Want: best.want, Note: note})
		}
		if ngroups%997 == 1 {
			res.Sample(map[string]any{"stack": b0.Stack, "cap": b0.Cap, "dttl": b0.DTTL, "ops": opNames(b0, len(b0.Steps)), "concrete": c.desc})
		}
		group = group[:0]
		return nil
	}

	err := abs.ReadNDJSON(in, func(line []byte) error {
		if mode == "script" {
			var s scripted
			if err := json.Unmarshal(line, &s); err != nil {
				return err
			}
			if s.Sid != groupSid {
				if err := flush(); err != nil {
					return err
				}
				groupSid = s.Sid
			}
			group = append(group, s.B)
			return nil
		}
		var b behaviour
		if err := json.Unmarshal(line, &b); err != nil {
			return err
		}
		if err := flush(); err != nil {
			return err
		}
		group = append(group, b)
		return nil
	})
	if err == nil {
		err = flush()
	}
	if err != nil {
		res.Fatal = err.Error()
	}
	res.AddExtra("ops_executed", opsRun)
	res.AddExtra("scripts_with_map_order_branches", ndScripts)
	res.AddExtra("behaviours_offered", branches)
	for k, v := range stacks {
		res.AddExtra("stack["+k+"]", v)
	}
	res.Write(t)
}

// corrupt flips one expected output of the behaviour (self-test of the binding).
func corrupt(b *behaviour) {
	for i := range b.Steps {
		s := &b.Steps[i]
		if s.Name == "get" && len(s.Rep.Found) > 0 {
			for k, v := range s.Rep.Found {
				if v == "a" {
					s.Rep.Found[k] = "b"
				} else {
					s.Rep.Found[k] = "a"
				}
				return
			}
		}
	}
	for i := range b.Steps {
		if len(b.Steps[i].Bk) > 0 {
			b.Steps[i].Bk[0].Left++
			return
		}
	}
	if len(b.Steps) > 0 {
		b.Steps[len(b.Steps)-1].Bk = append(b.Steps[len(b.Steps)-1].Bk, bkEntry{K: "k1", V: "a", Left: 1})
	}
}

// ---------------------------------------------------------------------------------------------
// placement: record PickServer of the real selector for JumpHashTrace.tla

type nameFormat struct {
	name string
	max  int // numbers 1..max
	f    func(m int) string
}

// Every format is strictly monotone from the number m to the natural order of the produced names,
// while the byte-wise order of the names differs ("...-10" < "...-2"). None needs DNS.
var nameFormats = []nameFormat{
	{"ipv4-last-octet", 254, func(m int) string { return fmt.Sprintf("10.0.0.%d:11211", m) }},
	{"unix-socket", 5000, func(m int) string { return fmt.Sprintf("/run/memcached-%d.sock", m) }},
	{"port", 60000, func(m int) string { return fmt.Sprintf("127.0.0.1:%d", m) }},
	{"ipv4-two-octets", 254 * 256, func(m int) string { return fmt.Sprintf("10.%d.0.%d:11211", m/256, m%256) }},
	{"ipv6-port", 60000, func(m int) string { return fmt.Sprintf("[::1]:%d", m) }},
}

type placementEvent struct {
	T        string `json:"t"`
	NKeys    int    `json:"nkeys,omitempty"`
	Servers  []int  `json:"servers,omitempty"`
	Internal []int  `json:"internal,omitempty"`
	Picks    []int  `json:"picks,omitempty"`
	Format   string `json:"format,omitempty"`
	Order    string `json:"order,omitempty"`
}

// seqEvent: a pick event of the SetServers sequences (empty lists are written as [], not left out)
type seqEvent struct {
	T        string `json:"t"`
	Servers  []int  `json:"servers"`
	Internal []int  `json:"internal"`
	Picks    []int  `json:"picks"`
	Order    string `json:"order"`
}

// TestPlacement: VERIF_TRACE = output file, VERIF_CHAINS universes of VERIF_MAXN+1 servers, VERIF_NKEYS
// random keys each. For n = 1..MAXN+1 the n naturally-first servers are given to fresh selectors in several
// input orders (naturally sorted, byte-wise sorted, reversed, rotated, shuffled); the first selector is asked twice.
func TestPlacement(t *testing.T) {
	out := os.Getenv("VERIF_TRACE")
	if out == "" {
		t.Skip("VERIF_TRACE not set")
	}
	chains := abs.EnvInt("VERIF_CHAINS", 3)
	maxN := abs.EnvInt("VERIF_MAXN", 64)
	nkeys := abs.EnvInt("VERIF_NKEYS", 100)
	corruptAt := abs.EnvInt("VERIF_CORRUPT", 0)
	rnd := rand.New(rand.NewSource(abs.Seed()*7919 + 19))
	res := &abs.Result{}
	w, err := abs.NewNDJSONWriter(out)
	if err != nil {
		t.Fatal(err)
	}
	fail := func(err error) {
		res.Fatal = err.Error()
		w.Close()
		res.Write(t)
	}
	picksTotal, moved, seqEvents := 0, 0, 0
	for c := 0; c < chains; c++ {
		nf := nameFormats[(c+int(abs.Seed()))%len(nameFormats)]
		// a universe of maxN+1 distinct numbers; small ones are forced in so that 1-, 2- and 3-digit
		// numbers are mixed (where byte-wise and natural order disagree)
		set := map[int]bool{}
		for len(set) < maxN+1 {
			var m int
			switch rnd.Intn(3) {
			case 0:
				m = 1 + rnd.Intn(min(nf.max, 30))
			case 1:
				m = 1 + rnd.Intn(min(nf.max, 300))
			default:
				m = 1 + rnd.Intn(nf.max)
			}
			set[m] = true
		}
		univ := make([]int, 0, len(set))
		for m := range set {
			univ = append(univ, m)
		}
		sort.Ints(univ) // numeric order of the numbers (NOT of the names)
		byName := map[string]int{}
		for _, m := range univ {
			byName[nf.f(m)] = m
		}
		keys := make([]string, nkeys)
		for i := range keys {
			b := make([]byte, 1+rnd.Intn(40))
			rnd.Read(b)
			keys[i] = fmt.Sprintf("%x", b)
		}
		if err := w.Write(placementEvent{T: "reset", NKeys: nkeys, Format: nf.name}); err != nil {
			fail(err)
			return
		}
		var prev []int
		for n := 1; n <= len(univ); n++ {
			// the same n servers in systematically different input orders: already naturally sorted, byte-wise
			// (sort.Strings) sorted, reversed, rotated, and seeded shuffles
			orders := []string{"natural", "lexical", "reversed", "rotated", "shuffled"}
			if abs.Tier() == "thorough" {
				orders = append(orders, "shuffled")
			}
			for rep, order := range orders {
				given := append([]int(nil), univ[:n]...)
				switch order {
				case "lexical":
					sort.Slice(given, func(i, j int) bool { return nf.f(given[i]) < nf.f(given[j]) })
				case "reversed":
					for i, j := 0, len(given)-1; i < j; i, j = i+1, j-1 {
						given[i], given[j] = given[j], given[i]
					}
				case "rotated":
					k := rnd.Intn(n)
					given = append(given[k:], given[:k]...)
				case "shuffled":
					rnd.Shuffle(len(given), func(i, j int) { given[i], given[j] = given[j], given[i] })
				}
				names := make([]string, n)
				for i, m := range given {
					names[i] = nf.f(m)
				}
				sel := &cache.MemcachedJumpHashSelector{}
				if err := sel.SetServers(names...); err != nil {
					fail(fmt.Errorf("SetServers(%v): %w", names, err))
					return
				}
				internal := []int{}
				_ = sel.Each(func(a net.Addr) error {
					internal = append(internal, byName[a.String()])
					return nil
				})
				asks := 1
				if rep == 0 {
					asks = 2
				}
				for ask := 0; ask < asks; ask++ {
					picks := make([]int, nkeys)
					for i, k := range keys {
						a, err := sel.PickServer(k)
						if err != nil {
							fail(fmt.Errorf("PickServer: %w", err))
							return
						}
						m, ok := byName[a.String()]
						if !ok {
							m = -1 // not one of the servers: rejected by PickInList
						}
						picks[i] = m
					}
					picksTotal += nkeys
					if prev != nil && rep == 0 && ask == 0 {
						for i := range picks {
							if picks[i] != prev[i] {
								moved++
							}
						}
					}
					if rep == 0 && ask == 0 {
						prev = picks
					}
					ev := placementEvent{T: "pick", Servers: given, Internal: internal, Picks: picks, Order: order}
					if corruptAt > 0 && w.N == corruptAt {
						ev.Picks = append([]int(nil), picks...)
						ev.Picks[0] = given[(indexOf(given, picks[0])+1)%len(given)]
					}
					if err := w.Write(ev); err != nil {
						fail(err)
						return
					}
					res.Cases++
					if n > 1 {
						res.Nontrivial++
					}
				}
			}
		}
		// SetServers SEQUENCES on one long-lived selector (the universe is fully known to the validator by now):
		// grow, shrink (also from the middle), reorder, names listed several times, one / two / no servers; before
		// every other step a SetServers that cannot be resolved, which must change nothing; Each stops at the first error.
		psel := &cache.MemcachedJumpHashSelector{}
		eachOf := func() []int {
			out := []int{}
			_ = psel.Each(func(a net.Addr) error {
				out = append(out, byName[a.String()])
				return nil
			})
			return out
		}
		recordSeq := func(given []int, kind string) error {
			picks := make([]int, nkeys)
			for i, k := range keys {
				a, err := psel.PickServer(k)
				switch {
				case err != nil && a == nil:
					picks[i] = 0
				case err != nil:
					picks[i] = -1
				default:
					m, ok := byName[a.String()]
					if !ok {
						m = -1
					}
					picks[i] = m
				}
			}
			picksTotal += nkeys
			res.Cases++
			if len(given) > 1 {
				res.Nontrivial++
			}
			seqEvents++
			return w.Write(seqEvent{T: "pick", Servers: append([]int{}, given...), Internal: eachOf(), Picks: picks, Order: "sequence:" + kind})
		}
		if err := recordSeq(nil, "never-set"); err != nil {
			fail(err)
			return
		}
		cur := []int{}
		kinds := []string{"grow", "duplicates", "shrink-middle", "reorder", "pair", "grow", "empty", "single", "subset", "duplicates", "shrink-prefix", "grow"}
		nsteps := len(kinds)
		if abs.Tier() == "thorough" {
			nsteps = 4 * len(kinds)
		}
		for st := 0; st < nsteps; st++ {
			kind := kinds[(st+c)%len(kinds)]
			given := append([]int{}, cur...)
			switch kind {
			case "grow":
				for _, j := range rnd.Perm(len(univ))[:1+rnd.Intn(8)] {
					if indexIn(given, univ[j]) < 0 && len(given) < len(univ) {
						given = append(given, univ[j])
					}
				}
			case "duplicates":
				if len(given) == 0 {
					given = append(given, univ[rnd.Intn(len(univ))], univ[rnd.Intn(len(univ))])
				}
				for d := 1 + rnd.Intn(3); d > 0 && len(given) < len(univ); d-- {
					given = append(given, given[rnd.Intn(len(given))])
				}
				rnd.Shuffle(len(given), func(i, j int) { given[i], given[j] = given[j], given[i] })
			case "shrink-middle":
				for d := 1 + rnd.Intn(3); d > 0 && len(given) > 1; d-- {
					j := rnd.Intn(len(given))
					given = append(given[:j], given[j+1:]...)
				}
			case "shrink-prefix":
				sort.Ints(given)
				given = given[:len(given)/2]
			case "reorder":
				rnd.Shuffle(len(given), func(i, j int) { given[i], given[j] = given[j], given[i] })
			case "pair":
				p := rnd.Perm(len(univ))
				given = []int{univ[p[0]], univ[p[1]]}
			case "single":
				given = []int{univ[rnd.Intn(len(univ))]}
			case "empty":
				given = []int{}
			case "subset":
				given = given[:0]
				for _, j := range rnd.Perm(len(univ))[:2+rnd.Intn(len(univ)-2)] {
					given = append(given, univ[j])
				}
			}
			names := make([]string, len(given))
			for i, m := range given {
				names[i] = nf.f(m)
			}
			if st%2 == 0 {
				before := eachOf()
				bad := append(append([]string{}, names...), "")
				j := rnd.Intn(len(bad))
				copy(bad[j+1:], bad[j:])
				bad[j] = "127.0.0.1" // no port (and no "/"): cannot be resolved, no DNS involved
				if err := psel.SetServers(bad...); err == nil {
					res.Mismatch(abs.Mismatch{Sig: "placement:SetServers accepted an unresolvable name", Case: map[string]any{"servers": bad}, Got: "nil", Want: "an error"})
				}
				if after := eachOf(); fmt.Sprint(after) != fmt.Sprint(before) {
					res.Mismatch(abs.Mismatch{Sig: "placement:failed SetServers changed the server list", Case: map[string]any{"servers": bad, "format": nf.name}, Got: after, Want: before})
				}
			}
			if err := psel.SetServers(names...); err != nil {
				fail(fmt.Errorf("SetServers(%v): %w", names, err))
				return
			}
			if err := recordSeq(given, kind); err != nil {
				fail(err)
				return
			}
			// Each: stops at the first error and returns it
			if len(given) > 0 {
				stopAt, calls := 1+rnd.Intn(len(given)), 0
				errStop := errors.New("stop")
				got := psel.Each(func(net.Addr) error {
					calls++
					if calls == stopAt {
						return errStop
					}
					return nil
				})
				if got != errStop || calls != stopAt {
					res.Mismatch(abs.Mismatch{Sig: "placement:Each does not stop at the first error", Case: map[string]any{"servers": len(given), "stop_at": stopAt}, Got: map[string]any{"calls": calls, "err": fmt.Sprint(got)}, Want: "stop"})
				}
			}
			cur = given
		}
		res.Sample(map[string]any{"format": nf.name, "servers": []string{nf.f(univ[0]), nf.f(univ[1]), "...", nf.f(univ[len(univ)-1])}, "keys": nkeys})
	}
	if err := w.Close(); err != nil {
		res.Fatal = err.Error()
	}
	res.AddExtra("picks_recorded", picksTotal)
	res.AddExtra("picks_moved_by_append", moved)
	res.AddExtra("setservers_sequence_events", seqEvents)
	res.Write(t)
}

func indexIn(s []int, v int) int {
	for i, x := range s {
		if x == v {
			return i
		}
	}
	return -1
}

func indexOf(s []int, v int) int {
	for i, x := range s {
		if x == v {
			return i
		}
	}
	return 0
}

// TestFindingFailedSet (VERIF_FINDING=1; not part of the tiers) reproduces on the real code what TLC reports for
// MC_faults_finding.cfg: LRUCache.Set caches the value locally although the Set of the layer below failed, so a
// write the client was told had failed is read back, and later the older backend value resurfaces.
func TestFindingFailedSet(t *testing.T) {
	if os.Getenv("VERIF_FINDING") == "" {
		t.Skip("VERIF_FINDING not set")
	}
	synctest.Test(t, func(t *testing.T) {
		ctx := context.Background()
		mock := cache.NewMockCache()
		be := &faultyBackend{mockBackend: mock}
		lru, err := cache.WrapWithLRUCache(be, "f", nil, 10, time.Hour, log.NewNopLogger())
		if err != nil {
			t.Fatal(err)
		}
		_ = lru.Set(ctx, "k", []byte("old"), 2*time.Second)
		be.failing = true
		err = lru.Set(ctx, "k", []byte("new"), time.Second)
		be.failing = false
		r1 := lru.GetMulti(ctx, []string{"k"})
		mock.Advance(time.Second)
		time.Sleep(time.Second)
		r2 := lru.GetMulti(ctx, []string{"k"})
		t.Logf("Set error=%v; read after failed Set=%q; read 1s later=%q", err, r1["k"], r2["k"])
		if err == nil || string(r1["k"]) != "new" || string(r2["k"]) != "old" {
			t.Fatalf("finding not reproduced")
		}
	})
}
