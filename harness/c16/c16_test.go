// Package c16 records what the real token generators of grafana/dskit do (C16) so that
// spec/tokengen/TokenGenTrace.tla can validate every call against the TokenGenerator contract and
// the history invariants of spec/tokengen/TokenGen.tla.
//
// The driver never judges a result: it only performs real calls and logs arguments and results
// (tokens as 16-bit limbs [hi, lo], no 32-bit value reaches TLC). The only projections it applies
// are: uint32 -> limbs, "which zone index / instance index did I ask for" (its own intent), and
// sorting the per-instance token lists that generateTokensByInstanceID returns unordered.
package c16

import (
	"fmt"
	"math/rand"
	"os"
	"path/filepath"
	"slices"
	"sort"
	"sync"
	"testing"
	"time"
	_ "unsafe" // go:linkname

	"verifharness/internal/abs"

	"github.com/grafana/dskit/ring"
)

// The computation a generator for a LARGER instance index performs attributes tokens to every
// smaller index; it is not exported, the driver reaches it by name (no change to /repo).
//
//go:linkname generateTokensByInstanceID github.com/grafana/dskit/ring.(*SpreadMinimizingTokenGenerator).generateTokensByInstanceID
func generateTokensByInstanceID(t *ring.SpreadMinimizingTokenGenerator) (map[int]ring.Tokens, error)

const reserveSize = 512

type limb = [2]int

func limbs(ts []uint32) []limb {
	out := make([]limb, len(ts))
	for i, t := range ts {
		out[i] = limb{int(t >> 16), int(t & 0xffff)}
	}
	return out
}

// ev is one trace line. Fields not used by an event keep their zero value; the trace
// specification only reads the fields of the event kind.
type ev map[string]any

type segment struct {
	name   string
	events []ev
	// counters for the evidence
	calls, nontrivial int
	panics            []string
}

func (s *segment) add(e ev) { s.events = append(s.events, e) }

// safeGenerate performs the real call; a panic of the code under test is recorded, not propagated.
func safeGenerate(g ring.TokenGenerator, req int, taken []uint32) (out ring.Tokens, panicked string) {
	defer func() {
		if r := recover(); r != nil {
			panicked = fmt.Sprint(r)
			out = nil
		}
	}()
	return g.GenerateTokens(req, taken), ""
}

type genInfo struct {
	h     int
	g     ring.TokenGenerator
	kind  string
	inst  int
	zone  int
	cj    bool
	pref  string
	sp    *ring.SpreadMinimizingTokenGenerator
	known []uint32 // reserve as first observed by the driver (only used to BUILD taken sets)
}

type recorder struct {
	seg   *segment
	nextH int
	gens  []*genInfo
	rnd   *rand.Rand
}

func newRecorder(name string, seed int64) *recorder {
	r := &recorder{seg: &segment{name: name}, rnd: rand.New(rand.NewSource(seed))}
	r.seg.add(ev{"ev": "reset"})
	return r
}

func (r *recorder) reset() {
	r.seg.add(ev{"ev": "reset"})
	r.gens = nil
}

func (r *recorder) randomGen(seed int64, timeSeeded bool) *genInfo {
	gi := &genInfo{h: r.nextH, kind: "random", inst: -1, zone: -1}
	r.nextH++
	ctor := "seed"
	if timeSeeded {
		gi.g = ring.NewRandomTokenGenerator()
		ctor = "time"
	} else {
		gi.g = ring.NewRandomTokenGeneratorWithSeed(seed)
	}
	r.gens = append(r.gens, gi)
	r.seg.add(ev{"ev": "gen", "h": gi.h, "kind": "random", "inst": -1, "zone": -1, "cj": false, "ctor": ctor,
		"nz": 1, "zin": true, "idok": true, "ok": true})
	return gi
}

// zoneNames are chosen so that their lexicographic order is not their creation order.
var zoneNames = []string{"zone-e", "zone-b", "zone-h", "zone-a", "zone-g", "zone-c", "zone-f", "zone-d"}

// spreadByID constructs through NewSpreadMinimizingTokenGeneratorForInstanceAndZoneID.
func (r *recorder) spreadByID(prefix string, inst, zone int, cj bool) *genInfo {
	gi := &genInfo{h: r.nextH, kind: "spread", inst: inst, zone: zone, cj: cj, pref: prefix}
	r.nextH++
	gi.sp = ring.NewSpreadMinimizingTokenGeneratorForInstanceAndZoneID(prefix, inst, zone, cj)
	gi.g = gi.sp
	r.gens = append(r.gens, gi)
	r.seg.add(ev{"ev": "gen", "h": gi.h, "kind": "spread", "inst": inst, "zone": zone, "cj": cj, "ctor": "id",
		"nz": 1, "zin": true, "idok": true, "ok": true})
	return gi
}

// spreadByName constructs through NewSpreadMinimizingTokenGenerator(instance, zone, zones, cj).
// zones is passed in the given (possibly unsorted) order; the zone index the driver intends is the
// rank of the zone name among the names (computed here by sorting a copy: the driver's intent).
// idok=false / zone not in list / bad zone count must make the constructor fail.
func (r *recorder) spreadByName(prefix string, inst int, idSuffix string, zone string, zones []string, cj bool, idok bool) *genInfo {
	sorted := append([]string(nil), zones...)
	sort.Strings(sorted)
	zidx := slices.Index(sorted, zone)
	name := prefix + idSuffix
	sp, err := ring.NewSpreadMinimizingTokenGenerator(name, zone, zones, cj)
	e := ev{"ev": "gen", "kind": "spread", "inst": inst, "zone": zidx, "cj": cj, "ctor": "name",
		"nz": len(zones), "zin": zidx >= 0, "idok": idok, "ok": err == nil, "name": name}
	if err != nil || sp == nil {
		e["h"] = -1
		e["err"] = fmt.Sprint(err)
		r.seg.add(e)
		return nil
	}
	gi := &genInfo{h: r.nextH, kind: "spread", inst: inst, zone: zidx, cj: cj, pref: prefix, sp: sp, g: sp}
	r.nextH++
	e["h"] = gi.h
	r.gens = append(r.gens, gi)
	r.seg.add(e)
	return gi
}

// observe logs GenerateTokens(512, nil) of the generator as an observation of its whole reserve.
func (r *recorder) observe(gi *genInfo, precomputed ring.Tokens) []uint32 {
	out := precomputed
	pan := ""
	if out == nil {
		out, pan = safeGenerate(gi.g, reserveSize, nil)
	}
	if pan != "" {
		r.seg.panics = append(r.seg.panics, pan)
		r.seg.add(ev{"ev": "call", "h": gi.h, "req": reserveSize, "taken": []limb{}, "member": -1, "out": []limb{}, "panic": true, "msg": pan})
		return nil
	}
	r.seg.add(ev{"ev": "observe", "via": "direct", "h": gi.h, "inst": gi.inst, "zone": gi.zone, "toks": limbs(out)})
	if gi.known == nil {
		gi.known = append([]uint32(nil), out...)
	}
	r.seg.calls++
	return out
}

// call logs one pure GenerateTokens call (explicit taken list).
func (r *recorder) call(gi *genInfo, req int, taken []uint32, nontrivial bool) []uint32 {
	out, pan := safeGenerate(gi.g, req, taken)
	r.seg.calls++
	if nontrivial {
		r.seg.nontrivial++
	}
	if pan != "" {
		r.seg.panics = append(r.seg.panics, pan)
	}
	r.seg.add(ev{"ev": "call", "h": gi.h, "req": req, "taken": limbs(taken), "member": -1, "out": limbs(out), "panic": pan != "", "msg": pan})
	return out
}

// ---------------------------------------------------------------------------------------------
// cluster: the driver keeps the same ring the specification keeps (member -> tokens) and passes
// "all tokens in the ring" to the real call, like the lifecyclers do.
type cluster struct {
	r       *recorder
	members map[int][]uint32
	order   []int
}

func (c *cluster) all() []uint32 {
	var all []uint32
	for _, m := range c.order {
		all = append(all, c.members[m]...)
	}
	// lifecyclers pass the ring's token list; its order is irrelevant to the contract: shuffle it
	c.r.rnd.Shuffle(len(all), func(i, j int) { all[i], all[j] = all[j], all[i] })
	return all
}

func (c *cluster) join(member int, gi *genInfo, req int, nontrivial bool) []uint32 {
	out, pan := safeGenerate(gi.g, req, c.all())
	c.r.seg.calls++
	if nontrivial {
		c.r.seg.nontrivial++
	}
	if pan != "" {
		c.r.seg.panics = append(c.r.seg.panics, pan)
	}
	c.r.seg.add(ev{"ev": "call", "h": gi.h, "req": req, "taken": []limb{}, "member": member, "out": limbs(out), "panic": pan != "", "msg": pan})
	if _, ok := c.members[member]; !ok {
		c.order = append(c.order, member)
	}
	c.members[member] = append(c.members[member], out...)
	return out
}

func (c *cluster) lose(member int, n int) {
	toks := c.members[member]
	if len(toks) == 0 {
		return
	}
	if n > len(toks) {
		n = len(toks)
	}
	c.r.rnd.Shuffle(len(toks), func(i, j int) { toks[i], toks[j] = toks[j], toks[i] })
	lost := append([]uint32(nil), toks[:n]...)
	c.members[member] = toks[n:]
	c.r.seg.add(ev{"ev": "lose", "member": member, "toks": limbs(lost)})
}

func (c *cluster) leave(member int) {
	if _, ok := c.members[member]; !ok {
		return
	}
	delete(c.members, member)
	c.order = slices.DeleteFunc(c.order, func(m int) bool { return m == member })
	c.r.seg.add(ev{"ev": "leave", "member": member})
}

// canJoin asks the real CanJoin / CanJoinEnabled with a view built from the named instances.
// prevPresent / prevTokens describe the entry "<prefix><inst-1>" of the view (the driver's intent).
func (r *recorder) canJoin(gi *genInfo, view map[string]ring.InstanceDesc, prevPresent, prevHasTokens bool) {
	var err error
	pan := ""
	func() {
		defer func() {
			if x := recover(); x != nil {
				pan = fmt.Sprint(x)
			}
		}()
		err = gi.g.CanJoin(view)
	}()
	r.seg.calls++
	r.seg.add(ev{"ev": "canjoin", "h": gi.h, "pp": prevPresent, "pt": prevHasTokens,
		"enabled": gi.g.CanJoinEnabled(), "ok": err == nil && pan == "", "msg": pan})
}

// ---------------------------------------------------------------------------------------------
// parallel pre-computation of full reserves (each generator call recomputes everything; index 2000
// costs about a second)
func precompute(gens []*genInfo, workers int) []ring.Tokens {
	res := make([]ring.Tokens, len(gens))
	var wg sync.WaitGroup
	ch := make(chan int)
	for w := 0; w < workers; w++ {
		wg.Add(1)
		go func() {
			defer wg.Done()
			for i := range ch {
				out, pan := safeGenerate(gens[i].g, reserveSize, nil)
				if pan == "" {
					res[i] = out
				}
			}
		}()
	}
	for i := range gens {
		ch <- i
	}
	close(ch)
	wg.Wait()
	return res
}

func sample(rnd *rand.Rand, src []uint32, n int) []uint32 {
	idx := rnd.Perm(len(src))
	if n > len(src) {
		n = len(src)
	}
	out := make([]uint32, 0, n)
	for _, i := range idx[:n] {
		out = append(out, src[i])
	}
	return out
}

func randomTokens(rnd *rand.Rand, n int) []uint32 {
	out := make([]uint32, n)
	for i := range out {
		out[i] = rnd.Uint32()
	}
	return out
}

// firstRepeat returns the index of the first draw of rand.New(rand.NewSource(seed)).Uint32() that
// repeats an earlier draw, or -1 if none occurs within limit draws. (Input crafting only: it makes a
// call in which the generator is certain to draw one of its own earlier candidates again.)
func firstRepeat(seed int64, limit int) int {
	r := rand.New(rand.NewSource(seed))
	seen := make(map[uint32]struct{}, limit)
	for i := 0; i < limit; i++ {
		v := r.Uint32()
		if _, ok := seen[v]; ok {
			return i
		}
		seen[v] = struct{}{}
	}
	return -1
}

// ---------------------------------------------------------------------------------------------
// Segment A: the random generator.
func segRandom(seed int64, thorough bool) *segment {
	r := newRecorder("random", seed)
	rnd := r.rnd
	nGens := 4
	if thorough {
		nGens = 16
	}
	reqs := []int{-1, 0, 1, 2, 3, 7, 128, 512, 600}
	for gix := 0; gix < nGens; gix++ {
		s := rnd.Int63()
		g := r.randomGen(s, false)
		// plain calls, every requested count, taken: nil / empty / random / boundary tokens, duplicates in the list
		for _, req := range reqs {
			var taken []uint32
			switch rnd.Intn(5) {
			case 0:
				taken = nil
			case 1:
				taken = []uint32{}
			case 2:
				taken = randomTokens(rnd, 1+rnd.Intn(1500))
			case 3:
				taken = []uint32{0, 1, ^uint32(0), ^uint32(0) - 1, 1 << 16, 1<<16 - 1}
			case 4:
				taken = randomTokens(rnd, 50)
				taken = append(taken, taken...)
			}
			r.call(g, req, taken, false)
		}
		// a lifecycler-like sequence on ONE generator: every call sees all earlier outputs as taken
		var acc []uint32
		for k := 0; k < 4; k++ {
			out := r.call(g, 1+rnd.Intn(300), acc, false)
			acc = append(acc, out...)
		}
		// adversarial taken set: exactly the tokens a generator with the same seed draws first, so
		// that every one of its first candidates is rejected (dense from the generator's point of view)
		n := 1 + rnd.Intn(600)
		g1 := r.randomGen(s, false)
		d := r.call(g1, n, nil, false)
		g2 := r.randomGen(s, false)
		r.call(g2, 1+rnd.Intn(600), d, true)
		// ... and only a part of them, with foreign tokens mixed in
		g3 := r.randomGen(s, false)
		part := sample(rnd, d, len(d)/2+1)
		part = append(part, randomTokens(rnd, 100)...)
		r.call(g3, n+rnd.Intn(50), part, true)
	}
	// a call in which the generator draws one of its OWN earlier candidates again: among nCand seeds
	// the one whose sequence repeats earliest
	nCand, limit := 48, 70000
	if thorough {
		nCand, limit = 200, 90000
	}
	bestSeed, bestIdx := int64(0), -1
	for i := 0; i < nCand; i++ {
		s := rnd.Int63()
		if idx := firstRepeat(s, limit); idx >= 0 && (bestIdx < 0 || idx < bestIdx) {
			bestSeed, bestIdx = s, idx
		}
	}
	if bestIdx >= 0 {
		g := r.randomGen(bestSeed, false)
		// draws 0..bestIdx contain one repetition: bestIdx distinct values; asking for bestIdx+1
		// tokens forces the generator past the repeated candidate
		r.call(g, bestIdx+1, nil, true)
		r.seg.add(ev{"ev": "note", "what": "self-repeat", "draws": bestIdx + 1})
	}
	// concurrent calls on ONE generator (it serialises its random source with a mutex): the outputs depend on the
	// interleaving and need not be disjoint from each other, but every call's contract must hold
	{
		gc := r.randomGen(rnd.Int63(), false)
		shared := randomTokens(rnd, 500)
		nPar := 6
		reqsPar := make([]int, nPar)
		for i := range reqsPar {
			reqsPar[i] = 200 + rnd.Intn(800)
		}
		outs := make([]ring.Tokens, nPar)
		pans := make([]string, nPar)
		var wg sync.WaitGroup
		start := make(chan struct{})
		for i := 0; i < nPar; i++ {
			wg.Add(1)
			go func(i int) {
				defer wg.Done()
				<-start
				outs[i], pans[i] = safeGenerate(gc.g, reqsPar[i], shared)
			}(i)
		}
		close(start)
		wg.Wait()
		for i := 0; i < nPar; i++ {
			r.seg.calls++
			r.seg.nontrivial++
			r.seg.add(ev{"ev": "call", "h": gc.h, "req": reqsPar[i], "taken": limbs(shared), "member": -1,
				"out": limbs(outs[i]), "panic": pans[i] != "", "msg": pans[i], "concurrent": true})
		}
	}
	// the time-seeded constructor (contract must hold for whatever seed it picked)
	gt := r.randomGen(0, true)
	o := r.call(gt, 512, nil, false)
	r.call(gt, 100, o, false)
	// CanJoin / CanJoinEnabled of the random generator
	r.canJoin(gt, nil, false, false)
	r.canJoin(gt, map[string]ring.InstanceDesc{"x-0": {Tokens: []uint32{1}}}, true, true)
	return r.seg
}

// ---------------------------------------------------------------------------------------------
// Segment B: spread-minimising generator - reserves through every constructor, attributions by
// larger indexes, pure calls with taken sets that intersect the reserve.
func instanceSamples(rnd *rand.Rand, thorough bool, maxInst int) []int {
	set := map[int]bool{}
	base := []int{0, 1, 2, 3, 4, 7, 8, 9, 63, 64, 65, 127, 128, 255, 256, 511, 512, 513, 1000, 1023, 1024, 1999, 2000}
	if !thorough {
		base = []int{0, 1, 2, 3, 7, 8, 64, 255, 256, 512}
	}
	for _, b := range base {
		if b <= maxInst {
			set[b] = true
		}
	}
	if thorough {
		for i := 0; i <= 64 && i <= maxInst; i++ {
			set[i] = true
		}
	}
	extra := 4
	if thorough {
		extra = 30
	}
	for i := 0; i < extra; i++ {
		set[rnd.Intn(maxInst+1)] = true
	}
	out := []int{}
	for k := range set {
		out = append(out, k)
	}
	sort.Ints(out)
	return out
}

func segSpread(seed int64, thorough bool, zoneCount int, part int) *segment {
	r := newRecorder(fmt.Sprintf("spread-z%d-p%d", zoneCount, part), seed)
	rnd := r.rnd
	// zone list: zoneCount of the 8 names, in creation (unsorted) order
	zones := append([]string(nil), zoneNames[:zoneCount]...)
	rnd.Shuffle(len(zones), func(i, j int) { zones[i], zones[j] = zones[j], zones[i] })
	sortedZones := append([]string(nil), zones...)
	sort.Strings(sortedZones)
	maxInst := 2000
	ks := instanceSamples(rnd, thorough, maxInst)
	// which zones are exercised for the expensive indexes
	type kz struct{ k, z int }
	var direct []*genInfo
	byKey := map[kz][]*genInfo{}
	for _, k := range ks {
		zs := rnd.Perm(zoneCount)
		nz := 1
		if k <= 16 {
			nz = zoneCount
		} else if (k <= 64 || thorough) && zoneCount > 1 {
			nz = 2
		}
		for _, z := range zs[:nz] {
			zname := sortedZones[z]
			prefix := "ingester-" + zname + "-"
			g := r.spreadByName(prefix, k, fmt.Sprint(k), zname, zones, rnd.Intn(2) == 0, true)
			if g == nil {
				continue
			}
			direct = append(direct, g)
			byKey[kz{k, z}] = append(byKey[kz{k, z}], g)
			// the same (index, zone) through the other constructor, another prefix (only cheap indexes twice)
			if (k <= 300 && (thorough || rnd.Intn(2) == 0)) || rnd.Intn(4) == 0 {
				g2 := r.spreadByID("store-gateway-"+zname+"-", k, z, false)
				direct = append(direct, g2)
				byKey[kz{k, z}] = append(byKey[kz{k, z}], g2)
			}
			// ... and through a different zone list in which the zone has the same index, id with leading zeros
			if k <= 64 && z < zoneCount-1 && rnd.Intn(3) == 0 {
				other := append([]string(nil), sortedZones[:z+1]...)
				other = append(other, "zone-zz")
				rnd.Shuffle(len(other), func(i, j int) { other[i], other[j] = other[j], other[i] })
				g3 := r.spreadByName("a-"+zname+"-", k, fmt.Sprintf("%03d", k), zname, other, false, true)
				if g3 != nil {
					direct = append(direct, g3)
					byKey[kz{k, z}] = append(byKey[kz{k, z}], g3)
				}
			}
		}
	}
	workers := 6
	pre := precompute(direct, workers)
	for i, g := range direct {
		if pre[i] == nil {
			r.observe(g, nil) // re-run sequentially so that a panic is logged
			continue
		}
		r.observe(g, pre[i])
		if len(byKey[kz{g.inst, g.zone}]) > 1 && byKey[kz{g.inst, g.zone}][0] != g {
			r.seg.nontrivial++ // a second computation of the same reserve
		}
	}
	// attributions by larger indexes: generator (n, z) computes the tokens of every k <= n
	larger := []int{2000}
	if thorough {
		larger = []int{2000, 1200, 300}
	} else {
		larger = []int{2000, 200}
	}
	var wholeFamilies []ev // logged at the end of the segment (they make the specification's state big)
	var donorEvents []ev   // after all families (the reserves they refer to are known by then)
	for li, n := range larger {
		z := rnd.Intn(zoneCount)
		g := r.spreadByID("big-", n, z, false)
		fam, err := generateTokensByInstanceID(g.sp)
		if err != nil {
			r.seg.add(ev{"ev": "call", "h": g.h, "req": reserveSize, "taken": []limb{}, "member": -1, "out": []limb{}, "panic": true, "msg": err.Error()})
			continue
		}
		famSorted := make([][]uint32, n+1)
		for k := 0; k <= n; k++ {
			t := append([]uint32(nil), fam[k]...)
			slices.Sort(t)
			famSorted[k] = t
		}
		whole := n <= 300 || (thorough && li == 0 && part == 0)
		if whole {
			// the whole family in one event: pairwise disjointness of ALL instances 0..n of the zone
			f := make([][]limb, n+1)
			for k := range famSorted {
				f[k] = limbs(famSorted[k])
			}
			wholeFamilies = append(wholeFamilies, ev{"ev": "family", "h": g.h, "zone": z, "fam": f})
			r.seg.calls++
			r.seg.nontrivial++
			// the same tokens as ONE ring sorted by token, each with its instance index: the specification
			// derives the donor of every token of the last instances from it (order comparisons only)
			window := 50
			if n >= 1000 {
				window = 100
			}
			if n <= 300 && (thorough || part == 0) {
				donorEvents = append(donorEvents, ev{"ev": "donors", "h": g.h, "zone": z, "from": n + 1 - window, "ring": sortedRing(famSorted)})
			}
		} else {
			for _, k := range ks {
				if k > n {
					continue
				}
				if _, ok := byKey[kz{k, z}]; !ok && k > 64 {
					continue
				}
				r.seg.add(ev{"ev": "observe", "via": "bylarger", "h": g.h, "inst": k, "zone": z, "toks": limbs(famSorted[k])})
				r.seg.calls++
				r.seg.nontrivial++
			}
		}
	}
	// pure calls on generators with a known reserve
	reqs := []int{-1, 0, 1, 5, 511, 512, 513, 600}
	var cheap []*genInfo
	for _, g := range direct {
		if g.known != nil && g.inst <= 256 {
			cheap = append(cheap, g)
		}
	}
	nCalls := 60
	if thorough {
		nCalls = 250
	}
	for c := 0; c < nCalls && len(cheap) > 0; c++ {
		g := cheap[rnd.Intn(len(cheap))]
		req := reqs[rnd.Intn(len(reqs))]
		if rnd.Intn(3) == 0 {
			req = rnd.Intn(602) - 1
		}
		var taken []uint32
		nontrivial := true
		switch rnd.Intn(8) {
		case 0:
			taken = nil
			nontrivial = req <= 0 || req > reserveSize
		case 1: // random part of the own reserve
			taken = sample(rnd, g.known, 1+rnd.Intn(reserveSize))
		case 2: // DENSE: all but j tokens of the reserve are taken
			taken = sample(rnd, g.known, reserveSize-rnd.Intn(4))
		case 3: // a prefix / a suffix of the reserve
			cut := rnd.Intn(reserveSize)
			if rnd.Intn(2) == 0 {
				taken = append([]uint32(nil), g.known[:cut]...)
			} else {
				taken = append([]uint32(nil), g.known[cut:]...)
			}
		case 4: // tokens of other reserves and random tokens only
			o := cheap[rnd.Intn(len(cheap))]
			if o.inst != g.inst || o.zone != g.zone {
				taken = append(taken, o.known...)
			}
			taken = append(taken, randomTokens(rnd, 300)...)
			nontrivial = false
		case 5: // neighbours: every reserve token +-1 (other zones' tokens) but not the tokens themselves
			for _, t := range g.known {
				taken = append(taken, t+1, t-1)
			}
		case 6: // mixture with duplicates
			taken = sample(rnd, g.known, rnd.Intn(300))
			taken = append(taken, taken...)
			taken = append(taken, randomTokens(rnd, 200)...)
			rnd.Shuffle(len(taken), func(i, j int) { taken[i], taken[j] = taken[j], taken[i] })
		case 7: // the whole reserve
			taken = append([]uint32(nil), g.known...)
		}
		r.call(g, req, taken, nontrivial)
	}
	// constructor failures and CanJoin
	if part == 0 {
		r.spreadByName("ingester-zone-a-", 1, "1", "zone-a", nil, false, true)                                      // no zones
		r.spreadByName("ingester-zone-a-", 1, "1", "zone-a", append(append([]string{}, zoneNames...), "zone-i"), false, true) // 9 zones
		r.spreadByName("ingester-zone-a-", 1, "1", "zone-q", zones, false, true)                                     // zone not in the list
		r.spreadByName("ingester-zone-a", 0, "", sortedZones[0], zones, false, false)                                // no numeric suffix
		r.spreadByName("", 0, "", sortedZones[0], zones, false, false)                                               // empty id
		r.spreadByName("ingester-zone-a-1-", 0, "x", sortedZones[0], zones, false, false)                            // suffix not a number
		if g := r.spreadByName("", 5, "-5", sortedZones[0], zones, true, true); g != nil {                           // id "-5": prefix "-", index 5
			r.observe(g, nil)
		}
		for _, cj := range []bool{false, true} {
			for _, inst := range []int{0, 1, 10} {
				zname := sortedZones[rnd.Intn(zoneCount)]
				prefix := "ingester-" + zname + "-"
				g := r.spreadByName(prefix, inst, fmt.Sprint(inst), zname, zones, cj, true)
				if g == nil {
					continue
				}
				prev := fmt.Sprintf("%s%d", prefix, inst-1)
				some := []uint32{1, 2, 3}
				r.canJoin(g, nil, false, false)
				r.canJoin(g, map[string]ring.InstanceDesc{}, false, false)
				r.canJoin(g, map[string]ring.InstanceDesc{prev: {Tokens: some}}, true, true)
				r.canJoin(g, map[string]ring.InstanceDesc{prev: {Tokens: nil}}, true, false)
				r.canJoin(g, map[string]ring.InstanceDesc{prev: {Tokens: []uint32{}}, prefix + "99": {Tokens: some}}, true, false)
				// same index under another prefix, a padded id, the instance itself, the next one: none of them is "the previous instance"
				r.canJoin(g, map[string]ring.InstanceDesc{
					fmt.Sprintf("other-%d", inst-1):       {Tokens: some},
					fmt.Sprintf("%s0%d", prefix, inst-1):  {Tokens: some},
					fmt.Sprintf("%s%d", prefix, inst):     {Tokens: some},
					fmt.Sprintf("%s%d", prefix, inst+1):   {Tokens: some},
					fmt.Sprintf("%s%d", prefix, inst-2+0): {Tokens: some},
				}, false, false)
				r.seg.nontrivial += 6
			}
		}
	}
	// smallest first: the biggest family is the last event of the segment
	sort.SliceStable(wholeFamilies, func(a, b int) bool {
		return len(wholeFamilies[a]["fam"].([][]limb)) < len(wholeFamilies[b]["fam"].([][]limb))
	})
	for _, e := range wholeFamilies {
		r.seg.add(e)
	}
	for _, e := range donorEvents {
		r.seg.add(e)
		r.seg.calls++
		r.seg.nontrivial++
	}
	return r.seg
}

// sortedRing merges the per-instance token lists into one list [hi, lo, instance] sorted by token.
func sortedRing(fam [][]uint32) [][3]int {
	type ent struct {
		tok   uint32
		owner int
	}
	var all []ent
	for k, ts := range fam {
		for _, t := range ts {
			all = append(all, ent{t, k})
		}
	}
	sort.Slice(all, func(i, j int) bool { return all[i].tok < all[j].tok })
	out := make([][3]int, len(all))
	for i, e := range all {
		out[i] = [3]int{int(e.tok >> 16), int(e.tok & 0xffff), e.owner}
	}
	return out
}

// ---------------------------------------------------------------------------------------------
// Segment C: growing clusters.
func segCluster(seed int64, thorough bool, zoneCount, nInst int) *segment {
	r := newRecorder(fmt.Sprintf("cluster-z%d-n%d", zoneCount, nInst), seed)
	rnd := r.rnd
	c := &cluster{r: r, members: map[int][]uint32{}}
	zones := append([]string(nil), zoneNames[:zoneCount]...)
	sortedZones := append([]string(nil), zones...)
	sort.Strings(sortedZones)
	member := func(i, z int) int { return i*8 + z }
	gens := map[int]*genInfo{}
	view := func() map[string]ring.InstanceDesc {
		v := map[string]ring.InstanceDesc{}
		for m, toks := range c.members {
			if g, ok := gens[m]; ok && g.kind == "spread" {
				v[fmt.Sprintf("%s%d", g.pref, g.inst)] = ring.InstanceDesc{Tokens: toks}
			}
		}
		return v
	}
	foreignID := 100000
	for i := 0; i <= nInst; i++ {
		for z := 0; z < zoneCount; z++ {
			zname := sortedZones[z]
			g := r.spreadByName("ingester-"+zname+"-", i, fmt.Sprint(i), zname, zones, true, true)
			if g == nil {
				continue
			}
			m := member(i, z)
			gens[m] = g
			r.observe(g, nil)
			// CanJoin against the ring as it is (the previous instance of the zone joined before)
			pm := member(i-1, z)
			_, pp := c.members[pm]
			r.canJoin(g, view(), i > 0 && pp, i > 0 && pp && len(c.members[pm]) > 0)
			switch rnd.Intn(4) {
			case 0: // joins in two steps, like an instance whose token count is raised
				first := 1 + rnd.Intn(511)
				c.join(m, g, first, true)
				c.join(m, g, reserveSize-first, true)
			case 1: // asks for more than the reserve
				c.join(m, g, reserveSize+rnd.Intn(100), true)
			default:
				c.join(m, g, reserveSize, true)
			}
		}
		// now and then: a member with random tokens joins, a member loses tokens and tops up,
		// a member leaves and re-joins, a second ring member uses the SAME (index, zone)
		switch rnd.Intn(5) {
		case 0:
			fg := r.randomGen(rnd.Int63(), false)
			foreignID++
			gens[foreignID] = fg
			c.join(foreignID, fg, 1+rnd.Intn(300), false)
		case 1:
			z := rnd.Intn(zoneCount)
			k := rnd.Intn(i + 1)
			m := member(k, z)
			n := 1 + rnd.Intn(200)
			c.lose(m, n)
			c.join(m, gens[m], reserveSize-len(c.members[m]), true)
		case 2:
			z := rnd.Intn(zoneCount)
			k := rnd.Intn(i + 1)
			m := member(k, z)
			c.leave(m)
			c.join(m, gens[m], reserveSize, true)
		case 3:
			// a clone: another ring member computed for the same (index, zone) - every reserve token is
			// taken, it must get nothing; after the original lost some tokens it gets exactly those
			z := rnd.Intn(zoneCount)
			k := rnd.Intn(i + 1)
			m := member(k, z)
			clone := r.spreadByID("clone-", k, z, false)
			r.observe(clone, nil)
			foreignID++
			gens[foreignID] = clone
			c.join(foreignID, clone, reserveSize, true)
			c.lose(m, 1+rnd.Intn(20))
			c.join(foreignID, clone, reserveSize, true)
			c.join(m, gens[m], reserveSize-len(c.members[m]), true) // nothing left for the original
			c.leave(foreignID)
			c.join(m, gens[m], reserveSize-len(c.members[m]), true)
		}
	}
	return r.seg
}

// ---------------------------------------------------------------------------------------------
// Segment D: partition rings built by AddPartition(0..n).
func segPartitions(seed int64, thorough bool, n int) *segment {
	r := newRecorder(fmt.Sprintf("partitions-n%d", n), seed)
	rnd := r.rnd
	now := time.Unix(1700000000, 0)
	// reserves of (p, zone 0) as the generator of the largest id attributes them
	g := r.spreadByID("", n, 0, false)
	fam, err := generateTokensByInstanceID(g.sp)
	if err == nil {
		f := make([][]limb, n+1)
		for k := 0; k <= n; k++ {
			t := append([]uint32(nil), fam[k]...)
			slices.Sort(t)
			f[k] = limbs(t)
		}
		r.seg.add(ev{"ev": "family", "h": g.h, "zone": 0, "fam": f})
		r.seg.calls++
	}
	desc := ring.NewPartitionRingDesc()
	states := []ring.PartitionState{ring.PartitionPending, ring.PartitionActive, ring.PartitionInactive}
	for p := 0; p <= n; p++ {
		pan := ""
		func() {
			defer func() {
				if x := recover(); x != nil {
					pan = fmt.Sprint(x)
				}
			}()
			desc.AddPartition(int32(p), states[rnd.Intn(len(states))], now)
		}()
		if pan != "" {
			r.seg.panics = append(r.seg.panics, pan)
			r.seg.add(ev{"ev": "partition", "id": p, "toks": []limb{}, "panic": true, "msg": pan})
			continue
		}
		r.seg.add(ev{"ev": "partition", "id": p, "toks": limbs(desc.Partitions[int32(p)].Tokens), "panic": false})
		r.seg.calls++
		r.seg.nontrivial++
	}
	// the ring as a whole, as the partition ring sees it
	return r.seg
}

// ---------------------------------------------------------------------------------------------

// corrupt is the sensitivity self-test of the validator (never set by bin/check): it falsifies ONE
// logged field after recording, as if the code had returned something else.
//
//	swap-out   two neighbouring tokens of a call's output are exchanged (not sorted)
//	dup-out    a call's output repeats its first token (duplicate)
//	drop-out   a call's output loses its last token (too few / not the first free ones)
//	leak-taken a spread call's output gets a token of its taken set
//	lo-limb    one token of an observed reserve has its low limb changed by 1 (congruence, reproducibility)
//	canjoin    one CanJoin verdict is inverted
func corrupt(segs []*segment, how string) {
	if how == "" {
		return
	}
	for _, sg := range segs {
		if sg == nil {
			continue
		}
		for _, e := range sg.events {
			switch {
			case how == "swap-out" && e["ev"] == "call":
				if out, ok := e["out"].([]limb); ok && len(out) >= 3 {
					out[1], out[2] = out[2], out[1]
					return
				}
			case how == "dup-out" && e["ev"] == "call":
				if out, ok := e["out"].([]limb); ok && len(out) >= 3 {
					out[1] = out[0]
					return
				}
			case how == "drop-out" && e["ev"] == "call":
				if out, ok := e["out"].([]limb); ok && len(out) >= 3 {
					e["out"] = out[:len(out)-1]
					return
				}
			case how == "leak-taken" && e["ev"] == "call":
				out, ok := e["out"].([]limb)
				taken, ok2 := e["taken"].([]limb)
				if ok && ok2 && len(out) >= 1 && len(taken) >= 1 && e["member"] == -1 {
					out[len(out)-1] = taken[0]
					slices.SortFunc(out, func(a, b limb) int {
						if a[0] != b[0] {
							return a[0] - b[0]
						}
						return a[1] - b[1]
					})
					return
				}
			case how == "lo-limb" && e["ev"] == "observe":
				if toks, ok := e["toks"].([]limb); ok && len(toks) > 100 {
					toks[100][1] ^= 1
					return
				}
			case how == "canjoin" && e["ev"] == "canjoin":
				e["ok"] = !(e["ok"].(bool))
				return
			}
		}
	}
}

// segDonors: generator (n, zone), the whole family 0..n it computes and the same tokens as one sorted ring with the
// instance index of every token (the specification derives the donors of the last `window` instances from it).
func segDonors(seed int64, n, window int) *segment {
	r := newRecorder(fmt.Sprintf("donors-n%d", n), seed)
	z := r.rnd.Intn(8)
	g := r.spreadByID("big-", n, z, false)
	fam, err := generateTokensByInstanceID(g.sp)
	if err != nil {
		r.seg.add(ev{"ev": "call", "h": g.h, "req": reserveSize, "taken": []limb{}, "member": -1, "out": []limb{}, "panic": true, "msg": err.Error()})
		return r.seg
	}
	famSorted := make([][]uint32, n+1)
	f := make([][]limb, n+1)
	for k := 0; k <= n; k++ {
		tk := append([]uint32(nil), fam[k]...)
		slices.Sort(tk)
		famSorted[k] = tk
		f[k] = limbs(tk)
	}
	r.seg.add(ev{"ev": "family", "h": g.h, "zone": z, "fam": f})
	r.seg.add(ev{"ev": "donors", "h": g.h, "zone": z, "from": n + 1 - window, "ring": sortedRing(famSorted)})
	r.seg.calls += 2
	r.seg.nontrivial += 2
	return r.seg
}

// TestRecordDonors records only segDonors (development aid / targeted re-check:
// VERIF_DONORS_N=1300 VERIF_TRACE_DIR=d go test -run TestRecordDonors, then validate d/donors.ndjson with TokenGenTrace).
func TestRecordDonors(t *testing.T) {
	dir := os.Getenv("VERIF_TRACE_DIR")
	n := abs.EnvInt("VERIF_DONORS_N", 0)
	if dir == "" || n == 0 {
		t.Skip("VERIF_TRACE_DIR / VERIF_DONORS_N not set")
	}
	sg := segDonors(abs.Seed(), n, 100)
	w, err := abs.NewNDJSONWriter(filepath.Join(dir, "donors.ndjson"))
	if err != nil {
		t.Fatal(err)
	}
	for _, e := range sg.events {
		_ = w.Write(e)
	}
	if err := w.Close(); err != nil {
		t.Fatal(err)
	}
}

func TestRecord(t *testing.T) {
	dir := os.Getenv("VERIF_TRACE_DIR")
	if dir == "" {
		t.Skip("VERIF_TRACE_DIR not set")
	}
	seed := abs.Seed()
	thorough := abs.Tier() == "thorough"
	res := &abs.Result{}
	master := rand.New(rand.NewSource(seed*7919 + 16))

	type job func() *segment
	var jobs []job
	s := func() int64 { return master.Int63() }
	{
		sd := s()
		jobs = append(jobs, func() *segment { return segRandom(sd, thorough) })
	}
	if thorough {
		for pi, zc := range []int{1, 2, 3, 5, 8} {
			sd, zc, pi := s(), zc, pi
			jobs = append(jobs, func() *segment { return segSpread(sd, true, zc, pi) })
		}
		for _, cfg := range [][2]int{{1, 40}, {3, 20}, {8, 8}, {2, 30}} {
			sd, cfg := s(), cfg
			jobs = append(jobs, func() *segment { return segCluster(sd, true, cfg[0], cfg[1]) })
		}
		sd := s()
		jobs = append(jobs, func() *segment { return segPartitions(sd, true, 200) })
		sdd := s()
		jobs = append(jobs, func() *segment { return segDonors(sdd, 1300, 100) })
	} else {
		// one short zone list of seeded length and the full list of 8 zones (every zone index 0..7 in every run)
		zcs := []int{1 + int(master.Int63n(7)), 8}
		for i, zc := range zcs {
			sd, zc, i := s(), zc, i
			jobs = append(jobs, func() *segment { return segSpread(sd, false, zc, i) })
		}
		sd1, sd2 := s(), s()
		jobs = append(jobs, func() *segment { return segCluster(sd1, false, 3, 6) })
		jobs = append(jobs, func() *segment { return segCluster(sd2, false, 8-int(sd2%2)*7, 3) })
		sd := s()
		jobs = append(jobs, func() *segment { return segPartitions(sd, false, 48) })
	}
	segs := make([]*segment, len(jobs)+1)
	// real lifecyclers under the virtual clock (sequential: synctest bubble on the test goroutine's behalf)
	func() {
		defer func() {
			if x := recover(); x != nil {
				segs[len(jobs)] = &segment{name: "lifecyclers", panics: []string{"driver: " + fmt.Sprint(x)}}
			}
		}()
		segs[len(jobs)] = segLifecyclers(t, s(), thorough)
	}()
	var wg sync.WaitGroup
	sem := make(chan struct{}, 3)
	for i, j := range jobs {
		wg.Add(1)
		go func(i int, j job) {
			defer wg.Done()
			sem <- struct{}{}
			defer func() { <-sem }()
			defer func() {
				if x := recover(); x != nil {
					segs[i] = &segment{name: fmt.Sprintf("job%d", i), panics: []string{"driver: " + fmt.Sprint(x)}}
				}
			}()
			segs[i] = j()
		}(i, j)
	}
	wg.Wait()
	corrupt(segs, os.Getenv("VERIF_C16_CORRUPT"))
	files := []string{}
	for i, sg := range segs {
		if sg != nil {
			for _, p := range sg.panics {
				if len(p) > 7 && p[:7] == "driver:" {
					res.Fatal = sg.name + ": " + p
				}
			}
		}
		if sg == nil || len(sg.events) == 0 {
			res.Fatal = fmt.Sprintf("segment %d produced no events: %v", i, sg)
			break
		}
		p := filepath.Join(dir, fmt.Sprintf("seg%02d_%s.ndjson", i, sg.name))
		w, err := abs.NewNDJSONWriter(p)
		if err != nil {
			res.Fatal = err.Error()
			break
		}
		for _, e := range sg.events {
			if err := w.Write(e); err != nil {
				res.Fatal = err.Error()
			}
		}
		if err := w.Close(); err != nil {
			res.Fatal = err.Error()
		}
		files = append(files, p)
		res.Cases += sg.calls
		res.Nontrivial += sg.nontrivial
	}
	res.AddExtra("trace_files", files)
	// samples for the evidence: per segment the first call whose taken set is not empty (or a member's join), shortened
	for _, sg := range segs {
		if sg == nil {
			continue
		}
		for _, e := range sg.events {
			if e["ev"] != "call" {
				continue
			}
			taken, _ := e["taken"].([]limb)
			out, _ := e["out"].([]limb)
			if len(taken) == 0 && e["member"] == -1 {
				continue
			}
			head := func(l []limb) []limb {
				if len(l) > 3 {
					return l[:3]
				}
				return l
			}
			res.Sample(map[string]any{"segment": sg.name, "events": len(sg.events), "call": map[string]any{
				"h": e["h"], "req": e["req"], "member": e["member"], "taken_n": len(taken), "taken_head": head(taken),
				"out_n": len(out), "out_head": head(out), "panic": e["panic"]}})
			break
		}
	}
	res.Write(t)
}
