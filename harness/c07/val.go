// Package c07 binds spec/kvcas/KVCas.tla to the real kv.Client implementations (C07).
package c07

import (
	"encoding/json"
	"fmt"
	"sort"
	"sync/atomic"
	"time"

	"github.com/grafana/dskit/kv/memberlist"
)

// Val is the value stored under the key: a grow-only set of entries <<client, op, pos>>, exactly
// the values of KVCas.tla. The function passed to CAS by call op of client c adds (c, op) at
// pos = number of live entries it was handed + 1. Val is a memberlist.Mergeable (entries never
// change once written, so Merge is a set union; a local CAS that drops an entry tombstones it,
// as the Mergeable contract asks), and is (de)serialised by Codec for the Consul and etcd stores.
type Val struct {
	Items map[[2]int]Item
}

type Item struct {
	Pos  int
	Dead bool // tombstone: only ever produced by a local CAS that dropped the entry
}

func NewVal() *Val { return &Val{Items: map[[2]int]Item{}} }

// Triples returns the live entries as sorted [client, op, pos] triples (the abstract value).
func (v *Val) Triples() [][3]int {
	out := [][3]int{}
	if v == nil {
		return out
	}
	for k, it := range v.Items {
		if !it.Dead {
			out = append(out, [3]int{k[0], k[1], it.Pos})
		}
	}
	sortTriples(out)
	return out
}

func sortTriples(t [][3]int) {
	sort.Slice(t, func(i, j int) bool {
		for x := 0; x < 3; x++ {
			if t[i][x] != t[j][x] {
				return t[i][x] < t[j][x]
			}
		}
		return false
	})
}

func (v *Val) Live() int {
	n := 0
	for _, it := range v.Items {
		if !it.Dead {
			n++
		}
	}
	return n
}

func (v *Val) CloneVal() *Val {
	out := NewVal()
	for k, it := range v.Items {
		out.Items[k] = it
	}
	return out
}

// WithTag is the "append own tag" function of the specification (AppendTag).
func WithTag(in *Val, c, k int) *Val {
	out := NewVal()
	if in != nil {
		out = in.CloneVal()
	}
	out.Items[[2]int{c, k}] = Item{Pos: out.Live() + 1}
	return out
}

// newer reports whether b supersedes a for one entry (higher pos, or a tombstone of the same pos).
func newer(a, b Item) bool {
	if b.Pos != a.Pos {
		return b.Pos > a.Pos
	}
	return b.Dead && !a.Dead
}

// Merge implements memberlist.Mergeable.
func (v *Val) Merge(other memberlist.Mergeable, localCAS bool) (memberlist.Mergeable, error) {
	if other == nil {
		return nil, nil
	}
	o, ok := other.(*Val)
	if !ok || o == nil {
		return nil, fmt.Errorf("c07: cannot merge %T", other)
	}
	change := NewVal()
	for k, it := range o.Items {
		cur, have := v.Items[k]
		if !have || newer(cur, it) {
			v.Items[k] = it
			change.Items[k] = it
		}
	}
	if localCAS {
		for k, it := range v.Items {
			if _, have := o.Items[k]; !have && !it.Dead {
				it.Dead = true
				v.Items[k] = it
				change.Items[k] = it
			}
		}
	}
	if len(change.Items) == 0 {
		return nil, nil
	}
	return change, nil
}

func (v *Val) MergeContent() []string {
	out := make([]string, 0, len(v.Items))
	for k := range v.Items {
		out = append(out, fmt.Sprintf("%d/%d", k[0], k[1]))
	}
	sort.Strings(out)
	return out
}

// RemoveTombstones: a zero limit removes every tombstone (that is how the store hides them from
// clients); tombstones carry no time of their own, so a non-zero limit keeps them.
func (v *Val) RemoveTombstones(limit time.Time) (total, removed int) {
	for k, it := range v.Items {
		if it.Dead {
			if limit.IsZero() {
				delete(v.Items, k)
				removed++
			} else {
				total++
			}
		}
	}
	return
}

func (v *Val) Clone() memberlist.Mergeable { return v.CloneVal() }

// Codec serialises *Val as JSON [[client, op, pos, dead], ...].
type Codec struct{}

func (Codec) CodecID() string { return "c07val" }

// encodeHook, when set, sees every value about to be encoded. The MultiClient primary-switch
// driver uses it as a gate: the mirror write into the Consul store encodes exactly the *Val that
// f returned, after the write to the primary and before the write to the secondary.
var encodeHook atomic.Pointer[func(*Val)]

func (Codec) Encode(x interface{}) ([]byte, error) {
	v, ok := x.(*Val)
	if !ok || v == nil {
		return nil, fmt.Errorf("c07 codec: cannot encode %T", x)
	}
	if h := encodeHook.Load(); h != nil {
		(*h)(v)
	}
	rows := make([][4]int, 0, len(v.Items))
	for k, it := range v.Items {
		d := 0
		if it.Dead {
			d = 1
		}
		rows = append(rows, [4]int{k[0], k[1], it.Pos, d})
	}
	sort.Slice(rows, func(i, j int) bool {
		if rows[i][0] != rows[j][0] {
			return rows[i][0] < rows[j][0]
		}
		return rows[i][1] < rows[j][1]
	})
	return json.Marshal(rows)
}

func (Codec) Decode(b []byte) (interface{}, error) {
	var rows [][4]int
	if err := json.Unmarshal(b, &rows); err != nil {
		return nil, err
	}
	v := NewVal()
	for _, r := range rows {
		v.Items[[2]int{r[0], r[1]}] = Item{Pos: r[2], Dead: r[3] != 0}
	}
	return v, nil
}

// asVal projects what a kv.Client handed out (Get result or the argument of f) to the abstract value.
func asVal(x interface{}) ([][3]int, error) {
	if x == nil {
		return [][3]int{}, nil
	}
	v, ok := x.(*Val)
	if !ok {
		return nil, fmt.Errorf("unexpected value type %T", x)
	}
	if v == nil {
		return [][3]int{}, nil
	}
	return v.Triples(), nil
}

func eqTriples(a, b [][3]int) bool {
	if len(a) != len(b) {
		return false
	}
	for i := range a {
		if a[i] != b[i] {
			return false
		}
	}
	return true
}
