\* C03 replay, partition ring: one owner, timestamps 0..2 (0 = the ZeroTimestamp deviation)
CONSTANTS
  NP = 0
  NO = 1
  NOwned = 2
  TsSet = {0, 1, 2}
  PStates = {"Active"}
  LockTs = {0}
  NowSet = {1, 3}
INIT Init
NEXT Next
INVARIANTS CaseProps Emit
CHECK_DEADLOCK FALSE
