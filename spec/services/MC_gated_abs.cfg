CONSTANTS
  NC = 2
  NL = 0
  WRun = {}
  WTerm = {}
  QCap = 4
  MaxIters = 2
  MaxStart = 2
  ParentCancels = TRUE
  Presents = {{"start","run","stop"}}
  RunModes = {"any"}
  GuardNilCancel = FALSE
INIT GInit
NEXT GNext
VIEW GView
INVARIANTS TypeOK ChainedHistory SwitchNeverFails FnOrder RunOnlyAfterStart StopFnIffStarted CtxCancelledBeforeStopFn StopFnGetsRunError ContextReleased ContextOnceStarted WaitersExact NoDoubleClose FirstErrorWins ListenerOrder NotifierNeverBlocks Quiescent
PROPERTIES AbsSim
CHECK_DEADLOCK FALSE
