CONSTANTS
  N = 3
  Graphs <- ClosedShapes
  Faults = {"start", "run", "exit", "stop"}
  AwaitStoppingInner = TRUE
  LateStart = FALSE
INIT InitQuick
NEXT Next
VIEW view
INVARIANTS TypeOK StopOrderState FailurePropagates FailureIsReported
PROPERTIES StartAfterDeps StopAfterDependants
CHECK_DEADLOCK TRUE
