\* C04 thorough: 2 nodes, 2 entry ids, clock 0..3, retention 2 s, 3 CAS.
CONSTANTS
  N = 2
  NI = 2
  NK = 1
  MaxClock = 3
  Retention = 2
  T = 1
  MaxCas = 3
  MaxFaults = 0
  LiveStates = {"ACTIVE"}
  WatchNodes = {1, 2}
  HoldNodes = {}
  AllowRestart = FALSE
  AllowGarbage = FALSE
  AllowPartition = FALSE
  AllowJunkPP = FALSE
  GateNodes = {}
  InboxCap = 1
  VersionTest = TRUE
  KeyTest = TRUE
  MaxDel = 0
  ObsoleteTimeout = 1
  LockKeys = {}
  ConsumeNet = FALSE
  Ideal = TRUE
  Ghost = TRUE
  Record = FALSE
  Quiesce = FALSE
  RunDepth = 0
  QRounds = 2
SPECIFICATION Spec
VIEW view
INVARIANTS TypeOK TombstonesInvisible InvalidationSafe NoInventedContent SentIsWritten WatcherNeverStale PrefixWatcherNeverStale VersionCountsChanges
PROPERTIES TombstonesForwarded NoResurrection GCOnlyExpired NoExpiredTombstoneStored OnlyChangesForwarded DeletedStaysDeleted RemovedOnlyWhenObsolete DeletedNotRevived
CHECK_DEADLOCK FALSE
