CONSTANTS
  NK = 7
  Gaps = {3}
  N = 3
  Z = 1
  MaxTok = 2
INIT Init
NEXT Next
INVARIANTS TypeOK RangesAreOwnership Tiling Emit
CHECK_DEADLOCK FALSE
