CONSTANTS
  MinKeys = 3
  MaxKeys = 3
  NI = 3
  MaxRF = 2
  Shape = "any"
  Grain = "atomic"
  Gate = FALSE
  EmptyFix = TRUE
  AllowCancel = TRUE
  EarlyExits = FALSE
  MaxConc = 2
  Spawn = "go"
  Record = FALSE
SPECIFICATION Spec
INVARIANTS TypeOK SingleSend ReturnsOnce SuccessMeansQuorum ErrorMeansNoQuorum ErrorIsReal ChannelErrorIsReal
           EarlyError LastAnswerError DecidedIsDelivered SuccessDelivered NoHang CalledExactly CleanupOnceAfterAll
CHECK_DEADLOCK TRUE
