\* Expected to be VIOLATED (negative control, named behaviour SameSecondEditLost): without the fresh-clock proviso a live -> live edit is dropped
CONSTANTS
  NP = 1
  NO = 1
  NOwned = 1
  TsSet = {1, 2}
  PStates = {"Active"}
  LockTs = {0}
  Lim2Set = {0, 1, 2, 3, 4, 5}
  NowSet = {2}
  NSlices = 1
  Slice = 0
INIT Init
NEXT Next
INVARIANTS NegSameSecond
CHECK_DEADLOCK FALSE
