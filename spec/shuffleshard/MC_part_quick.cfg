CONSTANTS
  N = 3
  MaxTok = 2
  MaxM = 3
  MaxSize = 4
  MaxEvents = 2
INIT Init
NEXT Next
VIEW View
INVARIANTS TypeOK PSizeFormula PMonotone PConsistency PLookbackSuperset PLookbackMembers
CHECK_DEADLOCK FALSE
