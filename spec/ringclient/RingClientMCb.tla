----------------------------- MODULE RingClientMCb -----------------------------
(* The same model-checking instance as RingClientMC under a second module name: checks/c13.py runs *)
(* two chains of configurations side by side and the TLC runner keeps one directory per module.    *)
EXTENDS RingClientMC
=============================================================================
