CONSTANTS
  N = 4
  Graphs <- Named4
  Faults = {"start", "run", "exit"}
  AwaitStoppingInner = TRUE
  LateStart = FALSE
INIT InitMain
NEXT Next
VIEW view
INVARIANTS TypeOK StopOrderState FailurePropagates FailureIsReported
PROPERTIES StartAfterDeps StopAfterDependants
CHECK_DEADLOCK TRUE
