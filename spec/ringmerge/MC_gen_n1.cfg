\* C03 replay: one id, all states, timestamps 0..2 (0 = the ZeroTimestamp deviation), two clock readings.
CONSTANTS
  N = 1
  M = 2
  Shared = FALSE
  TsSet = {0, 1, 2}
  LiveSt = {"ACTIVE", "LEAVING", "PENDING", "JOINING"}
  NowSet = {1, 3}
  NSlices = 1
  Slice = 0
INIT Init
NEXT Next
INVARIANTS CaseProps Emit
CHECK_DEADLOCK FALSE
