CONSTANTS
  WithDone = TRUE
  TrackerBug = "none"
  Shapes <- ShapesDoneQuick
INIT Init
NEXT NextD
INVARIANTS NeverCompleted
CHECK_DEADLOCK TRUE
