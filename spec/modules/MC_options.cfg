CONSTANTS
  N = 3
  MaxCalls = 3
INIT Init
NEXT Next
INVARIANTS VisibleIsTargetable OnlyRegistered LastRegistrationWins Emit
CHECK_DEADLOCK FALSE
