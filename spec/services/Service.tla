------------------------------- MODULE Service -------------------------------
(***************************************************************************)
(* C17 - one dskit BasicService (services/basic_service.go) at the         *)
(* granularity of its critical sections.                                   *)
(*                                                                         *)
(* The whole service is ONE record `sv`; every critical section of the     *)
(* code is an operator  Op(s, args)  from records to records with a guard  *)
(* OpEn(s, args).  The actions of this module apply one operator to `sv`.  *)
(* ServiceGated.tla composes the SAME operators ("environment step, then   *)
(* internal steps until every goroutine is blocked") to generate the       *)
(* behaviours that are replayed on the real code, and ServiceTrace.tla     *)
(* uses the SAME operators to validate traces recorded from the real code, *)
(* so there is a single definition of what the code does.                  *)
(*                                                                         *)
(* Processes:                                                              *)
(*   main goroutine  b.main()           mpc                                *)
(*   StopAsync callers c \in Callers    spc[c]   (TWO critical sections:   *)
(*        StopCheck reads the state, StopSwitch tries New->Terminated      *)
(*        under the lock and otherwise calls serviceCancel - finding F4)   *)
(*   listener goroutines l \in Lis      lgo[l], remove function rpc[l]     *)
(*   waiters w \in Waiters              wpc[w]  (AwaitRunning/Terminated)  *)
(*   environment: StartAsync, parent-context cancel, function returns      *)
(***************************************************************************)
EXTENDS Integers, Sequences, FiniteSets, TLC

CONSTANTS
  NC,             \* StopAsync callers 1..NC (each calls StopAsync once)
  NL,             \* listeners 1..NL
  WRun, WTerm,    \* waiter ids calling AwaitRunning / AwaitTerminated (disjoint sets of naturals)
  QCap,           \* buffer of a listener channel (4 in the code)
  MaxIters,       \* a timer service makes at most this many iterations
  MaxStart,       \* number of StartAsync calls
  ParentCancels,  \* BOOLEAN: may the parent context be cancelled
  Presents,       \* set of sets of non-nil functions, e.g. {{"start","run","stop"}}
  RunModes,       \* set of kinds of running function (sv.mode is chosen from it initially):
                  \* "any": NewBasicService - the running function returns whenever it likes
                  \* "idle": NewIdleService - returns nil once the context is done
                  \* "timer": NewTimerService - the running function is dskit's own loop, specified here:
                  \*          loop { wait for a tick | context done -> return nil;  on a tick run the iteration function;
                  \*                 an iteration error -> return that error, whatever the state of the context }
  GuardNilCancel  \* FALSE: StopAsync as it was in the pinned code (calls b.serviceCancel() even when it is nil: finding F4)
                  \* TRUE : StopAsync as fixed (cancels only if the failed New->Terminated switch found Starting or Running)

Callers == 1..NC
Lis     == 1..NL
Waiters == WRun \cup WTerm

States   == {"New", "Starting", "Running", "Stopping", "Terminated", "Failed"}
Terminal == {"Terminated", "Failed"}
Errs     == {"estart", "erun", "estop"}
Fns      == <<"start", "run", "stop">>

\* the documented state diagram (services/service.go)
Legal == { <<"New", "Starting">>, <<"Starting", "Running">>, <<"Running", "Stopping">>,
           <<"Stopping", "Terminated">>, <<"Starting", "Failed">>, <<"Stopping", "Failed">>,
           <<"New", "Terminated">>, <<"Starting", "Stopping">> }

\* a listener event / transition record: <<to, from, error>>
Ev(to, from, e) == <<to, from, e>>

VARIABLE sv
vars == <<sv>>

InitRec(present, mode) ==
  [ mode |-> mode, state |-> "New", failure |-> "none", cancelFn |-> "nil", ctxDone |-> FALSE, parentDone |-> FALSE,
    runCh |-> 0, termCh |-> 0,                 \* number of close() calls on the two waiter channels
    present |-> present,
    mpc |-> "none", merr |-> "none", mfrom |-> "Starting", iters |-> 0, tpc |-> "none",
    fnlog |-> <<>>, startOK |-> "na", stopCtx |-> "na", stopArg |-> "na", errs |-> <<>>,
    thist |-> <<>>,                            \* every transition made, in order
    switchPanic |-> FALSE, sendClosed |-> FALSE,
    spc |-> [c \in Callers |-> "idle"], nilCalls |-> 0,
    nstart |-> 0, startRes |-> <<>>,
    lst |-> [l \in Lis |-> "none"], inList |-> [l \in Lis |-> FALSE], lq |-> [l \in Lis |-> <<>>],
    lclosed |-> [l \in Lis |-> FALSE], lstop |-> [l \in Lis |-> FALSE], lgo |-> [l \in Lis |-> "none"],
    ldeliv |-> [l \in Lis |-> <<>>], lsub |-> [l \in Lis |-> 0], rpc |-> [l \in Lis |-> "none"],
    wpc |-> [w \in Waiters |-> "idle"], wseen |-> [w \in Waiters |-> "none"], wres |-> [w \in Waiters |-> <<>>] ]

-----------------------------------------------------------------------------
(* Building blocks *)

\* notifyListeners(lfn, closeChan) - with the lock held
Notify(s, ev, close) ==
  [s EXCEPT !.lq      = [l \in Lis |-> IF s.inList[l] THEN Append(s.lq[l], ev) ELSE s.lq[l]],
            !.sendClosed = s.sendClosed \/ (\E l \in Lis : s.inList[l] /\ s.lclosed[l]),
            !.lclosed = [l \in Lis |-> s.lclosed[l] \/ (close /\ s.inList[l])],
            !.thist   = Append(s.thist, ev)]

\* switchState(from, to, fn): the state write and everything fn does, one critical section
CloseRun(s)  == [s EXCEPT !.runCh = @ + 1]
CloseTerm(s) == [s EXCEPT !.termCh = @ + 1]

-----------------------------------------------------------------------------
(* Environment: StartAsync, parent context *)

StartAsyncEn(s) == s.nstart < MaxStart
StartAsync(s) ==
  IF s.state = "New"
  THEN Notify([s EXCEPT !.state = "Starting", !.cancelFn = "set", !.ctxDone = s.parentDone,
                        !.mpc = "spawned", !.nstart = @ + 1, !.startRes = Append(@, "ok")],
              Ev("Starting", "New", "none"), FALSE)
  ELSE [s EXCEPT !.nstart = @ + 1, !.startRes = Append(@, s.state)]   \* "invalid service state: <state>"

ParentCancelEn(s) == ParentCancels /\ ~s.parentDone
ParentCancel(s) == [s EXCEPT !.parentDone = TRUE, !.ctxDone = @ \/ (s.cancelFn = "set")]

-----------------------------------------------------------------------------
(* main goroutine *)

MustSwitch(s, from) == IF s.state = from THEN s ELSE [s EXCEPT !.switchPanic = TRUE]

MCallStartEn(s) == s.mpc = "spawned"
MCallStart(s) == IF "start" \in s.present
                 THEN [s EXCEPT !.mpc = "inStart", !.fnlog = Append(@, "start")]
                 ELSE [s EXCEPT !.mpc = "afterStart", !.startOK = "ok"]

StartFnReturnEn(s, e) == s.mpc = "inStart" /\ e \in {"none", "estart"}
StartFnReturn(s, e) == [s EXCEPT !.mpc = "afterStart", !.merr = e,
                                 !.startOK = IF e = "none" THEN "ok" ELSE "err",
                                 !.errs = IF e = "none" THEN @ ELSE Append(@, e)]

\* err != nil: Starting->Failed critical section; else read serviceContext.Err()
MAfterStartEn(s) == s.mpc = "afterStart"
MAfterStart(s) ==
  IF s.merr # "none"
  THEN Notify(CloseTerm(CloseRun([MustSwitch(s, "Starting") EXCEPT !.state = "Failed", !.failure = s.merr,
                                                     !.ctxDone = TRUE, !.mpc = "done"])),
              Ev("Failed", "Starting", s.merr), TRUE)
  ELSE IF s.ctxDone THEN [s EXCEPT !.mpc = "toStop", !.mfrom = "Starting"]
                    ELSE [s EXCEPT !.mpc = "toRun"]

MToRunningEn(s) == s.mpc = "toRun"
MToRunning(s) == Notify(CloseRun([MustSwitch(s, "Starting") EXCEPT !.state = "Running", !.mpc = "callRun"]),
                        Ev("Running", "Starting", "none"), FALSE)

MCallRunEn(s) == s.mpc = "callRun"
MCallRun(s) == IF "run" \in s.present
               THEN [s EXCEPT !.mpc = "inRun", !.fnlog = Append(@, "run"), !.tpc = IF s.mode = "timer" THEN "wait" ELSE "none"]
               ELSE [s EXCEPT !.mpc = "toStop", !.mfrom = "Running"]

RunFnReturnEn(s, e) ==
  /\ s.mpc = "inRun"
  /\ CASE s.mode = "any"   -> e \in {"none", "erun"}
       [] s.mode = "idle"  -> e = "none" /\ s.ctxDone
       [] s.mode = "timer" -> e = "none" /\ s.ctxDone /\ s.tpc = "wait"      \* select takes <-ctx.Done()
RunFnReturn(s, e) == [s EXCEPT !.mpc = "toStop", !.mfrom = "Running", !.merr = e,
                               !.errs = IF e = "none" THEN @ ELSE Append(@, e), !.tpc = "none"]

\* The run loop of a timer service.  Tick: the select takes <-t.C (if the context is done as well Go may take
\* either case) and calls the iteration function.  IterReturn: nil -> back to the select; an error -> the
\* running function returns it, even if the context has been cancelled in the meantime.

TickEn(s) == s.mode = "timer" /\ s.mpc = "inRun" /\ s.tpc = "wait" /\ s.iters < MaxIters
Tick(s) == [s EXCEPT !.iters = @ + 1, !.tpc = "iter"]
IterReturnEn(s, e) == s.mode = "timer" /\ s.mpc = "inRun" /\ s.tpc = "iter" /\ e \in {"none", "erun"}
IterReturn(s, e) == IF e = "none" THEN [s EXCEPT !.tpc = "wait"]
                    ELSE [s EXCEPT !.mpc = "toStop", !.mfrom = "Running", !.merr = e, !.errs = Append(@, e), !.tpc = "none"]

MToStoppingEn(s) == s.mpc = "toStop"
MToStopping(s) ==
  LET t == [MustSwitch(s, s.mfrom) EXCEPT !.state = "Stopping", !.mpc = "cancel"]
  IN  Notify(IF s.mfrom = "Starting" THEN CloseRun(t) ELSE t, Ev("Stopping", s.mfrom, "none"), FALSE)

MCancelEn(s) == s.mpc = "cancel"
MCancel(s) == [s EXCEPT !.ctxDone = TRUE, !.mpc = "callStop"]

MCallStopEn(s) == s.mpc = "callStop"
MCallStop(s) == IF "stop" \in s.present
                THEN [s EXCEPT !.mpc = "inStop", !.fnlog = Append(@, "stop"),
                               !.stopCtx = IF s.ctxDone THEN "done" ELSE "live", !.stopArg = s.merr]
                ELSE [s EXCEPT !.mpc = "final"]

StopFnReturnEn(s, e) == s.mpc = "inStop" /\ e \in {"none", "estop"}
StopFnReturn(s, e) == [s EXCEPT !.mpc = "final", !.merr = IF @ = "none" THEN e ELSE @,
                                !.errs = IF e = "none" THEN @ ELSE Append(@, e)]

MFinalEn(s) == s.mpc = "final"
MFinal(s) ==
  IF s.merr # "none"
  THEN Notify(CloseTerm([MustSwitch(s, "Stopping") EXCEPT !.state = "Failed", !.failure = s.merr, !.mpc = "done"]),
              Ev("Failed", "Stopping", s.merr), TRUE)
  ELSE Notify(CloseTerm([MustSwitch(s, "Stopping") EXCEPT !.state = "Terminated", !.mpc = "done"]),
              Ev("Terminated", "Stopping", "none"), TRUE)

-----------------------------------------------------------------------------
(* StopAsync: two critical sections *)

StopCheckEn(s, c) == s.spc[c] = "idle"
StopCheck(s, c) == IF s.state \in {"Stopping", "Terminated", "Failed"}
                   THEN [s EXCEPT !.spc[c] = "done"]
                   ELSE [s EXCEPT !.spc[c] = "checked"]

StopSwitchEn(s, c) == s.spc[c] = "checked"
StopSwitch(s, c) ==
  IF s.state = "New"
  THEN Notify(CloseTerm(CloseRun([s EXCEPT !.state = "Terminated", !.spc[c] = "done"])),
              Ev("Terminated", "New", "none"), TRUE)
  ELSE IF GuardNilCancel                     \* dskit 2c3ab82: cancel only if the state found was Starting or Running
       THEN [s EXCEPT !.ctxDone = @ \/ s.state \in {"Starting", "Running"}, !.spc[c] = "done"]
  ELSE IF s.cancelFn = "set" THEN [s EXCEPT !.ctxDone = TRUE, !.spc[c] = "done"]
  ELSE [s EXCEPT !.nilCalls = @ + 1, !.spc[c] = "panicked"]   \* b.serviceCancel() with a nil func: panic

-----------------------------------------------------------------------------
(* Listeners *)

AddListenerEn(s, l) == s.lst[l] = "none"
AddListener(s, l) ==
  IF s.state \in Terminal THEN [s EXCEPT !.lst[l] = "nop"]
  ELSE [s EXCEPT !.lst[l] = "active", !.inList[l] = TRUE, !.lgo[l] = "idle", !.lsub[l] = Len(s.thist)]

LRecvEn(s, l) == s.lgo[l] = "idle" /\ s.lq[l] # <<>>
LRecv(s, l) == [s EXCEPT !.lgo[l] = "cb", !.ldeliv[l] = Append(@, Head(s.lq[l])), !.lq[l] = Tail(@)]

LReturnEn(s, l) == s.lgo[l] = "cb"
LReturn(s, l) == [s EXCEPT !.lgo[l] = "idle"]

LExitEn(s, l) == s.lgo[l] = "idle" /\ ((s.lq[l] = <<>> /\ s.lclosed[l]) \/ s.lstop[l])
LExit(s, l) == [s EXCEPT !.lgo[l] = "exited"]

RemoveCloseEn(s, l) == s.lst[l] = "active" /\ s.rpc[l] = "none"
RemoveClose(s, l) == [s EXCEPT !.lstop[l] = TRUE, !.rpc[l] = "closed"]

RemoveDeleteEn(s, l) == s.rpc[l] = "closed"
RemoveDelete(s, l) == [s EXCEPT !.inList[l] = FALSE, !.rpc[l] = "deleted"]

RemoveWaitEn(s, l) == s.rpc[l] = "deleted" /\ s.lgo[l] = "exited"
RemoveWait(s, l) == [s EXCEPT !.rpc[l] = "done", !.lst[l] = "removed"]

-----------------------------------------------------------------------------
(* Waiters *)

WCh(s, w) == IF w \in WRun THEN s.runCh ELSE s.termCh
WExp(w)   == IF w \in WRun THEN "Running" ELSE "Terminated"

AwaitCallEn(s, w) == s.wpc[w] = "idle"
AwaitCall(s, w) == [s EXCEPT !.wpc[w] = "waiting"]

AwaitWakeEn(s, w) == s.wpc[w] = "waiting" /\ WCh(s, w) > 0
AwaitWake(s, w) == IF s.state = WExp(w)
                   THEN [s EXCEPT !.wpc[w] = "returned", !.wres[w] = <<"ok">>]
                   ELSE [s EXCEPT !.wpc[w] = "woken", !.wseen[w] = s.state]

AwaitFailEn(s, w) == s.wpc[w] = "woken"
AwaitFail(s, w) == [s EXCEPT !.wpc[w] = "returned", !.wres[w] = <<s.wseen[w], s.failure>>]

AwaitCancelEn(s, w) == s.wpc[w] = "waiting"
AwaitCancel(s, w) == [s EXCEPT !.wpc[w] = "returned", !.wres[w] = <<"ctx">>]

-----------------------------------------------------------------------------
(* Actions *)

aStartAsync       == StartAsyncEn(sv) /\ sv' = StartAsync(sv)
aParentCancel     == ParentCancelEn(sv) /\ sv' = ParentCancel(sv)
aMCallStart       == MCallStartEn(sv) /\ sv' = MCallStart(sv)
aStartFnReturn(e) == StartFnReturnEn(sv, e) /\ sv' = StartFnReturn(sv, e)
aMAfterStart      == MAfterStartEn(sv) /\ sv' = MAfterStart(sv)
aMToRunning       == MToRunningEn(sv) /\ sv' = MToRunning(sv)
aMCallRun         == MCallRunEn(sv) /\ sv' = MCallRun(sv)
aRunFnReturn(e)   == RunFnReturnEn(sv, e) /\ sv' = RunFnReturn(sv, e)
aTick             == TickEn(sv) /\ sv' = Tick(sv)
aIterReturn(e)    == IterReturnEn(sv, e) /\ sv' = IterReturn(sv, e)
aMToStopping      == MToStoppingEn(sv) /\ sv' = MToStopping(sv)
aMCancel          == MCancelEn(sv) /\ sv' = MCancel(sv)
aMCallStop        == MCallStopEn(sv) /\ sv' = MCallStop(sv)
aStopFnReturn(e)  == StopFnReturnEn(sv, e) /\ sv' = StopFnReturn(sv, e)
aMFinal           == MFinalEn(sv) /\ sv' = MFinal(sv)
aStopCheck(c)     == StopCheckEn(sv, c) /\ sv' = StopCheck(sv, c)
aStopSwitch(c)    == StopSwitchEn(sv, c) /\ sv' = StopSwitch(sv, c)
aAddListener(l)   == AddListenerEn(sv, l) /\ sv' = AddListener(sv, l)
aLRecv(l)         == LRecvEn(sv, l) /\ sv' = LRecv(sv, l)
aLReturn(l)       == LReturnEn(sv, l) /\ sv' = LReturn(sv, l)
aLExit(l)         == LExitEn(sv, l) /\ sv' = LExit(sv, l)
aRemoveClose(l)   == RemoveCloseEn(sv, l) /\ sv' = RemoveClose(sv, l)
aRemoveDelete(l)  == RemoveDeleteEn(sv, l) /\ sv' = RemoveDelete(sv, l)
aRemoveWait(l)    == RemoveWaitEn(sv, l) /\ sv' = RemoveWait(sv, l)
aAwaitCall(w)     == AwaitCallEn(sv, w) /\ sv' = AwaitCall(sv, w)
aAwaitWake(w)     == AwaitWakeEn(sv, w) /\ sv' = AwaitWake(sv, w)
aAwaitFail(w)     == AwaitFailEn(sv, w) /\ sv' = AwaitFail(sv, w)
aAwaitCancel(w)   == AwaitCancelEn(sv, w) /\ sv' = AwaitCancel(sv, w)

MainInternal == aMCallStart \/ aMAfterStart \/ aMToRunning \/ aMCallRun \/ aMToStopping
                \/ aMCancel \/ aMCallStop \/ aMFinal
FnReturns    == (\E e \in {"none", "estart"} : aStartFnReturn(e))
                \/ (\E e \in {"none", "erun"} : aRunFnReturn(e))
                \/ (\E e \in {"none", "estop"} : aStopFnReturn(e))
                \/ (\E e \in {"none", "erun"} : aIterReturn(e))

Init == \E p \in Presents, m \in RunModes : sv = InitRec(p, m)

Next == \/ aStartAsync \/ aParentCancel \/ MainInternal \/ FnReturns \/ aTick
        \/ \E c \in Callers : aStopCheck(c) \/ aStopSwitch(c)
        \/ \E l \in Lis : aAddListener(l) \/ aLRecv(l) \/ aLReturn(l) \/ aLExit(l)
                          \/ aRemoveClose(l) \/ aRemoveDelete(l) \/ aRemoveWait(l)
        \/ \E w \in Waiters : aAwaitCall(w) \/ aAwaitWake(w) \/ aAwaitFail(w) \/ aAwaitCancel(w)

\* everything the code does by itself (and the return of the three functions) is weakly fair;
\* the environment (StartAsync, StopAsync, cancel, AddListener, remove, Await calls) is not.
Fairness == /\ WF_vars(MainInternal) /\ WF_vars(FnReturns)
            /\ \A c \in Callers : WF_vars(aStopSwitch(c))
            /\ \A l \in Lis : WF_vars(aLRecv(l) \/ aLReturn(l) \/ aLExit(l) \/ aRemoveDelete(l) \/ aRemoveWait(l))
            /\ \A w \in Waiters : WF_vars(aAwaitWake(w) \/ aAwaitFail(w))

Spec == Init /\ [][Next]_vars /\ Fairness

-----------------------------------------------------------------------------
(* Properties - the clauses of C17 for one service *)

IsPrefix(a, b) == Len(a) <= Len(b) /\ SubSeq(b, 1, Len(a)) = a
Range(f) == {f[i] : i \in DOMAIN f}
EvSet == States \X States \X ({"none"} \cup Errs)

TypeOK ==
  /\ sv.state \in States /\ sv.failure \in {"none"} \cup Errs /\ sv.cancelFn \in {"nil", "set"}
  /\ sv.ctxDone \in BOOLEAN /\ sv.parentDone \in BOOLEAN /\ sv.runCh \in 0..2 /\ sv.termCh \in 0..2
  /\ sv.mpc \in {"none", "spawned", "inStart", "afterStart", "toRun", "callRun", "inRun", "toStop",
                 "cancel", "callStop", "inStop", "final", "done"}
  /\ \A c \in Callers : sv.spc[c] \in {"idle", "checked", "done", "panicked"}
  /\ \A l \in Lis : /\ sv.lst[l] \in {"none", "nop", "active", "removed"}
                    /\ sv.lgo[l] \in {"none", "idle", "cb", "exited"}
                    /\ sv.rpc[l] \in {"none", "closed", "deleted", "done"}
                    /\ \A i \in DOMAIN sv.lq[l] : sv.lq[l][i] \in EvSet
  /\ \A w \in Waiters : sv.wpc[w] \in {"idle", "waiting", "woken", "returned"}

\* the state only moves along the documented edges (action property)
LegalTransitions == [][sv'.state = sv.state \/ <<sv.state, sv'.state>> \in Legal]_vars
\* ... and the recorded transition history is a chain of legal edges starting at New
ChainedHistory ==
  /\ \A i \in 1..Len(sv.thist) : <<sv.thist[i][2], sv.thist[i][1]>> \in Legal
  /\ \A i \in 1..Len(sv.thist) : sv.thist[i][2] = (IF i = 1 THEN "New" ELSE sv.thist[i-1][1])
  /\ sv.state = (IF sv.thist = <<>> THEN "New" ELSE sv.thist[Len(sv.thist)][1])
  /\ Len(sv.thist) <= 4
\* mustSwitchState never panics
SwitchNeverFails == ~sv.switchPanic

\* each function at most once, in the order starting, running, stopping
FnOrder == sv.fnlog \in {<<>>, <<"start">>, <<"run">>, <<"stop">>, <<"start", "run">>, <<"start", "stop">>,
                         <<"run", "stop">>, <<"start", "run", "stop">>}
\* the running function runs only in state Running reached through a successful start
RunOnlyAfterStart == ("run" \in Range(sv.fnlog)) => (sv.startOK = "ok" /\ Ev("Running", "Starting", "none") \in Range(sv.thist))
\* the stopping function runs iff starting succeeded (decided once the service is terminal)
StopFnIffStarted ==
  /\ ("stop" \in Range(sv.fnlog)) => sv.startOK = "ok"
  /\ (sv.mpc = "done" /\ "stop" \in sv.present) => (("stop" \in Range(sv.fnlog)) <=> sv.startOK = "ok")
  /\ (sv.state = "Terminated" /\ sv.mpc # "done") => sv.fnlog = <<>>      \* New->Terminated: nothing ran
\* the service context is cancelled before the stopping function runs; it gets the running error
CtxCancelledBeforeStopFn == sv.stopCtx \in {"na", "done"}
StopFnGetsRunError == sv.stopArg \in {"na", "none", "erun"} /\ (sv.stopArg = "erun" <=> ("stop" \in Range(sv.fnlog) /\ "erun" \in Range(sv.errs)))
\* a terminal started service has cancelled its context
ContextReleased == (sv.state \in Terminal /\ sv.cancelFn = "set") => sv.ctxDone
\* StartAsync is ONE critical section: the service context exists from the moment the service is observably
\* Starting ("before service enters Starting state, there is no context" - and afterwards there is one), and the
\* main goroutine never runs without it.  Bound to the code by observers that overlap StartAsync (see harness/c17:
\* the parent context handed to StartAsync is the probe point - context.WithCancel calls its Done method).
ContextOnceStarted ==
  /\ sv.state \in {"Starting", "Running", "Stopping", "Failed"} => sv.cancelFn = "set"
  /\ sv.state = "New" => sv.cancelFn = "nil" /\ sv.mpc = "none"
  /\ sv.mpc # "none" => sv.cancelFn = "set"
  /\ (sv.state = "Terminated" /\ sv.cancelFn = "nil") => Ev("Terminated", "New", "none") \in Range(sv.thist)

\* waiters: the channels are closed exactly when the state is reached or can no longer be reached
WaitersExact ==
  /\ (sv.runCh > 0)  <=> sv.state \in {"Running", "Stopping", "Terminated", "Failed"}
  /\ (sv.termCh > 0) <=> sv.state \in Terminal
  /\ \A w \in Waiters : sv.wpc[w] = "returned" /\ sv.wres[w] # <<"ctx">> => WCh(sv, w) > 0
  /\ \A w \in WRun : /\ sv.wres[w] = <<"ok">> => Ev("Running", "Starting", "none") \in Range(sv.thist)
                     /\ Len(sv.wres[w]) = 2 => sv.wres[w][1] \in {"Stopping", "Terminated", "Failed"}
  /\ \A w \in WTerm : /\ sv.wres[w] = <<"ok">> => sv.state = "Terminated"
                      /\ Len(sv.wres[w]) = 2 => sv.wres[w] = <<"Failed", sv.failure>> /\ sv.failure # "none"
NoDoubleClose == sv.runCh <= 1 /\ sv.termCh <= 1 /\ ~sv.sendClosed

\* failure cause = first error; Failed iff some function failed
FirstErrorWins ==
  /\ (sv.state = "Failed") => (sv.errs # <<>> /\ sv.failure = Head(sv.errs))
  /\ (sv.state # "Failed") => sv.failure = "none"
  /\ (sv.mpc = "done") => ((sv.state = "Failed") <=> sv.errs # <<>>)

\* each listener sees every transition since its subscription once and in order
Since(l) == SubSeq(sv.thist, sv.lsub[l] + 1, Len(sv.thist))
ListenerOrder ==
  \A l \in Lis :
     /\ sv.inList[l] => sv.ldeliv[l] \o sv.lq[l] = Since(l)
     /\ IsPrefix(sv.ldeliv[l], Since(l))
     /\ (sv.lgo[l] = "exited" /\ ~sv.lstop[l]) => (sv.ldeliv[l] = Since(l) /\ sv.state \in Terminal)
     /\ sv.lst[l] = "nop" => sv.state \in Terminal
\* the notifier (which holds the service lock) never blocks on a listener channel
NotifierNeverBlocks == \A l \in Lis : Len(sv.lq[l]) <= QCap
\* the bound is tight: with every listener goroutine not yet scheduled all four transitions queue up
\* (used as a reachability witness in MC_qcap3.cfg, expected to be violated)
QueueNeverFull == \A l \in Lis : Len(sv.lq[l]) < QCap

\* F4
NoNilCancelCall == sv.nilCalls = 0 /\ \A c \in Callers : sv.spc[c] # "panicked"

\* Liveness (under Fairness)
\* (the running function of an idle or timer service returns only once the context is done)
EventuallyTerminal == (sv.state \in {"Starting", "Running", "Stopping"} /\ (sv.mode = "any" \/ sv.ctxDone \/ sv.state = "Stopping"))
                         ~> (sv.state \in Terminal)
StopLeadsToTerminal == \A c \in Callers : (sv.spc[c] \in {"done", "panicked"}) ~> (sv.state \in Terminal)
WaitersReturn == \A w \in Waiters : (sv.wpc[w] = "waiting" /\ sv.state \in Terminal) ~> (sv.wpc[w] = "returned")
ListenersDrain == \A l \in Lis : (sv.lst[l] = "active" /\ sv.state \in Terminal) ~> (sv.lgo[l] = "exited")

=============================================================================
