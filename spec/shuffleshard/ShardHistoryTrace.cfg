INIT TraceInit
NEXT TraceNext
POSTCONDITION AllConsumed
CHECK_DEADLOCK FALSE
