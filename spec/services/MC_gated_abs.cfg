CONSTANTS
  NC = 2
  NL = 1
  WRun = {}
  WTerm = {}
  QCap = 4
  MaxStart = 2
  ParentCancels = TRUE
  Presents = {{"start","run","stop"}}
  RunModes = {"any"}
  GuardNilCancel = FALSE
INIT GInit
NEXT GNext
VIEW GView
PROPERTIES AbsSim
CHECK_DEADLOCK FALSE
