------------------------------ MODULE JumpHashMC ------------------------------
(* JumpHash.tla as TLC checks it: the invariants of the configs plus the reachability witnesses (evaluated by
   TLC when it checks the assumptions, before Init is enumerated). *)
EXTENDS JumpHash
ASSUME Wrong = "none" => WitnessSortMatters /\ WitnessKeyMoves /\ WitnessKeyStays /\ WitnessDuplicate
=============================================================================
