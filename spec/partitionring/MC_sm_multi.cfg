CONSTANTS
  NP = 2
  NL = 2
  NO = 4
  MaxClock = 1000
  AgeCap = 2
  Multi = TRUE
  LCfg <- Cfg2q
  TokOf <- Tok2
  Homes <- Homes2q
  WaitModes = {}
  LockParts = {}
  ReqStates = {"A", "I"}
INIT Init
NEXT Next
VIEW ageview
INVARIANTS TypeOK
PROPERTIES LegalEdges LockRespected PromotionTiming DeletionGuard LockOnlyByEditor RefusedIsNoWrite
CHECK_DEADLOCK FALSE
