"""C11 - quorum reads return only quorum-backed results and release everything else.

spec/quorumread/QuorumRead.tla models DoUntilQuorum / DoUntilQuorumWithoutSuccessfulContextCancellation goroutine by
goroutine (instance goroutines, main loop, drain goroutine; default and zone-aware trackers as coded).
  1. TLC decides the property's clauses (OnlySuccessful, QuorumBacked, ErrWhenExceeded, AtMostOneCall, Minimised,
     CleanupExactlyOnce, UnusedCancelled, ReturnedNotCancelled, termination) on every interleaving of a bounded universe.
  2. spec -> code: QuorumReadGen.tla emits behaviours (environment schedule + demanded observation at every quiescent
     point) for the configurations whose execution is deterministic; harness/c11 TestReplay executes them on the real
     code inside a synctest bubble with gated callbacks and compares after every step.
  3. code -> spec: harness/c11 TestRecord enumerates environment schedules depth-first on the real code (all
     configurations, including request minimisation whose held-back set is rand.Perm) and QuorumReadTrace.tla lets
     TLC decide for every recorded trace whether it is a behaviour of the specification.
The configuration space includes the shape of the terminal-error predicate (nil, never, terminal class, everything incl. nil,
not-transient incl. nil) and the bubble clock runs in half hedging delays (results are delivered between two ticks as well as
right after one), so the time at which the hedging ticker releases a held-back request is observable.
QuorumReadTrace explores the unobserved steps with a partial-order reduction (Begin steps in index order, post-return Abort
steps in index order), which keeps 5-6 instance samples affordable.
Additional modules: QuorumDo.tla (legacy ReplicationSet.Do with delayed extra requests)
and QuorumMulti.tla (DoMultiUntilQuorumWithoutSuccessfulContextCancellation, 2..3 sets).

Development knobs (not used by MANIFEST commands): VERIF_TLC_WORKERS, C11_SKIP_MC=1 (skip step 1, which does not touch
the code, in mutation runs), C11_SELFTEST=corrupt_expected|corrupt_trace|corrupt_trace_do|corrupt_trace_multi (falsify one
expected observation / one logged field: the run must end with a VIOLATION).
"""
import json
import os
import threading
from concurrent.futures import ThreadPoolExecutor

import verif

PROPERTY = "C11"
META = {
    "level_text": "TLC checks the goroutine-level specification of DoUntilQuorum(WithoutSuccessfulContextCancellation) exhaustively for 1..3 "
                  "(thorough: 4) instances in 1..3 zones, every tolerance, minimisation/hedging, five terminal-predicate shapes, both variants, every "
                  "interleaving of calls, main loop, drain goroutine, clock advances in half hedging delays and caller cancellation; the real code is bound both ways: "
                  "TLC-generated schedules with demanded observations are replayed under synctest, and depth-first enumerated schedules of "
                  "the real code (incl. rand.Perm minimisation) are validated as behaviours of the specification by TLC.",
    "level_note": "Trusted: TLC, testing/synctest quiescence, the projection (calls per instance, return value, cleanup counts, context cause "
                  "class). The real code is driven at quiescent points only (one environment step, then run to quiescence); finer races "
                  "(select with two ready cases) are covered on the specification only. 5-6 instances / 4 zones by sampling. Legacy "
                  "ReplicationSet.Do (<=3, thorough 4 instances; half-delay clock; bound both ways, gen/replay only where no two delayed "
                  "goroutines compete for a forceStart token) and the multi-set variant (1..3 sets of 1..2 instances, default tracker, "
                  "no minimisation, bound code->spec only) have their own modules. The multi-set in-flight tracker / workersCtx 'all requests "
                  "completed' rule is modelled (CbDone: callbacks call their CancelCauseFunc at any point; exhaustive for <<1>>, <<1,1>>, thorough <<2,1>>; "
                  "negative controls and reachability witnesses in the thorough tier) and bound code->spec (depth-first for 1 set and two "
                  "1-instance sets incl. sets sharing their InstanceDesc, seeded sampling for 3 sets / 2 instances per set); only a release "
                  "that comes too EARLY is observable through the exported API, a workersCtx that is never released is not. "
                  "IncludeReplicaCount is checked Go-side (every invocation's context carries the set size). "
                  "Quick checks deadlock freedom; the liveness (termination) configurations run in the thorough tier.",
    "technique": "TLA+ specifications (QuorumRead.tla, QuorumDo.tla, QuorumMulti.tla) model-checked by TLC; gen/replay (QuorumReadGen.tla, QuorumDoGen.tla) and "
                 "record/validate (Quorum{Read,Do,Multi}Trace.tla) conformance",
    "design_ref": "DESIGN.md 2 C11",
}

WORKERS = int(os.environ.get("VERIF_TLC_WORKERS", "4"))      # per TLC run; up to PARALLEL runs at a time
PARALLEL = int(os.environ.get("C11_PARALLEL", "0"))          # 0: 7 chains (quick) / 4 (thorough)
CHUNK = 16000   # traces per TLC validation run


def incon(why):
    raise verif.Inconclusive(why)


# The stages are independent (different TLA+ modules, different harness entry points) and run as parallel chains.
# Shared bookkeeping of ctx is touched under LOCK; `go test` invocations are serialised (lib/verif.py rewrites go.sum /
# the alternative go.mod before each of them); TLC runs of one module never overlap (their scratch directory is named
# after the module).
LOCK = threading.RLock()
GOLOCK = threading.Lock()
LAUNCH = threading.Lock()


def tlc(ctx, module, **kw):
    count = kw.pop("count", True)
    # ctx.tlc numbers its scratch directory in its first instructions: launches are staggered so that the
    # numbers are distinct even for parallel runs of the same module
    LAUNCH.acquire()
    threading.Timer(0.4, LAUNCH.release).start()
    r = ctx.tlc("quorumread", module, count=False, **kw)
    if count:
        with LOCK:
            ctx.states += r.distinct
            ctx.transitions += r.generated
    return r


def harness(ctx, test, env, timeout=3000):
    with GOLOCK:
        return ctx.run_harness("c11", "^%s$" % test, env=env, timeout=timeout)


def absorb(ctx, res, label):
    with LOCK:
        ctx.absorb(res, label)


def add_extra(ctx, key, n):
    with LOCK:
        ctx.extra[key] = ctx.extra.get(key, 0) + n


def model_check(ctx, module):
    """Exhaustive model checking of one module's configurations (the property is decided here)."""
    quick = ctx.tier == "quick"
    # quick: deadlock freedom (NextD) stands in for termination; the liveness configurations are thorough-only
    cfgs = {"QuorumRead": ["MC_quick.cfg"] if quick else ["MC_quick.cfg", "MC_live.cfg", "MC_thorough.cfg", "MC_live3.cfg"],
            "QuorumDo": ["MC_do3.cfg"] if quick else ["MC_do.cfg", "MC_do_live.cfg"],
            "MCQuorumMulti": ["MC_multi_quick.cfg", "MC_multi_done_quick.cfg"] if quick else
                             ["MC_multi_thorough.cfg", "MC_multi_live.cfg", "MC_multi_done_quick.cfg", "MC_multi_done.cfg", "MC_multi_done_live.cfg"]}[module]
    for cfg in cfgs:
        r = tlc(ctx, module, cfg=cfg, timeout=3000, workers=WORKERS,
                coverage=(not quick and cfg in ("MC_quick.cfg", "MC_do.cfg", "MC_multi_done_quick.cfg")))
        ctx.require_tlc_ok(r, cfg)
        if r.distinct < 1000:
            incon("%s explored only %d states" % (cfg, r.distinct))
        if r.coverage_zero:
            incon("%s: actions never taken: %s" % (cfg, r.coverage_zero))


# Negative controls / reachability witnesses of the in-flight tracker rule: TLC must REFUTE the named invariant
# (a deliberately wrong tracker breaks the clause; the implication-shaped clauses are not vacuous).
MUST_VIOLATE = [("MC_multi_neg_ignoreexpect.cfg", "CompletedJustified"), ("MC_multi_neg_firstdone.cfg", "CompletedJustified"),
                ("MC_multi_wit_completed.cfg", "NeverCompleted"), ("MC_multi_wit_bycallback.cfg", "NeverCompletedByCallback")]


def controls(ctx):
    for cfg, inv in MUST_VIOLATE:
        r = tlc(ctx, "MCQuorumMulti", cfg=cfg, timeout=1500, workers=2, count=False)
        if r.violated != inv:
            incon("control %s: TLC did not refute %s (%s)" % (cfg, inv, r.error or r.violated or "no error"))
    add_extra(ctx, "controls_refuted", len(MUST_VIOLATE))


def env_key(c):
    return json.dumps([c["cfg"], [s for s in c["steps"] if s["a"] != "obs"]], sort_keys=True)


def gen_replay(ctx):
    """spec -> code"""
    runs = []
    if ctx.tier == "quick":
        runs.append(dict(cfg="Gen_n3core.cfg"))
    else:
        runs.append(dict(cfg="Gen_n3.cfg"))
        runs.append(dict(cfg="Gen_sim4.cfg", simulate="num=2000", depth=60))
        runs.append(dict(cfg="Gen_sim4q.cfg", simulate="num=2000", depth=60))
        runs.append(dict(cfg="Gen_sim6.cfg", simulate="num=2000", depth=80))
        runs.append(dict(cfg="Gen_sim6q.cfg", simulate="num=2000", depth=80))
    replay_runs(ctx, "QuorumReadGen", "TestReplay", runs)


def gen_replay_do(ctx):
    """spec -> code, legacy executor (configurations without competition for a forceStart token)"""
    replay_runs(ctx, "QuorumDoGen", "TestReplayDo", [dict(cfg="Gen_do3.cfg" if ctx.tier == "quick" else "Gen_do4.cfg")])


def replay_runs(ctx, module, test, runs):
    for kw in runs:
        cfg = kw.pop("cfg")
        r = tlc(ctx, module, cfg=cfg, timeout=3000, deadlock=False,
                workers=(1 if "simulate" in kw else WORKERS), **kw)   # one worker: -simulate is reproducible for a seed
        ctx.require_tlc_ok(r, cfg)
        if r.emitted == 0:
            incon("%s emitted no behaviours" % cfg)
        # the specification must demand ONE observation sequence per schedule (otherwise replay is not an oracle)
        seen = {}
        uniq = ctx.path("gen_%s.ndjson" % cfg)
        n = 0
        with open(uniq, "w") as out:
            for line in open(r.out_path):
                c = json.loads(line)
                k = env_key(c)
                if k in seen:
                    if seen[k] != line:
                        incon("%s: specification is not deterministic under quiescent driving for schedule %s" % (cfg, k[:400]))
                    continue
                seen[k] = line
                out.write(line)
                n += 1
        env = {"VERIF_IN": uniq}
        if os.environ.get("C11_SELFTEST") == "corrupt_expected":
            env["VERIF_CORRUPT"] = "7"
        res = harness(ctx, test, env)
        if res.get("cases") != n:
            incon("%s: harness replayed %s of %d behaviours" % (cfg, res.get("cases"), n))
        absorb(ctx, res, "replay " + cfg)
        add_extra(ctx, "behaviours_replayed", n)


def validate(ctx, trace_path, label, module="QuorumReadTrace", parts=1):
    """Run the trace specification on a trace file (in `parts` parallel TLC runs, at most CHUNK traces each);
    returns the list of rejected traces."""
    lines = open(trace_path).read().splitlines()
    nchunks = max(parts, -(-len(lines) // CHUNK))
    chunks = [c for c in (lines[k::nchunks] for k in range(nchunks)) if c]    # round robin: balanced sizes

    def one(k):
        p = ctx.path("%s_chunk%d.ndjson" % (label, k))
        open(p, "w").write("\n".join(chunks[k]) + "\n")
        r = tlc(ctx, module, cfg=module + ".cfg", extra_files={p: "trace.ndjson"},
                workers=WORKERS, deadlock=False, timeout=3000)
        ctx.require_tlc_ok(r, "trace validation " + label)
        acc = set(json.loads(x)["acc"] for x in open(r.out_path))
        return [t for t in map(json.loads, chunks[k]) if t["id"] not in acc]

    with ThreadPoolExecutor(max_workers=8) as ex:
        return [t for part in ex.map(one, range(len(chunks))) for t in part]


def diagnose(ctx, traces, module="QuorumReadTrace"):
    """One diagnostic TLC run over rejected traces: how far does the specification follow each of them, and which
    observations does it demand at the line where it gets stuck.  Returns {id: (line, [demanded observations])}."""
    p = ctx.path("diag_%s.ndjson" % module)
    open(p, "w").write("".join(json.dumps(t) + "\n" for t in traces))
    r = tlc(ctx, module, cfg=module + "Diag.cfg", extra_files={p: "trace.ndjson"},
            workers=1, deadlock=False, timeout=1500, count=False)
    out = {}
    if r.out_path and os.path.exists(r.out_path):
        for x in open(r.out_path):
            d = json.loads(x)
            best, want = out.get(d["id"], (0, []))
            if d["line"] > best:
                best, want = d["line"], []
            if d["line"] == best and d.get("quiet") and d["obs"] not in want:
                want.append(d["obs"])
            out[d["id"]] = (best, want)
    return out


def describe(t, line):
    steps = t["steps"]
    idx = min(max(line, 1), len(steps)) - 1
    s = steps[idx]
    prev = next((x for x in reversed(steps[:idx]) if x["a"] != "obs"), None)
    after = "start" if prev is None else (prev["a"] + ("(%s)" % prev["o"] if prev["a"] == "finish" else ""))
    c = t["cfg"]
    pre = ""
    if "minimize" in c:
        cs = "mode=%s minimize=%s" % (c["mode"], str(c["minimize"]).lower())
    elif "size" in c:
        pre, cs = "multi: ", "%d sets" % len(c["size"])
    else:
        pre, cs = "Do: ", "mode=%s delay=%s" % (c["mode"], str(c["delay"]).lower())
    if s["a"] == "obs":
        return pre + "trace rejected: observation after %s is not a behaviour of the specification: %s" % (after, cs), s
    return pre + "trace rejected: environment step %s not enabled in the specification: %s" % (s["a"], cs), s


def record_validate(ctx):
    """code -> spec"""
    if ctx.tier == "quick":
        env = {"VERIF_NS": "[1,2,3]", "VERIF_FLAGS": "core", "VERIF_ROUNDS": 1, "VERIF_MAXZ": 3, "VERIF_N3_ONE_VARIANT": 1,
               "VERIF_SAMPLE_NS": "[4]", "VERIF_SAMPLES": 300, "VERIF_SAMPLE_MAXZ": 3}
    else:
        env = {"VERIF_NS": "[1,2,3]", "VERIF_FLAGS": "all", "VERIF_ROUNDS": 2, "VERIF_MAXZ": 3,
               "VERIF_DFS4": 1, "VERIF_SAMPLE_NS": "[4,5,6]", "VERIF_SAMPLES": 3000, "VERIF_SAMPLE_MAXZ": 4}
    tp = ctx.path("traces.ndjson")
    env["VERIF_TRACE_OUT"] = tp
    if os.environ.get("C11_SELFTEST") == "corrupt_trace":
        env["VERIF_CORRUPT_TRACE"] = "11"
    res = harness(ctx, "TestRecord", env)
    nrec = res.get("cases", 0)
    if nrec == 0:
        incon("no traces recorded")
    rejected = validate(ctx, tp, "rec", parts=4)
    res["cases"] = nrec - len(rejected)
    absorb(ctx, res, "record")
    if not rejected:
        return
    # triage: re-record the rejected schedules once; only a rejection that repeats is a verdict
    rp = ctx.path("rejected.ndjson")
    open(rp, "w").write("".join(json.dumps(t) + "\n" for t in rejected[:60]))
    rp2 = ctx.path("rerecorded.ndjson")
    env2 = {"VERIF_IN": rp, "VERIF_TRACE_OUT": rp2}
    if "VERIF_CORRUPT_TRACE" in env:
        env2["VERIF_CORRUPT_TRACE"] = "1"
    res2 = harness(ctx, "TestRerun", env2, timeout=1500)
    if res2.get("fatal"):
        incon("re-recording failed: %s" % res2["fatal"])
    again = {t["id"]: t for t in validate(ctx, rp2, "rerec")}
    confirmed = [t for t in rejected[:60] if t["id"] in again]
    if not confirmed:
        incon("%d recorded traces were rejected by the specification but accepted when re-recorded (driver ordering problem?)" % len(rejected))
    report(ctx, [again[t["id"]] for t in confirmed], len(rejected), "QuorumReadTrace", "record/validate")


def report(ctx, confirmed, nrej, module, label):
    """File the confirmed rejections as disagreements, a few per signature."""
    diag = diagnose(ctx, confirmed[:40], module)
    by_sig = {}
    for t in confirmed[:40]:
        line, want = diag.get(t["id"], (0, []))
        sig, got = describe(t, line)
        by_sig[sig] = by_sig.get(sig, 0) + 1
        if by_sig[sig] > 2:
            continue
        m = {"sig": sig, "case": t, "got": got,
             "want": want[:4] or "a quiescent state of the specification reachable by internal steps that agrees with the observation",
             "note": "rejected at line %d of %d; %d traces rejected in this run" % (line, len(t["steps"]), nrej)}
        with LOCK:
            ctx.disagreement(m, label)


def sched_key(t):
    return json.dumps([t["cfg"], [x for x in t["steps"] if x["a"] != "obs"]], sort_keys=True)


def record_validate_simple(ctx, test, module, label, env):
    """code -> spec for the legacy executor / the multi-set variant: record, validate; a rejection counts only if the same
    schedule is rejected again when everything is recorded a second time."""
    rejected = None
    for attempt in (1, 2):
        tp = ctx.path("%s_traces%d.ndjson" % (label, attempt))
        env["VERIF_TRACE_OUT"] = tp
        res = harness(ctx, test, dict(env))
        nrec = res.get("cases", 0)
        if nrec == 0:
            incon("no %s traces recorded" % label)
        rej = validate(ctx, tp, "%s%d" % (label, attempt), module=module)
        if attempt == 1:
            res["cases"] = nrec - len(rej)
            absorb(ctx, res, "record " + label)
            if not rej:
                return
            rejected = {sched_key(t) for t in rej}
        else:
            confirmed = [t for t in rej if sched_key(t) in rejected]
            if not confirmed:
                incon("%d %s traces were rejected but not when recorded again" % (len(rejected), label))
            report(ctx, confirmed, len(confirmed), module, "record/validate " + label)


def record_validate_do(ctx):
    env = {"VERIF_NS": "[1,2,3]" if ctx.tier == "quick" else "[1,2,3,4]", "VERIF_MAXZ": 3}
    if os.environ.get("C11_SELFTEST") == "corrupt_trace_do":
        env["VERIF_CORRUPT_TRACE"] = "5"
    record_validate_simple(ctx, "TestRecordDo", "QuorumDoTrace", "Do", env)
    gen_replay_do(ctx)


def record_validate_multi(ctx):
    env = {"VERIF_MULTI_SAMPLES": 300 if ctx.tier == "quick" else 4000}
    if os.environ.get("C11_SELFTEST") == "corrupt_trace_multi":
        env["VERIF_CORRUPT_TRACE"] = "5"
    record_validate_simple(ctx, "TestRecordMulti", "QuorumMultiTrace", "multi", env)


def run(ctx):
    ctx.rule = ("a case = one complete execution of the real call: configuration (instances, zones, mode, tolerance, flags) + environment "
                "schedule (which call returns when with ok/err/terminal-class error, clock advances by half a hedging delay, cancellation) run to termination; replayed cases are "
                "distinct schedules emitted by TLC, recorded cases are distinct paths of the depth-first enumeration; non-trivial = a call "
                "fails, the clock advances or cancellation occurs, or a call finishes after the quorum read has returned")
    ctx.assumptions = ["testing/synctest: synctest.Wait() returns only when every goroutine of the call is blocked",
                       "callbacks ignore context cancellation until the driver lets them return (cancellation is observed, not acted on)",
                       "environment steps happen at quiescent points; select races are decided on the specification only"]
    ctx.exhaustive = True
    # the longest chain first (it gets the `go test` lock first)
    chains = [("record/validate", lambda: record_validate(ctx)), ("record/validate multi", lambda: record_validate_multi(ctx)),
              ("record/validate Do", lambda: record_validate_do(ctx)), ("gen/replay", lambda: gen_replay(ctx))]
    if os.environ.get("C11_SKIP_MC"):      # development aid for mutation runs: the model-checking step does not touch the code
        ctx.log("C11_SKIP_MC set: skipping the exhaustive model-checking step")
    else:
        chains = chains + [("model checking " + m, (lambda m=m: model_check(ctx, m))) for m in ("QuorumRead", "MCQuorumMulti", "QuorumDo")]
        if ctx.tier != "quick":
            chains.append(("controls", lambda: controls(ctx)))
    errors = []
    with ThreadPoolExecutor(max_workers=PARALLEL or (7 if ctx.tier == "quick" else 4)) as ex:
        futs = [(name, ex.submit(fn)) for name, fn in chains]
        for name, f in futs:
            try:
                f.result()
            except verif.Inconclusive as e:
                errors.append("%s: %s" % (name, e))
    if errors:
        incon("; ".join(errors))
    return "model_checking"
