"""Shared driver of the ringlookup family (C01 key lookup, C02 quorum intersection).

spec/ringlookup/RingLookup.tla      the operators (Lookup, ReplicationSetFor / ReadSet, executor success predicates)
                                     and the theorems, written from the property statements
spec/ringlookup/RingLookupMC.tla    bounded universes of descriptors explored through AddInstance / RemoveInstance;
                                     TLC checks the theorems in every state / on every step and prints, per descriptor,
                                     the results the specification demands (MC_<universe>.cfg)
spec/ringlookup/RingLookupTrace.tla accepts a recorded line iff the logged results are the specification's
harness/c01                          TestReplay (spec -> code), TestRecord (code -> spec)

Development-time switches (never set in MANIFEST commands):
  VERIF_SELFTEST=corrupt-expected   flip one expected result of one emitted descriptor  -> the run must report a violation
  VERIF_SELFTEST=corrupt-trace      change one logged field of the recorded trace       -> the run must report a violation
  VERIF_TLC_WORKERS=n               TLC worker threads (default: all cores)
"""
import json
import os

import verif

# name -> (NK, gap classes, what the universe is for).  Constants live in spec/ringlookup/MC_<name>.cfg.
UNIVERSES = {
    # quick
    "q_layout":  (5, [2], "token layouts: <=3 instances x <=2 tokens on 4 positions (0,1 | gap | 2^32-2,2^32-1), 1 tokenless, zones 0..2, ACTIVE/JOINING"),
    "q_health":  (4, [1], "states x health x zones: 3 single-token instances on 3 positions, {ACTIVE,LEAVING,PENDING} x {edge,stale} heartbeat, zones 0..3 (JOINING/LEFT: q_layout, q_steps, q_hb)"),
    "q_hb":      (4, [1], "all three heartbeat classes x {ACTIVE,LEFT}, 2 instances, tokenless allowed"),
    "q_steps":   (4, [1], "AddInstance and RemoveInstance steps in every relative token position (ids not ordered by token)"),
    "q_zones":   (5, [2], "C02: 4 single-token instances, zones 0..4 (fewer, equal, more than RF 1..4), ACTIVE/JOINING"),
    "q_stale":   (4, [1], "C02: unhealthy non-extending instances: ACTIVE x {edge,stale}, zones 0..3, tokenless allowed"),
    # thorough
    "t_layout":  (6, [3], "token layouts: <=3 instances x <=2 tokens on 5 positions (0,1,2 | gap | 2^32-2,2^32-1), 1 tokenless, zones 0..2, ACTIVE/JOINING"),
    "t_health":  (4, [1], "states x health x zones with a tokenless instance"),
    "t_hb":      (4, [1], "all five states x all three heartbeat classes, 3 single-token instances, no zones"),
    "t_active":  (9, [4], "successor/boundary: <=4 instances x <=2 tokens on 8 positions, everything ACTIVE, RF 1..5"),
    "t_steps":   (5, [2], "AddInstance and RemoveInstance steps in every relative token position, 4 positions"),
    "t_z5ext":   (6, [3], "C02: 5 single-token instances, zones 0..5, RF 1..5, ACTIVE/JOINING"),
    "t_z5stale": (6, [3], "C02: 5 single-token instances, zones 0..5, RF 1..5, ACTIVE x {edge,stale}"),
}

TIERS = {
    ("c01", "quick"):    dict(cfgs=["q_layout", "q_health", "q_hb", "q_steps"], rings=60, keys=8),
    ("c01", "thorough"): dict(cfgs=["t_layout", "t_health", "t_hb", "t_active", "t_steps", "q_hb", "q_zones"],
                              rings=600, keys=10),
    ("c02", "quick"):    dict(cfgs=["q_zones", "q_stale", "q_hb"], rings=60, keys=2),
    ("c02", "thorough"): dict(cfgs=["t_z5ext", "t_z5stale", "t_health", "q_zones", "q_stale", "q_hb"],
                              rings=600, keys=2),
}

ASSUMPTIONS = [
    "monotone embedding of key classes into uint32 (harness/internal/abs KeyClasses, RandomKeyClasses) and its inverse, rank compression (abs.RankCompressor)",
    "heartbeat age classes are concretised inside a testing/synctest bubble, once with the clock on a whole second (fresh = 0..59 s, "
    "edge = exactly the 60 s timeout, stale = 61 s or more) and once with the clock inside a second (replay: +500 ms, record: random ms; "
    "fresh = <= 58 s + f, edge = 59 s + f, stale = 60 s + f, i.e. timeout < age < timeout + 1 s, or more)",
    "instances and zones may be renamed (Canon >= 1 universes enumerate one descriptor per renaming)",
    "default replication strategy; per-call replication factor <= configured one; ExcludedZones empty; token sets pairwise disjoint",
]


def _workers():
    w = os.environ.get("VERIF_TLC_WORKERS")
    return int(w) if w else None


def _corrupt_expected(path):
    """Self-test: flip one expected lookup result and one expected replication set in the middle of the file."""
    lines = open(path).read().splitlines()
    i = len(lines) // 2
    d = json.loads(lines[i])
    d["look"][0][0][0][0] ^= 1          # key class 0, Write, za off, rf 1: id mask bit of instance 1
    d["rset"][2][0][0] ^= 1             # Read, za off, rf 1
    lines[i] = json.dumps(d)
    open(path, "w").write("\n".join(lines) + "\n")


def _corrupt_trace(path):
    lines = open(path).read().splitlines()
    done = 0
    for i, l in enumerate(lines):
        d = json.loads(l)
        for q in d["look"]:
            for r in q["res"]:
                if r["ok"] and r["op"] == "Write" and not done & 1:
                    r["me"] += 1
                    done |= 1
        for r in d["rset"]:
            if r["ok"] and r["ids"] and not done & 2:
                r["ids"] = r["ids"][:-1]
                done |= 2
        lines[i] = json.dumps(d)
        if done == 3:
            break
    open(path, "w").write("\n".join(lines) + "\n")


def run_family(ctx, part):
    """part = "c01" (lookups of the four operations) or "c02" (replication sets + Write lookups)."""
    plan = TIERS[(part, ctx.tier)]
    selftest = os.environ.get("VERIF_SELFTEST", "")
    ctx.exhaustive = True
    ctx.assumptions = list(ASSUMPTIONS)

    # 1. TLC: the theorems on every descriptor of every universe of the tier, and the expected results
    inputs, total = [], 0
    for name in plan["cfgs"]:
        nk, gaps, _what = UNIVERSES[name]
        cover = ctx.tier == "thorough" and name in ("t_steps", "q_steps")
        r = ctx.tlc("ringlookup", "RingLookupMC", cfg="MC_%s.cfg" % name, timeout=2400, workers=_workers(),
                    deadlock=False, coverage=cover)
        ctx.require_tlc_ok(r, "MC_" + name)
        if r.emitted == 0 or r.emitted != r.distinct:
            raise verif.Inconclusive("MC_%s: %d descriptors but %d emitted lines" % (name, r.distinct, r.emitted))
        if cover and [a for a in r.coverage_zero if a in ("AddInstance", "RemoveInstance", "Init")]:
            raise verif.Inconclusive("MC_%s: action never taken: %s" % (name, r.coverage_zero))
        if selftest == "corrupt-expected" and not inputs:
            _corrupt_expected(r.out_path)
        inputs.append({"path": r.out_path, "nk": nk, "gaps": gaps, "label": name})
        total += r.emitted

    # 2. spec -> code: replay every descriptor against the real ring
    res = ctx.run_harness("c01", "^TestReplay$", env={"VERIF_INPUTS": json.dumps(inputs), "VERIF_PART": part}, timeout=2400)
    if (res.get("extra") or {}).get("descriptors") != total and not res.get("fatal"):
        raise verif.Inconclusive("replay covered %s of %d descriptors" % ((res.get("extra") or {}).get("descriptors"), total))
    ctx.absorb(res, "replay")

    # 3. code -> spec: seeded random larger rings, validated by TLC
    trace = ctx.path("trace", "trace.ndjson")
    env = {"VERIF_TRACE": trace, "VERIF_RINGS": plan["rings"], "VERIF_KEYS": plan["keys"]}
    rec = ctx.run_harness("c01", "^TestRecord$", env=env, timeout=900)
    if rec.get("fatal"):
        raise verif.Inconclusive("recorder: %s" % rec["fatal"])
    if selftest == "corrupt-trace":
        _corrupt_trace(trace)
    nlines = sum(1 for _ in open(trace))
    v = ctx.tlc("ringlookup", "RingLookupTrace", extra_files={trace: "trace.ndjson"}, workers=_workers(),
                deadlock=False, timeout=2400)
    ctx.require_tlc_ok(v, "RingLookupTrace")
    if v.distinct != 2 * nlines:
        raise verif.Inconclusive("RingLookupTrace checked %d of %d states" % (v.distinct, 2 * nlines))
    rejected = verif.read_ndjson(v.out_path)
    mine = [x for x in rejected if _belongs(x, part)]
    if mine and selftest != "corrupt-trace":
        # a rejection must repeat on a second recording with the same seed (DESIGN 1.4)
        trace2 = ctx.path("trace", "trace2.ndjson")
        ctx.run_harness("c01", "^TestRecord$", env=dict(env, VERIF_TRACE=trace2), timeout=900)
        if open(trace).read() != open(trace2).read():
            raise verif.Inconclusive("recorded trace is not reproducible for seed %d" % ctx.seed)
    rec["cases"] = max(0, int(rec.get("cases", 0)) - len(rejected))
    ctx.absorb(rec, "record")
    for x in mine:
        lg = x["logged"]
        one = lg.get("res", lg)
        ctx.disagreement({
            "sig": "trace:%s:%s op=%s" % (x["kind"], _diff(one, x["want"]), one.get("op")),
            "case": {"ring": x["ring"], "seed": ctx.seed, "rings": plan["rings"], "keys": plan["keys"],
                     "how": "VERIF_SEED=%d VERIF_RINGS=%d VERIF_KEYS=%d go test -tags verif -run '^TestRecord$' ./c01 records ring %d"
                            % (ctx.seed, plan["rings"], plan["keys"], x["ring"]),
                     "key": lg.get("key"), "key_rank": lg.get("k")},
            "got": one, "want": x["want"]}, "record/validate")
    ctx.extra["trace_rings"] = nlines
    ctx.extra["trace_rejections"] = len(rejected)
    ctx.extra["universes"] = {n: UNIVERSES[n][2] for n in plan["cfgs"]}
    return "model_checking"


def _belongs(x, part):
    if part == "c01":
        return x["kind"] == "lookup"
    return x["kind"] == "rset" or x["logged"].get("res", {}).get("op") == "Write"


def _diff(logged, want):
    if logged.get("ok") != want.get("ok") or logged.get("err") != want.get("err"):
        return "error"
    if sorted(logged.get("ids") or []) != sorted(want.get("ids") or []):
        return "ids"
    if logged.get("me") != want.get("me"):
        return "maxerrors"
    if "muz" in want and logged.get("muz") != want.get("muz"):
        return "maxunavailablezones"
    return "zoneawareflag"
