"""Shared machinery for /verif checks: TLC runner, Go harness runner, verdicts, evidence.

Exit codes of a check (bin/check):
  0  property held on everything explored (KNOWN-FINDING lines may have been printed)
  1  a disagreement reproduced on the real code, `VIOLATION property=<id> replay=<path>` printed
  2  inconclusive (tool failure, timeout, build failure, unreproduced model counterexample) - never a violation
"""
import atexit
import hashlib
import json
import os
import re
import shutil
import signal
import subprocess
import sys
import tempfile
import time

ROOT = os.path.dirname(os.path.dirname(os.path.abspath(__file__)))
SPEC = os.path.join(ROOT, "spec")
HARNESS = os.path.join(ROOT, "harness")
EVIDENCE = os.environ.get("VERIF_EVIDENCE_DIR") or os.path.join(ROOT, "evidence")
REPLAYS = os.environ.get("VERIF_REPLAYS_DIR") or os.path.join(ROOT, "replays")
TLA_CP = "/opt/veriftools/tla/tla2tools.jar:/opt/veriftools/tla/CommunityModules-deps.jar"
NCPU = os.cpu_count() or 4


class Inconclusive(Exception):
    pass


def default_workers():
    """All cores on an idle machine; a few when the machine is heavily shared (development)."""
    if os.environ.get("VERIF_WORKERS"):
        return int(os.environ["VERIF_WORKERS"])
    try:
        if os.getloadavg()[0] > 2 * NCPU:
            return 4
    except OSError:
        pass
    return NCPU


def repo_path():
    return os.environ.get("VERIF_REPO", "/repo")


def go_env():
    env = dict(os.environ)
    env["GOFLAGS"] = "-mod=mod"
    env["GOPROXY"] = "off"
    # GOSUMDB / GOTOOLCHAIN deliberately left alone (see DESIGN.md 1.5 Toolchain)
    env.pop("GOSUMDB", None)
    env.pop("GOTOOLCHAIN", None)
    return env


class TLCResult:
    def __init__(self):
        self.rc = None
        self.generated = 0
        self.distinct = 0
        self.depth = 0
        self.wall = 0.0
        self.log = ""
        self.emitted = 0          # JSON values printed by the spec (PrintT(ToJson(..)))
        self.out_path = None      # ndjson file with the emitted values
        self.violated = None      # name of violated invariant / property, if any
        self.error = None         # other error text
        self.timed_out = False
        self.coverage_zero = []   # actions / expressions with zero coverage (when -coverage)
        self.trace = []           # counterexample states (text) when violated

    @property
    def ok(self):
        return self.rc == 0 and not self.violated and not self.error and not self.timed_out


class Ctx:
    def __init__(self, pid, tier, seed):
        self.pid = pid
        self.tier = tier
        self.seed = seed
        self.t0 = time.time()
        self.scratch = tempfile.mkdtemp(prefix="verif-%s-" % pid)
        atexit.register(self._cleanup)
        self.states = 0
        self.transitions = 0
        self.traces = 0            # cases/behaviours executed against the real code and compared (+ traces validated)
        self.evaluations = 0
        self.nontrivial = 0
        self.rule = ""
        self.samples = []
        self.assumptions = []
        self.extra = {}
        self.violations = []       # list of dicts (reproduced on real code, not known)
        self.known = []            # matched known findings
        self.inconclusive = []     # reasons
        self.tlc_runs = []
        self.exhaustive = False
        self._known_db = None
        self._nrun = 0
        self._harness_ready = False

    # ------------------------------------------------------------------ util
    def _cleanup(self):
        if os.environ.get("VERIF_KEEP"):
            sys.stderr.write("[verif] scratch kept: %s\n" % self.scratch)
            return
        shutil.rmtree(self.scratch, ignore_errors=True)

    def log(self, msg):
        sys.stderr.write("[%s %6.1fs] %s\n" % (self.pid, time.time() - self.t0, msg))
        sys.stderr.flush()

    def path(self, *p):
        d = os.path.join(self.scratch, *p)
        os.makedirs(os.path.dirname(d), exist_ok=True)
        return d

    # ------------------------------------------------------------------ TLC
    def tlc(self, family, module, cfg=None, workers=None, timeout=600, simulate=None,
            depth=None, subst=None, coverage=False, deadlock=True, extra_args=None,
            heap=None, emit_prefixes=('"{', '"['), count=True, dfs=False, spec_dirs=None,
            extra_files=None, seed=None):
        """Run TLC on spec/<family>/<module>.tla with config <cfg> (default <module>.cfg).

        The spec directory (and spec/common) is copied into a scratch run directory; `subst`
        ({"@@X@@": "3"}) is applied to the .cfg and to the module file. JSON values the spec prints
        with PrintT(ToJson(v)) are collected into an ndjson file (TLCResult.out_path).
        """
        self._nrun += 1
        rundir = self.path("tlc%03d_%s" % (self._nrun, module), "x")
        rundir = os.path.dirname(rundir)
        for d in [os.path.join(SPEC, "common"), os.path.join(SPEC, family)] + [os.path.join(SPEC, s) for s in (spec_dirs or [])]:
            if os.path.isdir(d):
                for f in os.listdir(d):
                    if f.endswith((".tla", ".cfg", ".json", ".ndjson")):
                        shutil.copy(os.path.join(d, f), os.path.join(rundir, f))
        for src, name in (extra_files or {}).items():
            shutil.copy(src, os.path.join(rundir, name))
        cfgname = cfg or (module + ".cfg")
        if subst:
            for fn in (cfgname, module + ".tla"):
                p = os.path.join(rundir, fn)
                s = open(p).read()
                for k, v in subst.items():
                    s = s.replace(k, str(v))
                open(p, "w").write(s)
        workers = workers or default_workers()
        # a timeout is sized for an idle 16-core machine: stretch it when the machine is shared
        try:
            timeout = int(timeout * max(1.0, min(6.0, os.getloadavg()[0] / NCPU)) * max(1.0, 16.0 / max(1, NCPU)))
        except OSError:
            pass
        args = ["java", "-XX:+UseParallelGC", "-Xss64m"]
        args.append("-Xmx%s" % (heap or os.environ.get("VERIF_TLC_HEAP", "4g")))
        if dfs:
            args.append("-Dtlc2.tool.queue.IStateQueue=StateDeque")
        args += ["-cp", TLA_CP, "tlc2.TLC", "-metadir", os.path.join(rundir, "md"),
                 "-workers", str(workers), "-config", cfgname, "-noGenerateSpecTE"]
        if not deadlock:
            args.append("-deadlock")
        if coverage:
            args += ["-coverage", "1"]
        if simulate:
            args += ["-simulate", simulate]
            if depth:
                args += ["-depth", str(depth)]
        if seed is not None or simulate:
            args += ["-seed", str(self.seed if seed is None else seed)]
        if extra_args:
            args += extra_args
        args.append(module + ".tla")
        res = TLCResult()
        res.out_path = os.path.join(rundir, "emitted.ndjson")
        logp = os.path.join(rundir, "tlc.log")
        t0 = time.time()
        env = dict(os.environ)
        env.pop("JAVA_TOOL_OPTIONS", None)
        proc = subprocess.Popen(args, cwd=rundir, stdout=subprocess.PIPE, stderr=subprocess.STDOUT,
                                text=True, env=env, preexec_fn=os.setsid, errors="replace")
        timer_fired = [False]

        def kill(*_a):
            timer_fired[0] = True
            try:
                os.killpg(proc.pid, signal.SIGKILL)
            except Exception:
                pass
        import threading
        timer = threading.Timer(timeout, kill)
        timer.start()
        loglines = []
        try:
            with open(res.out_path, "w") as out:
                for line in proc.stdout:
                    if line.startswith(emit_prefixes):
                        try:
                            out.write(json.loads(line) + "\n")
                            res.emitted += 1
                            continue
                        except Exception:
                            pass
                    loglines.append(line)
            proc.wait()
        finally:
            timer.cancel()
        res.wall = time.time() - t0
        res.rc = proc.returncode
        res.timed_out = timer_fired[0]
        res.log = "".join(loglines)
        open(logp, "w").write(res.log)
        m = re.findall(r"(\d+) states generated, (\d+) distinct states found", res.log)
        if m:
            res.generated, res.distinct = int(m[-1][0]), int(m[-1][1])
        else:
            m = re.findall(r"Progress.*?(\d[\d,]*) states generated.*?(\d[\d,]*) distinct", res.log)
            if m:
                res.generated = int(m[-1][0].replace(",", ""))
                res.distinct = int(m[-1][1].replace(",", ""))
            m2 = re.findall(r"The number of states generated: (\d+)", res.log)
            if m2:
                res.generated = int(m2[-1])
                res.distinct = res.distinct or res.generated
        m = re.search(r"depth of the complete state graph search is (\d+)", res.log)
        if m:
            res.depth = int(m.group(1))
        m = re.search(r"Invariant (\S+) is violated", res.log)
        if m:
            res.violated = m.group(1)
        m = re.search(r"(?:Action|Temporal) propert(?:y|ies) (\S+)? ?(?:is|were) violated", res.log)
        if m and not res.violated:
            res.violated = m.group(1) or "temporal"
        if "Deadlock reached" in res.log and not res.violated:
            res.violated = "Deadlock"
        if re.search(r"Assumption .* is false", res.log) and not res.violated:
            res.violated = "Assumption"
        if "The postcondition" in res.log and "violated" in res.log and not res.violated:
            res.violated = "Postcondition"
        if res.violated:
            res.trace = re.findall(r"^State \d+:.*?(?=^State \d+:|\Z|^\d+ states generated)", res.log, re.S | re.M)
        elif res.rc != 0 and not res.timed_out:
            em = re.search(r"Error: (.*(?:\n.*){0,6})", res.log)
            res.error = em.group(1) if em else "tlc rc=%s" % res.rc
        if coverage:
            res.coverage_zero = re.findall(r"^<(\w+) line [^>]*>: 0:0$", res.log, re.M)
        if count:
            self.states += res.distinct
            self.transitions += res.generated
        self.tlc_runs.append({"module": module, "cfg": cfgname, "mode": "simulate" if simulate else "check",
                              "generated": res.generated, "distinct": res.distinct, "emitted": res.emitted,
                              "wall_s": round(res.wall, 1), "rc": res.rc, "violated": res.violated})
        self.log("tlc %s/%s %s: rc=%s gen=%d distinct=%d emitted=%d %.1fs%s" % (
            family, module, cfgname, res.rc, res.generated, res.distinct, res.emitted, res.wall,
            " VIOLATED " + str(res.violated) if res.violated else (" TIMEOUT" if res.timed_out else "")))
        return res

    def require_tlc_ok(self, res, what):
        """TLC must have finished without error; a spec-level violation alone is inconclusive
        (it has to be reproduced on the code by the caller)."""
        if res.timed_out:
            raise Inconclusive("%s: TLC timed out" % what)
        if res.error:
            raise Inconclusive("%s: TLC error: %s" % (what, res.error[:400]))
        if res.violated:
            raise Inconclusive("%s: specification-level violation of %s (not reproduced on the code): %s" % (
                what, res.violated, "".join(res.trace)[-1500:]))
        if res.rc != 0:
            raise Inconclusive("%s: TLC rc=%s" % (what, res.rc))

    # ------------------------------------------------------------------ Go
    def _modfile_args(self):
        repo = repo_path()
        # keep go.sum in step with the repository
        # (only when it differs, and atomically: several checks may run at the same time)
        try:
            src, dst = os.path.join(repo, "go.sum"), os.path.join(HARNESS, "go.sum")
            want = open(src, "rb").read()
            have = open(dst, "rb").read() if os.path.exists(dst) else None
            if have is None or not set(want.splitlines()) <= set(have.splitlines()):
                tmp = "%s.%d.tmp" % (dst, os.getpid())
                open(tmp, "wb").write(want)
                os.replace(tmp, dst)
        except Exception:
            pass
        if repo == "/repo":
            return []
        mf = os.path.join(self.scratch, "alt.mod")
        s = open(os.path.join(HARNESS, "go.mod")).read().replace("=> /repo", "=> " + repo)
        open(mf, "w").write(s)
        shutil.copy(os.path.join(repo, "go.sum"), os.path.join(self.scratch, "alt.sum"))
        return ["-modfile=" + mf]

    def go_test(self, pkg, run, env=None, timeout=900, tags="verif", race=False, extra=None):
        """Run `go test -tags verif -run <run> ./<pkg>` in the harness module against the repo's working tree.
        Returns (rc, output). The harness communicates through files named in env (VERIF_IN / VERIF_OUT)."""
        e = go_env()
        e["VERIF_SEED"] = str(self.seed)
        e["VERIF_TIER"] = self.tier
        if env:
            e.update({k: str(v) for k, v in env.items()})
        args = ["go", "test"] + (["-p", "4"] if default_workers() < NCPU else []) + self._modfile_args() + ["-tags", tags, "-count=1", "-vet=off",
                                                         "-timeout", "%ds" % (timeout + 30), "-run", run]
        if race:
            args.append("-race")
        if extra:
            args += extra
        if os.environ.get("VERIF_COVERDIR"):
            # development aid (bin/covreport): statement coverage of dskit under the conformance drivers
            self._ncov = getattr(self, "_ncov", 0) + 1
            args += ["-coverpkg=github.com/grafana/dskit/...", "-coverprofile=%s/%s_%s_%03d.out" % (
                os.environ["VERIF_COVERDIR"], self.pid, self.tier, self._ncov)]
        args.append("./" + pkg)
        t0 = time.time()
        try:
            p = subprocess.run(args, cwd=HARNESS, env=e, stdout=subprocess.PIPE, stderr=subprocess.STDOUT,
                               text=True, timeout=timeout + 120, errors="replace")
            rc, out = p.returncode, p.stdout
        except subprocess.TimeoutExpired as ex:
            rc, out = 124, (ex.stdout or "") if isinstance(ex.stdout, str) else ""
        self.log("go test %s -run %s: rc=%s %.1fs" % (pkg, run, rc, time.time() - t0))
        return rc, out

    def run_harness(self, pkg, run, env=None, timeout=900, **kw):
        """go_test + read the JSON result file the harness writes to $VERIF_OUT.
        Harness contract: exit 0 and a result file, whatever it found; anything else is inconclusive."""
        self._nrun += 1
        outp = self.path("go%03d_%s.json" % (self._nrun, run.strip("^$").replace("/", "_")))
        env = dict(env or {})
        env["VERIF_OUT"] = outp
        rc, out = self.go_test(pkg, run, env=env, timeout=timeout, **kw)
        if rc != 0 or not os.path.exists(outp):
            if os.environ.get("VERIF_DEBUG"):
                sys.stderr.write(out[-6000:])
            raise Inconclusive("harness %s/%s failed (rc=%s): %s" % (pkg, run, rc, out[-1500:]))
        try:
            return json.load(open(outp))
        except Exception as ex:
            raise Inconclusive("harness %s/%s wrote unreadable result: %s" % (pkg, run, ex))

    # ------------------------------------------------------------------ verdicts
    def known_db(self):
        if self._known_db is None:
            p = os.path.join(ROOT, "known_findings.json")
            self._known_db = json.load(open(p)) if os.path.exists(p) else {"findings": []}
        return self._known_db

    def absorb(self, res, label=""):
        """Fold a harness result {cases, nontrivial, mismatches:[{sig, ...}], samples} into the run."""
        self.traces += int(res.get("cases", 0))
        self.evaluations += int(res.get("cases", 0))
        self.nontrivial += int(res.get("nontrivial", 0))
        for s in (res.get("samples") or [])[:3]:
            if len(self.samples) < 8:
                self.samples.append(s)
        for m in (res.get("mismatches") or []):
            self.disagreement(m, label)
        for k, v in (res.get("extra") or {}).items():
            if isinstance(v, (int, float)) and isinstance(self.extra.get(k, 0), (int, float)):
                self.extra[k] = self.extra.get(k, 0) + v
            else:
                self.extra[k] = v
        if res.get("fatal"):
            raise Inconclusive("harness reported: %s" % res["fatal"])

    def disagreement(self, m, label=""):
        """A disagreement between real code and specification, reproduced on the real code."""
        sig = m.get("sig", "")
        for f in self.known_db().get("findings", []):
            if f.get("property") != self.pid or f.get("status") != "open":
                continue
            if re.fullmatch(f.get("sig_regex", "$^"), sig):
                if not any(k["id"] == f["id"] for k in self.known):
                    self.known.append({"id": f["id"], "what": f["what"], "n": 1, "example": m})
                else:
                    for k in self.known:
                        if k["id"] == f["id"]:
                            k["n"] += 1
                return
        if label:
            m = dict(m)
            m["check"] = label
        self.violations.append(m)

    def inconclusive_note(self, why):
        self.inconclusive.append(why)
        self.log("INCONCLUSIVE: " + why)

    def finish(self, level="model_checking"):
        wall = time.time() - self.t0
        os.makedirs(EVIDENCE, exist_ok=True)
        rc = 0
        replay_paths = []
        if self.violations:
            rc = 1
            os.makedirs(REPLAYS, exist_ok=True)
            # one replay file per distinct signature (at most 5)
            seen = {}
            for v in self.violations:
                seen.setdefault(v.get("sig", ""), []).append(v)
            for sig, vs in list(seen.items())[:5]:
                h = hashlib.sha1(json.dumps(vs[0], sort_keys=True, default=str).encode()).hexdigest()[:10]
                p = os.path.join(REPLAYS, "%s-%s.json" % (self.pid, h))
                json.dump({"property": self.pid, "tier": self.tier, "seed": self.seed, "sig": sig,
                           "count": len(vs), "first": vs[0], "more": vs[1:4],
                           "replay_cmd": "VERIF_SEED=%d bin/check %s --tier %s" % (self.seed, self.pid, self.tier)},
                          open(p, "w"), indent=1, default=str)
                replay_paths.append(p)
        elif self.inconclusive:
            rc = 2
        cov = {
            "states": self.states, "transitions": self.transitions,
            "traces_validated_against_impl": self.traces,
            "evaluations": self.evaluations, "distinct_nontrivial": self.nontrivial,
            "rule": self.rule, "samples": self.samples[:8] or ["(none)"],
            "exhaustive": bool(self.exhaustive), "tlc_runs": self.tlc_runs,
            "known_findings_matched": [{"id": k["id"], "n": k["n"]} for k in self.known],
            "repo": repo_path(),
        }
        cov.update(self.extra)
        ev = {"property_id": self.pid, "tier": self.tier, "seed": self.seed, "level": level,
              "coverage": cov, "assumptions": self.assumptions, "wall_s": round(wall, 1),
              "violations": len(self.violations)}
        if self.inconclusive:
            ev["coverage"]["inconclusive"] = self.inconclusive
        evp = os.path.join(EVIDENCE, "%s.json" % self.pid)
        json.dump(ev, open(evp, "w"), indent=1, default=str)
        for k in self.known:
            print("KNOWN-FINDING: property=%s %s (%s; %d occurrence(s) this run)" % (self.pid, k["what"], k["id"], k["n"]))
        for p in replay_paths:
            print("VIOLATION property=%s replay=%s" % (self.pid, p))
        if rc == 2:
            print("INCONCLUSIVE property=%s %s" % (self.pid, "; ".join(self.inconclusive)[:600]))
        if rc == 0:
            print("OK property=%s tier=%s seed=%d states=%d transitions=%d impl_cases=%d wall=%.0fs" % (
                self.pid, self.tier, self.seed, self.states, self.transitions, self.traces, wall))
        sys.stdout.flush()
        return rc


def read_ndjson(path, limit=None):
    out = []
    with open(path) as f:
        for i, line in enumerate(f):
            if limit is not None and i >= limit:
                break
            line = line.strip()
            if line:
                out.append(json.loads(line))
    return out


def main(pid, run_fn, argv=None):
    import argparse
    ap = argparse.ArgumentParser()
    ap.add_argument("--tier", default=os.environ.get("VERIF_TIER", "quick"), choices=["quick", "thorough"])
    ap.add_argument("--seed", type=int, default=int(os.environ.get("VERIF_SEED", "1")))
    ap.add_argument("--replay", default=None)
    a = ap.parse_args(argv)
    ctx = Ctx(pid, a.tier, a.seed)
    ctx.replay = a.replay
    try:
        level = run_fn(ctx) or "model_checking"
    except Inconclusive as ex:
        ctx.inconclusive_note(str(ex))
        level = "model_checking"
    except Exception as ex:  # tool/driver failure - never a violation
        import traceback
        traceback.print_exc()
        ctx.inconclusive_note("driver exception: %r" % (ex,))
        level = "model_checking"
    rc = ctx.finish(level)
    sys.exit(rc)
