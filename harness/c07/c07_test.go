//go:build verif

package c07

import (
	"context"
	"encoding/json"
	"errors"
	"fmt"
	"os"
	"sort"
	"strings"
	"sync"
	"testing"
	"testing/synctest"
	"time"

	"verifharness/internal/abs"

	"github.com/grafana/dskit/kv"
)

// ---------------------------------------------------------------------------------------------
// A caller is one goroutine-per-call client of the store. Its f parks at a gate: "f entered" is
// the point after the store's read, "gate released" lets the store go on to its conditional write.

type decision struct {
	a  string // put | decline | err
	rf bool   // the retry flag f returns
}

var errF = errors.New("c07: f failed")

const (
	stIdle = iota
	stInF
	stLeftF  // f returned, the call has neither re-entered f nor returned (memberlist: sleeping before a retry)
	stMirror // multi-switch driver: the primary is written, the call is parked in its mirror write
	stReturned
)

type caller struct {
	id, op int // op = number of the call in progress / last finished

	mu      sync.Mutex
	st      int
	in      [][3]int // what f was handed at its latest entry
	inErr   error
	entries int // f entries of the current call
	err     error
	pan     interface{}

	gate    chan decision
	alias   bool   // f works on the value it is handed IN PLACE and the caller keeps (and later reuses) what f returned
	kept    []*Val // alias mode: every value f returned during the current call
	outHook func(out *Val) // sees the value a "put" is about to return (multi-switch driver)
	mgate   chan struct{}  // multi-switch driver: parked in the mirror write until released
}

func (c *caller) snapshot() (st int, in [][3]int, inErr error, err error, pan interface{}) {
	c.mu.Lock()
	defer c.mu.Unlock()
	return c.st, c.in, c.inErr, c.err, c.pan
}

// begin starts the caller's next CAS call on its own goroutine.
func (c *caller) begin(ctx context.Context, cl kv.Client, key string, onEnter func(c *caller, in [][3]int), onReturn func(c *caller, err error)) {
	c.op++
	op := c.op
	c.mu.Lock()
	c.st, c.entries, c.err, c.pan = stIdle, 0, nil, nil
	c.kept = nil
	c.mu.Unlock()
	go func() {
		var err error
		defer func() {
			if p := recover(); p != nil {
				c.mu.Lock()
				c.pan, c.st = p, stReturned
				c.mu.Unlock()
				return
			}
		}()
		err = cl.CAS(ctx, key, func(x interface{}) (interface{}, bool, error) {
			in, ierr := asVal(x)
			c.mu.Lock()
			c.st, c.in, c.inErr = stInF, in, ierr
			c.entries++
			c.mu.Unlock()
			if onEnter != nil {
				onEnter(c, in)
			}
			d := <-c.gate
			c.mu.Lock()
			c.st = stLeftF
			c.mu.Unlock()
			var inv *Val
			if x != nil {
				inv, _ = x.(*Val)
			}
			switch d.a {
			case "same":
				return x, d.rf, nil // the value f was handed, unchanged
			case "put":
				var out *Val
				if c.alias && inv != nil {
					// the usual shape of a dskit CAS function (ring lifecyclers): edit the value handed in and return it
					inv.Items[[2]int{c.id, op}] = Item{Pos: inv.Live() + 1}
					out = inv
				} else {
					out = WithTag(inv, c.id, op)
				}
				if c.alias {
					c.kept = append(c.kept, out)
				}
				if c.outHook != nil {
					c.outHook(out)
				}
				return out, d.rf, nil
			case "bad": // a value no store can take: the codec refuses it, and it is not a memberlist.Mergeable
				if c.alias {
					scribble(inv, c.id, op)
				}
				return unstorable{}, d.rf, nil
			case "decline":
				if c.alias {
					scribble(inv, c.id, op) // f edited its input before it decided not to write: must not reach the store
				}
				return nil, d.rf, nil
			default:
				if c.alias {
					scribble(inv, c.id, op)
				}
				return nil, d.rf, errF
			}
		})
		// alias mode: the caller goes on using the values its f returned (they are its own); whatever the
		// call did with them, the store must hold a copy
		for _, v := range c.kept {
			scribble(v, c.id, op)
		}
		if onReturn != nil {
			onReturn(c, err)
		}
		c.mu.Lock()
		c.err, c.st = err, stReturned
		c.mu.Unlock()
	}()
}

type unstorable struct{}

// scribble adds an entry no call of the specification ever writes (callers 90+): if it shows up in the
// store, the store shares memory with a value it handed to f or was handed by f.
func scribble(v *Val, c, op int) {
	if v != nil {
		v.Items[[2]int{90 + c, op}] = Item{Pos: 99}
	}
}

// aliasMode: which callers run their f in place (see caller.alias). The state graphs are symmetric in
// the callers, so every transition is executed in both modes; the seed swaps the roles.
func aliasMode(id int) bool { return (int64(id)+abs.Seed())%2 == 1 }

// ---------------------------------------------------------------------------------------------
// spec -> code: behaviours of KVCas.tla replayed step by step.

type step struct {
	A     string   `json:"a"`
	C     int      `json:"c"`
	RF    bool     `json:"rf"`
	E     string   `json:"e"`            // fin | ok | fail | sleep
	W     []int    `json:"w,omitempty"`  // tick: the callers woken
	In    [][3]int `json:"in"`           // value handed to f when e = fin
	Val   [][3]int `json:"val"`          // Get afterwards
	Mir   [][3]int `json:"mir"`          // secondary store afterwards
	Be    string   `json:"be,omitempty"` // setup record only
	Sec   string   `json:"sec,omitempty"`
	Limit int      `json:"limit,omitempty"`
	N     int      `json:"n,omitempty"` // other: how many writes the other key has seen after this one
}

func norm(t [][3]int) [][3]int {
	out := append([][3]int{}, t...)
	sortTriples(out)
	return out
}

type replayer struct {
	res        *abs.Result
	covered    map[string]bool // variant/action/outcome classes exercised
	nkeys      int
	perVar     map[string]int
	skipped    int
	corrupt    string
	nthCase    int
	behaviours int
}

// runBehaviour executes one behaviour on one variant inside the current bubble.
func (r *replayer) runBehaviour(t *testing.T, st *store, beh []step, key string) {
	ctx := context.Background()
	nc := 0
	for _, s := range beh[1:] {
		if s.C > nc {
			nc = s.C
		}
	}
	cs := make([]*caller, nc+1)
	for i := 1; i <= nc; i++ {
		cs[i] = &caller{id: i, gate: make(chan decision), alias: aliasMode(i)}
	}
	fail := func(i int, s step, what string, got, want interface{}) {
		r.res.Mismatch(abs.Mismatch{
			Sig:  fmt.Sprintf("replay %s %s->%s: %s", st.variant, s.A, s.E, what),
			Case: map[string]interface{}{"variant": st.variant, "behaviour": beh, "step": i},
			Got:  got, Want: want})
	}
	defer func() {
		if p := recover(); p != nil { // Get/Delete of the code under test panicked on the controller goroutine
			r.res.Mismatch(abs.Mismatch{Sig: fmt.Sprintf("replay %s: panic", st.variant),
				Case: map[string]interface{}{"variant": st.variant, "behaviour": beh}, Got: fmt.Sprint(p), Want: "no panic"})
		}
	}()
	ok := true
	for i, s := range beh[1:] {
		if s.A == "delete" { // outside C07 (documentation configs): somebody deletes the key
			if err := st.client.Delete(ctx, key); err != nil {
				fail(i+1, s, "Delete", err.Error(), "nil")
				break
			}
			got, gerr := st.client.Get(ctx, key)
			if gv, perr := asVal(got); gerr != nil || perr != nil || !eqTriples(gv, norm(s.Val)) {
				fail(i+1, s, "Get", map[string]interface{}{"val": gv, "err": fmt.Sprint(gerr, perr)}, norm(s.Val))
				break
			}
			continue
		}
		if s.A == "other" { // a CAS on another key of the same store, through the same client; then List
			if what, got, want := r.otherKey(ctx, st, key, s); what != "" {
				fail(i+1, s, what, got, want)
				break
			}
			r.covered["other"] = true
			continue
		}
		if s.A == "tick" { // 1 s passes on the bubble clock: every sleeping caller re-reads and enters f again
			time.Sleep(time.Second)
			synctest.Wait()
			r.covered["tick"] = true
			for _, wc := range s.W {
				stt, in, inErr, err, _ := cs[wc].snapshot()
				if stt != stInF {
					fail(i+1, s, "sleeper not woken into f", describe(stt, err), "f entered")
					ok = false
				} else if inErr != nil || !eqTriples(in, norm(s.In)) {
					fail(i+1, s, "value handed to f", map[string]interface{}{"in": in, "err": fmt.Sprint(inErr)}, norm(s.In))
					ok = false
				}
			}
			if !ok {
				break
			}
			continue
		}
		c := cs[s.C]
		switch s.A {
		case "begin":
			c.begin(ctx, st.client, key, nil, nil)
		default:
			if stt, _, _, _, _ := c.snapshot(); stt != stInF {
				fail(i+1, s, "harness: caller not parked in f", stt, stInF)
				ok = false
			} else {
				c.gate <- decision{a: s.A, rf: s.RF}
			}
		}
		if !ok {
			break
		}
		synctest.Wait()
		stt, in, inErr, err, pan := c.snapshot()
		r.covered[fmt.Sprintf("%s %s->%s", strings.SplitN(st.variant, "/", 2)[0], s.A, s.E)] = true
		if pan != nil {
			fail(i+1, s, "panic", fmt.Sprint(pan), s.E)
			ok = false
			break
		}
		switch s.E {
		case "fin":
			if stt != stInF {
				fail(i+1, s, "f not (re-)entered", describe(stt, err), "f entered")
				ok = false
			} else if inErr != nil || !eqTriples(in, norm(s.In)) {
				fail(i+1, s, "value handed to f", map[string]interface{}{"in": in, "err": fmt.Sprint(inErr)}, norm(s.In))
				ok = false
			}
		case "sleep":
			if stt != stLeftF {
				fail(i+1, s, "call should be sleeping before its retry", describe(stt, err), "left f, neither re-entered nor returned")
				ok = false
			}
		case "ok":
			if stt != stReturned || err != nil {
				fail(i+1, s, "call result", describe(stt, err), "returned nil")
				ok = false
			}
		case "fail":
			if stt != stReturned || err == nil {
				fail(i+1, s, "call result", describe(stt, err), "returned an error")
				ok = false
			} else if s.A == "err" && !s.RF && !strings.Contains(err.Error(), errF.Error()) {
				fail(i+1, s, "error of f not reported", err.Error(), errF.Error())
			}
		}
		if !ok {
			break
		}
		// other callers must not have moved: whoever is in a call is still parked in f
		// (checked when their next step comes); the stored value:
		got, gerr := st.client.Get(ctx, key)
		gv, perr := asVal(got)
		if gerr != nil || perr != nil || !eqTriples(gv, norm(s.Val)) {
			fail(i+1, s, "Get", map[string]interface{}{"val": gv, "err": fmt.Sprint(gerr, perr)}, norm(s.Val))
			ok = false
			break
		}
		if st.inner != nil {
			got, gerr := st.inner(key)
			gv, perr := asVal(got)
			if gerr != nil || perr != nil || !eqTriples(gv, norm(s.Val)) {
				fail(i+1, s, "Get on the wrapped store", map[string]interface{}{"val": gv, "err": fmt.Sprint(gerr, perr)}, norm(s.Val))
				ok = false
				break
			}
		}
		if st.second != nil {
			got, gerr := st.second(key)
			gv, perr := asVal(got)
			if gerr != nil || perr != nil || !eqTriples(gv, norm(s.Mir)) {
				fail(i+1, s, "secondary store", map[string]interface{}{"val": gv, "err": fmt.Sprint(gerr, perr)}, norm(s.Mir))
				ok = false
				break
			}
		}
	}
	// drain: whoever is still inside f declines (no write) so that every goroutine ends
	for rounds := 0; rounds < 64; rounds++ {
		busy, asleep := false, false
		for i := 1; i <= nc; i++ {
			switch stt, _, _, _, _ := cs[i].snapshot(); stt {
			case stInF:
				cs[i].gate <- decision{a: "decline"}
				busy = true
			case stLeftF: // sleeping before a retry: let the second pass
				asleep = true
			}
		}
		if !busy && !asleep {
			break
		}
		if asleep {
			time.Sleep(time.Second)
		}
		synctest.Wait()
	}
}

// otherKey: the n-th write to the sibling key key+"~o" (it shares every prefix with key). The call must see
// exactly the sibling's own history and succeed at once, leave key alone (Get here and on the wrapped /
// secondary stores), and List(key) must name exactly the keys that hold a value.
func (r *replayer) otherKey(ctx context.Context, st *store, key string, s step) (string, interface{}, interface{}) {
	ok := key + "~o"
	want := [][3]int{}
	for j := 1; j < s.N; j++ {
		want = append(want, [3]int{9, j, j})
	}
	entries := 0
	var seen [][3]int
	err := st.client.CAS(ctx, ok, func(x interface{}) (interface{}, bool, error) {
		entries++
		seen, _ = asVal(x)
		inv, _ := x.(*Val)
		return WithTag(inv, 9, s.N), true, nil
	})
	if err != nil || entries != 1 {
		return "CAS on the other key", fmt.Sprintf("err=%v, f entered %d times", err, entries), "nil, f entered once"
	}
	if !eqTriples(seen, want) {
		return "value handed to f on the other key", seen, want
	}
	want = append(want, [3]int{9, s.N, s.N})
	check := func(what string, get func(string) (interface{}, error), k string, w [][3]int) (string, interface{}, interface{}) {
		got, gerr := get(k)
		gv, perr := asVal(got)
		if gerr != nil || perr != nil || !eqTriples(gv, w) {
			return what, map[string]interface{}{"val": gv, "err": fmt.Sprint(gerr, perr)}, w
		}
		return "", nil, nil
	}
	direct := func(k string) (interface{}, error) { return st.client.Get(ctx, k) }
	if a, b, c := check("Get of the other key", direct, ok, want); a != "" {
		return a, b, c
	}
	if a, b, c := check("Get after a write to another key", direct, key, norm(s.Val)); a != "" {
		return a, b, c
	}
	if st.inner != nil {
		if a, b, c := check("Get on the wrapped store after a write to another key", st.inner, key, norm(s.Val)); a != "" {
			return a, b, c
		}
		if a, b, c := check("Get of the other key on the wrapped store", st.inner, ok, want); a != "" {
			return a, b, c
		}
	}
	if st.second != nil {
		if a, b, c := check("secondary store after a write to another key", st.second, key, norm(s.Mir)); a != "" {
			return a, b, c
		}
		if a, b, c := check("other key on the secondary store", st.second, ok, want); a != "" {
			return a, b, c
		}
	}
	keys, lerr := st.client.List(ctx, key)
	sort.Strings(keys)
	wantKeys := []string{}
	if len(s.Val) > 0 {
		wantKeys = append(wantKeys, key)
	}
	wantKeys = append(wantKeys, ok)
	if lerr != nil || strings.Join(keys, " ") != strings.Join(wantKeys, " ") {
		return "List", fmt.Sprintf("%v err=%v", keys, lerr), wantKeys
	}
	return "", nil, nil
}

func describe(st int, err error) string {
	switch st {
	case stInF:
		return "parked in f"
	case stLeftF:
		return "left f, neither re-entered nor returned"
	case stMirror:
		return "parked in the mirror write"
	case stReturned:
		if err == nil {
			return "returned nil"
		}
		return "returned error: " + err.Error()
	}
	return "neither in f nor returned"
}

func TestReplay(t *testing.T) {
	if os.Getenv("VERIF_IN") == "" {
		t.Skip("VERIF_IN not set")
	}
	res := &abs.Result{}
	doReplay(t, res)
	res.Write(t)
}

// TestAll = TestReplay + TestRecord in one process (one link step less in the quick tier).
func TestAll(t *testing.T) {
	if os.Getenv("VERIF_IN") == "" || os.Getenv("VERIF_TRACE") == "" {
		t.Skip("VERIF_IN / VERIF_TRACE not set")
	}
	res := &abs.Result{}
	doReplay(t, res)
	if res.Fatal == "" {
		doRecord(t, res)
	}
	res.Write(t)
}

func doReplay(t *testing.T, res *abs.Result) {
	in := os.Getenv("VERIF_IN")
	r := &replayer{res: res, covered: map[string]bool{}, perVar: map[string]int{}, corrupt: os.Getenv("VERIF_CORRUPT_REPLAY")}
	if _, err := initInMemory(); err != nil { // outside any bubble
		res.Fatal = err.Error()
		return
	}
	only := os.Getenv("VERIF_VARIANTS") // optional comma list
	// Behaviours of one setup are contiguous in the (sorted) input; one store per variant serves a
	// chunk of them (fresh key each), inside one bubble.
	const chunk = 250
	var part [][]step
	flush := func() {
		if len(part) == 0 || res.Fatal != "" {
			part = part[:0]
			return
		}
		be, sec, limit := part[0][0].Be, part[0][0].Sec, part[0][0].Limit
		for _, variant := range variantsOf[be+"/"+sec] {
			if only != "" && !strings.Contains(","+only+",", ","+variant+",") {
				continue
			}
			if fixedLimit(variant) && limit != 10 {
				r.skipped += len(part)
				continue
			}
			synctest.Test(t, func(t *testing.T) {
				st, err := openStore(context.Background(), variant, limit)
				if err != nil {
					res.Fatal = fmt.Sprintf("openStore %s: %v", variant, err)
					return
				}
				defer st.close()
				for _, beh := range part {
					r.nkeys++
					r.nthCase++
					if r.corrupt != "" && r.nthCase == 17 {
						beh = corruptBehaviour(beh, r.corrupt)
					}
					r.runBehaviour(t, st, beh, fmt.Sprintf("%s-%d.", strings.ReplaceAll(variant, "/", "_"), r.nkeys)) // "." ends the number: no key is a prefix of another behaviour's
					res.Cases++
					r.perVar[variant]++
					if nontrivial(beh) {
						res.Nontrivial++
					}
					if r.nkeys%4999 == 1 {
						res.Sample(map[string]interface{}{"variant": variant, "behaviour": beh})
					}
				}
			})
		}
		part = part[:0]
	}
	err := abs.ReadNDJSON(in, func(line []byte) error {
		var beh []step
		if err := json.Unmarshal(line, &beh); err != nil {
			return err
		}
		if len(beh) < 2 || beh[0].A != "setup" {
			return fmt.Errorf("behaviour without setup record")
		}
		if len(part) > 0 && (len(part) >= chunk || part[0][0].Be != beh[0].Be || part[0][0].Sec != beh[0].Sec || part[0][0].Limit != beh[0].Limit) {
			flush()
		}
		part = append(part, beh)
		r.behaviours++
		return nil
	})
	flush()
	if err != nil && res.Fatal == "" {
		res.Fatal = err.Error()
	}
	res.AddExtra("replayed_per_variant", r.perVar)
	res.AddExtra("replay_skipped_fixed_limit", r.skipped)
	res.AddExtra("behaviours_read", r.behaviours)
	cov := []string{}
	for k := range r.covered {
		cov = append(cov, k)
	}
	res.AddExtra("replay_classes", len(cov))
	res.AddExtra("replayed", res.Cases)
}

// nontrivial: some attempt of some call did not end the call normally at once - a conflict or an
// error made the store retry (f re-entered) or made the call fail.
func nontrivial(beh []step) bool {
	for _, s := range beh[1:] {
		if s.A != "begin" && s.E != "ok" {
			return true
		}
	}
	return false
}

// corruptBehaviour changes one expected output (self-test of the binding: the run must fail).
func corruptBehaviour(beh []step, how string) []step {
	out := append([]step{}, beh...)
	i := len(out) - 1
	s := out[i]
	switch how {
	case "val":
		s.Val = append(append([][3]int{}, s.Val...), [3]int{9, 9, 9})
	case "e":
		if s.E == "ok" {
			s.E = "fail"
		} else {
			s.E = "ok"
		}
	}
	out[i] = s
	return out
}
