package c01

// TestSteps (spec -> code, histories): every step of the state graph of RingLookupMC.tla - AddInstance,
// RemoveInstance, ChangeInstance (one instance updates its state / heartbeat / zone / one token) - is replayed
// into ONE long-lived ring.Ring the way a KV store feeds its watchers (Ring.loop -> updateRingState): the ring is
// started on the descriptor `from`, is told about `to`, and then about `from` again (the reverse step is a step of
// the model too). After every update the ring must answer every lookup (every concrete key of every key class x 4
// operations) and every ring-wide replication set exactly as the specification says for THAT descriptor alone -
// which is the statement of C01 ("for every ring content ...") for a client that has seen other contents before,
// and binds its consequence clause (MinimalDisruption, checked by TLC on the same steps) to the code: whatever the
// client caches across updates (token circle, token owners, zones, per-zone counts) must be unobservable.
//
// The new content is handed over in the two shapes a KV store produces: all storage fresh (a decoded message), or
// sharing the entries and token slices of the unchanged instances with the previous content (Desc.Clone after an
// in-place merge).

import (
	"context"
	"encoding/json"
	"fmt"
	"hash/fnv"
	"math/rand"
	"os"
	"sort"
	"testing"
	"time"

	"verifharness/internal/abs"

	"github.com/go-kit/log"
	"github.com/grafana/dskit/kv"
	"github.com/grafana/dskit/ring"
	"github.com/grafana/dskit/services"
)

// pushKV is a kv.Client that serves an initial value and whose only watcher is notified by Push, synchronously.
type pushKV struct {
	abs.StubKV
	f     func(any) bool
	ready chan struct{}
}

var _ kv.Client = (*pushKV)(nil)

func (w *pushKV) WatchKey(ctx context.Context, _ string, f func(any) bool) {
	w.f = f
	close(w.ready)
	<-ctx.Done()
}

func (w *pushKV) Push(v any) (pan any) {
	<-w.ready
	defer func() { pan = recover() }()
	w.f(v)
	return nil
}

type stepDesc struct {
	Ids   []int    `json:"ids"`
	Zone  []int    `json:"zone"`
	State []string `json:"state"`
	Hb    []string `json:"hb"`
	Toks  [][]int  `json:"toks"`
}

type stepLine struct {
	Step string   `json:"step"`
	From stepDesc `json:"from"`
	To   stepDesc `json:"to"`
}

func descKey(ids, zone []int, state, hb []string, toks [][]int) string {
	s := ""
	for i := range ids {
		if ids[i] == 0 {
			s += "-|"
			continue
		}
		t := append([]int(nil), toks[i]...)
		sort.Ints(t)
		s += fmt.Sprintf("%d,%s,%s,%v|", zone[i], state[i], hb[i], t)
	}
	return s
}

// the heartbeat timestamp of an instance depends on the step, the instance and its class only: an instance whose
// class does not change in a step keeps its timestamp
func backFor(class string, sub bool, ls int64, i int) int64 {
	h := fnv.New64a()
	fmt.Fprintf(h, "%d|%d|%s|%v", ls, i, class, sub)
	return hbBack(class, sub, rand.New(rand.NewSource(int64(h.Sum64()>>1))))
}

// nextDesc builds the content for line l; with share, entries (and token storage) of instances that are the same as
// in prev are taken over from prev.
func nextDesc(l *mcLine, classes [][]uint32, ages []int64, now time.Time, prev *ring.Desc, prevLine *mcLine, share bool) *ring.Desc {
	d := buildDesc(l, classes, ages, now)
	if !share || prev == nil {
		return d
	}
	for i := range l.Ids {
		if l.Ids[i] == 0 || prevLine.Ids[i] == 0 {
			continue
		}
		id := abs.InstID(i + 1)
		old, ok := prev.Ingesters[id]
		if !ok {
			continue
		}
		nw := d.Ingesters[id]
		same := len(old.Tokens) == len(nw.Tokens)
		for j := 0; same && j < len(nw.Tokens); j++ {
			same = old.Tokens[j] == nw.Tokens[j]
		}
		if same {
			nw.Tokens = old.Tokens // shared storage, as Desc.Clone leaves it
			d.Ingesters[id] = nw
		}
	}
	return d
}

func TestSteps(t *testing.T) {
	var inputs []replayInput
	if s := os.Getenv("VERIF_INPUTS"); s != "" {
		if err := json.Unmarshal([]byte(s), &inputs); err != nil {
			t.Fatalf("VERIF_INPUTS: %v", err)
		}
	}
	n := 0
	for _, in := range inputs {
		if in.Steps != "" {
			n++
		}
	}
	if n == 0 {
		t.Skip("no step universes in VERIF_INPUTS")
	}
	seed := abs.Seed()
	W := workers()
	// the expected results of every descriptor of every step universe
	tables := make([]map[string]*mcLine, len(inputs))
	var fatal string
	for x, in := range inputs {
		if in.Steps == "" {
			continue
		}
		tab := map[string]*mcLine{}
		err := abs.ReadNDJSON(in.Path, func(raw []byte) error {
			l := &mcLine{}
			if err := json.Unmarshal(raw, l); err != nil {
				return err
			}
			l.Acks, l.Answs, l.Lookx = nil, nil, nil
			tab[descKey(l.Ids, l.Zone, l.State, l.Hb, l.Toks)] = l
			return nil
		})
		if err != nil {
			fatal = in.Label + ": " + err.Error()
		}
		tables[x] = tab
	}
	parts := runBubbles(t, W, func(w int) *abs.Result {
		res := &abs.Result{}
		if fatal != "" {
			res.Fatal = fatal
			return res
		}
		lineNo := -1
		for x, in := range inputs {
			if in.Steps == "" {
				continue
			}
			replaySteps(res, in, tables[x], seed, w, W, &lineNo)
			if res.Fatal != "" {
				break
			}
		}
		return res
	})
	merge(parts).Write(t)
}

func replaySteps(res *abs.Result, in replayInput, tab map[string]*mcLine, seed int64, w, W int, lineNo *int) {
	nk := in.NK
	isGap := make([]bool, nk)
	for _, g := range in.Gaps {
		isGap[g] = true
	}
	boundary := abs.KeyClasses(nk, in.Gaps)
	gt := newGetter()
	steps, rings, calls, updates := 0, 0, 0, 0
	kinds := map[string]int{}
	err := abs.ReadNDJSON(in.Steps, func(raw []byte) error {
		*lineNo++
		if *lineNo%W != w {
			return nil
		}
		var s stepLine
		if err := json.Unmarshal(raw, &s); err != nil {
			return err
		}
		lf := tab[descKey(s.From.Ids, s.From.Zone, s.From.State, s.From.Hb, s.From.Toks)]
		lt := tab[descKey(s.To.Ids, s.To.Zone, s.To.State, s.To.Hb, s.To.Toks)]
		if lf == nil || lt == nil {
			return fmt.Errorf("step between descriptors that were not emitted: %s", raw)
		}
		steps++
		kinds[s.Step]++
		ls := lineSeed(seed, raw)
		rnd := rand.New(rand.NewSource(ls))
		gt.n = int(ls % 1024)
		n := len(lf.Ids)
		embeddings := []struct {
			name    string
			classes [][]uint32
		}{{"boundary", boundary}, {"random", abs.RandomKeyClasses(nk, in.Gaps, rnd)}}
		var exclNames []string
		for _, z := range lf.Excl {
			exclNames = append(exclNames, abs.ZoneName(z))
		}
		rfMax := len(lf.Rset[0][0])
		cfgNo := 0
		for zi, za := range []bool{false, true} {
			for rf := 1; rf <= rfMax; rf++ {
				cfgNo++
				emb := embeddings[(cfgNo+int(ls%2))%2]
				share := (cfgNo/2+int(ls/2%2))%2 == 0
				ph := (cfgNo + int(ls/4%2)) % 2
				now := atPhase(time.Duration(ph) * 500 * time.Millisecond)
				agesOf := func(l *mcLine) []int64 {
					a := make([]int64, n)
					for i := range a {
						if l.Ids[i] != 0 {
							a[i] = backFor(l.Hb[i], ph == 1, ls, i)
						}
					}
					return a
				}
				seq := []*mcLine{lf, lt, lf}
				names := []string{"initial content", "after the step", "after the reverse step"}
				cur := nextDesc(lf, emb.classes, agesOf(lf), now, nil, nil, false)
				store := &pushKV{StubKV: abs.StubKV{Value: cloneShallow(cur)}, ready: make(chan struct{})}
				r, err := ring.NewWithStoreClientAndStrategy(ring.Config{ReplicationFactor: rf, ZoneAwarenessEnabled: za, HeartbeatTimeout: hbTimeout,
					SubringCacheDisabled: true, ExcludedZones: exclNames}, "verif", "ring", store, ring.NewDefaultReplicationStrategy(), nil, log.NewNopLogger())
				if err == nil {
					err = services.StartAndAwaitRunning(context.Background(), r)
				}
				if err != nil {
					return fmt.Errorf("long-lived ring: %w", err)
				}
				rings++
				bad := false
				for si, l := range seq {
					if si > 0 {
						nd := nextDesc(l, emb.classes, agesOf(l), now, cur, seq[si-1], share)
						pan := store.Push(cloneShallow(nd))
						updates++
						cur = nd
						if pan != nil {
							res.Mismatch(abs.Mismatch{Sig: fmt.Sprintf("step:%s update panics", s.Step),
								Case: map[string]any{"universe": in.Label, "step": s, "rf": rf, "za": za}, Got: fmt.Sprint(pan), Want: "no panic"})
							break
						}
					}
					caseOf := func(extra map[string]any) map[string]any {
						c := map[string]any{"universe": in.Label, "embedding": emb.name, "rf": rf, "za": za, "excludedZones": exclNames,
							"step": s.Step, "observed": names[si], "update_shares_storage_of_unchanged_instances": share,
							"clockSubSecond": now.Nanosecond() != 0,
							"content_before": describe(seq[maxInt(si-1, 0)], emb.classes, agesOf(seq[maxInt(si-1, 0)]), now),
							"content_now":    describe(l, emb.classes, agesOf(l), now)}
						for k, v := range extra {
							c[k] = v
						}
						return c
					}
					for k := 0; k < nk && !bad; k++ {
						for oi, op := range opSeq {
							wnt := decodeLookup(l.Look[k][oi][zi][rf-1], n)
							res.Cases++
							if si > 0 && l.Look[k][oi][zi][rf-1] != seq[si-1].Look[k][oi][zi][rf-1] {
								res.Nontrivial++ // the step changes the answer
							}
							for _, key := range emb.classes[k] {
								v1, v2 := gt.variants()
								if rf == 1 && v2 == 5 {
									v2 = 4
								}
								for _, v := range []int{v1, v2} {
									g := gt.call(r, v, key, op, rf)
									calls++
									if kind := diffLookup(g, wnt); kind != "" {
										res.Mismatch(abs.Mismatch{
											Sig:  fmt.Sprintf("step:%s lookup:%s op=%s key=%s (%s)", s.Step, kind, opNames[oi], keyKind(l, k, isGap), names[si]),
											Case: caseOf(map[string]any{"call": variantNames[v], "op": opNames[oi], "key": key, "keyClass": k}),
											Got:  g, Want: wnt})
										bad = true
										break
									}
								}
								if bad {
									break
								}
							}
							if bad {
								break
							}
						}
					}
					for oi, op := range opSeq {
						wnt := decodeRset(l.Rset[oi][zi][rf-1], n)
						g := callRset(r, op)
						calls++
						res.Cases++
						if kind := diffRset(g, wnt, za); kind != "" {
							res.Mismatch(abs.Mismatch{
								Sig:  fmt.Sprintf("step:%s rset:%s op=%s za=%v (%s)", s.Step, kind, opNames[oi], za, names[si]),
								Case: caseOf(map[string]any{"call": "GetReplicationSetForOperation(" + opNames[oi] + ")"}), Got: g, Want: wnt})
							bad = true
						}
					}
					if bad {
						break
					}
				}
				_ = services.StopAndAwaitTerminated(context.Background(), r)
				if steps%997 == 5 && cfgNo == 2 && !bad {
					res.Sample(map[string]any{"universe": in.Label, "step": s, "rf": rf, "za": za,
						"long_lived_ring_agrees_with_specification_after_every_update": true})
				}
			}
		}
		return nil
	})
	if err != nil {
		res.Fatal = in.Label + ": " + err.Error()
	}
	add := func(k string, v int) {
		old := 0
		if res.Extra != nil {
			old, _ = res.Extra[k].(int)
		}
		res.AddExtra(k, old+v)
	}
	add("steps", steps)
	add("long_lived_rings", rings)
	add("updates_pushed", updates)
	add("real_calls", calls)
	for k, v := range kinds {
		add("steps_"+k, v)
	}
}

func maxInt(a, b int) int {
	if a > b {
		return a
	}
	return b
}

// cloneShallow returns a Desc with its own instance map (the ring keeps and edits the map it is given) whose
// entries share token storage with d.
func cloneShallow(d *ring.Desc) *ring.Desc {
	out := ring.NewDesc()
	for id, inst := range d.Ingesters {
		out.Ingesters[id] = inst
	}
	return out
}
