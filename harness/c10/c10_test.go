// Package c10 binds spec/batch/Batch.tla to ring.DoBatchWithOptions (C10).
//
//	TestReplay  spec -> code: every behaviour TLC enumerated on the gated specification (grain "call": one
//	            step per returning replica call; grain "hook": one step per stretch between two
//	            ring.VerifYield points inside batchTracker.record) is driven through the real function inside
//	            a testing/synctest bubble; after every step the driver waits for quiescence and compares what
//	            it sees (returned? which error, by identity; cleanup count; callback arguments; where every
//	            call goroutine is parked) with the observation the specification recorded for that step.
//	TestRace    code -> spec: groups of callbacks are released simultaneously so that real goroutines race
//	            inside record; only Release / Cancel / observation events are written, spec/batch/BatchTrace.tla
//	            lets TLC look for an interleaving of the atomic steps that explains every observation.
package c10

import (
	"context"
	"encoding/json"
	"errors"
	"fmt"
	"math/rand"
	"os"
	"sort"
	"strconv"
	"strings"
	"sync"
	"testing"
	"testing/synctest"
	"time"

	"verifharness/internal/abs"

	"github.com/grafana/dskit/concurrency"
	"github.com/grafana/dskit/httpgrpc"
	"github.com/grafana/dskit/ring"
	grpccodes "google.golang.org/grpc/codes"
	grpcstatus "google.golang.org/grpc/status"
)

type cfgT struct {
	NK       int     `json:"nk"`
	Reps     [][]int `json:"reps"`
	MaxErr   []int   `json:"maxErr"`
	GetErrAt int     `json:"getErrAt"`
	NoInst   bool    `json:"noInst"`
}

type obsT struct {
	Returned bool     `json:"returned"`
	Kind     string   `json:"kind"`
	C        int      `json:"c"`
	Cleaned  int      `json:"cleaned"`
	At       []string `json:"at,omitempty"`
}

type stepT struct {
	A   string `json:"a"`
	C   int    `json:"c"`
	O   string `json:"o"`
	Pre bool   `json:"pre"`
	Cg  int    `json:"cg"`
	Obs obsT   `json:"obs"`
}

type behaviour struct {
	Cfg    cfgT    `json:"cfg"`
	Grain  string  `json:"grain"`
	Steps  []stepT `json:"steps"`
	Calls  [][]int `json:"calls"`
	Spawns int     `json:"spawns"`
	// concrete status codes per outcome class, from the specification's table (DoBatch wrapper)
	Codes map[string][]int `json:"codes"`
}

// variant: what the property leaves to the caller and the specification does not depend on.
type variant struct {
	Spawner    string `json:"spawner"`    // "default" | "recording" | "pool"
	Classifier string `json:"classifier"` // "custom" | "default4xx"
	Rot        int    `json:"rot"`        // rotation of the instance order inside a replication set
	Ring       string `json:"ring"`       // "stub" | "real" (a real ring.Ring whose lookups give the case's replication sets) | "partitions"
	API        string `json:"api"`        // "DoBatchWithOptions" | "DoBatch" (deprecated wrapper: default spawner, isHTTPStatus4xx)
	// option / input shapes the specification does not depend on either
	NilCleanup bool   `json:"nilCleanup"` // Cleanup option left nil ("a noop will be called"): the cleanup count cannot be observed
	EmptyID    bool   `json:"emptyId"`    // stub ring: InstanceDesc.Id empty for every instance (replicas are told apart by address)
	Op         string `json:"op"`         // operation handed to DoBatch; the stub ring insists on being asked for that one
}

var opsByName = map[string]ring.Operation{"Write": ring.Write, "Read": ring.Read, "WriteNoExtend": ring.WriteNoExtend}

func (v variant) op() ring.Operation {
	if o, ok := opsByName[v.Op]; ok {
		return o
	}
	return ring.Write
}

type repErr struct {
	c     int
	class string
}

func (e *repErr) Error() string { return fmt.Sprintf("replica %d: %s", e.c, e.class) }

var (
	errCtxCause = errors.New("c10: caller gave up")
	errGet      = errors.New("c10: ring lookup failed")
	errWrongOp  = errors.New("c10: the ring was asked for another operation than the caller named")
)

// stubRing is a ring.DoBatchRing that answers with exactly the replication sets of the case.
type stubRing struct {
	cfg      *cfgT
	ni       int
	rot      int
	cancelAt int
	cancel   context.CancelCauseFunc
	emptyID  bool
	op       ring.Operation
	gets     int
}

func instDesc(i int) ring.InstanceDesc {
	return ring.InstanceDesc{Id: abs.InstID(i), Addr: "addr-" + abs.InstID(i)}
}

func keyOf(j int) uint32 { return uint32(j) * 1000 } // key of item j (1-based)

func (r *stubRing) Get(key uint32, op ring.Operation, buf []ring.InstanceDesc, _, _ []string) (ring.ReplicationSet, error) {
	j := int(key / 1000)
	r.gets++
	if op != r.op {
		return ring.ReplicationSet{}, errWrongOp
	}
	if j < 1 || j > r.cfg.NK {
		return ring.ReplicationSet{}, fmt.Errorf("stub ring: unknown key %d", key)
	}
	if r.cancelAt == j {
		r.cancel(errCtxCause)
	}
	if r.cfg.GetErrAt == j {
		return ring.ReplicationSet{}, errGet
	}
	reps := r.cfg.Reps[j-1]
	n := len(reps)
	for x := 0; x < n; x++ {
		d := instDesc(reps[(x+r.rot)%n])
		if r.emptyID {
			d.Id = ""
		}
		buf = append(buf, d)
	}
	return ring.ReplicationSet{Instances: buf, MaxErrors: r.cfg.MaxErr[j-1]}, nil
}

func (r *stubRing) ReplicationFactor() int {
	rf := 1
	for _, s := range r.cfg.Reps {
		if len(s) > rf {
			rf = len(s)
		}
	}
	return rf
}

func (r *stubRing) InstancesCount() int {
	if r.cfg.NoInst {
		return -r.rot // "InstancesCount <= 0": 0, -1, -2
	}
	return r.ni
}

// realRing is a real ring.Ring (all instances ACTIVE, one token each, DefaultReplicationStrategy) together with
// keys whose lookups give exactly the replication sets of a case; only cases that such a ring can produce
// (every key has the same number rf of replicas, they are rf neighbours on a circle of the used instances, the
// tolerance is rf - (rf/2+1)) have one.
type realRing struct {
	r    ring.DoBatchRing
	keys []uint32
}

// partRingFor: ring.ActivePartitionBatchRing over a real PartitionRing as the DoBatchRing, for the cases it can
// produce: every key has exactly one replica (= the active partition it is routed to) and no tolerance; "no
// instances" is a partition ring without active partitions.  Besides the active partitions 1..n (one per replica of
// the case) the ring has an INACTIVE partition whose tokens sit right below every active token, and every key is
// chosen so that its token successor belongs to the inactive partition: the lookup has to route it on to the next
// active partition (C15's routing), which must be the replica the case names.
func partRingFor(cfg *cfgT, ni int) (*realRing, error) {
	if cfg.GetErrAt != 0 {
		return nil, nil
	}
	for k := range cfg.Reps {
		if len(cfg.Reps[k]) != 1 || cfg.MaxErr[k] != 0 {
			return nil, nil
		}
	}
	desc := ring.NewPartitionRingDesc()
	now := time.Now()
	const inactive = int32(99)
	var inactiveTokens []uint32
	for i := 1; i <= ni; i++ {
		tok := uint32(i) * 100000
		inactiveTokens = append(inactiveTokens, tok-50000)
		if cfg.NoInst {
			continue
		}
		desc.AddPartition(int32(i), ring.PartitionActive, now)
		p := desc.Partitions[int32(i)]
		p.Tokens = []uint32{tok}
		desc.Partitions[int32(i)] = p
	}
	desc.AddPartition(inactive, ring.PartitionInactive, now)
	p := desc.Partitions[inactive]
	p.Tokens = inactiveTokens
	desc.Partitions[inactive] = p
	pr, err := ring.NewPartitionRing(*desc)
	if err != nil {
		return nil, err
	}
	rr := &realRing{r: ring.NewActivePartitionBatchRing(pr), keys: make([]uint32, cfg.NK)}
	for k := range cfg.Reps {
		i := cfg.Reps[k][0]
		rr.keys[k] = uint32(i)*100000 - 70000 - uint32(k)
		if cfg.NoInst {
			continue
		}
		// the routing itself is C15's business: use the ring only if it answers what the case says
		if got, err := pr.ActivePartitionForKey(rr.keys[k]); err != nil || int(got) != i {
			return nil, nil
		}
	}
	return rr, nil
}

// countingRing ends the caller's context inside the j-th lookup (what stubRing does itself).
type countingRing struct {
	ring.DoBatchRing
	n, cancelAt int
	cancel      context.CancelCauseFunc
}

func (c *countingRing) Get(key uint32, op ring.Operation, b []ring.InstanceDesc, s1, s2 []string) (ring.ReplicationSet, error) {
	c.n++
	if c.n == c.cancelAt {
		c.cancel(errCtxCause)
	}
	return c.DoBatchRing.Get(key, op, b, s1, s2)
}

var (
	realRings = map[string]*ring.Ring{}
	realStops []func()
)

func permutations(xs []int) [][]int {
	if len(xs) <= 1 {
		return [][]int{append([]int(nil), xs...)}
	}
	var out [][]int
	for i := range xs {
		rest := append(append([]int(nil), xs[:i]...), xs[i+1:]...)
		for _, p := range permutations(rest) {
			out = append(out, append([]int{xs[i]}, p...))
		}
	}
	return out
}

// realRingFor returns nil if no real ring produces the case's replication sets.
func realRingFor(cfg *cfgT) (*realRing, error) {
	if cfg.NK == 0 || cfg.NoInst || cfg.GetErrAt != 0 {
		return nil, nil
	}
	rf := len(cfg.Reps[0])
	used := map[int]bool{}
	for k := range cfg.Reps {
		if len(cfg.Reps[k]) != rf || cfg.MaxErr[k] != rf-(rf/2+1) {
			return nil, nil
		}
		for _, i := range cfg.Reps[k] {
			used[i] = true
		}
	}
	var insts []int
	for i := range used {
		insts = append(insts, i)
	}
	sort.Ints(insts)
	n := len(insts)
	for _, circle := range permutations(insts) {
		starts := make([]int, cfg.NK)
		ok := true
		for k := range cfg.Reps {
			want := map[int]bool{}
			for _, i := range cfg.Reps[k] {
				want[i] = true
			}
			starts[k] = -1
			for st := 0; st < n && starts[k] < 0; st++ {
				all := true
				for d := 0; d < rf; d++ {
					all = all && want[circle[(st+d)%n]]
				}
				if all {
					starts[k] = st
				}
			}
			ok = ok && starts[k] >= 0
		}
		if !ok {
			continue
		}
		id := fmt.Sprint(circle, rf)
		r := realRings[id]
		if r == nil {
			desc := ring.NewDesc()
			for pos, i := range circle {
				desc.AddIngester(abs.InstID(i), "addr-"+abs.InstID(i), "", []uint32{uint32(pos+1) * 100000}, ring.ACTIVE, time.Now(), false, time.Time{}, nil)
			}
			var stop func()
			var err error
			r, stop, err = abs.NewRing(desc, ring.Config{ReplicationFactor: rf, HeartbeatTimeout: time.Hour, SubringCacheDisabled: true})
			if err != nil {
				return nil, err
			}
			realRings[id] = r
			realStops = append(realStops, stop)
		}
		rr := &realRing{r: r, keys: make([]uint32, cfg.NK)}
		for k := range cfg.Reps {
			rr.keys[k] = uint32(starts[k]+1)*100000 - 1 - uint32(k)
			// the lookup itself is C01's business: use the ring only if it answers what the case says
			rs, err := r.Get(rr.keys[k], ring.Write, nil, nil, nil)
			if err != nil || len(rs.Instances) != rf || rs.MaxErrors != cfg.MaxErr[k] {
				return nil, nil
			}
			for _, d := range rs.Instances {
				c := 0
				fmt.Sscanf(d.Addr, "addr-i-%d", &c)
				found := false
				for _, i := range cfg.Reps[k] {
					found = found || i == c
				}
				if !found {
					return nil, nil
				}
			}
		}
		return rr, nil
	}
	return nil, nil
}

// env is one execution of the real DoBatchWithOptions under the driver's control.
type env struct {
	mu       sync.Mutex
	cfg      *cfgT
	ni       int
	hook     bool
	v        variant
	ctx      context.Context
	cancel   context.CancelCauseFunc
	gates    []chan struct{} // callback gate per instance (index 1..ni)
	released []bool
	outErr   []error   // error instance c returns (nil = ok); identity is compared
	calls    [][][]int // per instance: indexes of every invocation
	cleanups int
	spawned  int
	nret     int
	retErr   error
	panicked any
	// grain "hook": ring.VerifYield as scheduler gate
	running int
	parked  []string
	yGate   []chan struct{}
	pool    *concurrency.ReusableGoroutinesPool
	real    *realRing
	codes   map[string][]int
	// spawner "deferred": what o.Go was handed and has not been started yet
	queue []func()
}

var curEnv *env // the env whose goroutines may call ring.VerifYield (one case at a time)

func yieldHook(point string) {
	e := curEnv
	if e == nil || !e.hook {
		return
	}
	g := make(chan struct{})
	e.mu.Lock()
	c := e.running
	e.parked[c] = strings.TrimPrefix(point, "batch.record.")
	e.yGate[c] = g
	e.mu.Unlock()
	<-g
}

func newEnv(cfg *cfgT, ni int, hook bool, v variant) *env {
	return &env{cfg: cfg, ni: ni, hook: hook, v: v}
}

func (e *env) makeErr(c int, o string) error {
	switch {
	case o == "ok":
		return nil
	case e.v.API == "DoBatch" && len(e.codes[o]) > 0:
		// a concrete status code the specification's table puts into this class
		code := e.codes[o][(c+e.v.Rot)%len(e.codes[o])]
		switch {
		case code == 0:
			return fmt.Errorf("replica %d: error without a gRPC status (%s)", c, o)
		case code < 100:
			return grpcstatus.Error(grpccodes.Code(code), fmt.Sprintf("replica %d: %s", c, o))
		}
		return httpgrpc.Errorf(code, "replica %d: %s", c, o)
	case e.v.Classifier == "default4xx" && o == "cerr":
		return httpgrpc.Errorf(400+c, "replica %d rejects", c)
	case e.v.Classifier == "default4xx":
		return httpgrpc.Errorf(500+c, "replica %d fails", c)
	default:
		return &repErr{c: c, class: o}
	}
}

func (e *env) callback(d ring.InstanceDesc, idx []int) error {
	c := 0
	if n, _ := fmt.Sscanf(d.Addr, "addr-i-%d", &c); n != 1 {
		c, _ = strconv.Atoi(d.Addr) // ActivePartitionBatchRing: the address is the partition id
	}
	e.mu.Lock()
	if c < 1 || c > e.ni {
		e.mu.Unlock()
		return fmt.Errorf("callback for unknown instance %q", d.Addr)
	}
	e.calls[c] = append(e.calls[c], append([]int(nil), idx...))
	g := e.gates[c]
	e.mu.Unlock()
	<-g
	e.mu.Lock()
	err := e.outErr[c]
	e.mu.Unlock()
	return err
}

// start launches the real call (inside the bubble).
func (e *env) start(pre bool, cancelInGet int) {
	e.ctx, e.cancel = context.WithCancelCause(context.Background())
	e.gates = make([]chan struct{}, e.ni+1)
	e.released = make([]bool, e.ni+1)
	e.outErr = make([]error, e.ni+1)
	e.calls = make([][][]int, e.ni+1)
	e.parked = make([]string, e.ni+1)
	e.yGate = make([]chan struct{}, e.ni+1)
	for i := 1; i <= e.ni; i++ {
		e.gates[i] = make(chan struct{})
	}
	var theRing ring.DoBatchRing = &stubRing{cfg: e.cfg, ni: e.ni, rot: e.v.Rot, cancelAt: cancelInGet, cancel: e.cancel,
		emptyID: e.v.EmptyID, op: e.v.op()}
	keys := make([]uint32, e.cfg.NK)
	for j := 1; j <= e.cfg.NK; j++ {
		keys[j-1] = keyOf(j)
	}
	if e.real != nil {
		theRing = &countingRing{DoBatchRing: e.real.r, cancelAt: cancelInGet, cancel: e.cancel}
		keys = e.real.keys
	}
	opts := ring.DoBatchOptions{Cleanup: func() { e.mu.Lock(); e.cleanups++; e.mu.Unlock() }}
	if e.v.NilCleanup {
		opts.Cleanup = nil
	}
	if e.v.Classifier == "custom" {
		opts.IsClientError = func(err error) bool {
			var r *repErr
			return errors.As(err, &r) && r.class == "cerr"
		}
	}
	switch e.v.Spawner {
	case "recording":
		// (a panic inside a function the code spawned - e.g. a nil Cleanup being called - is reported, it must not kill the run)
		opts.Go = func(f func()) {
			e.mu.Lock()
			e.spawned++
			e.mu.Unlock()
			go func() {
				defer func() {
					if p := recover(); p != nil {
						e.mu.Lock()
						e.panicked = p
						e.mu.Unlock()
					}
				}()
				f()
			}()
		}
	case "pool":
		e.pool = concurrency.NewReusableGoroutinesPool(2)
		opts.Go = e.pool.Go
	case "deferred":
		opts.Go = func(f func()) { e.mu.Lock(); e.spawned++; e.queue = append(e.queue, f); e.mu.Unlock() }
	}
	if pre {
		e.cancel(errCtxCause)
	}
	go func() {
		defer func() {
			if p := recover(); p != nil {
				e.mu.Lock()
				e.panicked = p
				e.mu.Unlock()
			}
		}()
		var err error
		if e.v.API == "DoBatch" {
			err = ring.DoBatch(e.ctx, e.v.op(), theRing, keys, e.callback, opts.Cleanup)
		} else {
			err = ring.DoBatchWithOptions(e.ctx, e.v.op(), theRing, keys, e.callback, opts)
		}
		e.mu.Lock()
		e.nret++
		e.retErr = err
		e.mu.Unlock()
	}()
}

// release lets the callback of instance c return with outcome o.
func (e *env) release(c int, o string) error {
	e.mu.Lock()
	defer e.mu.Unlock()
	if c < 1 || c > e.ni || e.released[c] {
		return fmt.Errorf("release of instance %d: not releasable", c)
	}
	e.released[c] = true
	e.outErr[c] = e.makeErr(c, o)
	e.running = c
	close(e.gates[c])
	return nil
}

// grant lets the goroutine of call c run from the yield point it is parked at to the next one.
func (e *env) grant(c int) error {
	e.mu.Lock()
	defer e.mu.Unlock()
	if c < 1 || c > e.ni || e.parked[c] == "" {
		return fmt.Errorf("call %d is not parked at a yield point", c)
	}
	e.running = c
	e.parked[c] = ""
	close(e.yGate[c])
	return nil
}

// observe: what a caller can see now (call only after synctest.Wait()).
func (e *env) observe() obsT {
	e.mu.Lock()
	defer e.mu.Unlock()
	o := obsT{Returned: e.nret > 0, Kind: "none", Cleaned: e.cleanups, At: make([]string, e.ni)}
	if e.nret > 0 {
		o.Kind, o.C = e.classify(e.retErr)
	}
	if e.nret > 1 {
		o.Kind = fmt.Sprintf("returned-%d-times", e.nret)
	}
	if e.panicked != nil {
		o.Returned, o.Kind = true, fmt.Sprintf("panic: %v", e.panicked)
	}
	for c := 1; c <= e.ni; c++ {
		switch {
		case len(e.calls[c]) > 0 && !e.released[c]:
			o.At[c-1] = "cb"
		case e.parked[c] != "":
			o.At[c-1] = e.parked[c]
		}
	}
	return o
}

func (e *env) classify(err error) (string, int) {
	switch {
	case err == nil:
		return "nil", 0
	case err == errCtxCause:
		return "ctx", 0
	case err == errGet:
		return "get", 0
	case err == errWrongOp:
		return "ring-asked-for-another-operation", 0
	}
	for c := 1; c <= e.ni; c++ {
		if e.outErr[c] != nil && err == e.outErr[c] {
			return "rep", c
		}
	}
	if strings.Contains(err.Error(), "InstancesCount <= 0") {
		return "noinst", 0
	}
	return "other(" + err.Error() + ")", 0
}

// finish unblocks everything that is still held so that the bubble can end.
func (e *env) finish() {
	e.cancel(errCtxCause)
	synctest.Wait()
	for e.beginQueued(0) {
	}
	synctest.Wait()
	for round := 0; round < 64; round++ {
		progressed := false
		for c := 1; c <= e.ni; c++ {
			e.mu.Lock()
			waiting := len(e.calls[c]) > 0 && !e.released[c]
			e.mu.Unlock()
			if waiting {
				_ = e.release(c, "ok")
				synctest.Wait()
				progressed = true
			}
			for e.grant(c) == nil {
				synctest.Wait()
				progressed = true
			}
		}
		if !progressed {
			break
		}
	}
	// instances that were never called: nothing waits on their gates
	if e.pool != nil {
		e.pool.Close()
	}
	synctest.Wait()
}

// beginQueued starts the j-th function the deferred spawner holds; false if there is none.
func (e *env) beginQueued(j int) bool {
	e.mu.Lock()
	if j < 0 || j >= len(e.queue) {
		e.mu.Unlock()
		return false
	}
	f := e.queue[j]
	e.queue = append(e.queue[:j:j], e.queue[j+1:]...)
	e.mu.Unlock()
	go func() {
		defer func() {
			if p := recover(); p != nil {
				e.mu.Lock()
				e.panicked = p
				e.mu.Unlock()
			}
		}()
		f()
	}()
	return true
}

// callsSeen: per instance the index list of its invocation in the order the code passed it, "!" marks instances invoked more than once.
func (e *env) callsSeen() ([][]int, string) {
	e.mu.Lock()
	defer e.mu.Unlock()
	out := make([][]int, e.ni)
	note := ""
	for c := 1; c <= e.ni; c++ {
		out[c-1] = []int{}
		if len(e.calls[c]) > 1 {
			note = fmt.Sprintf("instance %d called %d times", c, len(e.calls[c]))
		}
		if len(e.calls[c]) > 0 {
			for _, ix := range e.calls[c][0] {
				out[c-1] = append(out[c-1], ix+1) // the specification numbers keys from 1
			}
			// not sorted: the specification (CalledExactly) hands every replica its indexes in ascending order
		}
	}
	return out, note
}

func sameCalls(a, b [][]int) bool {
	if len(a) != len(b) {
		return false
	}
	for i := range a {
		if len(a[i]) != len(b[i]) {
			return false
		}
		for j := range a[i] {
			if a[i][j] != b[i][j] {
				return false
			}
		}
	}
	return true
}

func stepName(s stepT) string {
	switch s.A {
	case "start":
		switch {
		case s.Pre:
			return "start(ctx already done)"
		case s.Cg > 0:
			return "start(ctx ends inside Get)"
		}
		return "start"
	case "rel":
		return "return(" + s.O + ")"
	}
	return s.A
}

func retName(o obsT) string {
	if !o.Returned {
		return "not-returned"
	}
	return o.Kind
}

// diff compares an observation with the specification's; "" if equal.
func diff(b *behaviour, s stepT, got obsT, v variant) (field, want, have string) {
	w := s.Obs
	if v.NilCleanup {
		got.Cleaned = w.Cleaned // nothing to observe
	}
	switch {
	case w.Returned != got.Returned || w.Kind != got.Kind:
		return "return", retName(w), retName(got)
	case w.Kind == "rep" && w.C != got.C:
		return "error-identity", "error of the call the specification names", "error of another call"
	case w.Cleaned != got.Cleaned:
		return "cleanup-count", fmt.Sprint(w.Cleaned), fmt.Sprint(got.Cleaned)
	}
	for i := range w.At {
		if i < len(got.At) && w.At[i] != got.At[i] && (b.Grain == "hook" || w.At[i] == "cb" || got.At[i] == "cb") {
			return "call-position", "'" + w.At[i] + "'", "'" + got.At[i] + "'"
		}
	}
	return "", "", ""
}

func sigOf(b *behaviour, s stepT, field, want, have string) string {
	if b.Cfg.NK == 0 && !b.Cfg.NoInst && field == "return" && have == "not-returned" {
		return "empty-keys:never-returns"
	}
	return fmt.Sprintf("%s:%s after %s: want %s got %s", b.Grain, field, stepName(s), want, have)
}

// runBehaviour drives one TLC behaviour through the real code; nil if everything agreed.
func runBehaviour(t *testing.T, b *behaviour, v variant, real *realRing) (mm *abs.Mismatch) {
	ni := len(b.Calls)
	e := newEnv(&b.Cfg, ni, b.Grain == "hook", v)
	e.real = real
	e.codes = b.Codes
	fail := func(sig string, got, want any, note string) {
		if mm == nil {
			mm = &abs.Mismatch{Sig: sig, Case: map[string]any{"behaviour": b, "variant": v}, Got: got, Want: want, Note: note}
		}
	}
	defer func() {
		curEnv = nil
		if p := recover(); p != nil {
			// synctest: the bubble ended while goroutines of DoBatchWithOptions were still blocked
			fail(b.Grain+":goroutine-left-blocked", fmt.Sprint(p), "every goroutine started by the call ends", "")
		}
	}()
	curEnv = e
	synctest.Test(t, func(t *testing.T) {
		if len(b.Steps) == 0 || b.Steps[0].A != "start" {
			fail("harness:bad-behaviour", "no start step", "", "")
			return
		}
		for i, s := range b.Steps {
			var err error
			switch s.A {
			case "start":
				e.start(s.Pre, s.Cg)
			case "cancel":
				e.cancel(errCtxCause)
			case "rel":
				err = e.release(s.C, s.O)
			case "seg":
				err = e.grant(s.C)
			default:
				err = fmt.Errorf("unknown step %q", s.A)
			}
			if err != nil {
				fail(fmt.Sprintf("%s:step-not-possible %s", b.Grain, s.A), err.Error(), s, fmt.Sprintf("step %d", i))
				break
			}
			synctest.Wait()
			got := e.observe()
			if f, w, h := diff(b, s, got, v); f != "" {
				fail(sigOf(b, s, f, w, h), got, s.Obs, fmt.Sprintf("step %d (%s)", i, stepName(s)))
				break
			}
			if i == 0 {
				seen, note := e.callsSeen()
				if note != "" || !sameCalls(seen, b.Calls) {
					fail(b.Grain+":callback-arguments", map[string]any{"calls": seen, "note": note}, b.Calls, "")
					break
				}
				// every replica call and the cleanup waiter go through o.Go
				if v.Spawner == "recording" && e.spawned != b.Spawns {
					fail(b.Grain+":spawn-count", e.spawned, b.Spawns, "")
					break
				}
			}
		}
		if mm == nil {
			// nothing may change any more
			last := b.Steps[len(b.Steps)-1]
			seen, note := e.callsSeen()
			if note != "" || !sameCalls(seen, b.Calls) {
				fail(b.Grain+":callback-arguments", map[string]any{"calls": seen, "note": note}, b.Calls, "at the end")
			}
			e.finish()
			got := e.observe()
			if last.Obs.Returned {
				if f, w, h := diff(b, stepT{A: "end", Obs: obsT{Returned: true, Kind: last.Obs.Kind, C: last.Obs.C, Cleaned: last.Obs.Cleaned}}, got, v); f != "" {
					fail(sigOf(b, stepT{A: "end"}, f, w, h), got, last.Obs, "after the last step")
				}
			}
		} else {
			e.finish()
		}
	})
	return mm
}

func variantFor(n int, seed int64, k int) variant {
	r := rand.New(rand.NewSource(seed*1000003 + int64(n)*31 + int64(k)))
	v := variant{
		Spawner:    []string{"default", "recording", "pool"}[r.Intn(3)],
		Classifier: []string{"custom", "default4xx"}[r.Intn(2)],
		Rot:        r.Intn(3),
		Ring:       "stub",
		API:        "DoBatchWithOptions",
		// (drawn after the older dimensions so that these keep their values for a seed)
		NilCleanup: r.Intn(8) == 0,
		EmptyID:    r.Intn(3) == 0,
		Op:         []string{"Write", "Read", "WriteNoExtend"}[r.Intn(3)],
	}
	if v.NilCleanup {
		v.Spawner = "recording" // the only spawner under which a panic of a spawned function can be caught
	}
	return v
}

func nontrivial(b *behaviour) bool {
	called, special := 0, false
	for _, c := range b.Calls {
		if len(c) > 0 {
			called++
		}
	}
	for _, s := range b.Steps {
		if s.A == "cancel" || s.Pre || s.Cg > 0 || (s.A == "rel" && s.O != "ok") {
			special = true
		}
	}
	return called >= 2 && special
}

func TestReplay(t *testing.T) {
	in := os.Getenv("VERIF_IN")
	if in == "" {
		t.Skip("VERIF_IN not set")
	}
	ring.VerifYield = yieldHook
	defer func() { ring.VerifYield = nil }()
	res := &abs.Result{}
	nvar := abs.EnvInt("VERIF_VARIANTS", 1)
	corrupt := abs.EnvInt("VERIF_CORRUPT", 0) // self-test: falsify one expected observation
	steps, eligible, realRuns := 0, 0, 0
	wrapRuns, partEligible, partRuns := 0, 0, 0
	wrapEvery := abs.EnvInt("VERIF_WRAP_EVERY", 5)
	byGrain := map[string]int{}
	realEvery := abs.EnvInt("VERIF_REAL_EVERY", 4)
	defer func() {
		for _, stop := range realStops {
			stop()
		}
		realRings, realStops = map[string]*ring.Ring{}, nil
	}()
	var err error
	for _, file := range strings.Split(in, ",") {
		if err != nil {
			break
		}
		err = abs.ReadNDJSON(file, func(line []byte) error {
			var b behaviour
			if err := json.Unmarshal(line, &b); err != nil {
				return err
			}
			res.Cases++
			if corrupt > 0 && res.Cases == corrupt {
				b.Steps[len(b.Steps)-1].Obs.Cleaned ^= 1
			}
			if nontrivial(&b) {
				res.Nontrivial++
			}
			steps += len(b.Steps)
			failed := false
			for k := 0; k < nvar && !failed; k++ {
				v := variantFor(res.Cases, abs.Seed(), k)
				if mm := runBehaviour(t, &b, v, nil); mm != nil {
					res.Mismatch(*mm)
					failed = true
				}
			}
			// the same behaviour through the deprecated wrapper DoBatch (every wrapEvery-th behaviour)
			if !failed && wrapEvery > 0 && len(b.Codes) > 0 && (res.Cases+int(abs.Seed()))%wrapEvery == 0 {
				v := variantFor(res.Cases, abs.Seed(), 98)
				v.API, v.Spawner, v.Classifier, v.NilCleanup = "DoBatch", "default", "default4xx", false
				wrapRuns++
				if mm := runBehaviour(t, &b, v, nil); mm != nil {
					mm.Sig = "DoBatch-wrapper " + mm.Sig
					res.Mismatch(*mm)
					failed = true
				}
			}
			// ... and with ring.ActivePartitionBatchRing over a real PartitionRing as the DoBatchRing, where it can produce the case
			if !failed && realEvery > 0 {
				pr, err := partRingFor(&b.Cfg, len(b.Calls))
				if err != nil {
					return err
				}
				if pr != nil {
					partEligible++
					if (partEligible+int(abs.Seed()))%realEvery == 0 {
						v := variantFor(res.Cases, abs.Seed(), 97)
						v.Ring = "partitions"
						partRuns++
						if mm := runBehaviour(t, &b, v, pr); mm != nil {
							mm.Sig = "partition-ring " + mm.Sig
							res.Mismatch(*mm)
							failed = true
						}
					}
				}
			}
			// the same behaviour on a real ring.Ring, where one exists for the case (every realEvery-th eligible behaviour)
			if !failed && realEvery > 0 {
				rr, err := realRingFor(&b.Cfg)
				if err != nil {
					return err
				}
				if rr != nil {
					eligible++
					if (eligible+int(abs.Seed()))%realEvery == 0 {
						v := variantFor(res.Cases, abs.Seed(), 99)
						v.Ring = "real"
						realRuns++
						if mm := runBehaviour(t, &b, v, rr); mm != nil {
							mm.Sig = "real-ring " + mm.Sig
							res.Mismatch(*mm)
						}
					}
				}
			}
			if res.Cases%4001 == 7 {
				res.Sample(b)
			}
			byGrain[b.Grain]++
			return nil
		})
	}
	if err != nil {
		res.Fatal = err.Error()
	}
	res.AddExtra("behaviours_by_grain", byGrain)
	res.AddExtra("replayed_steps", steps)
	res.AddExtra("real_ring_eligible", eligible)
	res.AddExtra("real_ring_runs", realRuns)
	res.AddExtra("dobatch_wrapper_runs", wrapRuns)
	res.AddExtra("partition_ring_eligible", partEligible)
	res.AddExtra("partition_ring_runs", partRuns)
	res.Write(t)
}

// ---------------------------------------------------------------------------------------------
// code -> spec

type traceEv struct {
	E        string   `json:"e"` // "cancel" | "rel" | "obs" | "begin" (cs[0]: the call whose spawned function was started) | "beginc"
	Cs       []int    `json:"cs"`
	Os       []string `json:"os"`
	Returned bool     `json:"returned"`
	Kind     string   `json:"kind"`
	C        int      `json:"c"`
	Cleaned  int      `json:"cleaned"`
}

type traceT struct {
	ID  int       `json:"id"`
	Cfg cfgT      `json:"cfg"`
	NI  int       `json:"ni"`
	Ev  []traceEv `json:"ev"`
}

func obsEv(o obsT) traceEv {
	return traceEv{E: "obs", Cs: []int{}, Os: []string{}, Returned: o.Returned, Kind: o.Kind, C: o.C, Cleaned: o.Cleaned}
}

// raceOne releases the callbacks in simultaneous groups and records what can be seen from outside.
func raceOne(t *testing.T, b *behaviour, groups [][]stepT, v variant, id int) (tr *traceT, fatal string) {
	ni := len(b.Calls)
	e := newEnv(&b.Cfg, ni, false, v)
	tr = &traceT{ID: id, Cfg: b.Cfg, NI: ni}
	defer func() {
		if p := recover(); p != nil {
			// leave it to the specification: the trace so far plus an observation that says so
			tr.Ev = append(tr.Ev, traceEv{E: "obs", Cs: []int{}, Os: []string{}, Kind: "goroutine-left-blocked", Cleaned: -1})
		}
	}()
	synctest.Test(t, func(t *testing.T) {
		if b.Steps[0].Pre {
			tr.Ev = append(tr.Ev, traceEv{E: "cancel", Cs: []int{}, Os: []string{}})
		}
		e.start(b.Steps[0].Pre, 0)
		synctest.Wait()
		tr.Ev = append(tr.Ev, obsEv(e.observe()))
		for _, g := range groups {
			if g[0].A == "cancel" {
				e.cancel(errCtxCause)
				tr.Ev = append(tr.Ev, traceEv{E: "cancel", Cs: []int{}, Os: []string{}})
			} else {
				ev := traceEv{E: "rel", Cs: []int{}, Os: []string{}}
				// set every outcome first, then open the gates back to back: the goroutines race inside record
				e.mu.Lock()
				cancelToo := false
				for _, s := range g {
					if s.A == "cancel" {
						cancelToo = true
						continue
					}
					if e.released[s.C] || len(e.calls[s.C]) == 0 {
						fatal = fmt.Sprintf("instance %d cannot be released", s.C)
					}
					e.released[s.C] = true
					e.outErr[s.C] = e.makeErr(s.C, s.O)
					ev.Cs = append(ev.Cs, s.C)
					ev.Os = append(ev.Os, s.O)
				}
				e.mu.Unlock()
				if fatal != "" {
					break
				}
				for _, s := range g {
					if s.A == "rel" {
						close(e.gates[s.C])
					}
				}
				tr.Ev = append(tr.Ev, ev)
				if cancelToo {
					// the caller's context ends while the answers are being accounted: nothing but the main goroutine's select
					// reads it, so "released, then cancelled, then everything runs" explains whatever the real race does
					e.cancel(errCtxCause)
					tr.Ev = append(tr.Ev, traceEv{E: "cancel", Cs: []int{}, Os: []string{}})
				}
			}
			synctest.Wait()
			tr.Ev = append(tr.Ev, obsEv(e.observe()))
		}
		e.finish()
	})
	return tr, fatal
}

// raceDeferred: the Go option is a spawner that only queues what it is handed.  The driver then walks a seeded random
// schedule of: start one queued function (which one it was - a replica call or the cleanup waiter - is learned afterwards
// from the callback), let begun callbacks return (alone or simultaneously, outcomes as in the behaviour), end the
// context (if the behaviour does).  Every event is followed by quiescence and an observation.
func raceDeferred(t *testing.T, b *behaviour, v variant, id int, rng *rand.Rand) (tr *traceT, fatal string) {
	ni := len(b.Calls)
	e := newEnv(&b.Cfg, ni, false, v)
	tr = &traceT{ID: id, Cfg: b.Cfg, NI: ni}
	outcome := map[int]string{}
	wantCancel := false
	for _, s := range b.Steps {
		switch s.A {
		case "rel":
			outcome[s.C] = s.O
		case "cancel":
			wantCancel = true
		}
	}
	defer func() {
		if p := recover(); p != nil {
			tr.Ev = append(tr.Ev, traceEv{E: "obs", Cs: []int{}, Os: []string{}, Kind: "goroutine-left-blocked", Cleaned: -1})
		}
	}()
	synctest.Test(t, func(t *testing.T) {
		if b.Steps[0].Pre {
			tr.Ev = append(tr.Ev, traceEv{E: "cancel", Cs: []int{}, Os: []string{}})
		}
		e.start(b.Steps[0].Pre, 0)
		synctest.Wait()
		tr.Ev = append(tr.Ev, obsEv(e.observe()))
		begun := func() (cs []int) {
			e.mu.Lock()
			defer e.mu.Unlock()
			for c := 1; c <= ni; c++ {
				if len(e.calls[c]) > 0 && !e.released[c] {
					cs = append(cs, c)
				}
			}
			return cs
		}
		for step := 0; step < 4*ni+8; step++ {
			e.mu.Lock()
			queued := len(e.queue)
			e.mu.Unlock()
			ready := begun()
			var kinds []string
			if queued > 0 {
				kinds = append(kinds, "begin", "begin")
			}
			if len(ready) > 0 {
				kinds = append(kinds, "rel", "rel")
			}
			if wantCancel {
				kinds = append(kinds, "cancel")
			}
			if queued == 0 && len(ready) == 0 {
				break
			}
			switch kinds[rng.Intn(len(kinds))] {
			case "begin":
				before := map[int]bool{}
				for _, c := range ready {
					before[c] = true
				}
				e.beginQueued(rng.Intn(queued))
				synctest.Wait()
				ev := traceEv{E: "beginc", Cs: []int{}, Os: []string{}}
				for _, c := range begun() {
					if !before[c] {
						ev = traceEv{E: "begin", Cs: []int{c}, Os: []string{}}
					}
				}
				tr.Ev = append(tr.Ev, ev)
			case "cancel":
				wantCancel = false
				e.cancel(errCtxCause)
				tr.Ev = append(tr.Ev, traceEv{E: "cancel", Cs: []int{}, Os: []string{}})
			case "rel":
				rng.Shuffle(len(ready), func(i, j int) { ready[i], ready[j] = ready[j], ready[i] })
				n := 1 + rng.Intn(len(ready))
				ev := traceEv{E: "rel", Cs: []int{}, Os: []string{}}
				e.mu.Lock()
				for _, c := range ready[:n] {
					o := outcome[c]
					if o == "" {
						o = "ok"
					}
					e.released[c] = true
					e.outErr[c] = e.makeErr(c, o)
					ev.Cs = append(ev.Cs, c)
					ev.Os = append(ev.Os, o)
				}
				e.mu.Unlock()
				for _, c := range ready[:n] {
					close(e.gates[c])
				}
				tr.Ev = append(tr.Ev, ev)
			}
			synctest.Wait()
			tr.Ev = append(tr.Ev, obsEv(e.observe()))
		}
		e.finish()
	})
	return tr, fatal
}

func TestRace(t *testing.T) {
	in, outp := os.Getenv("VERIF_IN"), os.Getenv("VERIF_TRACE")
	if in == "" || outp == "" {
		t.Skip("VERIF_IN / VERIF_TRACE not set")
	}
	ring.VerifYield = nil
	want := abs.EnvInt("VERIF_NTRACES", 200)
	maxGroup := abs.EnvInt("VERIF_RACE_MAXGROUP", 6)       // at most this many simultaneous answers (bounds TLC's search for an explanation)
	deferred := os.Getenv("VERIF_RACE_MODE") == "deferred" // o.Go holds what it is handed; the driver starts it in a seeded order
	corrupt := abs.EnvInt("VERIF_CORRUPT", 0)              // self-test: falsify one logged field
	rng := rand.New(rand.NewSource(abs.Seed()))
	res := &abs.Result{}
	// reservoir-sample eligible behaviours (deterministic for a seed)
	var pick []behaviour
	seen := 0
	err := abs.ReadNDJSON(in, func(line []byte) error {
		var b behaviour
		if err := json.Unmarshal(line, &b); err != nil {
			return err
		}
		rels := 0
		for _, s := range b.Steps {
			if s.A == "rel" {
				rels++
			}
		}
		if b.Grain != "call" || rels < 2 || b.Steps[0].Cg > 0 {
			return nil
		}
		seen++
		if len(pick) < want {
			pick = append(pick, b)
		} else if j := rng.Intn(seen); j < want {
			pick[j] = b
		}
		return nil
	})
	if err != nil {
		res.Fatal = err.Error()
		res.Write(t)
		return
	}
	w, err := abs.NewNDJSONWriter(outp)
	if err != nil {
		res.Fatal = err.Error()
		res.Write(t)
		return
	}
	groupsTotal, racing := 0, 0
	for n := range pick {
		b := &pick[n]
		// merge consecutive releases into simultaneous groups
		var groups [][]stepT
		for _, s := range b.Steps[1:] {
			switch {
			case s.A == "cancel" && len(groups) > 0 && groups[len(groups)-1][0].A == "rel" && rng.Intn(3) == 0:
				groups[len(groups)-1] = append(groups[len(groups)-1], s) // races with the answers of that group
			case s.A == "cancel":
				groups = append(groups, []stepT{s})
			case s.A == "rel" && len(groups) > 0 && groups[len(groups)-1][len(groups[len(groups)-1])-1].A == "cancel":
				groups = append(groups, []stepT{s})
			case s.A == "rel" && len(groups) > 0 && groups[len(groups)-1][0].A == "rel" && len(groups[len(groups)-1]) < maxGroup && rng.Intn(4) != 0:
				groups[len(groups)-1] = append(groups[len(groups)-1], s)
			case s.A == "rel":
				groups = append(groups, []stepT{s})
			}
		}
		for _, g := range groups {
			groupsTotal++
			if len(g) > 1 {
				racing++
			}
		}
		v := variantFor(n, abs.Seed(), 7)
		v.NilCleanup = false // the cleanup count is a logged field
		var tr *traceT
		var fatal string
		if deferred {
			v.Spawner = "deferred"
			tr, fatal = raceDeferred(t, b, v, n+1, rng)
		} else {
			tr, fatal = raceOne(t, b, groups, v, n+1)
		}
		if fatal != "" {
			res.Fatal = fatal
			break
		}
		if corrupt > 0 && n+1 == corrupt {
			last := &tr.Ev[len(tr.Ev)-1]
			last.Cleaned ^= 1
		}
		if err := w.Write(tr); err != nil {
			res.Fatal = err.Error()
			break
		}
		res.Cases++
		if n%97 == 3 {
			res.Sample(tr)
		}
	}
	if err := w.Close(); err != nil && res.Fatal == "" {
		res.Fatal = err.Error()
	}
	res.Nontrivial = 0 // counted by the check from the validated traces
	res.AddExtra("race_groups", groupsTotal)
	res.AddExtra("race_groups_simultaneous", racing)
	res.Write(t)
}
