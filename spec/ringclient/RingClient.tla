------------------------------ MODULE RingClient ------------------------------
(***************************************************************************)
(* C13 - a long-lived ring client (ring.Ring with the subring caches       *)
(* enabled) answers every query exactly like a client freshly built from   *)
(* the latest descriptor.                                                  *)
(*                                                                         *)
(* State = the latest descriptor + the client's DERIVED state as           *)
(* ring/ring.go keeps it:                                                  *)
(*   desc   r.ringDesc (always the latest descriptor delivered)            *)
(*   idx    what the indexes hold (ringTokens, ringTokensByZone,           *)
(*          ringInstanceByToken, ringZones, the per-zone counters,         *)
(*          oldestRegisteredTimestamp, readOnlyInstances,                  *)
(*          oldestReadOnlyUpdatedTimestamp): the IndexView of the          *)
(*          descriptor setRingStateFromDesc last ran on                    *)
(*   ltc    lastTopologyChange (number of index rebuilds; time stamps of   *)
(*          different rebuilds are assumed to be different)                *)
(*   cache  shuffledSubringCache[id,size]                                  *)
(*   lbc    shuffledSubringWithLookbackCache[id,size,L] = [m, va, vb]      *)
(*   pend   per reader: a subring computed under the read lock and not yet *)
(*          offered to the cache (the window between shuffleShard and      *)
(*          setCachedShuffledSubring*, in which updates may interleave)    *)
(*                                                                         *)
(* A descriptor is a function instance -> record of the fields the code    *)
(* looks at.  The shard function is a parameter (Compute): the exhaustive  *)
(* configurations instantiate it with AbstractShard (the walk of           *)
(* Ring.shuffleShard over an abstract token circle with the pseudo-random  *)
(* start positions as a fixed function StartPos), the trace specification  *)
(* (RingClientTrace) with the answer the real fresh client gave.           *)
(***************************************************************************)
EXTENDS Integers, FiniteSets, Sequences, TLC

CONSTANTS Inst,       \* instance identifiers, 1..N
          Ident,      \* shard identifiers
          Sizes,      \* shard sizes (0 = "all instances that are not read-only")
          Lookbacks,  \* look-back periods, seconds, > 0
          Times,      \* query times; every t - L (L in Lookbacks) is > 0
          Readers,    \* concurrent readers
          MaxUpd,     \* at most this many updates
          ZoneAware,  \* ring.Config.ZoneAwarenessEnabled
          Addrs, Zones, Toks, Stamps, States, Beats,  \* field domains of the update generator
          Compute(_, _, _, _, _, _)  \* (ix, lv, id, size, L, W) -> [self, m]: the shard function of
                                     \* the indexes ix (an IndexView) and r.ringDesc lv

VARIABLES desc, idx, ltc, cache, lbc, pend, nupd

vars  == <<desc, idx, ltc, cache, lbc, pend, nupd>>

None    == <<>>
Some(x) == <<x>>
Val(o)  == o[1]
Inf     == 1000000

NoDesc == <<>>   \* the descriptor without instances

(* ----------------------------------------------------------------------- *)
(* Descriptors                                                             *)
(* ----------------------------------------------------------------------- *)
\* tok: which of its alternative token sets the instance holds (-1: none)
Rec == [addr : Addrs, zone : Zones, tok : Toks, reg : Stamps, ro : BOOLEAN, rots : Stamps,
        state : States, ts : Beats]

Remove(d, i) == [j \in DOMAIN d \ {i} |-> d[j]]
Add(d, i, r) == [j \in DOMAIN d \cup {i} |-> IF j = i THEN r ELSE d[j]]

(* ring.Config.ExcludedZones: Ring.updateRingState drops the instances of  *)
(* the excluded zones X from EVERY delivered descriptor before anything    *)
(* else (classification, indexes, r.ringDesc) sees it: the client's        *)
(* "latest ring content" is Exclude(store content, X).                     *)
Exclude(d, X) == [i \in {j \in DOMAIN d : d[j].zone \notin X} |-> d[i]]

(* The fields Desc.RingCompare looks at before it reaches states and       *)
(* heartbeats (ring/model.go): Addr, Zone, RegisteredTimestamp, ReadOnly,  *)
(* ReadOnlyUpdatedTimestamp, Tokens.                                       *)
Topo(r) == <<r.addr, r.zone, r.reg, r.ro, r.rots, r.tok>>

Classify(old, new) ==
    IF DOMAIN old # DOMAIN new THEN "Different"
    ELSE IF \E i \in DOMAIN old : Topo(old[i]) # Topo(new[i]) THEN "Different"
    ELSE IF \E i \in DOMAIN old : old[i].state # new[i].state \/ old[i].ts # new[i].ts
         THEN "EqualButStatesAndTimestamps"
    ELSE "Equal"

(* What the indexes hold (setRingStateFromDesc): tokens and zone per       *)
(* instance (ringTokens, ringTokensByZone, ringInstanceByToken, ringZones, *)
(* the per-zone counters), the read-only flag (writable counters,          *)
(* readOnlyInstances), registration and read-only times (the two "oldest"  *)
(* values).  The address is in no index.                                   *)
IndexView(d) == [i \in DOMAIN d |-> [tok |-> d[i].tok, zone |-> d[i].zone, ro |-> d[i].ro,
                                      reg |-> d[i].reg, rots |-> d[i].rots]]

(* Every query that is not a shard query (Get*, GetAllHealthy,             *)
(* GetReplicationSetForOperation, GetSubringForOperationStates, the count  *)
(* getters, Zones, GetTokenRangesForInstance, HasInstance, GetInstance...)  *)
(* reads only the indexes, r.ringDesc and the clock: its answer is a       *)
(* function of this input and the query.                                   *)
DirectInput(ix, lv) == [index |-> ix, live |-> lv]

(* ----------------------------------------------------------------------- *)
(* AbstractShard: Ring.shuffleShard / filterOutReadOnlyInstances           *)
(* ----------------------------------------------------------------------- *)
N == Cardinality(Inst)

\* position of the (single) token of instance i: alternative t of instance i sits at i + N*t,
\* so tokens of different instances never collide and changing t changes the cyclic order
Pos(ix, i) == i + N * ix[i].tok
HasTok(ix, i) == ix[i].tok >= 0

\* the pseudo-random start of the k-th pick of identifier id in zone z: any fixed function
StartPos(id, z, k) == (3 * id + 5 * z + 2 * k) % (2 * N + 1)

AllZones(ix) == {ix[i].zone : i \in DOMAIN ix}                 \* ringZones (from the index)
CountInZone(ix, z) == Cardinality({i \in DOMAIN ix : ix[i].zone = z})
OldestReg(ix) == IF DOMAIN ix = {} \/ \E i \in DOMAIN ix : ix[i].reg = 0 THEN 0
                 ELSE CHOOSE t \in {ix[i].reg : i \in DOMAIN ix} : \A i \in DOMAIN ix : t <= ix[i].reg
ROInsts(ix)   == {i \in DOMAIN ix : ix[i].ro}
OldestROts(ix) == IF ROInsts(ix) = {} THEN 0
                  ELSE CHOOSE t \in {ix[i].rots : i \in ROInsts(ix)} : \A i \in ROInsts(ix) : t <= ix[i].rots

\* shouldIncludeReadonlyInstanceInTheShard
Incl(r, L, W) == ~r.ro \/ (L > 0 /\ ~(r.rots > 0 /\ r.rots < W))
\* "include it but keep selecting"
Extend(r, L, W) == L > 0 /\ (r.reg >= W \/ r.ro \/ r.rots >= W)

RECURSIVE Sorted(_, _)
Sorted(ix, S) == IF S = {} THEN <<>>
                 ELSE LET m == CHOOSE i \in S : \A j \in S : Pos(ix, i) <= Pos(ix, j)
                      IN <<m>> \o Sorted(ix, S \ {m})
\* the instances of S in token order starting at the first token strictly greater than s
WalkSeq(ix, S, s) == Sorted(ix, {i \in S : Pos(ix, i) > s}) \o Sorted(ix, {i \in S : Pos(ix, i) <= s})

\* one pick: walk at most one lap; per-instance fields are read from r.ringDesc (lv)
RECURSIVE Pick(_, _, _, _, _, _)
Pick(sh, seq, j, lv, L, W) ==
    IF j > Len(seq) THEN [sh |-> sh, found |-> FALSE]
    ELSE LET i == seq[j] IN
         IF i \in sh \/ ~Incl(lv[i], L, W) THEN Pick(sh, seq, j + 1, lv, L, W)
         ELSE IF Extend(lv[i], L, W) THEN Pick(sh \cup {i}, seq, j + 1, lv, L, W)
         ELSE [sh |-> sh \cup {i}, found |-> TRUE]

RECURSIVE Picks(_, _, _, _, _, _, _, _, _)
Picks(sh, S, ix, lv, id, z, k, n, LW) ==
    IF k > n THEN sh
    ELSE LET r == Pick(sh, WalkSeq(ix, S, StartPos(id, z, k)), 1, lv, LW[1], LW[2])
         IN IF r.found THEN Picks(r.sh, S, ix, lv, id, z, k + 1, n, LW) ELSE r.sh

ZoneShard(ix, lv, id, z, perZone, L, W) ==
    IF ZoneAware /\ perZone >= CountInZone(ix, z)
    THEN {i \in DOMAIN lv : lv[i].zone = z /\ Incl(lv[i], L, W)}      \* "take the whole zone"
    ELSE Picks({}, {i \in DOMAIN ix : HasTok(ix, i) /\ (ZoneAware => ix[i].zone = z)},
               ix, lv, id, z, 1, perZone, <<L, W>>)

Members(ix, lv, id, size, L, W) ==
    IF ZoneAware
    THEN LET nz == Cardinality(AllZones(ix))
             per == IF nz = 0 THEN 0 ELSE (size + nz - 1) \div nz
         IN UNION {ZoneShard(ix, lv, id, z, per, L, W) : z \in AllZones(ix)}
    ELSE ZoneShard(ix, lv, id, 0, size, L, W)

Sub(lv, S) == [i \in S |-> lv[i]]

(* [self |-> the result is the ring itself (never cached), m |-> members with their records] *)
AbstractShard(ix, lv, id, size, L, W) ==
    IF size <= 0
    THEN IF ROInsts(ix) = {} \/ (L > 0 /\ OldestROts(ix) >= W)
         THEN [self |-> TRUE, m |-> lv]
         ELSE [self |-> FALSE, m |-> Sub(lv, {i \in DOMAIN lv : Incl(lv[i], L, W)})]
    ELSE IF L > 0 /\ OldestReg(ix) > 0 /\ OldestReg(ix) >= W
         THEN [self |-> TRUE, m |-> lv]
         ELSE [self |-> FALSE, m |-> Sub(lv, Members(ix, lv, id, size, L, W))]

(* ----------------------------------------------------------------------- *)
(* The cache rules of getCachedShuffledSubring* / setCachedShuffledSubring* *)
(* ----------------------------------------------------------------------- *)
PlainKeys == Ident \X Sizes
LbKeys    == Ident \X Sizes \X Lookbacks

\* a cache hit copies State and Timestamp from r.ringDesc into the cached subring
Refresh(m, lv) == [i \in DOMAIN m |-> [m[i] EXCEPT !.state = lv[i].state, !.ts = lv[i].ts]]

LbValid(e, W) == e # None /\ Val(e).va <= W /\ W <= Val(e).vb

\* validForLookbackWindowsStartingBefore: the earliest registration or read-only change of a
\* MEMBER that is inside the window
ValidBefore(m, W) ==
    LET S == {m[i].reg : i \in {j \in DOMAIN m : m[j].reg >= W}}
             \cup {m[i].rots : i \in {j \in DOMAIN m : m[j].rots >= W}}
    IN IF S = {} THEN Inf ELSE CHOOSE t \in S : \A u \in S : t <= u

(* What the client answers to a shard query in the current state. *)
ClientPlain(id, size) ==
    IF cache[<<id, size>>] # None THEN Refresh(Val(cache[<<id, size>>]), desc)
    ELSE Compute(idx, desc, id, size, 0, 0).m
ClientLb(id, size, L, now) ==
    IF LbValid(lbc[<<id, size, L>>], now - L) THEN Refresh(Val(lbc[<<id, size, L>>]).m, desc)
    ELSE Compute(idx, desc, id, size, L, now - L).m

(* What a client freshly built from the latest descriptor answers. *)
FreshPlain(id, size)      == Compute(IndexView(desc), desc, id, size, 0, 0).m
FreshLb(id, size, L, now) == Compute(IndexView(desc), desc, id, size, L, now - L).m

(* ----------------------------------------------------------------------- *)
(* Actions                                                                 *)
(* ----------------------------------------------------------------------- *)
EmptyCache == [k \in PlainKeys |-> None]
EmptyLbc   == [k \in LbKeys |-> None]

\* the descriptor the client found in the store when it started (Ring.starting)
InitDescs == {NoDesc}

Init == /\ desc \in InitDescs /\ idx = IndexView(desc) /\ ltc = IF desc = NoDesc THEN 0 ELSE 1
        /\ cache = EmptyCache /\ lbc = EmptyLbc
        /\ pend = [p \in Readers |-> None]
        /\ nupd = 0

(* Ring.updateRingState: the store delivered descriptor d. *)
Update(d) ==
    /\ nupd < MaxUpd
    /\ nupd' = nupd + 1
    /\ desc' = d
    /\ IF Classify(desc, d) = "Different"
       THEN /\ idx' = IndexView(d) /\ ltc' = ltc + 1           \* setRingStateFromDesc
            /\ cache' = EmptyCache /\ lbc' = EmptyLbc
       ELSE UNCHANGED <<idx, ltc, cache, lbc>>        \* only r.ringDesc is swapped
    /\ UNCHANGED pend

(* A computed subring waiting to be offered to the cache. *)
FillReq(lb, key, m, W) == [lb |-> lb, key |-> key, m |-> m, ltc |-> ltc, W |-> W]

(* setCachedShuffledSubring / setCachedShuffledSubringWithLookback (write  *)
(* lock): the caches after offering f.  Only if the topology did not       *)
(* change since f was computed; a look-back entry is replaced only by one  *)
(* whose window starts later.                                              *)
CacheAfterFill(f) == IF f.ltc = ltc /\ ~f.lb THEN [cache EXCEPT ![f.key] = Some(f.m)] ELSE cache
LbcAfterFill(f) ==
    IF f.ltc = ltc /\ f.lb /\ (lbc[f.key] = None \/ Val(lbc[f.key]).va < f.W)
    THEN [lbc EXCEPT ![f.key] = Some([m |-> f.m, va |-> f.W, vb |-> ValidBefore(f.m, f.W)])]
    ELSE lbc

(* ShuffleShard(id, size) served without interference: cache lookup (read  *)
(* lock; a hit refreshes the cached subring), on a miss compute and offer. *)
SeqPlain(id, size) ==
    /\ IF cache[<<id, size>>] # None
       THEN /\ cache' = [cache EXCEPT ![<<id, size>>] = Some(Refresh(Val(@), desc))]
            /\ UNCHANGED lbc
       ELSE LET res == Compute(idx, desc, id, size, 0, 0) IN
            IF res.self THEN UNCHANGED <<cache, lbc>>       \* "result != r": the ring itself is not cached
            ELSE LET f == FillReq(FALSE, <<id, size>>, res.m, 0) IN
                 cache' = CacheAfterFill(f) /\ lbc' = LbcAfterFill(f)
    /\ UNCHANGED <<desc, idx, ltc, pend, nupd>>

(* ShuffleShardWithLookback(id, size, L, now) served without interference. *)
SeqLb(id, size, L, now) ==
    /\ LET W == now - L IN
       IF LbValid(lbc[<<id, size, L>>], W)
       THEN /\ lbc' = [lbc EXCEPT ![<<id, size, L>>] = Some([Val(@) EXCEPT !.m = Refresh(@, desc)])]
            /\ UNCHANGED cache
       ELSE LET res == Compute(idx, desc, id, size, L, W) IN
            IF res.self THEN UNCHANGED <<cache, lbc>>
            ELSE LET f == FillReq(TRUE, <<id, size, L>>, res.m, W) IN
                 cache' = CacheAfterFill(f) /\ lbc' = LbcAfterFill(f)
    /\ UNCHANGED <<desc, idx, ltc, pend, nupd>>

(* The same calls by a concurrent reader p: the two critical sections are  *)
(* separate steps, updates and other readers may run in between.           *)
QueryPlain(p, id, size) ==
    /\ pend[p] = None
    /\ IF cache[<<id, size>>] # None
       THEN /\ cache' = [cache EXCEPT ![<<id, size>>] = Some(Refresh(Val(@), desc))]
            /\ UNCHANGED pend
       ELSE LET res == Compute(idx, desc, id, size, 0, 0) IN
            /\ pend' = IF res.self THEN pend
                       ELSE [pend EXCEPT ![p] = Some(FillReq(FALSE, <<id, size>>, res.m, 0))]
            /\ UNCHANGED cache
    /\ UNCHANGED <<desc, idx, ltc, lbc, nupd>>

QueryLb(p, id, size, L, now) ==
    /\ pend[p] = None
    /\ LET W == now - L IN
       IF LbValid(lbc[<<id, size, L>>], W)
       THEN /\ lbc' = [lbc EXCEPT ![<<id, size, L>>] = Some([Val(@) EXCEPT !.m = Refresh(@, desc)])]
            /\ UNCHANGED pend
       ELSE LET res == Compute(idx, desc, id, size, L, W) IN
            /\ pend' = IF res.self THEN pend
                       ELSE [pend EXCEPT ![p] = Some(FillReq(TRUE, <<id, size, L>>, res.m, W))]
            /\ UNCHANGED lbc
    /\ UNCHANGED <<desc, idx, ltc, cache, nupd>>

Fill(p) ==
    /\ pend[p] # None
    /\ pend' = [pend EXCEPT ![p] = None]
    /\ cache' = CacheAfterFill(Val(pend[p]))
    /\ lbc' = LbcAfterFill(Val(pend[p]))
    /\ UNCHANGED <<desc, idx, ltc, nupd>>

(* CleanupShuffleShardCache(id) *)
Cleanup(id) ==
    /\ cache' = [k \in PlainKeys |-> IF k[1] = id THEN None ELSE cache[k]]
    /\ lbc' = [k \in LbKeys |-> IF k[1] = id THEN None ELSE lbc[k]]
    /\ UNCHANGED <<desc, idx, ltc, pend, nupd>>

(* The update kinds of the property's quantifier. *)
JoinRecs == [addr : Addrs, zone : Zones, tok : Toks, reg : Stamps, ro : {FALSE}, rots : {0},
             state : States, ts : Beats]

UpdEqual     == Update(desc)
UpdHeartbeat == \E i \in DOMAIN desc, v \in Beats : v # desc[i].ts /\ Update([desc EXCEPT ![i].ts = v])
UpdState     == \E i \in DOMAIN desc, v \in States : v # desc[i].state /\ Update([desc EXCEPT ![i].state = v])
UpdBoth      == \E i \in DOMAIN desc, v \in Beats, s \in States :
                   v # desc[i].ts /\ s # desc[i].state /\ Update([desc EXCEPT ![i].ts = v, ![i].state = s])
UpdToken     == \E i \in DOMAIN desc, v \in Toks : v # desc[i].tok /\ Update([desc EXCEPT ![i].tok = v])
UpdZone      == \E i \in DOMAIN desc, v \in Zones : v # desc[i].zone /\ Update([desc EXCEPT ![i].zone = v])
UpdAddr      == \E i \in DOMAIN desc, v \in Addrs : v # desc[i].addr /\ Update([desc EXCEPT ![i].addr = v])
UpdReg       == \E i \in DOMAIN desc, v \in Stamps : v # desc[i].reg /\ Update([desc EXCEPT ![i].reg = v])
UpdROFlag    == \E i \in DOMAIN desc : Update([desc EXCEPT ![i].ro = ~@])
UpdROTime    == \E i \in DOMAIN desc, v \in Stamps : v # desc[i].rots /\ Update([desc EXCEPT ![i].rots = v])
UpdROBoth    == \E i \in DOMAIN desc, v \in Stamps : v # desc[i].rots /\ Update([desc EXCEPT ![i].ro = ~@, ![i].rots = v])
UpdAdd       == \E i \in Inst \ DOMAIN desc, r \in JoinRecs : Update(Add(desc, i, r))
UpdRemove    == \E i \in DOMAIN desc : Update(Remove(desc, i))
\* a topology field and a state change in one update (must be classified Different)
UpdMixed     == \E i \in DOMAIN desc, v \in Addrs, s \in States :
                   v # desc[i].addr /\ s # desc[i].state /\ Update([desc EXCEPT ![i].addr = v, ![i].state = s])

\* Two instances exchange one topology field (tokens, zone, read-only flag and time, registration time): every
\* aggregate an index could be keyed on (the token list, the zone set, the per-zone counters, the number of
\* read-only instances, the oldest registration / read-only time) stays, only the assignment moves.
Swap(d, i, j, f) ==
    CASE f = "tok"  -> [d EXCEPT ![i].tok = d[j].tok, ![j].tok = d[i].tok]
      [] f = "zone" -> [d EXCEPT ![i].zone = d[j].zone, ![j].zone = d[i].zone]
      [] f = "ro"   -> [d EXCEPT ![i].ro = d[j].ro, ![j].ro = d[i].ro, ![i].rots = d[j].rots, ![j].rots = d[i].rots]
      [] f = "reg"  -> [d EXCEPT ![i].reg = d[j].reg, ![j].reg = d[i].reg]
UpdSwap == \E i \in DOMAIN desc, j \in DOMAIN desc, f \in {"tok", "zone", "ro", "reg"} :
              i < j /\ Swap(desc, i, j, f) # desc /\ Update(Swap(desc, i, j, f))
\* an instance leaves and an existing one takes over its token alternative ("handover")
UpdHandover == \E i \in DOMAIN desc, j \in DOMAIN desc :
                  i # j /\ Update(Remove([desc EXCEPT ![j].tok = desc[i].tok], i))

AnyUpdate == \/ UpdEqual \/ UpdHeartbeat \/ UpdState \/ UpdBoth \/ UpdToken \/ UpdZone \/ UpdAddr
             \/ UpdReg \/ UpdROFlag \/ UpdROTime \/ UpdROBoth \/ UpdAdd \/ UpdRemove \/ UpdMixed

Queries ==
        \/ \E id \in Ident, size \in Sizes : SeqPlain(id, size)
        \/ \E id \in Ident, size \in Sizes, L \in Lookbacks, now \in Times : SeqLb(id, size, L, now)
        \/ \E p \in Readers, id \in Ident, size \in Sizes : QueryPlain(p, id, size)
        \/ \E p \in Readers, id \in Ident, size \in Sizes, L \in Lookbacks, now \in Times : QueryLb(p, id, size, L, now)
        \/ \E p \in Readers : Fill(p)
        \/ \E id \in Ident : Cleanup(id) /\ (cache' # cache \/ lbc' # lbc)

\* the "swap" configurations: exchanges and hand-overs next to the single-field updates
NextSwap == AnyUpdate \/ UpdSwap \/ UpdHandover \/ Queries

Next == \/ AnyUpdate
        \/ \E id \in Ident, size \in Sizes : SeqPlain(id, size)
        \/ \E id \in Ident, size \in Sizes, L \in Lookbacks, now \in Times : SeqLb(id, size, L, now)
        \/ \E p \in Readers, id \in Ident, size \in Sizes : QueryPlain(p, id, size)
        \/ \E p \in Readers, id \in Ident, size \in Sizes, L \in Lookbacks, now \in Times : QueryLb(p, id, size, L, now)
        \/ \E p \in Readers : Fill(p)
        \/ \E id \in Ident : Cleanup(id) /\ (cache' # cache \/ lbc' # lbc)

Spec == Init /\ [][Next]_vars

(* ----------------------------------------------------------------------- *)
(* The property                                                            *)
(* ----------------------------------------------------------------------- *)
TypeOK == /\ DOMAIN desc \subseteq Inst /\ \A i \in DOMAIN desc : desc[i] \in Rec
          /\ DOMAIN idx \subseteq Inst
          /\ ltc \in 0..(MaxUpd + 1) /\ nupd \in 0..MaxUpd

(* Answers that do not go through a subring cache: the client computes them *)
(* from (indexes, r.ringDesc), a fresh client from (indexes of desc, desc). *)
DirectUnobservable == DirectInput(idx, desc) = DirectInput(IndexView(desc), desc)

(* Shards, for every query and EVERY query time (also times before the one  *)
(* a cached entry was filled at).                                          *)
ShardUnobservable ==
    /\ \A id \in Ident, size \in Sizes : ClientPlain(id, size) = FreshPlain(id, size)
    /\ \A id \in Ident, size \in Sizes, L \in Lookbacks, now \in Times :
           ClientLb(id, size, L, now) = FreshLb(id, size, L, now)

(* The same formula, evaluated faster: when the indexes are those of desc, *)
(* a cache miss is literally the fresh computation (same operator, same    *)
(* arguments), so only hits are compared.                                  *)
ShardUnobservableFast ==
    \/ /\ idx = IndexView(desc)
       /\ \A k \in PlainKeys : cache[k] # None => ClientPlain(k[1], k[2]) = FreshPlain(k[1], k[2])
       /\ \A k \in LbKeys : lbc[k] # None =>
              \A now \in Times : LbValid(lbc[k], now - k[3]) =>
                  ClientLb(k[1], k[2], k[3], now) = FreshLb(k[1], k[2], k[3], now)
    \/ ShardUnobservable

Unobservable     == DirectUnobservable /\ ShardUnobservable
UnobservableFast == DirectUnobservable /\ ShardUnobservableFast

(* A subring waiting to be cached is either still what a fresh client would *)
(* compute or it will be refused.                                          *)
PendingSound == \A p \in Readers : pend[p] # None /\ Val(pend[p]).ltc = ltc =>
                    LET f == Val(pend[p]) IN
                      Refresh(f.m, desc) = IF f.lb THEN Compute(IndexView(desc), desc, f.key[1], f.key[2], f.key[3], f.W).m
                                           ELSE Compute(IndexView(desc), desc, f.key[1], f.key[2], 0, 0).m

(* Non-vacuity witnesses (expected to be VIOLATED when checked as invariants). *)
NeverStaleHit == ~\E k \in PlainKeys : cache[k] # None /\ Val(cache[k]) # Refresh(Val(cache[k]), desc)
NeverLbHitAtOtherTime == ~\E k \in LbKeys : lbc[k] # None /\ Val(lbc[k]).va < Val(lbc[k]).vb /\ Val(lbc[k]).vb < Inf
NeverRefusedFill == ~\E p \in Readers : pend[p] # None /\ Val(pend[p]).ltc # ltc
=============================================================================
