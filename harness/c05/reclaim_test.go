package c05

// The owners' side of C05 (spec/ringmerge/RingReclaim.tla): a REAL ring.Lifecycler / ring.BasicLifecycler joins
// a ring kept by a REAL (detached, hook H1) memberlist KV node - every write of the lifecycler is Desc.Merge with
// localCAS, every peer update arrives as a gossip message (NotifyMsg -> Desc.Merge). The specification's choice
// of tokens is made the implementation's choice through the TokenGenerator of the lifecycler, which also observes
// what the code asks for (how many tokens, which tokens it was told are taken). After every step of a
// TLC-generated scenario the content of the store (as clients read it) must be the specification's, the
// generator must have been asked exactly when and what the specification says, and at the end the lifecycler
// must have declared its tokens verified (classic: ACTIVE; basic: Running) - not a step earlier.

import (
	"context"
	"encoding/json"
	"fmt"
	"math/rand"
	"os"
	"sort"
	"sync"
	"testing"
	"testing/synctest"
	"time"

	"verifharness/internal/abs"

	"github.com/go-kit/log"
	"github.com/grafana/dskit/kv"
	"github.com/grafana/dskit/kv/memberlist"
	"github.com/grafana/dskit/ring"
	"github.com/grafana/dskit/services"
)

type genRec struct {
	Need  int   `json:"need"`
	Taken []int `json:"taken"`
	Pick  []int `json:"pick"`
}

type rstep struct {
	Act    string    `json:"act"`
	Other  abs.MDesc `json:"other"`
	Cas    bool      `json:"cas"`
	Now    int       `json:"now"`
	Post   abs.MDesc `json:"post"`
	Wrote  bool      `json:"wrote"`
	Gen    genRec    `json:"gen"`
	LcSt   string    `json:"lcst"`
	LcToks []int     `json:"lctoks"`
}

type scenario struct {
	Kind   string  `json:"kind"`
	Lk     string  `json:"lk"`
	Me     int     `json:"me"`
	NumTok int     `json:"numtok"`
	Nrec   int     `json:"nrec"`
	Steps  []rstep `json:"steps"`
}

type genCall struct {
	need  int
	taken []uint32
}

// scriptGen is the lifecycler's TokenGenerator: it answers with the specification's pick for the current step
// (the CAS function may be run more than once: the answer is a function of the step, not a queue) and records
// what it was asked.
type scriptGen struct {
	mu    sync.Mutex
	calls []genCall
	pick  []uint32
}

func (g *scriptGen) GenerateTokens(n int, taken []uint32) ring.Tokens {
	g.mu.Lock()
	defer g.mu.Unlock()
	g.calls = append(g.calls, genCall{need: n, taken: append([]uint32(nil), taken...)})
	out := append(ring.Tokens(nil), g.pick...)
	if n < len(out) {
		if n < 0 {
			n = 0
		}
		out = out[:n]
	}
	return out
}
func (g *scriptGen) CanJoin(map[string]ring.InstanceDesc) error { return nil }
func (g *scriptGen) CanJoinEnabled() bool                         { return false }
func (g *scriptGen) take() []genCall {
	g.mu.Lock()
	defer g.mu.Unlock()
	c := g.calls
	g.calls = nil
	return c
}

const reclaimKey = "ring"

func newReclaimNode() (*memberlist.KV, kv.Client, error) {
	var cfg memberlist.KVConfig
	cfg.Codecs = append(cfg.Codecs, ring.GetCodec())
	cfg.NodeName = "me"
	cfg.RetransmitMult = 2
	cfg.LeftIngestersTimeout = time.Hour
	cfg.NotifyInterval = 0
	mkv := memberlist.NewDetachedKVForVerif(cfg, log.NewNopLogger(), func() int { return 2 })
	if err := services.StartAndAwaitRunning(context.Background(), mkv); err != nil {
		return nil, nil, err
	}
	cli, err := memberlist.NewClient(mkv, ring.GetCodec())
	return mkv, cli, err
}

func logical(d abs.MDesc) abs.MDesc {
	out := make(abs.MDesc, len(d))
	for k, e := range d {
		if e.State == "LEFT" {
			e = abs.MEntry{State: "ABSENT", Toks: []int{}}
		}
		out[k] = e
	}
	return out
}

func embedSorted(ps []int, emb abs.Embedding) []uint32 {
	out := make([]uint32, 0, len(ps))
	for _, p := range ps {
		out = append(out, emb.Pos[p])
	}
	sort.Slice(out, func(i, j int) bool { return out[i] < out[j] })
	return out
}

func u32Equal(a, b []uint32) bool {
	if len(a) != len(b) {
		return false
	}
	for i := range a {
		if a[i] != b[i] {
			return false
		}
	}
	return true
}

func TestC05Reclaim(t *testing.T) {
	in := os.Getenv("VERIF_IN")
	if in == "" {
		t.Skip("VERIF_IN not set")
	}
	res := &abs.Result{}
	rnd := rand.New(rand.NewSource(abs.Seed()*7919 + 11))
	nscen, nsteps, nreclaims, nverified := 0, 0, 0, 0
	synctest.Test(t, func(t *testing.T) {
		err := abs.ReadNDJSON(in, func(line []byte) error {
			if res.Fatal != "" {
				return nil
			}
			var c scenario
			if err := json.Unmarshal(line, &c); err != nil {
				return err
			}
			if c.Kind != "scenario" || len(c.Steps) == 0 {
				return fmt.Errorf("not a scenario: %.80s", line)
			}
			nscen++
			if corrupt > 0 && nscen == corrupt {
				last := &c.Steps[len(c.Steps)-1]
				last.Post[c.Me-1].Toks = append(last.Post[c.Me-1].Toks, 0)[1:]
			}
			n := len(c.Steps[0].Post)
			m := abs.EnvInt("VERIF_M", 3)
			emb := abs.BoundaryEmbedding(m)
			if nscen%2 == 0 {
				emb = abs.RandomEmbedding(m, rnd)
			}
			// every scenario starts on a whole second of the bubble clock; specification second s = base + s
			base := int(time.Now().Unix()-abs.Epoch2000) + 1
			abs.SleepUntil(base + 1)
			node, cli, err := newReclaimNode()
			if err != nil {
				res.Fatal = "memberlist node: " + err.Error()
				return nil
			}
			gen := &scriptGen{}
			var svc services.Service
			var classic *ring.Lifecycler
			var basic *ring.BasicLifecycler
			id := abs.MergeID(c.Me, n)
			start := func() error {
				if c.Lk == "classic" {
					var lc ring.LifecyclerConfig
					lc.RingConfig.KVStore.Mock = cli
					lc.RingConfig.HeartbeatTimeout = time.Hour
					lc.RingConfig.ReplicationFactor = 1
					lc.NumTokens = c.NumTok
					lc.HeartbeatPeriod = time.Hour
					lc.HeartbeatTimeout = 2 * time.Hour
					lc.JoinAfter = 2 * time.Second
					lc.ObservePeriod = 2 * time.Second
					lc.Zone = abs.ZoneName(1 + (c.Me-1)%2)
					lc.Addr = "10.0.0.1"
					lc.Port = 1
					lc.ID = id
					lc.RingTokenGenerator = gen
					l, err := ring.NewLifecycler(lc, nil, "verif", reclaimKey, false, log.NewNopLogger(), nil)
					if err != nil {
						return err
					}
					classic, svc = l, l
				} else {
					bc := ring.BasicLifecyclerConfig{ID: id, Addr: "10.0.0.1:1", Zone: abs.ZoneName(1 + (c.Me-1)%2),
						HeartbeatPeriod: time.Hour, HeartbeatTimeout: 2 * time.Hour, TokensObservePeriod: 2 * time.Second,
						NumTokens: c.NumTok, RingTokenGenerator: gen}
					d := ring.NewInstanceRegisterDelegate(ring.JOINING, c.NumTok)
					l, err := ring.NewBasicLifecycler(bc, "verif", reclaimKey, cli, d, log.NewNopLogger(), nil)
					if err != nil {
						return err
					}
					basic, svc = l, l
				}
				return svc.StartAsync(context.Background())
			}
			ok := true
			fail := func(what string, s rstep, si int, got, want any) {
				ok = false
				res.Mismatch(abs.Mismatch{Sig: fmt.Sprintf("reclaim:%s %s act=%s", c.Lk, what, s.Act), Case: c, Got: got, Want: want,
					Note: fmt.Sprintf("step %d of %d", si+1, len(c.Steps))})
			}
			for si, s := range c.Steps {
				if !ok || res.Fatal != "" {
					break
				}
				nsteps++
				abs.SleepUntil(base + s.Now)
				gen.mu.Lock()
				gen.pick = embedSorted(s.Gen.Pick, emb)
				gen.mu.Unlock()
				switch s.Act {
				case "Deliver":
					synctest.Wait() // the owner's own timer of this second comes first
					if calls := gen.take(); len(calls) > 0 {
						fail("unexpected-generator-call", s, si, fmt.Sprint(calls), "no token generation before this delivery")
						continue
					}
					other := abs.BuildDesc(shift(s.Other, base), abs.RingBuild{Emb: emb, Rnd: rnd, Tag: "peer"})
					val, err := ring.GetCodec().Encode(other)
					if err != nil {
						res.Fatal = "encode: " + err.Error()
						continue
					}
					pair := memberlist.KeyValuePair{Key: reclaimKey, Value: val, Codec: ring.GetCodec().CodecID()}
					msg, err := pair.Marshal()
					if err != nil {
						res.Fatal = "marshal: " + err.Error()
						continue
					}
					node.NotifyMsg(msg)
				default: // Register / Join / VerifyOK / Reclaim: the owner's doing, driven by its own timers
					if svc == nil {
						if err := start(); err != nil {
							res.Fatal = "lifecycler: " + err.Error()
							continue
						}
					}
				}
				synctest.Wait()
				// 1. the generator was asked exactly when and what the specification says
				calls := gen.take()
				if s.Gen.Need < 0 {
					if len(calls) > 0 {
						fail("unexpected-generator-call", s, si, fmt.Sprint(calls), "no token generation in this step")
						continue
					}
				} else {
					if len(calls) == 0 {
						fail("no-generator-call", s, si, "generator not asked", s.Gen)
						continue
					}
					if s.Act == "Reclaim" {
						nreclaims++
					}
					wantTaken := embedSorted(s.Gen.Taken, emb)
					for _, call := range calls {
						if call.need != s.Gen.Need {
							fail("tokens-requested", s, si, call.need, s.Gen.Need)
							break
						}
						got := append([]uint32(nil), call.taken...)
						sort.Slice(got, func(i, j int) bool { return got[i] < got[j] })
						if !u32Equal(got, wantTaken) {
							fail("taken-tokens", s, si, got, wantTaken)
							break
						}
					}
					if !ok {
						continue
					}
				}
				// 2. the store, as clients read it
				v, err := cli.Get(context.Background(), reclaimKey)
				if err != nil {
					res.Fatal = "Get: " + err.Error()
					continue
				}
				var dsc *ring.Desc
				if v != nil {
					dsc = v.(*ring.Desc)
				}
				got, problems := abs.ProjectDesc(dsc, n, emb)
				if len(problems) > 0 {
					fail("store-not-normalised", s, si, problems, "sorted duplicate-free token lists, known ids")
					continue
				}
				if want := logical(shift(s.Post, base)); !got.Equal(want) {
					fail("store", s, si, shift(got, -base), logical(s.Post))
					continue
				}
				// 3. the owner: state and (basic) remembered tokens
				if svc != nil {
					wantSt := s.LcSt
					if wantSt == "done" {
						wantSt = "JOINING"
						if c.Lk == "classic" {
							wantSt = "ACTIVE"
						}
					}
					var gotSt string
					if classic != nil {
						gotSt = classic.GetState().String()
					} else {
						gotSt = basic.GetState().String()
						if s.LcSt == "new" {
							wantSt = gotSt
						}
						mem := basic.GetTokens()
						if s.LcSt != "new" && !u32Equal(mem, embedSorted(s.LcToks, emb)) {
							fail("remembered-tokens", s, si, []uint32(mem), embedSorted(s.LcToks, emb))
							continue
						}
						if running := svc.State() == services.Running; running != (s.LcSt == "done") {
							fail("verified", s, si, svc.State().String(), map[string]any{"verified": s.LcSt == "done"})
							continue
						}
					}
					if gotSt != wantSt {
						fail("owner-state", s, si, gotSt, wantSt)
						continue
					}
				}
			}
			if ok && res.Fatal == "" {
				if last := c.Steps[len(c.Steps)-1]; last.LcSt == "done" {
					nverified++
				}
				res.Cases++
				if c.Nrec > 0 {
					res.Nontrivial++
					res.Sample(c)
				}
			}
			if svc != nil {
				svc.StopAsync()
				_ = svc.AwaitTerminated(context.Background())
			}
			_ = services.StopAndAwaitTerminated(context.Background(), node)
			synctest.Wait()
			return nil
		})
		if err != nil {
			res.Fatal = "replay: " + err.Error()
		}
	})
	res.AddExtra("scenarios", nscen)
	res.AddExtra("scenario_steps_executed", nsteps)
	res.AddExtra("reclaims_executed", nreclaims)
	res.AddExtra("scenarios_verified", nverified)
	res.Write(t)
}
