\* C05 owners' side (classic lifecycler): instance 2 of 3 wants 2 token(s) out of 4 positions; <= 3 peer updates.
CONSTANTS
  N = 3
  M = 4
  Shared = TRUE
  Kind = "classic"
  Me = 2
  NumTok = 2
  PeerTs = {1, 2}
  PeerSt = {"ACTIVE", "LEAVING", "JOINING"}
  MaxDeliver = 3
  MaxClock = 11
  ThinE = @@THINE@@
  ThinC = @@THINC@@
  ThinR = @@THINR@@
INIT Init
NEXT Next
VIEW View
INVARIANTS TypeOK InvTokenUnique InvLeftHasNoTokens EmitScenario
PROPERTIES VerifiedOwns ReclaimRule MemoryMatchesWrite
CHECK_DEADLOCK FALSE
