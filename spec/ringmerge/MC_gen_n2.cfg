\* C03/C05 replay: two ids drawing from one shared pool of two positions (collisions are the norm).
CONSTANTS
  N = 2
  M = 2
  Shared = TRUE
  TsSet = {1, 2}
  LiveSt = {"ACTIVE", "LEAVING"}
  NowSet = {3}
  NSlices = @@NSLICES@@
  Slice = @@SLICE@@
INIT Init
NEXT Next
INVARIANTS CaseProps Emit
CHECK_DEADLOCK FALSE
