INIT Init
NEXT Next
INVARIANTS Complete
CHECK_DEADLOCK FALSE
