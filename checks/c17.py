"""C17 - services and their manager follow the state machine on every interleaving.

spec/services/Service.tla      one BasicService at the granularity of its critical sections (TLC: exhaustive)
spec/services/ServiceGated.tla the same operators composed "environment step, then internal steps until every
                               goroutine is blocked"; TLC prints one behaviour per transition of that graph and
                               harness/c17 replays each on a real BasicService inside testing/synctest
spec/services/ServiceConfl.tla TLC: the order of the internal steps does not matter (soundness of the above)
spec/services/AbsService.tla   the service seen from outside; TLC: it simulates ServiceGated (AbsSim)
spec/services/Manager.tla      services.Manager over abstract services (TLC: exhaustive for 2, simulation for 3)
spec/services/ManagerGated.tla gate-granularity behaviours replayed on a real Manager over real BasicServices
spec/services/ServiceTrace.tla traces recorded from free-running goroutines on real services, validated by TLC
"""
import json
import os
import re

import verif

PROPERTY = "C17"
META = {
    "level_text": "TLC checks the clauses of C17 (legal transitions, function order, stopping-iff-started, context cancelled before stopping, "
                  "exact waiter latches, no double close, first error wins, listener order, notifier never blocks, no nil cancel call; manager: "
                  "healthy/stopped exact, failure reported once, latches) exhaustively on Service.tla (one service, 2 StopAsync callers as two "
                  "critical sections each, listeners, waiters, parent cancel, every function outcome, nil functions, idle/timer variants) and on "
                  "Manager.tla (2 services exhaustive, 3 by simulation). The code is bound to the specification in both directions: every "
                  "transition of the gate-granularity state graph (built from the same operators) is replayed on real BasicService/Manager "
                  "objects inside testing/synctest with the observable state compared after every step, and traces of free-running goroutines "
                  "racing the API are accepted by TLC, which infers the unlogged critical sections.",
    "level_note": "Trusted: TLC; the harness gates (service functions, listener callbacks, the verif hook between the two critical sections of "
                  "StopAsync); testing/synctest quiescence; the projection of the API (State, FailureCase, ServiceContext, Await* results, "
                  "callback logs) onto the specification's observation. Bounded: <=2 racing StopAsync callers (4 in traces), <=2 listeners, "
                  "2 waiters, managers of <=3 services. A listener-channel buffer smaller than 4 is decided on the specification only "
                  "(not observable through the API).",
    "technique": "TLA+ specifications model-checked by TLC; TLC-generated behaviours replayed into the real code (path cover of the gated "
                 "state graph); traces recorded from the real code validated by TLC",
    "design_ref": "DESIGN.md 2 C17",
}

F4_SIG = "StopAsync:nil-cancel-after-lost-New->Terminated-race"

# gated configs: name -> harness constants
GATED = {
    "MC_nilcancel": dict(nc=2, nl=0, wrun=[], wterm=[]),
    "MC_gated_core": dict(nc=2, nl=1, wrun=[], wterm=[]),
    "MC_gated_core3": dict(nc=2, nl=1, wrun=[], wterm=[]),
    "MC_gated_modes": dict(nc=1, nl=0, wrun=[], wterm=[]),
    "MC_gated_nilfn5": dict(nc=1, nl=1, wrun=[], wterm=[]),
    "MC_gated_wait": dict(nc=1, nl=0, wrun=[1], wterm=[2]),
    "MC_gated_nilfn": dict(nc=1, nl=1, wrun=[], wterm=[]),
    "MC_gated_lw": dict(nc=2, nl=1, wrun=[1], wterm=[2]),
    "MC_gated_l2": dict(nc=1, nl=2, wrun=[], wterm=[]),
}
MGATED = {
    "MC_mgated_cover": dict(ns=2, nml=0, wh=[], ws=[]),
    "MC_mgated_cover1": dict(ns=2, nml=1, wh=[], ws=[]),
    "MC_mgated_sim": dict(ns=2, nml=1, wh=[1], ws=[2]),
    "MC_mgated_sim3": dict(ns=3, nml=2, wh=[1], ws=[2]),
}


def incon(why):
    raise verif.Inconclusive(why)


def corrupt_one_observation(path):
    """development aid (VERIF_C17_CORRUPT=obs): change one demanded observation; the replay must then fail"""
    lines = open(path).read().splitlines()
    for k in range(len(lines) // 2, len(lines)):
        o = json.loads(lines[k])
        if o["o"].get("st") == "Stopping":
            o["o"]["st"] = "Running"
            lines[k] = json.dumps(o)
            break
    open(path, "w").write("\n".join(lines) + "\n")


def run(ctx):
    quick = ctx.tier == "quick"
    W = int(os.environ.get("VERIF_TLC_WORKERS", "8"))
    ctx.rule = ("a case is one behaviour: a maximal path of the gate-granularity state graph of ServiceGated.tla / ManagerGated.tla "
                "(environment calls and gate releases, TLC prints one path per transition of the graph; distinct by construction), or one "
                "recorded trace of racing goroutines; non-trivial = the service left New (replay: some transition happened; manager: healthy or "
                "stopped was reached) / the trace contains overlapping API calls")
    ctx.assumptions = ["testing/synctest: synctest.Wait() returns only when every goroutine of the bubble is durably blocked",
                       "the harness gates (service functions, listener callbacks, services.VerifYield) are the only blocking points",
                       "stamps of one atomic counter order recorded call/return events soundly (real-time order)"]
    ctx.exhaustive = True
    jobs = []

    stages = set((os.environ.get("VERIF_C17_STAGES") or "replay,model,record").split(","))   # development aid

    # ---- 1. F4 (thorough tier: explicit TLC run): the specification of StopAsync as it is in the pinned code violates
    #         NoNilCancelCall; the counterexample is replayed below. The quick tier takes the same witness from the
    #         behaviours of MC_gated_core (a printed state with nilCalls > 0 is a counterexample of the invariant).
    if not quick:
        r = ctx.tlc("services", "ServiceGated", cfg="MC_nilcancel.cfg", timeout=300, workers=1, count=False)
        if r.timed_out or r.error:
            incon("MC_nilcancel: %s" % (r.error or "timeout"))
        if r.violated != "NoNilCancelCallEmit" or r.emitted == 0:
            incon("MC_nilcancel: the unguarded StopAsync model is expected to violate NoNilCancelCall; TLC said %r" % r.violated)
        first = open(r.out_path).readline()      # keep the first counterexample only
        cex = ctx.path("f4_cex.ndjson")
        open(cex, "w").write(first)
        ctx.extra["f4_spec_counterexample"] = [s[0] + ":" + str(s[1]) for s in json.loads(first)["h"][1:]]
        jobs.append(dict(kind="service", name="MC_nilcancel(counterexample of NoNilCancelCall)", **{"in": cex}, **GATED["MC_nilcancel"]))

    # ---- 2. behaviours of the gated graphs (the invariants of Service.tla are checked on them as well)
    gated = ["MC_gated_core", "MC_gated_modes", "MC_gated_wait", "MC_gated_nilfn"] if quick else \
            ["MC_gated_core3", "MC_gated_wait", "MC_gated_nilfn5", "MC_gated_lw", "MC_gated_l2"]
    emitted = {}
    for cfg in gated:
        r = ctx.tlc("services", "ServiceGated", cfg=cfg + ".cfg", timeout=3000, workers=W)
        ctx.require_tlc_ok(r, cfg)
        if r.emitted == 0:
            incon("%s emitted nothing" % cfg)
        emitted[cfg] = r.emitted
        if "f4_spec_counterexample" not in ctx.extra and cfg.startswith("MC_gated_core"):
            best = None
            for ln in open(r.out_path):
                if '"pan":0' in ln:
                    continue
                o = json.loads(ln)
                if best is None or len(o["h"]) < len(best["h"]):
                    best = o
            if best is None:
                incon("%s: the unguarded StopAsync model is expected to reach a call of the nil serviceCancel" % cfg)
            ctx.extra["f4_spec_counterexample"] = [s[0] + ":" + str(s[1]) for s in best["h"][1:]]
        if os.environ.get("VERIF_C17_CORRUPT") == "obs" and cfg in ("MC_gated_core", "MC_gated_core3"):
            corrupt_one_observation(r.out_path)
        jobs.append(dict(kind="service", name=cfg, **{"in": r.out_path}, **GATED[cfg]))

    # manager behaviours: exhaustive cover for a small manager, simulation for larger ones
    mg = [("MC_mgated_cover" if quick else "MC_mgated_cover1", None, None), ("MC_mgated_sim", "num=%d" % (40 if quick else 400), 40)]
    if not quick:
        mg.append(("MC_mgated_sim3", "num=300", 60))
    for cfg, sim, depth in mg:
        r = ctx.tlc("services", "ManagerGated", cfg=cfg + ".cfg", timeout=3000, workers=W if not sim else 4, simulate=sim, depth=depth,
                    count=not sim)
        ctx.require_tlc_ok(r, cfg)
        if r.emitted == 0:
            incon("%s emitted nothing" % cfg)
        emitted[cfg] = r.emitted
        jobs.append(dict(kind="manager", name=cfg, **{"in": r.out_path}, **MGATED[cfg]))

    # ---- 3. replay everything on the real code (one child process; a crash of the code is a mismatch, not a dead run)
    manifest = ctx.path("jobs.json")
    json.dump(jobs, open(manifest, "w"))
    res = ctx.run_harness("c17", "^TestReplay$", env={"VERIF_JOBS": manifest}, timeout=3000)
    by_sig = (res.get("extra") or {}).get("mismatches_by_sig") or {}
    panics = sum(n for s, n in by_sig.items() if s == F4_SIG)
    guarded = (res.get("extra") or {}).get("guarded_nil_calls", 0)
    ctx.absorb(res, "replay")
    if panics and guarded:
        ctx.log("StopAsync panics in some schedules and not in others")
    if not panics and not guarded:
        incon("the nil-serviceCancel schedule of the specification was not exercised by the replay")
    guard = "FALSE" if panics else "TRUE"
    ctx.extra["stopasync_variant"] = ("as in the pinned code: calls a nil serviceCancel after losing the New->Terminated race "
                                      "(NoNilCancelCall violated on the specification and reproduced on the code)") if panics else \
        "guarded: the loser of the New->Terminated race does nothing (NoNilCancelCall is an invariant of every configuration below)"
    ctx.extra["behaviours_emitted"] = emitted
    subst = {"@@GUARD@@": guard, "@@NONIL@@": "" if panics else "NoNilCancelCall"}

    if "model" not in stages:
        ctx.inconclusive_note("development run: stages %s only" % sorted(stages))
        return "model_checking"

    # ---- 4. the property itself: exhaustive model checking at the granularity of the critical sections
    fine = ["MC_svc_quick", "MC_svc_wait"] if quick else ["MC_svc_quick", "MC_svc_wait", "MC_svc_lw", "MC_svc_full", "MC_svc_live"]
    never = None
    for cfg in fine:
        cov = (not quick) and cfg in ("MC_svc_quick", "MC_svc_wait")
        r = ctx.tlc("services", "Service", cfg=cfg + ".cfg", timeout=3000, workers=W, subst=subst, coverage=cov)
        ctx.require_tlc_ok(r, cfg)
        if cov:     # vacuity guard: every action of Service.tla is taken in at least one of the two configurations
            never = set(r.coverage_zero) if never is None else never & set(r.coverage_zero)
    if never:
        incon("Service.tla: actions never taken: %s" % sorted(never)[:8])
    mcfgs = ["MC_mgr_quick"] if quick else ["MC_mgr_quick", "MC_mgr2", "MC_mgr_live"]
    for cfg in mcfgs:
        r = ctx.tlc("services", "Manager", cfg=cfg + ".cfg", timeout=3000, workers=W, coverage=(cfg == "MC_mgr2"))
        ctx.require_tlc_ok(r, cfg)
        if r.coverage_zero:
            incon("%s: actions never taken: %s" % (cfg, r.coverage_zero[:6]))
    if not quick:
        r = ctx.tlc("services", "Manager", cfg="MC_mgr3.cfg", timeout=3000, workers=4, simulate="num=3000", depth=80, count=False)
        ctx.require_tlc_ok(r, "MC_mgr3 (simulation)")
    # soundness of the binding: AbsService simulates ServiceGated; Settle is confluent
    r = ctx.tlc("services", "ServiceGated", cfg="MC_gated_abs.cfg", timeout=3000, workers=W)
    ctx.require_tlc_ok(r, "MC_gated_abs")
    for cfg in ([] if quick else ["MC_confl_quick", "MC_confl_nil", "MC_confl"]):
        r = ctx.tlc("services", "ServiceConfl", cfg=cfg + ".cfg", timeout=3000, workers=W)
        ctx.require_tlc_ok(r, cfg)
    if not quick:
        # tightness witness: all four transitions can sit in a listener queue (the buffer of 4 is needed)
        r = ctx.tlc("services", "Service", cfg="MC_svc_qfull.cfg", timeout=600, workers=4, subst=subst, count=False)
        if r.violated != "QueueNeverFull":
            incon("MC_svc_qfull: expected the witness of a full listener queue, TLC said %r %r" % (r.violated, r.error))

    if "record" not in stages:
        ctx.inconclusive_note("development run: stages %s only" % sorted(stages))
        return "model_checking"

    # ---- 5. code -> spec: traces of free-running goroutines, validated by TLC
    ntr = 120 if quick else 1500
    trace = ctx.path("trace.ndjson")
    rec = ctx.run_harness("c17", "^TestRecord$", env={"VERIF_TRACE": trace, "VERIF_NTRACES": ntr}, timeout=1200)
    if rec.get("fatal"):
        incon("recording: %s" % rec["fatal"])
    rec_panics = any(m.get("sig") == F4_SIG for m in rec.get("mismatches") or [])
    tguard = "FALSE" if (panics or rec_panics) else "TRUE"
    r = ctx.tlc("services", "ServiceTrace", cfg="MC_trace.cfg", timeout=3000, workers=W, subst={"@@GUARD@@": tguard},
                extra_files={trace: "trace.ndjson"}, count=False)
    if r.timed_out or r.error or r.violated:
        incon("trace validation: %s" % (r.error or r.violated or "timeout"))
    accepted = set()
    for ln in open(r.out_path):
        accepted.add(json.loads(ln)["accepted"])
    rejected = [t for t in range(1, ntr + 1) if t not in accepted]
    rec["cases"] = len(accepted)
    ctx.absorb(rec, "record")
    ctx.extra["traces_recorded"] = ntr
    ctx.extra["trace_validation_states"] = r.distinct
    for t in rejected[:3]:
        evs = [json.loads(l) for l in open(trace) if json.loads(l)["t"] == t]
        # how far does the specification get?
        one = ctx.path("rejected_%d.ndjson" % t)
        with open(one, "w") as f:
            for e in evs:
                e = dict(e)
                e["t"] = 1
                f.write(json.dumps(e) + "\n")
        r1 = ctx.tlc("services", "ServiceTrace", cfg="MC_trace_diag.cfg", timeout=600, workers=1, subst={"@@GUARD@@": tguard},
                     extra_files={one: "trace.ndjson"}, count=False)
        reached = 0
        for ln in open(r1.out_path):
            reached = max(reached, json.loads(ln).get("reached", 0))
        bad = evs[reached - 1] if 0 < reached <= len(evs) else None
        sig = "trace-rejected:%s" % ("%s:%s" % (bad["e"], bad["s"] or "listener") if bad else "?")
        ctx.disagreement({"sig": sig, "case": {"trace": t, "events": evs[:reached]},
                          "got": bad, "want": "an event the specification can explain after the prefix (%d of %d events accepted)" % (max(reached - 1, 0), len(evs))},
                         "record")
    return "model_checking"
