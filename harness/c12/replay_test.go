package c12

import (
	"encoding/json"
	"fmt"
	"math/rand"
	"os"
	"sort"
	"testing"
	"time"

	"verifharness/internal/abs"

	"github.com/grafana/dskit/ring"
	"github.com/grafana/dskit/ring/shard"
)

// ---------------------------------------------------------------------------------------------
// spec -> code cross-check of the white-box walk: concretised cases

type rquery struct {
	Size int   `json:"size"`
	L    int   `json:"L"`
	Now  int64 `json:"now"`
}

// absCase is what TLC reads (spec/shuffleshard/ShardReplay.tla): no 32-bit value in it.
type absCase struct {
	Idx     int      `json:"idx"`
	Kind    string   `json:"kind"`
	M       int      `json:"M"`
	Own     []int    `json:"own"`
	Zone    []int    `json:"zone,omitempty"`
	Mem     []int    `json:"mem"`
	RO      []bool   `json:"ro,omitempty"`
	Reg     []int64  `json:"reg,omitempty"`
	Rots    []int64  `json:"rots,omitempty"`
	ZA      bool     `json:"za"`
	St      []string `json:"st,omitempty"`
	Sts     []int64  `json:"sts,omitempty"`
	Starts  any      `json:"starts"`
	Queries []rquery `json:"queries"`
}

// concCase is the concrete counterpart, read back by TestCompare to run the real code.
type concCase struct {
	Idx     int        `json:"idx"`
	Kind    string     `json:"kind"`
	Tenant  string     `json:"tenant"`
	ZA      bool       `json:"za"`
	Tokens  [][]uint32 `json:"tokens"` // per instance / partition 1..n
	Zone    []int      `json:"zone,omitempty"`
	RO      []bool     `json:"ro,omitempty"`
	Reg     []int64    `json:"reg,omitempty"`
	Rots    []int64    `json:"rots,omitempty"`
	St      []string   `json:"st,omitempty"`
	Sts     []int64    `json:"sts,omitempty"`
	Queries []rquery   `json:"queries"`
}

// startsFor returns the rank-compressed start positions (1-based: position of the first token
// strictly greater than the drawn number, wrapping) of the first k draws of the generator the
// code seeds for (tenant, zone).
func startsFor(tenant, zone string, all []uint32, k int) []int {
	gen := rand.New(rand.NewSource(shard.ShuffleShardSeed(tenant, zone)))
	out := make([]int, 0, k)
	for i := 0; i < k; i++ {
		r := gen.Uint32()
		idx := sort.Search(len(all), func(j int) bool { return all[j] > r })
		if idx == len(all) {
			idx = 0
		}
		out = append(out, idx+1)
	}
	return out
}

func sortedTokens(toks [][]uint32) ([]uint32, map[uint32]int) {
	owner := map[uint32]int{}
	var all []uint32
	for i, ts := range toks {
		for _, t := range ts {
			all = append(all, t)
			owner[t] = i + 1
		}
	}
	sort.Slice(all, func(i, j int) bool { return all[i] < all[j] })
	return all, owner
}

func stOf(s string) ring.PartitionState {
	switch s {
	case "pending":
		return ring.PartitionPending
	case "active":
		return ring.PartitionActive
	}
	return ring.PartitionInactive
}

// realAnswers runs the real code on a concrete case.
func realAnswers(c concCase) (out [][]int, err error) {
	defer func() {
		if x := recover(); x != nil {
			err = fmt.Errorf("panic: %v", x)
		}
	}()
	n := len(c.Tokens)
	if c.Kind == "inst" {
		d := ring.NewDesc()
		ids := make([]int, n)
		for i := 0; i < n; i++ {
			ids[i] = i + 1
			d.Ingesters[instName(i+1)] = ring.InstanceDesc{Id: instName(i + 1), Addr: instName(i + 1), Timestamp: 1000, State: ring.ACTIVE,
				Tokens: append([]uint32(nil), c.Tokens[i]...), Zone: zoneName(c.Zone[i]), RegisteredTimestamp: c.Reg[i],
				ReadOnly: c.RO[i], ReadOnlyUpdatedTimestamp: c.Rots[i]}
		}
		r, stop, err := abs.NewRing(d, ringCfg(c.ZA, true))
		if err != nil {
			return nil, err
		}
		defer stop()
		for _, q := range c.Queries {
			var sub ring.ReadRing
			if q.L == 0 {
				sub = r.ShuffleShard(c.Tenant, q.Size)
			} else {
				sub = r.ShuffleShardWithLookback(c.Tenant, q.Size, time.Duration(q.L)*time.Second, time.Unix(q.Now, 250e6))
			}
			m, _ := membersOf(sub, ids)
			out = append(out, m)
		}
		return out, nil
	}
	ps := map[int]*part{}
	for i := 0; i < n; i++ {
		ps[i+1] = &part{id: i + 1, tokens: c.Tokens[i], st: stOf(c.St[i]), sts: c.Sts[i]}
	}
	pr, err := ring.NewPartitionRing(partDesc(ps))
	if err != nil {
		return nil, err
	}
	for _, q := range c.Queries {
		var sub *ring.PartitionRing
		if q.L == 0 {
			sub, err = pr.ShuffleShard(c.Tenant, q.Size)
		} else {
			sub, err = pr.ShuffleShardWithLookback(c.Tenant, q.Size, time.Duration(q.L)*time.Second, time.Unix(q.Now, 250e6))
		}
		if err != nil {
			return nil, err
		}
		m := []int{}
		for _, id := range sub.PartitionIDs() {
			m = append(m, int(id))
		}
		sort.Ints(m)
		out = append(out, m)
	}
	return out, nil
}

const replayNow = 1000

func timesFor(rnd *rand.Rand) int64 {
	// registration / state-change times around the windows queried (now = 1000, L in {5, 10})
	return []int64{1, 500, 989, 990, 991, 994, 995, 996, 999}[rnd.Intn(9)]
}

func replayQueries(n int, rnd *rand.Rand) []rquery {
	var qs []rquery
	for size := 0; size <= n+1; size++ {
		if n > 6 && size > 3 && size < n-1 && rnd.Intn(3) > 0 {
			continue
		}
		qs = append(qs, rquery{Size: size, L: 0, Now: replayNow})
		for _, L := range []int{5, 10} {
			if rnd.Intn(2) == 0 {
				qs = append(qs, rquery{Size: size, L: L, Now: replayNow})
			}
		}
	}
	return qs
}

func TestGenCases(t *testing.T) {
	absPath, concPath := os.Getenv("VERIF_CASES"), os.Getenv("VERIF_CONCRETE")
	if absPath == "" || concPath == "" {
		t.Skip("VERIF_CASES / VERIF_CONCRETE not set")
	}
	res := &abs.Result{}
	aw, err := abs.NewNDJSONWriter(absPath)
	if err != nil {
		t.Fatal(err)
	}
	cw, err := abs.NewNDJSONWriter(concPath)
	if err != nil {
		t.Fatal(err)
	}
	rnd := rand.New(rand.NewSource(abs.Seed()*104729 + 5))
	ncases := abs.EnvInt("VERIF_NCASES", 150)
	idx := 0
	for idx < ncases {
		idx++
		n := 1 + rnd.Intn(9)
		if rnd.Intn(3) == 0 {
			n = 1 + rnd.Intn(4)
		}
		ntok := 1 + rnd.Intn(4)
		used := map[uint32]bool{}
		toks := make([][]uint32, n)
		for i := range toks {
			toks[i] = freshTokens(rnd, 1+rnd.Intn(ntok), used, rnd.Intn(2) == 0)
		}
		all, owner := sortedTokens(toks)
		own := make([]int, len(all))
		for p, tk := range all {
			own[p] = owner[tk]
		}
		mem := make([]int, n)
		for i := range mem {
			mem[i] = i + 1
		}
		tenant := fmt.Sprintf("t-%d", rnd.Intn(5000))
		qs := replayQueries(n, rnd)
		if idx%3 == 0 { // partition ring
			st := make([]string, n)
			sts := make([]int64, n)
			for i := range st {
				st[i] = []string{"active", "active", "active", "pending", "inactive"}[rnd.Intn(5)]
				sts[i] = timesFor(rnd)
			}
			ac := absCase{Idx: idx, Kind: "part", M: len(all), Own: own, Mem: mem, St: st, Sts: sts,
				Starts: startsFor(tenant, "", all, n+1), Queries: qs}
			cc := concCase{Idx: idx, Kind: "part", Tenant: tenant, Tokens: toks, St: st, Sts: sts, Queries: qs}
			_ = aw.Write(ac)
			_ = cw.Write(cc)
			continue
		}
		nz := 1 + rnd.Intn(3)
		if nz > n {
			nz = n
		}
		za := rnd.Intn(3) > 0
		zone := make([]int, n)
		ro := make([]bool, n)
		reg := make([]int64, n)
		rots := make([]int64, n)
		for i := range zone {
			zone[i] = 1 + i%nz
			reg[i] = timesFor(rnd)
			if rnd.Intn(10) == 0 {
				reg[i] = 0
			}
			switch rnd.Intn(5) {
			case 0:
				ro[i] = true
				rots[i] = timesFor(rnd)
			case 1:
				ro[i] = true // read-only, time of the switch unknown
			case 2:
				rots[i] = timesFor(rnd) // read-write again since
			}
		}
		var starts [][]int
		if za {
			for z := 1; z <= nz; z++ {
				starts = append(starts, startsFor(tenant, zoneName(z), all, n+1))
			}
		} else {
			starts = [][]int{startsFor(tenant, "", all, n+1)}
		}
		ac := absCase{Idx: idx, Kind: "inst", M: len(all), Own: own, Zone: zone, Mem: mem, RO: ro, Reg: reg, Rots: rots, ZA: za,
			Starts: starts, Queries: qs}
		cc := concCase{Idx: idx, Kind: "inst", Tenant: tenant, ZA: za, Tokens: toks, Zone: zone, RO: ro, Reg: reg, Rots: rots, Queries: qs}
		_ = aw.Write(ac)
		_ = cw.Write(cc)
	}
	if err := aw.Close(); err != nil {
		res.Fatal = err.Error()
	}
	if err := cw.Close(); err != nil {
		res.Fatal = err.Error()
	}
	res.AddExtra("c12_replay_cases_generated", idx)
	if os.Getenv("VERIF_OUT_GEN") != "" { // run in the same `go test` invocation as TestRecord: own result file
		t.Setenv("VERIF_OUT", os.Getenv("VERIF_OUT_GEN"))
	}
	res.Write(t)
}

type expLine struct {
	Idx int     `json:"idx"`
	S   [][]int `json:"S"`
}

func sameSet(a, b []int) bool {
	if len(a) != len(b) {
		return false
	}
	x := append([]int(nil), a...)
	y := append([]int(nil), b...)
	sort.Ints(x)
	sort.Ints(y)
	for i := range x {
		if x[i] != y[i] {
			return false
		}
	}
	return true
}

// TestCompare runs the real code on every concrete case and compares with the member sets TLC
// computed from the rank-compressed inputs ($VERIF_IN = TLC's output).
func TestCompare(t *testing.T) {
	in, concPath := os.Getenv("VERIF_IN"), os.Getenv("VERIF_CONCRETE")
	if in == "" || concPath == "" {
		t.Skip("VERIF_IN / VERIF_CONCRETE not set")
	}
	res := &abs.Result{}
	exp := map[int][][]int{}
	err := abs.ReadNDJSON(in, func(line []byte) error {
		var e expLine
		if err := json.Unmarshal(line, &e); err != nil {
			return err
		}
		exp[e.Idx] = e.S
		return nil
	})
	if err != nil {
		res.Fatal = err.Error()
		res.Write(t)
		return
	}
	differing := 0
	err = abs.ReadNDJSON(concPath, func(line []byte) error {
		var c concCase
		if err := json.Unmarshal(line, &c); err != nil {
			return err
		}
		want, ok := exp[c.Idx]
		if !ok {
			return fmt.Errorf("case %d has no expected answers", c.Idx)
		}
		got, err := realAnswers(c)
		if err != nil {
			res.Mismatch(abs.Mismatch{Sig: "replay:" + c.Kind + " error", Case: c, Got: err.Error(), Want: want})
			return nil
		}
		if len(got) != len(want) {
			return fmt.Errorf("case %d: %d answers, %d expected", c.Idx, len(got), len(want))
		}
		res.Cases++
		nontrivial := false
		for j := range got {
			if !sameSet(got[j], want[j]) {
				lb := ""
				if c.Queries[j].L > 0 {
					lb = " lookback"
				}
				res.Mismatch(abs.Mismatch{Sig: "replay:" + c.Kind + lb + " members differ from the walk of ShuffleShard.tla", Case: c,
					Got: map[string]any{"query": c.Queries[j], "members": got[j]}, Want: want[j]})
			}
			if c.Queries[j].Size > 0 && len(got[j]) > 0 && len(got[j]) < len(c.Tokens) {
				nontrivial = true
			}
			if j > 0 && c.Queries[j].L > 0 && c.Queries[j-1].L == 0 && len(got[j]) > len(got[j-1]) {
				differing++
			}
		}
		if nontrivial {
			res.Nontrivial++
		}
		if res.Cases%41 == 1 {
			res.Sample(map[string]any{"replay_case": c.Idx, "kind": c.Kind, "tenant": c.Tenant, "answers": got})
		}
		return nil
	})
	if err != nil {
		res.Fatal = err.Error()
	}
	res.AddExtra("c12_replay_lookback_extended", differing)
	res.Write(t)
}
