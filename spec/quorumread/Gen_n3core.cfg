CONSTANTS
  MaxN = 3
  NSet = {1, 2, 3}
  MaxZ = 3
  Modes = {"default", "zone"}
  MinHedge = {0, 3}
  Preds = {"nottransient"}
  GenCancel = TRUE
  NoCancels = {TRUE, FALSE}
INIT GInit
NEXT GNext
INVARIANTS TypeOK NoRace OneInFlight OnlySuccessful QuorumBacked ErrWhenExceeded AtMostOneCall Minimised CleanupSafe CleanupExactlyOnce UnusedCancelled ReturnedNotCancelled PlainAllCancelled Emit
CHECK_DEADLOCK FALSE
