package c08

import (
	"encoding/json"
	"errors"
	"os"
	"path/filepath"
	"testing"

	"github.com/grafana/dskit/ring"

	"verifharness/internal/abs"
)

type fileCase struct {
	M0   string `json:"m0"`
	T0   string `json:"t0"`
	At   string `json:"at"`
	Main string `json:"main"`
}

// TestTokensFile replays every way spec/lifecycler/TokensFile.tla lets Tokens.StoreToFile end
// (completed, or aborted at one of its stages through the failpoints of build tag verif) and
// compares what LoadTokensFromFile finds afterwards with what the specification says.
func TestTokensFile(t *testing.T) {
	in := os.Getenv("VERIF_IN")
	if in == "" {
		t.Skip("VERIF_IN not set")
	}
	res := &abs.Result{}
	defer res.Write(t)
	defer func() { ring.VerifFailpoint = nil }()
	oldT := ring.Tokens{1, 5, 4294967295}
	newT := ring.Tokens{0, 7, 4294967294, 4294967295}
	seen := map[fileCase]bool{}
	err := abs.ReadNDJSON(in, func(line []byte) error {
		var c fileCase
		if err := json.Unmarshal(line, &c); err != nil {
			return err
		}
		if seen[c] {
			return nil
		}
		seen[c] = true
		res.Cases++
		dir, err := os.MkdirTemp("", "verif-tf-")
		if err != nil {
			return err
		}
		defer os.RemoveAll(dir)
		path := filepath.Join(dir, "tokens.json")
		ring.VerifFailpoint = nil
		if c.M0 == "old" {
			if err := oldT.StoreToFile(path); err != nil {
				return err
			}
		}
		if c.T0 == "full" { // a stale temporary file of an earlier aborted write
			b, _ := ring.Tokens{9, 10}.Marshal()
			if err := os.WriteFile(path+".tmp", b, 0o644); err != nil {
				return err
			}
		}
		if c.At != "" {
			res.Nontrivial++
			ring.VerifFailpoint = func(p string) error {
				if p == "tokens.store."+c.At {
					return errors.New("verif: abort at " + p)
				}
				return nil
			}
		}
		serr := newT.StoreToFile(path)
		ring.VerifFailpoint = nil
		got := "corrupt"
		lt, lerr := ring.LoadTokensFromFile(path)
		switch {
		case lerr != nil && os.IsNotExist(lerr):
			got = "none"
		case lerr == nil && lt.Equals(append(ring.Tokens{}, oldT...)) && len(lt) == len(oldT):
			got = "old"
		case lerr == nil && lt.Equals(append(ring.Tokens{}, newT...)) && len(lt) == len(newT):
			got = "new"
		}
		if got != c.Main || (serr == nil) != (c.At == "") {
			res.Mismatch(abs.Mismatch{Sig: "tokensfile abort=" + c.At + " before=" + c.M0 + " found=" + got, Case: c,
				Got:  map[string]any{"file": got, "store_error": serr != nil},
				Want: map[string]any{"file": c.Main, "store_error": c.At != ""}})
		}
		res.Sample(c)
		return nil
	})
	if err != nil {
		res.Fatal = err.Error()
	}
}
