CONSTANTS
  N = 4
  MaxB = 4
  WithInit = TRUE
  CanonInit = FALSE
  SelfEdgeChecked = TRUE
  EmitCases = FALSE
INIT Init
NEXT Next
VIEW view
INVARIANTS TypeOK GraphAcyclic TrConsistent InitOrder InitExactlyNeeded InitProgress ProjectionLemma Emit
PROPERTIES CycleRejected
CHECK_DEADLOCK FALSE
