\* C03 instance ring, thorough: all triples of single-id descriptors over all states (35^3), every law; convergence cases emitted
CONSTANTS
  N = 1
  M = 2
  Shared = FALSE
  TsSet = {1, 2}
  LiveSt = {"ACTIVE", "LEAVING", "PENDING", "JOINING"}
  Arity = 3
  EmitConv = TRUE
INIT Init
NEXT Next
INVARIANTS PairLaws TripleLaws RawLaws EmitConvergence
CHECK_DEADLOCK FALSE
