#!/bin/bash
# confirm_prop.sh <prop lower e.g. c01> <PROP> <demo target> <pkgs...>  : confirms m1..m3 of /tmp/mut_<prop>_a
p=$1; P=$2; demo=$3; shift 3
for i in 1 2 3; do /verif/.prompts/confirm_mut.sh /tmp/mut_${p}_a MUTANTS/m$i $P-a$i $P $demo "$@"; done
