CONSTANTS
  N = @@N@@
  M = @@M@@
  Shared = TRUE
  NRep = @@NREP@@
INIT Init
NEXT Next
INVARIANTS Accepted InvTokenUnique InvLeftHasNoTokens
POSTCONDITION Complete
CHECK_DEADLOCK FALSE
