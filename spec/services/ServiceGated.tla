---------------------------- MODULE ServiceGated ----------------------------
(***************************************************************************)
(* Service.tla at GATE granularity: the behaviours that a harness can      *)
(* replay deterministically on the real code inside testing/synctest.      *)
(*                                                                         *)
(* Gates (points where the harness holds a goroutine of the code): the     *)
(* three service functions, listener callbacks, and the hook               *)
(* services.VerifYield("StopAsync.checked") between the two critical       *)
(* sections of StopAsync.  An ENVIRONMENT step is a harness call or the    *)
(* release of one gate.  After it, the code runs by itself until every     *)
(* goroutine is blocked (synctest.Wait()): Settle applies Service.tla's    *)
(* own internal operators until none is enabled.  A step of this module is *)
(*        sv' = Settle(EnvOp(sv))                                          *)
(* i.e. a finite sequence of Service.tla steps - a refinement of Service   *)
(* by construction.  ServiceConfl.tla checks with TLC that the order in    *)
(* which Settle picks the internal steps does not matter.                  *)
(*                                                                         *)
(* Two environment steps are restricted because Go resolves them by a coin *)
(* flip the harness cannot steer (select with two ready cases): the remove *)
(* function of a listener is called only when the listener's queue is      *)
(* empty, and a waiter's context is cancelled only while it still waits.   *)
(* The unrestricted behaviour is covered by Service.tla/TLC and by the     *)
(* recorded traces (ServiceTrace.tla).                                     *)
(***************************************************************************)
EXTENDS Service, Json

VARIABLE hist          \* history: the labels of the environment steps taken so far (not in the VIEW)
gvars == <<sv, hist>>

IntEn(s) ==
  \/ MCallStartEn(s) \/ MAfterStartEn(s) \/ MToRunningEn(s) \/ MCallRunEn(s) \/ MToStoppingEn(s)
  \/ MCancelEn(s) \/ MCallStopEn(s) \/ MFinalEn(s)
  \/ (s.mode # "any" /\ RunFnReturnEn(s, "none"))
  \/ \E l \in Lis : LRecvEn(s, l) \/ LExitEn(s, l) \/ RemoveDeleteEn(s, l) \/ RemoveWaitEn(s, l)
  \/ \E w \in Waiters : AwaitWakeEn(s, w) \/ AwaitFailEn(s, w)

IntStep(s) ==
  CASE MCallStartEn(s)  -> MCallStart(s)
    [] MAfterStartEn(s) -> MAfterStart(s)
    [] MToRunningEn(s)  -> MToRunning(s)
    [] MCallRunEn(s)    -> MCallRun(s)
    [] s.mode # "any" /\ RunFnReturnEn(s, "none") -> RunFnReturn(s, "none")
    [] MToStoppingEn(s) -> MToStopping(s)
    [] MCancelEn(s)     -> MCancel(s)
    [] MCallStopEn(s)   -> MCallStop(s)
    [] MFinalEn(s)      -> MFinal(s)
    [] OTHER ->
       IF \E l \in Lis : RemoveDeleteEn(s, l) THEN RemoveDelete(s, CHOOSE l \in Lis : RemoveDeleteEn(s, l))
       ELSE IF \E l \in Lis : LRecvEn(s, l) THEN LRecv(s, CHOOSE l \in Lis : LRecvEn(s, l))
       ELSE IF \E l \in Lis : LExitEn(s, l) THEN LExit(s, CHOOSE l \in Lis : LExitEn(s, l))
       ELSE IF \E l \in Lis : RemoveWaitEn(s, l) THEN RemoveWait(s, CHOOSE l \in Lis : RemoveWaitEn(s, l))
       ELSE IF \E w \in Waiters : AwaitWakeEn(s, w) THEN AwaitWake(s, CHOOSE w \in Waiters : AwaitWakeEn(s, w))
       ELSE AwaitFail(s, CHOOSE w \in Waiters : AwaitFailEn(s, w))

RECURSIVE Settle(_)
Settle(s) == IF IntEn(s) THEN Settle(IntStep(s)) ELSE s

(* what the harness can see through the exported API once everything is blocked *)
\* (the running function of an idle / timer service is dskit's: the gate of a timer service is its iteration function)
Gate(s) == CASE s.mpc = "inStart" -> "start" [] s.mpc = "inRun" /\ s.mode = "any" -> "run" [] s.mpc = "inStop" -> "stop"
             [] s.mpc = "inRun" /\ s.tpc = "iter" -> "iter" [] OTHER -> "none"
Obs(s) ==
  [ st   |-> s.state, fail |-> s.failure,
    ctx  |-> IF s.cancelFn = "nil" THEN "nil" ELSE IF s.ctxDone THEN "done" ELSE "live",
    fns  |-> s.fnlog, gate |-> Gate(s), sctx |-> s.stopCtx, sarg |-> s.stopArg,
    starts |-> s.startRes, pan |-> s.nilCalls, it |-> s.iters,
    spc  |-> [c \in Callers |-> s.spc[c]],
    lis  |-> [l \in Lis |-> [d |-> s.ldeliv[l], cb |-> s.lgo[l] = "cb", rm |-> s.rpc[l], st |-> s.lst[l]]],
    w    |-> [w \in Waiters |-> [pc |-> s.wpc[w], r |-> s.wres[w]]] ]

(* environment steps: a = <<label, argument>> *)
EnvEn(s, a) ==
  CASE a[1] = "StartAsync"   -> StartAsyncEn(s)
    [] a[1] = "ParentCancel" -> ParentCancelEn(s)
    [] a[1] = "StartRet"     -> StartFnReturnEn(s, a[2])
    [] a[1] = "RunRet"       -> RunFnReturnEn(s, a[2]) /\ s.mode = "any"
    [] a[1] = "StopRet"      -> StopFnReturnEn(s, a[2])
    [] a[1] = "Tick"         -> TickEn(s) /\ ~s.ctxDone     \* the harness lets a tick happen only while nothing else is ready
    [] a[1] = "IterRet"      -> IterReturnEn(s, a[2])
    [] a[1] = "StopCall"     -> StopCheckEn(s, a[2])
    [] a[1] = "StopRelease"  -> StopSwitchEn(s, a[2])
    [] a[1] = "AddListener"  -> AddListenerEn(s, a[2])
    [] a[1] = "Remove"       -> RemoveCloseEn(s, a[2]) /\ s.lq[a[2]] = <<>>
    [] a[1] = "CbReturn"     -> LReturnEn(s, a[2])
    [] a[1] = "Await"        -> AwaitCallEn(s, a[2])
    [] a[1] = "AwaitCancel"  -> AwaitCancelEn(s, a[2])

EnvOp(s, a) ==
  CASE a[1] = "StartAsync"   -> StartAsync(s)
    [] a[1] = "ParentCancel" -> ParentCancel(s)
    [] a[1] = "StartRet"     -> StartFnReturn(s, a[2])
    [] a[1] = "RunRet"       -> RunFnReturn(s, a[2])
    [] a[1] = "StopRet"      -> StopFnReturn(s, a[2])
    [] a[1] = "Tick"         -> Tick(s)
    [] a[1] = "IterRet"      -> IterReturn(s, a[2])
    [] a[1] = "StopCall"     -> StopCheck(s, a[2])
    [] a[1] = "StopRelease"  -> StopSwitch(s, a[2])
    [] a[1] = "AddListener"  -> AddListener(s, a[2])
    [] a[1] = "Remove"       -> RemoveClose(s, a[2])
    [] a[1] = "CbReturn"     -> LReturn(s, a[2])
    [] a[1] = "Await"        -> AwaitCall(s, a[2])
    [] a[1] = "AwaitCancel"  -> AwaitCancel(s, a[2])

GInit == \E p \in Presents, m \in RunModes :
           /\ sv = InitRec(p, m)
           /\ hist = << <<"New", p \cup {"mode=" \o m}>> >>

GStep(a) == /\ EnvEn(sv, a)
            /\ sv' = Settle(EnvOp(sv, a))
            /\ hist' = Append(hist, a)

GNext == \/ GStep(<<"StartAsync", 0>>) \/ GStep(<<"ParentCancel", 0>>) \/ GStep(<<"Tick", 0>>)
         \/ \E e \in {"none", "estart"} : GStep(<<"StartRet", e>>)
         \/ \E e \in {"none", "erun"} : GStep(<<"RunRet", e>>) \/ GStep(<<"IterRet", e>>)
         \/ \E e \in {"none", "estop"} : GStep(<<"StopRet", e>>)
         \/ \E c \in Callers : GStep(<<"StopCall", c>>) \/ GStep(<<"StopRelease", c>>)
         \/ \E l \in Lis : GStep(<<"AddListener", l>>) \/ GStep(<<"Remove", l>>) \/ GStep(<<"CbReturn", l>>)
         \/ \E w \in Waiters : GStep(<<"Await", w>>) \/ GStep(<<"AwaitCancel", w>>)

GView == sv

\* One line per transition of the gated graph: the labels of the (BFS) path to the source state + the
\* transition, and the observation the specification demands after it.  Every prefix of a printed path
\* is itself a printed path (BFS tree edges), so the lines form a trie that gives the demanded
\* observation after EVERY step of every path; the harness replays the maximal paths.
EmitTransition == PrintT(ToJson([h |-> hist', o |-> Obs(sv')]))
EmitInit == Len(hist) > 1 \/ PrintT(ToJson([h |-> hist, o |-> Obs(sv)]))
\* F4: the schedule that makes the code call a nil serviceCancel, printed when TLC finds it
NoNilCancelCallEmit == sv.nilCalls = 0 \/ ~PrintT(ToJson([h |-> hist, o |-> Obs(sv)]))

Quiescent == ~IntEn(sv)

(* The abstract service of AbsService.tla (used by Manager.tla) simulates this module: every step  *)
(* changes the abstract projection as one abstract operator would (or not at all) and emits        *)
(* exactly that operator's listener events.  Checked for RunModes = {"any"}, all functions present. *)
Abs == INSTANCE AbsService
AbsOf(s) == [state |-> s.state,
             ctx   |-> IF s.cancelFn = "nil" THEN "nil" ELSE IF s.ctxDone THEN "done" ELSE "live",
             gate  |-> Gate(s), merr |-> IF Gate(s) = "stop" THEN s.merr ELSE "none", fail |-> s.failure]
AbsSim == [][ LET x == AbsOf(sv)
                  y == AbsOf(sv')
                  evs == SubSeq(sv'.thist, Len(sv.thist) + 1, Len(sv'.thist))
              IN (x = y /\ evs = <<>>) \/ [a |-> y, evs |-> evs] \in Abs!AbsSuccessors(x, sv.parentDone) ]_sv
=============================================================================
