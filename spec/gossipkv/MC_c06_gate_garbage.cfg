\* C06 thorough (worker gates + malformed packets): as MC_c06_gate with clock 0 and 2 CAS, plus one
\* malformed packet; an undecodable value inside an intact envelope occupies the gated worker / a
\* channel slot and changes nothing.
CONSTANTS
  N = 2
  NI = 2
  NK = 1
  MaxClock = 0
  Retention = 0
  T = 1
  MaxCas = 2
  MaxFaults = 1
  LiveStates = {"ACTIVE"}
  WatchNodes = {1, 2}
  HoldNodes = {}
  AllowRestart = FALSE
  AllowGarbage = TRUE
  AllowPartition = FALSE
  AllowJunkPP = FALSE
  GateNodes = {1}
  InboxCap = 1
  VersionTest = TRUE
  KeyTest = TRUE
  MaxDel = 0
  ObsoleteTimeout = 1
  LockKeys = {}
  ConsumeNet = FALSE
  Ideal = TRUE
  Ghost = TRUE
  Record = FALSE
  Quiesce = FALSE
  RunDepth = 0
  QRounds = 2
SPECIFICATION Spec
VIEW view
INVARIANTS TypeOK TombstonesInvisible InvalidationSafe NoInventedContent SentIsWritten WatcherNeverStale PrefixWatcherNeverStale VersionCountsChanges
PROPERTIES TombstonesForwarded NoResurrection GCOnlyExpired NoExpiredTombstoneStored OnlyChangesForwarded DeletedStaysDeleted RemovedOnlyWhenObsolete DeletedNotRevived
CHECK_DEADLOCK FALSE
