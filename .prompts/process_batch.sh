#!/bin/bash
# process_batch.sh <Cxx> <tag>: confirm the mutants a writer left in /tmp/mut_<cxx>_<tag>/MUTANTS/m*, copy the confirmed
# ones to /verif/seeded/<Cxx>-<tag><i>/, run the property's check against each (quick, then thorough if missed), remove the worktree.
PID=$1; TAG=$2; lc=$(echo $PID | tr A-Z a-z)
WT=/tmp/mut_${lc}_${TAG}; LOG=/tmp/batch_${PID}_${TAG}.log; : > $LOG
cd /verif
for M in $(ls -d $WT/MUTANTS/m* 2>/dev/null | sort); do
  i=$(basename $M | tr -d m); ID=$PID-$TAG$i
  f=$(grep -m1 '^diff --git' $M/patch.diff | sed 's#diff --git a/\(.*\) b/.*#\1#'); dir=$(dirname $f)
  hint=$(grep -o "[a-z/_]*zz_[A-Za-z0-9_]*test.go" $M/README.md | head -1); [ -n "$hint" ] && [ "$(dirname $hint)" != "." ] && dir=$(dirname $hint)
  top=$(echo $dir | cut -d/ -f1); PKGS="./$top/..."
  [ "$top" = "kv" ] && PKGS="./kv/... ./ring/"
  ls $M/demo*_test.go >/dev/null 2>&1 || { for g in $M/*_test.go; do [ -f "$g" ] && cp $g $M/demo_test.go && break; done; }
  export CONFIRM_TAGS=; grep -q "Verif" $M/demo_test.go && export CONFIRM_TAGS=verif
  echo "### $ID dir=$dir pkgs=$PKGS tags=$CONFIRM_TAGS" >> $LOG
  bash .prompts/confirm_mut.sh $WT MUTANTS/m$i $ID $PID $dir/zz_demo_test.go $PKGS >> $LOG 2>&1
  if [ -f seeded/$ID/meta.json ]; then
    bin/seedtest $ID quick 1 >> $LOG 2>&1
    python3 -c "import json,sys; sys.exit(0 if json.load(open('seeded/$ID/result.json'))['caught'] else 1)" || bin/seedtest $ID thorough 1 >> $LOG 2>&1
  fi
done
git -C /repo worktree remove --force $WT >> $LOG 2>&1
echo "### done $PID $TAG" >> $LOG
