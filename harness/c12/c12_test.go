// Package c12 binds spec/shuffleshard to the real shuffle sharding of ring.Ring and
// ring.PartitionRing (C12).
//
// TestRecord      code -> spec: runs histories of ring changes on real clients under a synctest
//
//	bubble clock and writes one ndjson event per ring version / query batch; TLC
//	validates the file against ShardHistory.tla (ShardHistoryTrace.tla).
//
// TestGenCases /  spec -> code cross-check of the white-box walk (ShuffleShard.tla): concretised
// TestCompare     cases with the code's real start sequences; TLC evaluates Shard/PShard on them.
// TestConcretise  replays a TLC counterexample of the white-box model on the real code.
package c12

import (
	"context"
	"fmt"
	"math"
	"math/rand"
	"os"
	"sort"
	"sync"
	"testing"
	"testing/synctest"
	"time"

	"verifharness/internal/abs"

	"github.com/go-kit/log"
	"github.com/grafana/dskit/kv"
	"github.com/grafana/dskit/ring"
	shardUtil "github.com/grafana/dskit/ring/shard"
	"github.com/grafana/dskit/services"
)

// ---------------------------------------------------------------------------------------------
// a kv.Client whose watchers receive pushed values (the long-lived client follows ring changes
// through its own watch loop, so its subring caches are invalidated by the real code path)

type pushKV struct {
	mu   sync.Mutex
	val  any
	subs []chan any
}

var _ kv.Client = (*pushKV)(nil)

func (p *pushKV) List(context.Context, string) ([]string, error) { return nil, nil }
func (p *pushKV) Get(context.Context, string) (any, error) {
	p.mu.Lock()
	defer p.mu.Unlock()
	return p.val, nil
}
func (p *pushKV) Delete(context.Context, string) error { return nil }
func (p *pushKV) CAS(context.Context, string, func(in any) (out any, retry bool, err error)) error {
	return fmt.Errorf("pushKV: CAS not supported")
}
func (p *pushKV) WatchKey(ctx context.Context, _ string, f func(any) bool) {
	ch := make(chan any, 64)
	p.mu.Lock()
	p.subs = append(p.subs, ch)
	p.mu.Unlock()
	for {
		select {
		case <-ctx.Done():
			return
		case v := <-ch:
			if !f(v) {
				return
			}
		}
	}
}
func (p *pushKV) WatchPrefix(ctx context.Context, _ string, _ func(string, any) bool) { <-ctx.Done() }
func (p *pushKV) Push(v any) {
	p.mu.Lock()
	p.val = v
	subs := append([]chan any(nil), p.subs...)
	p.mu.Unlock()
	for _, ch := range subs {
		ch <- v
	}
}

// ---------------------------------------------------------------------------------------------
// the harness's own picture of the ring (what it told the code)

type inst struct {
	id     int
	zone   int
	tokens []uint32
	ro     bool
	reg    int64 // unix seconds
	rots   int64
	state  ring.InstanceState // not part of the specification's view: a shard does not depend on it
}

type instWorld struct {
	insts  map[int]*inst
	nextID int
	za     bool
}

func instName(id int) string { return fmt.Sprintf("i-%03d", id) }
func zoneName(z int) string  { return fmt.Sprintf("zone-%d", z) }

func (w *instWorld) ids() []int {
	out := make([]int, 0, len(w.insts))
	for id := range w.insts {
		out = append(out, id)
	}
	sort.Ints(out)
	return out
}

func (w *instWorld) zones() []int {
	seen := map[int]bool{}
	for _, in := range w.insts {
		seen[in.zone] = true
	}
	out := make([]int, 0, len(seen))
	for z := range seen {
		out = append(out, z)
	}
	sort.Ints(out)
	return out
}

// desc builds a fresh descriptor (the code keeps and edits the one it is given).
func (w *instWorld) desc(heartbeat time.Time) *ring.Desc {
	d := ring.NewDesc()
	for _, id := range w.ids() {
		in := w.insts[id]
		toks := append([]uint32(nil), in.tokens...)
		d.Ingesters[instName(id)] = ring.InstanceDesc{
			Id: instName(id), Addr: instName(id), Timestamp: heartbeat.Unix(), State: in.state, Tokens: toks,
			Zone: zoneName(in.zone), RegisteredTimestamp: in.reg, ReadOnly: in.ro, ReadOnlyUpdatedTimestamp: in.rots,
		}
	}
	return d
}

func (w *instWorld) usedTokens() map[uint32]bool {
	used := map[uint32]bool{}
	for _, in := range w.insts {
		for _, t := range in.tokens {
			used[t] = true
		}
	}
	return used
}

// freshTokens draws n unused tokens; `tight` packs them into a small range (many ties of the
// random starts with the same successor, adjacent tokens, tokens 0 and MaxUint32).
func freshTokens(rnd *rand.Rand, n int, used map[uint32]bool, tight bool) []uint32 {
	var out []uint32
	for len(out) < n {
		var v uint32
		if tight {
			switch rnd.Intn(4) {
			case 0:
				v = uint32(rnd.Intn(8))
			case 1:
				v = ^uint32(0) - uint32(rnd.Intn(8))
			default:
				v = rnd.Uint32()
			}
		} else {
			v = rnd.Uint32()
		}
		if used[v] {
			continue
		}
		used[v] = true
		out = append(out, v)
	}
	sort.Slice(out, func(i, j int) bool { return out[i] < out[j] })
	return out
}

// randState: mostly ACTIVE; the shard of an identifier does not depend on instance states.
func randState(rnd *rand.Rand) ring.InstanceState {
	switch rnd.Intn(10) {
	case 0:
		return ring.LEAVING
	case 1:
		return ring.JOINING
	case 2:
		return ring.PENDING
	}
	return ring.ACTIVE
}

func ringCfg(za bool, cacheDisabled bool) ring.Config {
	return ring.Config{ReplicationFactor: 1, ZoneAwarenessEnabled: za, HeartbeatTimeout: 10000 * time.Hour, SubringCacheDisabled: cacheDisabled}
}

func membersOf(rr ring.ReadRing, ids []int) ([]int, error) {
	out := []int{}
	for _, id := range ids {
		if rr.HasInstance(instName(id)) {
			out = append(out, id)
		}
	}
	if n := rr.InstancesCount(); n != len(out) {
		return out, fmt.Errorf("subring reports %d instances, %d of the registered ones are members", n, len(out))
	}
	return out, nil
}

// ---------------------------------------------------------------------------------------------
// trace events (spec/shuffleshard/ShardHistoryTrace.tla)

type evMember struct {
	ID   int     `json:"id"`
	Zone *int    `json:"zone,omitempty"`
	RO   *bool   `json:"ro,omitempty"`
	St   *string `json:"st,omitempty"`
}
type evShard struct {
	ID   string `json:"id"`
	Size int    `json:"size"`
	S    []int  `json:"S"`
}
type evLookback struct {
	ID   string `json:"id"`
	Size int    `json:"size"`
	L    int    `json:"L"`
	S    []int  `json:"S"`
}
type evSub struct {
	Mem  []int  `json:"mem"` // members of the subring the shard was taken from
	ID   string `json:"id"`
	Size int    `json:"size"`
	S    []int  `json:"S"`
}
type event struct {
	E         string       `json:"e"`
	Kind      string       `json:"kind,omitempty"`
	ZA        *bool        `json:"za,omitempty"`
	T         *int64       `json:"t,omitempty"`
	Mem       []evMember   `json:"mem,omitempty"`
	Now       *int64       `json:"now,omitempty"`
	Client    int          `json:"client,omitempty"`
	Late      int          `json:"late"` // 0: asked at now+1/4, before the change of that second; 1: right after the change stamped now
	Shards    []evShard    `json:"shards"`
	Lookbacks []evLookback `json:"lookbacks"`
	Subs      []evSub      `json:"subs,omitempty"` // "sq" events
}

// concRing is the concrete content of one logged ring version (side file $VERIF_TRACE_CONCRETE,
// never read by TLC): what bin/check attaches to a rejected answer so that it can be replayed.
type concMember struct {
	ID     int      `json:"id"`
	Zone   string   `json:"zone,omitempty"`
	Tokens []uint32 `json:"tokens"`
	RO     bool     `json:"read_only,omitempty"`
	Reg    int64    `json:"registered_ts,omitempty"`
	Rots   int64    `json:"read_only_updated_ts,omitempty"`
	State  string   `json:"state,omitempty"`
	Sts    int64    `json:"state_ts,omitempty"`
}
type concRing struct {
	Line      int          `json:"line"` // line of the "ring" event in the trace
	Kind      string       `json:"kind"`
	ZA        bool         `json:"zone_awareness"`
	Stamp     int64        `json:"stamp"`
	EpochUnix int64        `json:"epoch_unix"` // trace second s = unix second epoch_unix + s; queries are issued at now + 250ms
	Members   []concMember `json:"members"`
}

type recorder struct {
	w        *abs.NDJSONWriter
	cw       *abs.NDJSONWriter
	res      *abs.Result
	rnd      *rand.Rand
	epoch    time.Time
	corrupt  string // VERIF_CORRUPT: self-test of the validator
	nq       int
	versions int
	fatal    string
	// counters for evidence
	extended, exhausted, readonly             int
	subq, subProper, multi, rejoin, stateOnly int
}

func (r *recorder) sec(t time.Time) int64 { return int64(t.Sub(r.epoch) / time.Second) }

func (r *recorder) emit(e event) {
	if e.Shards == nil {
		e.Shards = []evShard{}
	}
	if e.Lookbacks == nil {
		e.Lookbacks = []evLookback{}
	}
	if err := r.w.Write(e); err != nil && r.fatal == "" {
		r.fatal = err.Error()
	}
}

// sleepUntil advances the bubble clock to epoch + d.
func (r *recorder) sleepUntil(d time.Duration) {
	if dt := r.epoch.Add(d).Sub(time.Now()); dt > 0 {
		time.Sleep(dt)
	}
}

// hugeSize is what the trace shows for a request of math.MaxInt instances (TLC integers are 32-bit and
// every size beyond 2n + zones is the same request to the specification).
const hugeSize = 1000000

func codeSize(size int) int {
	if size == hugeSize {
		return math.MaxInt
	}
	return size
}

func memKey(m []int) string { return fmt.Sprint(m) }

func sizesFor(n, zones, maxSize int, rnd *rand.Rand) []int {
	set := map[int]bool{hugeSize: true}
	if maxSize > 0 {
		for s := 0; s <= maxSize; s++ {
			set[s] = true
		}
	} else if n <= 7 {
		for s := 0; s <= n+2; s++ {
			set[s] = true
		}
	} else {
		for _, s := range []int{0, 1, zones, zones + 1, 2*zones + 1, n - 1, n, n + 3} {
			set[s] = true
		}
		set[2+rnd.Intn(n-2)] = true
		set[2+rnd.Intn(n-2)] = true
	}
	out := make([]int, 0, len(set))
	for s := range set {
		out = append(out, s)
	}
	sort.Ints(out)
	return out
}

var tenantPool = []string{"t-0", "t-1", "t-2", "t-3", "t-4", "t-5", "t-6", "t-7", "tenant-a", "tenant-b", "anonymous", "fake", "1", "2", "team/x", "t-100", "t-101", "user-1"}

func pickTenants(rnd *rand.Rand, k int) []string {
	p := rnd.Perm(len(tenantPool))
	out := make([]string, 0, k)
	for i := 0; i < k && i < len(p); i++ {
		out = append(out, tenantPool[p[i]])
	}
	sort.Strings(out)
	return out
}

// ---------------------------------------------------------------------------------------------
// instance-ring histories

type instPlan struct {
	n, tokens, zones int
	za               bool
	tight            bool
	events           int
	tenants          int
	roAtStart        int   // number of read-only instances at the start
	zoneSizes        []int // initial zone populations (unbalanced zones); nil: round robin over `zones`
	oversize         bool  // ask for every size up to 2n + zones
}

// The epoch of a history in seconds on the trace's own axis: initial instances are registered at
// second 1 ("long ago"), the first change can happen at second startSec.
const startSec = 20

func (r *recorder) instHistory(p instPlan) {
	rnd := r.rnd
	r.epoch = time.Now()
	w := &instWorld{insts: map[int]*inst{}, nextID: 1, za: p.za}
	used := map[uint32]bool{}
	abssec := func(s int64) int64 { return r.epoch.Unix() + s }
	zoneOf := func(i int) int { return 1 + i%p.zones }
	if p.zoneSizes != nil {
		var zs []int
		for z, k := range p.zoneSizes {
			for j := 0; j < k; j++ {
				zs = append(zs, z+1)
			}
		}
		zoneOf = func(i int) int { return zs[i] }
	}
	for i := 0; i < p.n; i++ {
		z := zoneOf(i)
		in := &inst{id: w.nextID, zone: z, tokens: freshTokens(rnd, p.tokens, used, p.tight), reg: abssec(1)}
		if rnd.Intn(12) == 0 {
			in.reg = 0 // registration time unknown (old lifecycler): never "inside the window"
		}
		in.state = randState(rnd)
		w.insts[in.id] = in
		w.nextID++
	}
	ids := w.ids()
	for k := 0; k < p.roAtStart && k < len(ids); k++ {
		in := w.insts[ids[rnd.Intn(len(ids))]]
		in.ro = true
		if rnd.Intn(3) > 0 {
			in.rots = abssec(2)
		}
	}
	tenants := pickTenants(rnd, p.tenants)
	za := p.za
	r.emit(event{E: "reset", Kind: "inst", ZA: &za})

	store := &pushKV{val: w.desc(r.epoch)}
	c1, err := ring.NewWithStoreClientAndStrategy(ringCfg(p.za, false), "verif", "ring", store, ring.NewDefaultReplicationStrategy(), nil, log.NewNopLogger())
	if err != nil {
		r.fatal = "NewRing: " + err.Error()
		return
	}
	if err := services.StartAndAwaitRunning(context.Background(), c1); err != nil {
		r.fatal = "start ring: " + err.Error()
		return
	}
	defer func() { _ = services.StopAndAwaitTerminated(context.Background(), c1) }()
	synctest.Wait()

	emitRing := func(stamp int64) {
		var mem []evMember
		for _, id := range w.ids() {
			in := w.insts[id]
			z, ro := in.zone, in.ro
			mem = append(mem, evMember{ID: id, Zone: &z, RO: &ro})
		}
		r.emit(event{E: "ring", T: &stamp, Mem: mem})
		r.versions++
		if r.cw != nil {
			cr := concRing{Line: r.w.N, Kind: "inst", ZA: p.za, Stamp: stamp, EpochUnix: r.epoch.Unix()}
			for _, id := range w.ids() {
				in := w.insts[id]
				cr.Members = append(cr.Members, concMember{ID: id, Zone: zoneName(in.zone), Tokens: in.tokens, RO: in.ro, Reg: in.reg, Rots: in.rots})
			}
			_ = r.cw.Write(cr)
		}
	}
	emitRing(0)

	query := func(client, late int, rr *ring.Ring, now time.Time, tenants []string, lookbacks []int) {
		nowSec := r.sec(now)
		ids := w.ids()
		ev := event{E: "q", Now: &nowSec, Client: client, Late: late}
		maxSize := 0
		if p.oversize {
			maxSize = 2*len(ids) + len(w.zones())
		}
		sizes := sizesFor(len(ids), len(w.zones()), maxSize, rnd)
		plain := map[string]int{}
		for _, tn := range tenants {
			for _, size := range sizes {
				func() {
					defer func() {
						if x := recover(); x != nil {
							r.res.Mismatch(abs.Mismatch{Sig: "inst:panic ShuffleShard", Case: map[string]any{"tenant": tn, "size": size}, Got: fmt.Sprint(x), Want: "no panic"})
						}
					}()
					sub := rr.ShuffleShard(tn, codeSize(size))
					m, err := membersOf(sub, ids)
					if err != nil {
						r.res.Mismatch(abs.Mismatch{Sig: "inst:subring inconsistent", Case: map[string]any{"tenant": tn, "size": size}, Got: err.Error(), Want: "InstancesCount = members"})
					}
					// two sites that must agree: the exported size arithmetic and the shard actually built
					// (comparable when no zone runs out of eligible instances)
					if size > 0 && size != hugeSize {
						nz, minElig := 1, 0
						if p.za {
							nz = len(w.zones())
						}
						elig := map[int]int{}
						for _, id := range ids {
							if in := w.insts[id]; !in.ro {
								if p.za {
									elig[in.zone]++
								} else {
									elig[0]++
								}
							}
						}
						minElig = len(ids)
						if len(elig) < nz {
							minElig = 0
						}
						for _, c := range elig {
							minElig = min(minElig, c)
						}
						if want := shardUtil.ShuffleShardExpectedInstances(size, nz); shardUtil.ShuffleShardExpectedInstancesPerZone(size, nz) <= minElig && want != len(m) {
							r.res.Mismatch(abs.Mismatch{Sig: "inst:ShuffleShardExpectedInstances disagrees with ShuffleShard", Case: map[string]any{"tenant": tn, "size": size, "zones": nz}, Got: len(m), Want: want})
						}
					}
					ev.Shards = append(ev.Shards, evShard{ID: tn, Size: size, S: m})
					plain[fmt.Sprintf("%s/%d", tn, size)] = len(m)
					r.nq++
				}()
			}
			for _, L := range lookbacks {
				if late == 1 && tn != tenants[0] {
					break // right after a change: look-back answers for one identifier only
				}
				for _, size := range sizes {
					if len(sizes) > 8 && !p.oversize && rnd.Intn(2) == 0 {
						continue
					}
					func() {
						defer func() {
							if x := recover(); x != nil {
								r.res.Mismatch(abs.Mismatch{Sig: "inst:panic ShuffleShardWithLookback", Case: map[string]any{"tenant": tn, "size": size, "L": L}, Got: fmt.Sprint(x), Want: "no panic"})
							}
						}()
						sub := rr.ShuffleShardWithLookback(tn, codeSize(size), time.Duration(L)*time.Second, now)
						m, err := membersOf(sub, ids)
						if err != nil {
							r.res.Mismatch(abs.Mismatch{Sig: "inst:subring inconsistent", Case: map[string]any{"tenant": tn, "size": size, "L": L}, Got: err.Error(), Want: "InstancesCount = members"})
						}
						ev.Lookbacks = append(ev.Lookbacks, evLookback{ID: tn, Size: size, L: L, S: m})
						if n, ok := plain[fmt.Sprintf("%s/%d", tn, size)]; ok && len(m) > n {
							r.extended++
						}
						r.nq++
					}()
				}
			}
		}
		r.corruptMaybe(&ev)
		r.emit(ev)
		if client != 1 || late != 0 || len(lookbacks) == 0 {
			return
		}
		thorough := abs.Tier() == "thorough"
		// ---- shards of subrings of this version (SubQuery of ShardHistory.tla)
		type parent struct {
			rr  ring.ReadRing
			mem []int
		}
		var parents []parent
		seen := map[string]bool{}
		add := func(rr ring.ReadRing) {
			m, err := membersOf(rr, ids)
			if err != nil || seen[memKey(m)] {
				return
			}
			seen[memKey(m)] = true
			parents = append(parents, parent{rr, m})
		}
		func() {
			defer func() {
				if x := recover(); x != nil {
					r.res.Mismatch(abs.Mismatch{Sig: "inst:panic building a subring", Case: map[string]any{"tenant": tenants[0]}, Got: fmt.Sprint(x), Want: "no panic"})
				}
			}()
			add(rr.GetSubringForOperationStates(ring.WriteNoExtend)) // the ACTIVE instances
			for _, size := range sizes {                             // consecutive sizes: subrings one instance apart
				if size > 0 {
					add(rr.ShuffleShard(tenants[0], codeSize(size)))
				}
			}
			add(rr.ShuffleShardWithLookback(tenants[0], 2, time.Duration(lookbacks[0])*time.Second, now)) // may hold read-only members
		}()
		maxParents := 4
		if thorough {
			maxParents = 6
		}
		if len(parents) > maxParents {
			off := 1 + rnd.Intn(len(parents)-maxParents+1) // a window of consecutive shards, always with the state subring
			parents = append(parents[:1:1], parents[off:off+maxParents-1]...)
		}
		sev := event{E: "sq", Now: &nowSec, Client: client, Late: late}
		fev := event{E: "sq", Now: &nowSec, Client: 3, Late: late}
		subTenants := []string{tenants[len(tenants)-1]}
		if thorough {
			subTenants = append(subTenants, "sub-"+tenants[0])
		}
		for pi, pa := range parents {
			var subSizes []int
			if len(pa.mem) <= 7 {
				for s := 0; s <= len(pa.mem)+1; s++ {
					subSizes = append(subSizes, s)
				}
			} else {
				subSizes = []int{0, 1, len(w.zones()) + 1, len(pa.mem) / 2, len(pa.mem) - 1, len(pa.mem), hugeSize}
			}
			// an independently built ring that holds exactly the members of the subring
			var fresh *ring.Ring
			var stopFresh func()
			if pi == len(parents)-1 || (thorough && pi == 1) {
				d := w.desc(r.epoch)
				in := map[string]bool{}
				for _, id := range pa.mem {
					in[instName(id)] = true
				}
				for name := range d.Ingesters {
					if !in[name] {
						delete(d.Ingesters, name)
					}
				}
				if f, stop, err := abs.NewRing(d, ringCfg(p.za, true)); err == nil {
					fresh, stopFresh = f, stop
				}
			}
			for _, tn := range subTenants {
				for _, size := range subSizes {
					func() {
						defer func() {
							if x := recover(); x != nil {
								r.res.Mismatch(abs.Mismatch{Sig: "inst:panic ShuffleShard on a subring", Case: map[string]any{"tenant": tn, "size": size, "subring": pa.mem}, Got: fmt.Sprint(x), Want: "no panic"})
							}
						}()
						m, err := membersOf(pa.rr.ShuffleShard(tn, codeSize(size)), ids)
						if err != nil {
							r.res.Mismatch(abs.Mismatch{Sig: "inst:subring inconsistent", Case: map[string]any{"tenant": tn, "size": size, "subring": pa.mem}, Got: err.Error(), Want: "InstancesCount = members"})
						}
						sev.Subs = append(sev.Subs, evSub{Mem: pa.mem, ID: tn, Size: size, S: m})
						r.subq++
						if len(m) > 0 && len(m) < len(pa.mem) {
							r.subProper++
						}
						if fresh != nil {
							fm, _ := membersOf(fresh.ShuffleShard(tn, codeSize(size)), ids)
							fev.Subs = append(fev.Subs, evSub{Mem: pa.mem, ID: tn, Size: size, S: fm})
							r.subq++
						}
					}()
				}
			}
			if stopFresh != nil {
				stopFresh()
			}
		}
		if r.corrupt == "sub-drop" && r.nq >= 40 {
			for i := range sev.Subs {
				if len(sev.Subs[i].S) > 0 && sev.Subs[i].Size > 0 {
					sev.Subs[i].S = sev.Subs[i].S[1:]
					r.corrupt = ""
					break
				}
			}
		}
		if len(sev.Subs) > 0 {
			r.emit(sev)
		}
		if len(fev.Subs) > 0 {
			r.emit(fev)
		}
	}

	lastChange := int64(0)
	var departed []*inst
	for step := 0; step <= p.events; step++ {
		T := int64(startSec + step)
		// ---- T + 1/4: queries on the current content
		r.sleepUntil(time.Duration(T)*time.Second + 250*time.Millisecond)
		now := time.Now()
		var lbs []int
		elapsed := int(T - startSec)
		cand := []int{1, 2, 3, elapsed, elapsed + 1, int(T) - 2, int(T) - 1, int(T) + 5}
		for _, i := range rnd.Perm(len(cand))[:2] {
			if cand[i] >= 1 {
				lbs = append(lbs, cand[i])
			}
		}
		sort.Ints(lbs)
		query(1, 0, c1, now, tenants, lbs)
		// a second client, built independently from the same content, asked after unrelated queries
		c2, stop, err := abs.NewRing(w.desc(r.epoch), ringCfg(p.za, true))
		if err != nil {
			r.fatal = "NewRing(2): " + err.Error()
			return
		}
		for _, tn := range []string{"unrelated-1", "unrelated-2"} {
			_ = c2.ShuffleShard(tn, 1+rnd.Intn(3))
			_ = c2.ShuffleShardWithLookback(tn, 2, time.Duration(1+rnd.Intn(5))*time.Second, now)
		}
		query(2, 0, c2, now, tenants[:1+rnd.Intn(len(tenants))], lbs[:1])
		stop()
		if step == p.events {
			break
		}
		// ---- T + 1/2: one change, stamped T
		r.sleepUntil(time.Duration(T)*time.Second + 500*time.Millisecond)
		stampAbs := time.Now().Unix()
		changed := false
		pushOnly := false
		change := func() {
			ids := w.ids()
			switch k := rnd.Intn(10); {
			case k < 3: // join
				// an instance that left earlier registers again under its identifier, with its tokens and zone
				if len(departed) > 0 && rnd.Intn(3) == 0 {
					in := departed[len(departed)-1]
					used := w.usedTokens()
					clash := false
					for _, t := range in.tokens {
						clash = clash || used[t]
					}
					departed = departed[:len(departed)-1]
					if !clash {
						in.reg, in.ro, in.rots, in.state = stampAbs, false, 0, randState(rnd)
						w.insts[in.id] = in
						changed = true
						r.rejoin++
						return
					}
				}
				z := 0
				zs := w.zones()
				if len(zs) < 4 && rnd.Intn(6) == 0 {
					z = zs[len(zs)-1] + 1 // a new zone appears
				} else {
					z = zs[rnd.Intn(len(zs))]
				}
				ntok := p.tokens
				if rnd.Intn(4) == 0 {
					ntok = 1 + rnd.Intn(p.tokens)
				}
				in := &inst{id: w.nextID, zone: z, tokens: freshTokens(rnd, ntok, w.usedTokens(), p.tight), reg: stampAbs, state: randState(rnd)}
				w.nextID++
				w.insts[in.id] = in
				changed = true
			case k < 5: // leave
				if len(ids) > 1 {
					x := ids[rnd.Intn(len(ids))]
					departed = append(departed, w.insts[x])
					delete(w.insts, x)
					changed = true
				}
			case k < 9: // read-only toggle; half of the time of an instance that is read-only now (back to read-write)
				in := w.insts[ids[rnd.Intn(len(ids))]]
				if rnd.Intn(2) == 0 {
					for _, id := range ids {
						if w.insts[id].ro {
							in = w.insts[id]
							break
						}
					}
				}
				in.ro = !in.ro
				in.rots = stampAbs
				changed = true
				r.readonly++
			default: // the content of the specification's view stays: only a state and the heartbeats change
				w.insts[ids[rnd.Intn(len(ids))]].state = randState(rnd)
				pushOnly = true
			}
		}
		change()
		if changed && rnd.Intn(5) == 0 { // two changes in the same second, one ring version
			change()
			r.multi++
		}
		if pushOnly && !changed {
			// no new version for the specification: the watching client takes the "only states and timestamps
			// changed" path and keeps its cached subrings; every later answer must equal the earlier ones
			store.Push(w.desc(time.Now()))
			synctest.Wait()
			r.stateOnly++
		}
		if changed {
			lastChange = T
			store.Push(w.desc(time.Now()))
			synctest.Wait()
			emitRing(T)
			// the same client again in the very second of the change (the wall clock the plain
			// ShuffleShard reads is now = stamp of the change): same content => same answers as at any later time
			query(1, 1, c1, time.Now(), tenants, lbs[:1])
		}
	}
	_ = lastChange
}

// ---------------------------------------------------------------------------------------------
// partition-ring histories

type part struct {
	id     int
	tokens []uint32
	st     ring.PartitionState
	sts    int64
}

type partPlan struct {
	n, tokens int // tokens = 0: the ring's own token generator
	tight     bool
	events    int
	tenants   int
}

func stName(s ring.PartitionState) string {
	switch s {
	case ring.PartitionPending:
		return "pending"
	case ring.PartitionActive:
		return "active"
	case ring.PartitionInactive:
		return "inactive"
	}
	return "unknown"
}

func partDesc(ps map[int]*part) ring.PartitionRingDesc {
	d := ring.NewPartitionRingDesc()
	for id, p := range ps {
		if p.tokens == nil {
			d.AddPartition(int32(id), p.st, time.Unix(p.sts, 0))
			p.tokens = append([]uint32(nil), d.Partitions[int32(id)].Tokens...)
			continue
		}
		d.Partitions[int32(id)] = ring.PartitionDesc{Id: int32(id), Tokens: append([]uint32(nil), p.tokens...), State: p.st, StateTimestamp: p.sts}
	}
	return *d
}

func (r *recorder) partHistory(p partPlan) {
	rnd := r.rnd
	r.epoch = time.Now()
	abssec := func(s int64) int64 { return r.epoch.Unix() + s }
	ps := map[int]*part{}
	used := map[uint32]bool{}
	next := 1
	newPart := func(st ring.PartitionState, sts int64) *part {
		q := &part{id: next, st: st, sts: sts}
		if p.tokens > 0 {
			q.tokens = freshTokens(rnd, p.tokens, used, p.tight)
		}
		next++
		ps[q.id] = q
		return q
	}
	for i := 0; i < p.n; i++ {
		st := ring.PartitionActive
		switch rnd.Intn(6) {
		case 0:
			st = ring.PartitionPending
		case 1:
			st = ring.PartitionInactive
		}
		newPart(st, abssec(1))
	}
	pids := func() []int {
		out := make([]int, 0, len(ps))
		for id := range ps {
			out = append(out, id)
		}
		sort.Ints(out)
		return out
	}
	tenants := pickTenants(rnd, p.tenants)
	f := false
	r.emit(event{E: "reset", Kind: "part", ZA: &f})
	emitRing := func(stamp int64) {
		var mem []evMember
		for _, id := range pids() {
			s := stName(ps[id].st)
			mem = append(mem, evMember{ID: id, St: &s})
		}
		r.emit(event{E: "ring", T: &stamp, Mem: mem})
		r.versions++
		if r.cw != nil {
			cr := concRing{Line: r.w.N, Kind: "part", Stamp: stamp, EpochUnix: r.epoch.Unix()}
			for _, id := range pids() {
				q := ps[id]
				cr.Members = append(cr.Members, concMember{ID: id, Tokens: q.tokens, State: stName(q.st), Sts: q.sts})
			}
			_ = r.cw.Write(cr)
		}
	}

	query := func(client, late int, pr *ring.PartitionRing, now time.Time, tenants []string, lookbacks []int) {
		nowSec := r.sec(now)
		ev := event{E: "q", Now: &nowSec, Client: client, Late: late}
		sizes := sizesFor(len(ps), 1, 0, rnd)
		toInts := func(x []int32) []int {
			out := make([]int, len(x))
			for i, v := range x {
				out[i] = int(v)
			}
			sort.Ints(out)
			return out
		}
		for _, tn := range tenants {
			plain := map[int]int{}
			for _, size := range sizes {
				func() {
					defer func() {
						if x := recover(); x != nil {
							r.res.Mismatch(abs.Mismatch{Sig: "part:panic ShuffleShard", Case: map[string]any{"tenant": tn, "size": size}, Got: fmt.Sprint(x), Want: "no panic"})
						}
					}()
					sub, err := pr.ShuffleShard(tn, codeSize(size))
					if err != nil {
						r.res.Mismatch(abs.Mismatch{Sig: "part:error ShuffleShard", Case: map[string]any{"tenant": tn, "size": size}, Got: err.Error(), Want: "a subring"})
						return
					}
					m := toInts(sub.PartitionIDs())
					if want := pr.ShuffleShardSize(codeSize(size)); want != len(m) {
						r.res.Mismatch(abs.Mismatch{Sig: "part:ShuffleShardSize disagrees with ShuffleShard", Case: map[string]any{"tenant": tn, "size": size}, Got: len(m), Want: want})
					}
					ev.Shards = append(ev.Shards, evShard{ID: tn, Size: size, S: m})
					plain[size] = len(m)
					r.nq++
				}()
			}
			for _, L := range lookbacks {
				for _, size := range sizes {
					if len(sizes) > 8 && rnd.Intn(2) == 0 {
						continue
					}
					func() {
						defer func() {
							if x := recover(); x != nil {
								r.res.Mismatch(abs.Mismatch{Sig: "part:panic ShuffleShardWithLookback", Case: map[string]any{"tenant": tn, "size": size, "L": L}, Got: fmt.Sprint(x), Want: "no panic"})
							}
						}()
						sub, err := pr.ShuffleShardWithLookback(tn, codeSize(size), time.Duration(L)*time.Second, now)
						if err != nil {
							r.res.Mismatch(abs.Mismatch{Sig: "part:error ShuffleShardWithLookback", Case: map[string]any{"tenant": tn, "size": size, "L": L}, Got: err.Error(), Want: "a subring"})
							return
						}
						m := toInts(sub.PartitionIDs())
						ev.Lookbacks = append(ev.Lookbacks, evLookback{ID: tn, Size: size, L: L, S: m})
						if n, ok := plain[size]; ok && len(m) > n {
							r.extended++
						}
						r.nq++
					}()
				}
			}
		}
		r.corruptMaybe(&ev)
		r.emit(ev)
		if client != 1 || late != 0 || len(lookbacks) == 0 {
			return
		}
		// ---- shards of subrings of this version (SubQuery of ShardHistory.tla)
		type parent struct {
			pr  *ring.PartitionRing
			mem []int
		}
		var parents []parent
		seen := map[string]bool{}
		add := func(sub *ring.PartitionRing, err error) {
			if err != nil || sub == nil {
				return
			}
			m := toInts(sub.PartitionIDs())
			if seen[memKey(m)] {
				return
			}
			seen[memKey(m)] = true
			parents = append(parents, parent{sub, m})
		}
		add(pr.ShuffleShardWithLookback(tenants[0], 2, time.Duration(lookbacks[len(lookbacks)-1])*time.Second, now)) // may hold inactive partitions
		for _, size := range sizes {
			if size > 0 {
				add(pr.ShuffleShard(tenants[0], codeSize(size)))
			}
		}
		maxParents := 4
		if abs.Tier() == "thorough" {
			maxParents = 6
		}
		if len(parents) > maxParents {
			off := 1 + rnd.Intn(len(parents)-maxParents+1)
			parents = append(parents[:1:1], parents[off:off+maxParents-1]...)
		}
		sev := event{E: "sq", Now: &nowSec, Client: client, Late: late}
		fev := event{E: "sq", Now: &nowSec, Client: 3, Late: late}
		tn := tenants[len(tenants)-1]
		for pi, pa := range parents {
			var subSizes []int
			if len(pa.mem) <= 7 {
				for s := 0; s <= len(pa.mem)+1; s++ {
					subSizes = append(subSizes, s)
				}
			} else {
				subSizes = []int{0, 1, 2, len(pa.mem) / 2, len(pa.mem) - 1, len(pa.mem), hugeSize}
			}
			var fresh *ring.PartitionRing
			if pi == len(parents)-1 {
				sel := map[int]*part{}
				for _, id := range pa.mem {
					sel[id] = ps[id]
				}
				fresh, _ = ring.NewPartitionRing(partDesc(sel))
			}
			for _, size := range subSizes {
				func() {
					defer func() {
						if x := recover(); x != nil {
							r.res.Mismatch(abs.Mismatch{Sig: "part:panic ShuffleShard on a subring", Case: map[string]any{"tenant": tn, "size": size, "subring": pa.mem}, Got: fmt.Sprint(x), Want: "no panic"})
						}
					}()
					sub, err := pa.pr.ShuffleShard(tn, codeSize(size))
					if err != nil {
						r.res.Mismatch(abs.Mismatch{Sig: "part:error ShuffleShard on a subring", Case: map[string]any{"tenant": tn, "size": size, "subring": pa.mem}, Got: err.Error(), Want: "a subring"})
						return
					}
					m := toInts(sub.PartitionIDs())
					sev.Subs = append(sev.Subs, evSub{Mem: pa.mem, ID: tn, Size: size, S: m})
					r.subq++
					if len(m) > 0 && len(m) < len(pa.mem) {
						r.subProper++
					}
					if fresh != nil {
						if fs, err := fresh.ShuffleShard(tn, codeSize(size)); err == nil {
							fev.Subs = append(fev.Subs, evSub{Mem: pa.mem, ID: tn, Size: size, S: toInts(fs.PartitionIDs())})
							r.subq++
						}
					}
				}()
			}
		}
		if len(sev.Subs) > 0 {
			r.emit(sev)
		}
		if len(fev.Subs) > 0 {
			r.emit(fev)
		}
	}

	build := func() *ring.PartitionRing {
		pr, err := ring.NewPartitionRing(partDesc(ps))
		if err != nil {
			r.fatal = "NewPartitionRing: " + err.Error()
			return nil
		}
		return pr
	}
	c1 := build()
	if c1 == nil {
		return
	}
	emitRing(0)
	for step := 0; step <= p.events; step++ {
		T := int64(startSec + step)
		r.sleepUntil(time.Duration(T)*time.Second + 250*time.Millisecond)
		now := time.Now()
		elapsed := int(T - startSec)
		cand := []int{1, 2, 3, elapsed, elapsed + 1, int(T) - 2, int(T) - 1, int(T) + 5}
		var lbs []int
		for _, i := range rnd.Perm(len(cand))[:2] {
			if cand[i] >= 1 {
				lbs = append(lbs, cand[i])
			}
		}
		sort.Ints(lbs)
		query(1, 0, c1, now, tenants, lbs)
		c2 := build()
		if c2 == nil {
			return
		}
		for _, tn := range []string{"unrelated-1", "unrelated-2"} {
			_, _ = c2.ShuffleShard(tn, 1+rnd.Intn(3))
			_, _ = c2.ShuffleShardWithLookback(tn, 2, time.Duration(1+rnd.Intn(5))*time.Second, now)
		}
		query(2, 0, c2, now, tenants[:1+rnd.Intn(len(tenants))], lbs[:1])
		if step == p.events {
			break
		}
		r.sleepUntil(time.Duration(T)*time.Second + 500*time.Millisecond)
		stampAbs := time.Now().Unix()
		ids := pids()
		changed := false
		switch k := rnd.Intn(10); {
		case k < 2: // add (pending, sometimes active at once)
			st := ring.PartitionPending
			if rnd.Intn(3) == 0 {
				st = ring.PartitionActive
			}
			newPart(st, stampAbs)
			changed = true
		case k < 4: // remove
			if len(ids) > 1 {
				delete(ps, ids[rnd.Intn(len(ids))])
				changed = true
			}
		case k < 9: // legal state switch
			q := ps[ids[rnd.Intn(len(ids))]]
			switch q.st {
			case ring.PartitionPending:
				q.st = ring.PartitionActive
				if rnd.Intn(5) == 0 {
					q.st = ring.PartitionInactive
				}
			case ring.PartitionActive:
				q.st = ring.PartitionInactive
			case ring.PartitionInactive:
				q.st = ring.PartitionActive
			}
			q.sts = stampAbs
			changed = true
		}
		if changed {
			c1 = build()
			if c1 == nil {
				return
			}
			emitRing(T)
			query(1, 1, c1, time.Now(), tenants[:1], lbs[:1]) // in the very second of the change
		}
	}
}

// corruptMaybe is the validator's self-test: VERIF_CORRUPT=<what> alters one logged answer.
func (r *recorder) corruptMaybe(ev *event) {
	if r.corrupt == "" || r.nq < 40 {
		return
	}
	switch r.corrupt {
	case "drop-member":
		for i := range ev.Shards {
			if len(ev.Shards[i].S) > 0 && ev.Shards[i].Size > 0 {
				ev.Shards[i].S = ev.Shards[i].S[1:]
				r.corrupt = ""
				return
			}
		}
	case "lookback-drop": // drop from a look-back answer a member of the plain shard logged next to it
		for i := range ev.Lookbacks {
			lb := &ev.Lookbacks[i]
			for _, sh := range ev.Shards {
				if sh.ID != lb.ID || sh.Size != lb.Size || len(sh.S) == 0 {
					continue
				}
				var kept []int
				for _, m := range lb.S {
					if m != sh.S[0] {
						kept = append(kept, m)
					}
				}
				if len(kept) < len(lb.S) {
					lb.S = append([]int{}, kept...)
					r.corrupt = ""
					return
				}
			}
		}
	}
}

// ---------------------------------------------------------------------------------------------

func TestRecord(t *testing.T) {
	out := os.Getenv("VERIF_TRACE")
	if out == "" {
		t.Skip("VERIF_TRACE not set")
	}
	res := &abs.Result{}
	w, err := abs.NewNDJSONWriter(out)
	if err != nil {
		t.Fatal(err)
	}
	rnd := rand.New(rand.NewSource(abs.Seed()*7919 + 12))
	rec := &recorder{w: w, res: res, rnd: rnd, corrupt: os.Getenv("VERIF_CORRUPT")}
	if cp := os.Getenv("VERIF_TRACE_CONCRETE"); cp != "" {
		if rec.cw, err = abs.NewNDJSONWriter(cp); err != nil {
			t.Fatal(err)
		}
		defer rec.cw.Close()
	}
	thorough := abs.Tier() == "thorough"
	mode := os.Getenv("VERIF_C12_PART") // "small" | "large" | "" (both)

	var iplans []instPlan
	var pplans []partPlan
	if mode != "large" {
		// small, collision-heavy rings, enumerated systematically: 1..5 instances x 1..3 tokens x zones x za
		reps := 1
		if thorough {
			reps = 4
		}
		for rep := 0; rep < reps; rep++ {
			// zone-awareness on: every way of spreading n <= 6 instances over <= 3 zones (balanced and
			// unbalanced populations), every size up to 2n + zones (far beyond the ring and beyond
			// what any single zone can supply)
			k := 0
			for n := 1; n <= 6; n++ {
				for a := n; a >= 1; a-- {
					for b := min(a, n-a); b >= 0; b-- {
						c := n - a - b
						if c > b || (b == 0 && c > 0) {
							continue
						}
						var zs []int
						for _, x := range []int{a, b, c} {
							if x > 0 {
								zs = append(zs, x)
							}
						}
						k++
						if (k+rep)%2 == 0 { // largest zone first or last
							for i, j := 0, len(zs)-1; i < j; i, j = i+1, j-1 {
								zs[i], zs[j] = zs[j], zs[i]
							}
						}
						ev := 4
						if n >= 5 {
							ev = 3
						}
						iplans = append(iplans, instPlan{n: n, tokens: 1 + (k+rep)%3, zones: len(zs), zoneSizes: zs, za: true, oversize: true,
							tight: (k+rep)%2 == 0, events: ev, tenants: 2, roAtStart: (k + rep) % 3})
					}
				}
			}
			for n := 1; n <= 5; n++ {
				for tok := 1; tok <= 3; tok++ {
					if (n+tok+rep)%3 == 0 {
						continue // two of the three token counts per n and repetition
					}
					iplans = append(iplans, instPlan{n: n, tokens: tok, zones: 1 + (n+rep)%2, za: false, tight: (n+tok+rep)%2 == 1,
						events: 4, tenants: 3, roAtStart: (n + tok + rep + 1) % 3})
					pplans = append(pplans, partPlan{n: n, tokens: tok, tight: (n+tok+rep)%2 == 0, events: 5, tenants: 3})
				}
			}
		}
	}
	if mode != "small" {
		nl, np := 6, 3
		if thorough {
			nl, np = 60, 30
		}
		for i := 0; i < nl; i++ {
			n := 6 + rnd.Intn(35)
			zones := 1 + rnd.Intn(4)
			tok := []int{1, 2, 4, 16, 64, 128}[rnd.Intn(6)]
			iplans = append(iplans, instPlan{n: n, tokens: tok, zones: zones, za: rnd.Intn(4) > 0, tight: rnd.Intn(3) == 0,
				events: 4 + rnd.Intn(3), tenants: 2, roAtStart: rnd.Intn(n/3 + 1)})
		}
		for i := 0; i < np; i++ {
			tok := 0
			if rnd.Intn(2) == 0 {
				tok = []int{1, 2, 8, 64}[rnd.Intn(4)]
			}
			pplans = append(pplans, partPlan{n: 6 + rnd.Intn(25), tokens: tok, tight: rnd.Intn(3) == 0, events: 4 + rnd.Intn(3), tenants: 2})
		}
	}

	for i, p := range iplans {
		p := p
		synctest.Test(t, func(t *testing.T) { rec.instHistory(p) })
		res.Cases++
		if rec.fatal != "" {
			break
		}
		if i%17 == 0 {
			res.Sample(map[string]any{"kind": "inst", "plan": fmt.Sprintf("%+v", p)})
		}
	}
	for i, p := range pplans {
		p := p
		if rec.fatal != "" {
			break
		}
		synctest.Test(t, func(t *testing.T) { rec.partHistory(p) })
		res.Cases++
		if i%11 == 0 {
			res.Sample(map[string]any{"kind": "part", "plan": fmt.Sprintf("%+v", p)})
		}
	}
	if err := w.Close(); err != nil && rec.fatal == "" {
		rec.fatal = err.Error()
	}
	res.Fatal = rec.fatal
	res.Nontrivial = rec.extended
	res.AddExtra("c12_queries", rec.nq)
	res.AddExtra("c12_ring_versions", rec.versions)
	res.AddExtra("c12_lookback_answers_larger_than_shard", rec.extended)
	res.AddExtra("c12_subring_answers", rec.subq)
	res.AddExtra("c12_subring_proper_nonempty_shards", rec.subProper)
	res.AddExtra("c12_versions_with_two_changes", rec.multi)
	res.AddExtra("c12_reregistrations", rec.rejoin)
	res.AddExtra("c12_state_only_updates", rec.stateOnly)
	res.AddExtra("c12_trace_events", w.N)
	res.Write(t)
}
