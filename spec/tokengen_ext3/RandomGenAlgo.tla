---------------------------- MODULE RandomGenAlgo ----------------------------
(***************************************************************************)
(* C16 - RandomTokenGenerator.GenerateTokens (ring/token_generator.go) as  *)
(* the algorithm it is: rejection sampling against `used` (= the taken     *)
(* tokens plus every candidate accepted so far), then a sort.  The random  *)
(* source is modelled as an arbitrary choice of the next candidate, so TLC *)
(* covers every draw sequence, every taken set and every requested count   *)
(* of a DENSE small token space - the part of C16's quantifier that cannot *)
(* be reached on the real 2^32 space.  What is decided here:               *)
(*  - when the call returns, its result satisfies the clauses of the       *)
(*    TokenGenerator contract of TokenGen.tla (Returned);                  *)
(*  - it returns (under fair drawing) iff enough free tokens exist         *)
(*    (Terminates / OnlyWithEnoughFree): with fewer free tokens than       *)
(*    requested the loop never ends - on the real space that needs 2^32    *)
(*    taken tokens and is stated as an environment assumption.             *)
(* Tokens are limb pairs as in TokenGen.tla.                               *)
(***************************************************************************)
EXTENDS Integers, Sequences, FiniteSets, TLC

CONSTANTS HiCard, LoCard, MaxReq

Tok      == (0..(HiCard-1)) \X (0..(LoCard-1))
Lt(a, b) == a[1] < b[1] \/ (a[1] = b[1] /\ a[2] < b[2])
Range(s) == {s[k] : k \in DOMAIN s}
Sorted(s) == \A k \in 1..(Len(s)-1) : Lt(s[k], s[k+1])
Want(r)  == IF r > 0 THEN r ELSE 0

VARIABLES req, taken,   \* arguments
          used,         \* map[uint32]bool of the code
          tokens,       \* accepted candidates in draw order
          pc,           \* "loop" | "sort" | "done"
          out           \* the returned slice

vars == <<req, taken, used, tokens, pc, out>>

EnoughFree == Cardinality(Tok \ taken) >= Want(req)

Init == /\ req \in (-1)..MaxReq
        /\ taken \in SUBSET Tok
        /\ used = taken
        /\ tokens = <<>>
        /\ out = <<>>
        /\ pc = IF req <= 0 THEN "done" ELSE "loop"       \* if requestedTokensCount <= 0 { return []uint32{} }

(* one iteration of `for i := 0; i < requestedTokensCount; {...}` with candidate c *)
Draw(c) == /\ pc = "loop" /\ Len(tokens) < req
           /\ IF c \in used
              THEN UNCHANGED <<used, tokens>>                         \* continue
              ELSE /\ used' = used \cup {c}                            \* used[candidate] = true
                   /\ tokens' = Append(tokens, c)
           /\ UNCHANGED <<req, taken, pc, out>>

LoopExit == /\ pc = "loop" /\ Len(tokens) = req
            /\ pc' = "sort"
            /\ UNCHANGED <<req, taken, used, tokens, out>>

RECURSIVE SortSet(_)
SortSet(S) == IF S = {} THEN <<>>
              ELSE LET m == CHOOSE x \in S : \A y \in S : x = y \/ Lt(x, y)
                   IN  <<m>> \o SortSet(S \ {m})
(* sort.Slice: a permutation of tokens in non-decreasing order *)
SortStep == /\ pc = "sort"
            /\ \E p \in [1..Len(tokens) -> 1..Len(tokens)] :
                  /\ \A a, b \in 1..Len(tokens) : a # b => p[a] # p[b]
                  /\ \A k \in 1..(Len(tokens)-1) : ~Lt(tokens[p[k+1]], tokens[p[k]])
                  /\ out' = [k \in 1..Len(tokens) |-> tokens[p[k]]]
            /\ pc' = "done"
            /\ UNCHANGED <<req, taken, used, tokens>>

Done == pc = "done" /\ UNCHANGED vars

Next == (\E c \in Tok : Draw(c)) \/ LoopExit \/ SortStep \/ Done

Fair == \A c \in Tok : SF_vars(Draw(c) /\ c \notin used)
Spec == Init /\ [][Next]_vars /\ Fair /\ WF_vars(LoopExit) /\ WF_vars(SortStep)

-----------------------------------------------------------------------------
TypeOK == /\ used \subseteq Tok /\ taken \subseteq used
          /\ pc \in {"loop", "sort", "done"}

(* loop invariant: used = taken + accepted candidates, all accepted candidates distinct and free *)
LoopInv == /\ used = taken \cup Range(tokens)
           /\ Range(tokens) \cap taken = {}
           /\ Cardinality(Range(tokens)) = Len(tokens)
           /\ Len(tokens) <= Want(req)

(* the contract, when the call returns *)
Returned == pc = "done" =>
              /\ Range(out) \cap taken = {}          \* C_NoTaken
              /\ Sorted(out)                         \* C_SortedUnique (strict: no duplicate)
              /\ Len(out) = Want(req)                \* C_AtMost, C_RandomCount
              /\ out = SortSet(Range(out))

OnlyWithEnoughFree == pc = "done" => EnoughFree
Terminates == EnoughFree => <>(pc = "done")
=============================================================================
