--------------------------- MODULE GossipKVTrace ---------------------------
(***************************************************************************)
(* Validation of traces recorded from real detached memberlist.KV nodes    *)
(* (harness/c06 TestRecord: a seeded adversarial scheduler chooses the     *)
(* steps, the code produces the outcomes) against GossipKV.tla.  One       *)
(* event per specification action; the event carries the action's          *)
(* arguments as the harness chose them and the projection of every real    *)
(* node after the step.  The trace is accepted iff every event is an       *)
(* enabled step of the specification whose post-state projects to exactly  *)
(* the logged observation.  Several traces are concatenated with "Reset".  *)
(***************************************************************************)
EXTENDS GossipKV, TLCExt

TraceLog == ndJsonDeserialize("trace.ndjson")

VARIABLE idx
tvars == <<vars, idx>>

SeqToSet(s) == {s[k] : k \in DOMAIN s}
Last == hist'[Len(hist')]

PostOK(e) ==
  /\ Last.post.clock = e.clock
  /\ \A n \in Node :
       LET a == Last.post.nodes[n]
           b == e.post[n]
       IN /\ a.val = b.val /\ a.ver = b.ver /\ a.read = b.read
          /\ a.ql = b.ql /\ a.qg = b.qg
          /\ a.called = b.called /\ a.last = b.last /\ a.held = b.held
          /\ (b.pcalls > 0) = (a.ver > 0)                \* the un-gated prefix watcher ...
          /\ a.ver > 0 => b.plast = a.read              \* ... has seen exactly what readers see
          /\ b.bad = ""                                  \* well-formed content (tokens, ids)

ResetAll ==
  /\ clock' = 0
  /\ store'  = [n \in Node |-> [val |-> Empty, ver |-> 0]]
  /\ queueL' = [n \in Node |-> {}]
  /\ queueG' = [n \in Node |-> {}]
  /\ watch'  = [n \in Node |-> W0]
  /\ sent' = {} /\ cut' = {} /\ ncas' = 0 /\ nfault' = 0
  /\ phase' = "run" /\ qidx' = 1
  /\ inval' = {} /\ fwd' = {} /\ written' = {}
  /\ hist' = <<>>

TInit == Init /\ idx = 1

TNext ==
  /\ idx <= Len(TraceLog)
  /\ idx' = idx + 1
  /\ LET e == TraceLog[idx] IN
       CASE e.a = "Reset"    -> ResetAll
         [] e.a = "Tick"     -> Tick /\ PostOK(e)
         [] e.a = "Cas"      -> Cas(e.n, [op |-> e.f.op, i |-> e.f.i, s |-> e.f.s]) /\ Last.res = e.res /\ PostOK(e)
         [] e.a = "Gossip"   -> Gossip(e.n) /\ Last.out = SeqToSet(e.out) /\ PostOK(e)
         [] e.a = "Deliver"  -> Deliver(e.p, e.n, FALSE) /\ PostOK(e)
         [] e.a = "Garbage"  -> DeliverGarbage(e.p, e.n, e.k) /\ PostOK(e)
         [] e.a = "PushPull" -> PushPull(e.n, e.m, e.k = "junk") /\ PostOK(e)
         [] e.a = "Arm"      -> WatcherArm(e.n) /\ PostOK(e)
         [] e.a = "Release"  -> WatcherRelease(e.n) /\ PostOK(e)
         [] e.a = "Restart"  -> Restart(e.n) /\ PostOK(e)

TSpec == TInit /\ [][TNext]_tvars

(* acceptance: the (single) behaviour is as long as the trace *)
TraceAccepted ==
  LET d == TLCGet("stats").diameter IN
  IF d - 1 = Len(TraceLog) THEN TRUE
  ELSE Print(<<"TRACE-REJECTED-AT-LINE", d>>, FALSE)
=============================================================================
